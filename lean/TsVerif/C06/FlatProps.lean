import TsVerif.C06.NavVariants
/-!
C06: from the list semantics to the preorder-array encoding `FT` the judge uses.

Part A (`number_spec`, `flatOf_spec`): the array `flatOf t` is the list `pre t none 0 0` — each node
followed by its subtrees, `kids` = the start indices of the subtrees, `size` = number of nodes.
Part B (`GoodAt`, `good_pre`, `flatOf_good`): every node of `t` sits at its preorder index with the
right record, hereditarily.
Part C: the `FT` operations at such an index are the list operations on the `VTree`
(`ft_kidsOf`, `ft_child_good`, `ft_parent_of_child`, `ft_nextSibling_child`, `ft_prevSibling_child`,
`ft_firstChildForByte`).
Part D: `flatten` is hereditarily the enumeration of visible children (`flatten_hered`), so the node.c
theorems (`node_nav_flat_spec`: parent / next / previous sibling as neighbours in
`earlierOnPath ++ d :: laterOnPath`) become statements about `FT` (`nav_ft_spec`).
-/
open TsVerif TsVerif.C02 TsGen
namespace TsVerif.C06

mutual
  def vsize : VTree → Nat
    | .mk _ kids => 1 + vsizeL kids
  def vsizeL : List VTree → Nat
    | [] => 0
    | k :: r => vsize k + vsizeL r
end

/-- Preorder indices of consecutive subtrees starting at `i`. -/
def kidIdxFrom (i : Nat) : List VTree → List Nat
  | [] => []
  | k :: r => i :: kidIdxFrom (i + vsize k) r

mutual
  /-- What `number` appends for `t` when the array already has `base` entries. -/
  def pre : VTree → Option Nat → Nat → Nat → List Flat
    | .mk info kids, parent, depth, base =>
      { info := info, parent := parent, depth := depth, kids := (kidIdxFrom (base + 1) kids).toArray, size := 1 + vsizeL kids } ::
        preL kids base (depth + 1) (base + 1)
  def preL : List VTree → Nat → Nat → Nat → List Flat
    | [], _, _, _ => []
    | k :: r, parent, depth, i => pre k (some parent) depth i ++ preL r parent depth (i + vsize k)
end

mutual
  theorem pre_length : ∀ (t : VTree) (parent : Option Nat) (depth base : Nat), (pre t parent depth base).length = vsize t
    | .mk info kids, parent, depth, base => by
      unfold pre vsize
      simp only [List.length_cons, preL_length kids base (depth + 1) (base + 1)]
      omega
  theorem preL_length : ∀ (kids : List VTree) (parent depth i : Nat), (preL kids parent depth i).length = vsizeL kids
    | [], _, _, _ => by simp [preL, vsizeL]
    | k :: r, parent, depth, i => by
      unfold preL vsizeL
      simp [pre_length k, preL_length r]
end

theorem modify_append_mid {α : Type} (A B : List α) (x : α) (f : α → α) : (A ++ x :: B).modify A.length f = A ++ f x :: B := by
  induction A with
  | nil => simp
  | cons a A ih => simp [ih]

mutual
  theorem number_spec : ∀ (t : VTree) (parent : Option Nat) (depth : Nat) (acc : Array Flat),
      (number t parent depth acc).1.toList = acc.toList ++ pre t parent depth acc.size ∧ (number t parent depth acc).2 = acc.size
    | .mk info kids, parent, depth, acc => by
      unfold number
      simp only
      have ih := numberKids_spec kids acc.size (depth + 1) (acc.push { info := info, parent := parent, depth := depth }) #[]
      cases hnk : numberKids kids acc.size (depth + 1) (acc.push { info := info, parent := parent, depth := depth }) #[] with
      | mk acc2 ks =>
        rw [hnk] at ih
        simp only at ih ⊢
        refine ⟨?_, trivial⟩
        rw [Array.toList_modify, ih.1, Array.toList_push, Array.size_push]
        have hsz : acc2.size = acc.size + 1 + vsizeL kids := by
          have := congrArg List.length ih.1
          simp only [Array.length_toList, Array.toList_push, List.length_append, List.length_cons, List.length_nil,
            preL_length, Array.size_push] at this
          omega
        rw [List.append_assoc]
        simp only [List.singleton_append]
        rw [← Array.length_toList (xs := acc), modify_append_mid]
        simp only [Array.length_toList]
        unfold pre
        simp only [List.cons.injEq, List.append_cancel_left_eq, and_true]
        have hks : ks = (kidIdxFrom (acc.size + 1) kids).toArray := by
          have := ih.2
          simp only [Array.size_push, Array.toList_empty, List.nil_append] at this
          exact Array.toList_inj.mp (by simpa using this)
        rw [hks, hsz]
        congr 1
        omega
  theorem numberKids_spec : ∀ (kids : List VTree) (parent depth : Nat) (acc : Array Flat) (ks : Array Nat),
      (numberKids kids parent depth acc ks).1.toList = acc.toList ++ preL kids parent depth acc.size ∧
      (numberKids kids parent depth acc ks).2.toList = ks.toList ++ kidIdxFrom acc.size kids
    | [], _, _, acc, ks => by simp [numberKids, preL, kidIdxFrom]
    | k :: rest, parent, depth, acc, ks => by
      unfold numberKids
      have ih1 := number_spec k (some parent) depth acc
      cases hn : number k (some parent) depth acc with
      | mk acc1 idx =>
        rw [hn] at ih1
        simp only at ih1 ⊢
        have ih2 := numberKids_spec rest parent depth acc1 (ks.push idx)
        have hsz : acc1.size = acc.size + vsize k := by
          have := congrArg List.length ih1.1
          simp only [Array.length_toList, List.length_append, pre_length] at this
          exact this
        rw [ih2.1, ih2.2, ih1.1, hsz, ih1.2]
        have e1 : preL (k :: rest) parent depth acc.size =
            pre k (some parent) depth acc.size ++ preL rest parent depth (acc.size + vsize k) := by rw [preL]
        have e2 : kidIdxFrom acc.size (k :: rest) = acc.size :: kidIdxFrom (acc.size + vsize k) rest := by rw [kidIdxFrom]
        rw [e1, e2]
        simp [List.append_assoc]
end

theorem flatOf_spec (t : VTree) : (flatOf t).toList = pre t none 0 0 := by
  have := (number_spec t none 0 #[]).1
  simpa [flatOf] using this


/-! ## Part B: every node sits at its preorder index -/

mutual
  /-- `v` is stored at index `k` of `L` (with the given parent and depth), and so are, hereditarily,
  its children at the indices `kidIdxFrom (k + 1)`. -/
  def GoodAt (L : List Flat) : VTree → Nat → Option Nat → Nat → Prop
    | .mk info kids, k, parent, depth =>
      L[k]? = some { info := info, parent := parent, depth := depth, kids := (kidIdxFrom (k + 1) kids).toArray, size := 1 + vsizeL kids } ∧
      GoodL L kids (k + 1) k (depth + 1)
  def GoodL (L : List Flat) : List VTree → Nat → Nat → Nat → Prop
    | [], _, _, _ => True
    | v :: r, i, p, depth => GoodAt L v i (some p) depth ∧ GoodL L r (i + vsize v) p depth
end

mutual
  theorem good_pre : ∀ (t : VTree) (parent : Option Nat) (depth : Nat) (A B : List Flat),
      GoodAt (A ++ pre t parent depth A.length ++ B) t A.length parent depth
    | .mk info kids, parent, depth, A, B => by
      unfold GoodAt pre
      refine ⟨by simp, ?_⟩
      have := good_preL kids A.length (depth + 1)
        (A ++ [{ info := info, parent := parent, depth := depth, kids := (kidIdxFrom (A.length + 1) kids).toArray, size := 1 + vsizeL kids }]) B
      simpa [List.append_assoc] using this
  theorem good_preL : ∀ (kids : List VTree) (parent depth : Nat) (A B : List Flat),
      GoodL (A ++ preL kids parent depth A.length ++ B) kids A.length parent depth
    | [], _, _, _, _ => by unfold GoodL; trivial
    | v :: r, parent, depth, A, B => by
      unfold GoodL preL
      refine ⟨?_, ?_⟩
      · have := good_pre v (some parent) depth A (preL r parent depth (A.length + vsize v) ++ B)
        simpa [List.append_assoc] using this
      · have := good_preL r parent depth (A ++ pre v (some parent) depth A.length) B
        simpa [List.append_assoc, pre_length] using this
end

theorem flatOf_good (t : VTree) : GoodAt (flatOf t).toList t 0 none 0 := by
  have := good_pre t none 0 [] []
  simpa [flatOf_spec] using this

/-! ## Part C: the `FT` operations at a good index -/

theorem ft_node_of (ft : FT) (k : Nat) (f : Flat) (h : ft.toList[k]? = some f) : ft.node k = f := by
  simp only [FT.node, Array.getD_eq_getD_getElem?]
  rw [← Array.getElem?_toList, h]
  rfl

theorem good_node (ft : FT) (info : VInfo) (kids : List VTree) (k : Nat) (parent : Option Nat) (depth : Nat)
    (h : GoodAt ft.toList (.mk info kids) k parent depth) :
    ft.node k = { info := info, parent := parent, depth := depth, kids := (kidIdxFrom (k + 1) kids).toArray, size := 1 + vsizeL kids } := by
  unfold GoodAt at h
  exact ft_node_of ft k _ h.1

/-- The children list of a good node: the start indices of its subtrees. -/
theorem ft_kidsOf (ft : FT) (info : VInfo) (kids : List VTree) (k : Nat) (parent : Option Nat) (depth : Nat)
    (h : GoodAt ft.toList (.mk info kids) k parent depth) : ft.kidsOf k = kidIdxFrom (k + 1) kids := by
  simp [FT.kidsOf, good_node ft info kids k parent depth h]

theorem kidIdxFrom_length : ∀ (kids : List VTree) (i : Nat), (kidIdxFrom i kids).length = kids.length
  | [], _ => rfl
  | k :: r, i => by simp [kidIdxFrom, kidIdxFrom_length r]

/-- The `j`-th child is good at the `j`-th index. -/
theorem goodL_get (L : List Flat) : ∀ (kids : List VTree) (i p depth j : Nat) (v : VTree), GoodL L kids i p depth →
    kids[j]? = some v → ∃ kj, (kidIdxFrom i kids)[j]? = some kj ∧ GoodAt L v kj (some p) depth
  | [], _, _, _, _, _, _, h => by simp at h
  | c :: r, i, p, depth, j, v, hg, h => by
    unfold GoodL at hg
    cases j with
    | zero =>
      simp only [List.getElem?_cons_zero, Option.some.injEq] at h
      subst h
      exact ⟨i, by simp [kidIdxFrom], hg.1⟩
    | succ j' =>
      simp only [List.getElem?_cons_succ] at h
      obtain ⟨kj, h1, h2⟩ := goodL_get L r _ p depth j' v hg.2 h
      exact ⟨kj, by simpa [kidIdxFrom] using h1, h2⟩

theorem vsize_pos : ∀ v : VTree, vsize v ≥ 1
  | .mk _ _ => by unfold vsize; omega

/-- The indices are strictly increasing. -/
theorem kidIdxFrom_lt : ∀ (kids : List VTree) (i a b x y : Nat), a < b → (kidIdxFrom i kids)[a]? = some x →
    (kidIdxFrom i kids)[b]? = some y → x < y ∧ i ≤ x
  | [], _, _, _, _, _, _, h, _ => by simp [kidIdxFrom] at h
  | c :: r, i, a, b, x, y, hab, ha, hb => by
    unfold kidIdxFrom at ha hb
    cases b with
    | zero => omega
    | succ b' =>
      simp only [List.getElem?_cons_succ] at hb
      cases a with
      | zero =>
        simp only [List.getElem?_cons_zero, Option.some.injEq] at ha
        subst ha
        have hpos := vsize_pos c
        cases b' with
        | zero =>
          cases r with
          | nil => simp [kidIdxFrom] at hb
          | cons c2 r2 => simp [kidIdxFrom] at hb; omega
        | succ b'' =>
          cases r with
          | nil => simp [kidIdxFrom] at hb
          | cons c2 r2 =>
            have h0 : (kidIdxFrom (i + vsize c) (c2 :: r2))[0]? = some (i + vsize c) := by simp [kidIdxFrom]
            have := kidIdxFrom_lt (c2 :: r2) (i + vsize c) 0 (b'' + 1) _ y (by omega) h0 hb
            omega
      | succ a' =>
        simp only [List.getElem?_cons_succ] at ha
        have := kidIdxFrom_lt r (i + vsize c) a' b' x y (by omega) ha hb
        omega

theorem dropWhile_ne_of_increasing (K : List Nat) (j x : Nat) (hx : K[j]? = some x)
    (hinc : ∀ (a b u v : Nat), a < b → K[a]? = some u → K[b]? = some v → u < v) :
    K.dropWhile (· != x) = K.drop j := by
  induction K generalizing j with
  | nil => simp at hx
  | cons y K ih =>
    cases j with
    | zero =>
      simp only [List.getElem?_cons_zero, Option.some.injEq] at hx
      subst hx
      simp [List.dropWhile]
    | succ j' =>
      simp only [List.getElem?_cons_succ] at hx
      have hlt := hinc 0 (j' + 1) y x (by omega) (by simp) (by simpa using hx)
      have hne : (y != x) = true := by simp; omega
      simp only [List.dropWhile, hne, List.drop_succ_cons]
      exact ih j' hx (fun a b u v hab hu hv => hinc (a + 1) (b + 1) u v (by omega) (by simpa using hu) (by simpa using hv))

theorem takeWhile_ne_of_increasing (K : List Nat) (j x : Nat) (hx : K[j]? = some x)
    (hinc : ∀ (a b u v : Nat), a < b → K[a]? = some u → K[b]? = some v → u < v) :
    K.takeWhile (· != x) = K.take j := by
  induction K generalizing j with
  | nil => simp at hx
  | cons y K ih =>
    cases j with
    | zero =>
      simp only [List.getElem?_cons_zero, Option.some.injEq] at hx
      subst hx
      simp [List.takeWhile]
    | succ j' =>
      simp only [List.getElem?_cons_succ] at hx
      have hlt := hinc 0 (j' + 1) y x (by omega) (by simp) (by simpa using hx)
      have hne : (y != x) = true := by simp; omega
      simp only [List.takeWhile, hne, List.take_succ_cons]
      congr 1
      exact ih j' hx (fun a b u v hab hu hv => hinc (a + 1) (b + 1) u v (by omega) (by simpa using hu) (by simpa using hv))

theorem find_true_head {α : Type} (l : List α) : (l.find? fun _ => true) = l.head? := by
  cases l <;> simp

/-- **ft_child_spec.**  Child number `j` of a good node sits at `kj = kidsOf[j]`, is good there, has
the node as its parent, and its next / previous siblings in `FT` are `kidsOf[j+1]` / `kidsOf[j-1]`. -/
theorem ft_child_spec (ft : FT) (info : VInfo) (kids : List VTree) (k : Nat) (parent : Option Nat) (depth j : Nat) (v : VTree)
    (h : GoodAt ft.toList (.mk info kids) k parent depth) (hj : kids[j]? = some v) :
    ∃ kj, (ft.kidsOf k)[j]? = some kj ∧ GoodAt ft.toList v kj (some k) (depth + 1) ∧ (ft.node kj).parent = some k ∧
      ft.nextSibling kj false = (ft.kidsOf k)[j + 1]? ∧
      ft.prevSibling kj false = (if j = 0 then none else (ft.kidsOf k)[j - 1]?) := by
  have hk := ft_kidsOf ft info kids k parent depth h
  have hg := h
  unfold GoodAt at hg
  obtain ⟨kj, h1, h2⟩ := goodL_get ft.toList kids (k + 1) k (depth + 1) j v hg.2 hj
  have hpar : (ft.node kj).parent = some k := by
    obtain ⟨vi, vk⟩ := v
    rw [good_node ft vi vk kj (some k) (depth + 1) h2]
  have hsib : ft.siblings kj = ft.kidsOf k := by simp [FT.siblings, hpar]
  have hinc : ∀ (a b u w : Nat), a < b → (ft.kidsOf k)[a]? = some u → (ft.kidsOf k)[b]? = some w → u < w := by
    intro a b u w hab hu hw
    rw [hk] at hu hw
    exact (kidIdxFrom_lt kids (k + 1) a b u w hab hu hw).1
  refine ⟨kj, by rw [hk]; exact h1, h2, hpar, ?_, ?_⟩
  · simp only [FT.nextSibling, hsib, Bool.not_false, Bool.true_or]
    rw [dropWhile_ne_of_increasing _ j kj (by rw [hk]; exact h1) hinc, find_true_head, List.drop_drop, List.head?_drop]
  · simp only [FT.prevSibling, hsib, Bool.not_false, Bool.true_or]
    rw [takeWhile_ne_of_increasing _ j kj (by rw [hk]; exact h1) hinc, find_true_head, List.head?_reverse]
    cases j with
    | zero => simp
    | succ j' =>
      simp only [Nat.add_one_ne_zero, if_false, Nat.add_sub_cancel]
      rw [List.getLast?_take]
      have hlen : j' < (ft.kidsOf k).length := by
        have := lt_of_getElem?_some _ _ _ (show (ft.kidsOf k)[j' + 1]? = some kj by rw [hk]; exact h1)
        omega
      simp [List.getElem?_eq_getElem hlen]


/-- The records of the children, read through `FT`, are the records of the `VTree` children. -/
theorem ft_kid_info (ft : FT) (info : VInfo) (kids : List VTree) (k : Nat) (parent : Option Nat) (depth : Nat)
    (h : GoodAt ft.toList (.mk info kids) k parent depth) (j : Nat) :
    ((ft.kidsOf k)[j]?).map (fun i => (ft.node i).info) = (kids[j]?).map (·.info) := by
  cases hj : kids[j]? with
  | none =>
    have hk := ft_kidsOf ft info kids k parent depth h
    have hl := kidIdxFrom_length kids (k + 1)
    have : j ≥ kids.length := by
      cases Nat.lt_or_ge j kids.length with
      | inl hlt => simp [List.getElem?_eq_getElem hlt] at hj
      | inr hge => exact hge
    rw [hk, List.getElem?_eq_none (by omega)]
    rfl
  | some v =>
    obtain ⟨kj, h1, h2, _, _, _⟩ := ft_child_spec ft info kids k parent depth j v h hj
    obtain ⟨vi, vk⟩ := v
    rw [h1]
    simp [good_node ft vi vk kj (some k) (depth + 1) h2, VTree.info]

/-- The (raw subtree, alias) a `VTree` node / an `FT` entry stands for. -/
def vproj (v : VTree) : Tree × Nat := (v.info.raw, v.info.alias)
def FT.proj (ft : FT) (i : Nat) : Tree × Nat := ((ft.node i).info.raw, (ft.node i).info.alias)
theorem vproj_eq : vproj = fun v => (v.info.raw, v.info.alias) := rfl

/-- **ft_neighbours.**  If the children of a good node project to `E ++ x :: Lt`, then the child `x`
sits at `kj = kidsOf[|E|]`, its parent in `FT` is the node, `FT.nextSibling kj` stands for the head
of `Lt` and `FT.prevSibling kj` for the last element of `E`. -/
theorem ft_neighbours (ft : FT) (info : VInfo) (kids : List VTree) (k : Nat) (parent : Option Nat) (depth : Nat)
    (h : GoodAt ft.toList (.mk info kids) k parent depth) (E Lt : List (Tree × Nat)) (x : Tree × Nat)
    (hsplit : kids.map vproj = E ++ x :: Lt) :
    ∃ kj v, kids[E.length]? = some v ∧ vproj v = x ∧ (ft.kidsOf k)[E.length]? = some kj ∧
      GoodAt ft.toList v kj (some k) (depth + 1) ∧ ft.proj kj = x ∧ (ft.node kj).parent = some k ∧
      (ft.nextSibling kj false).map ft.proj = Lt.head? ∧ (ft.prevSibling kj false).map ft.proj = E.getLast? := by
  have hx : (kids.map vproj)[E.length]? = some x := by rw [hsplit]; simp
  rw [List.getElem?_map] at hx
  cases hv : kids[E.length]? with
  | none => simp [hv] at hx
  | some v =>
    simp only [hv, Option.map_some, Option.some.injEq] at hx
    obtain ⟨kj, h1, h2, h3, h4, h5⟩ := ft_child_spec ft info kids k parent depth E.length v h hv
    have hinfo := ft_kid_info ft info kids k parent depth h
    have hproj : ∀ j : Nat, ((ft.kidsOf k)[j]?).map ft.proj = (kids.map vproj)[j]? := by
      intro j
      have := congrArg (Option.map fun (i : VInfo) => (i.raw, i.alias)) (hinfo j)
      have e1 : ft.proj = fun x => ((ft.node x).info.raw, (ft.node x).info.alias) := rfl
      rw [e1, vproj_eq]
      simpa [Option.map_map, Function.comp_def] using this
    have hpk : ft.proj kj = x := by
      have := hproj E.length
      rw [h1, List.getElem?_map, hv] at this
      simpa [hx] using this
    refine ⟨kj, v, rfl, hx, h1, h2, hpk, h3, ?_, ?_⟩
    · rw [h4, hproj, hsplit, List.getElem?_append_right (by omega)]
      cases Lt <;> simp
    · rw [h5]
      cases hE : E.length with
      | zero =>
        have : E = [] := List.eq_nil_of_length_eq_zero hE
        subst this; simp
      | succ m =>
        simp only [Nat.add_one_ne_zero, if_false, Nat.add_sub_cancel]
        rw [hproj, hsplit, List.getElem?_append_left (by omega), List.getLast?_eq_getElem?, hE]
        simp

/-! ## Part D: `flatten` is hereditarily the enumeration of visible children -/

mutual
  /-- Every node of the `VTree` has as children (projected to raw subtree and alias) exactly
  `enumChildren` of its raw subtree. -/
  def HeredEnum (lang : Lang) : VTree → Prop
    | .mk info kids => kids.map vproj = enumChildren lang info.raw ∧ HeredEnumL lang kids
  def HeredEnumL (lang : Lang) : List VTree → Prop
    | [] => True
    | v :: r => HeredEnum lang v ∧ HeredEnumL lang r
end

theorem heredL_append (lang : Lang) : ∀ (a b : List VTree), HeredEnumL lang a → HeredEnumL lang b → HeredEnumL lang (a ++ b)
  | [], _, _, hb => hb
  | v :: r, b, ha, hb => by
    unfold HeredEnumL at ha
    simp only [List.cons_append]
    unfold HeredEnumL
    exact ⟨ha.1, heredL_append lang r b ha.2 hb⟩

theorem heredL_get (lang : Lang) : ∀ (kids : List VTree) (j : Nat) (v : VTree), HeredEnumL lang kids → kids[j]? = some v → HeredEnum lang v
  | [], _, _, _, h => by simp at h
  | c :: r, j, v, hh, h => by
    unfold HeredEnumL at hh
    cases j with
    | zero => simp at h; subst h; exact hh.1
    | succ j' => exact heredL_get lang r j' v hh.2 (by simpa using h)

mutual
  theorem flattenAt_hered (lang : Lang) : ∀ (t : Tree) (pos : Length) (al id : Nat) (chain : List (List Nat)),
      HeredEnumL lang (flattenAt lang t pos al id chain)
    | .mk d kids, pos, al, id, chain => by
      unfold flattenAt
      simp only
      have ih := flattenKids_hered lang kids pos d.productionId 0 0 d.addr kids.length
      split
      · unfold HeredEnumL
        refine ⟨?_, by unfold HeredEnumL; trivial⟩
        unfold HeredEnum
        refine ⟨?_, ih []⟩
        have := flat_children_are_enum lang (.mk d kids) pos []
        rw [vproj_eq]
        simpa [kids_mk, data_mk] using this
      · exact ih chain
  theorem flattenKids_hered (lang : Lang) : ∀ (kids : List Tree) (cur : Length) (pid si i addr n : Nat) (outer : List (List Nat)),
      HeredEnumL lang (flattenKids lang kids cur pid si i addr n outer)
    | [], _, _, _, _, _, _, _ => by unfold flattenKids HeredEnumL; trivial
    | c :: rest, cur, pid, si, i, addr, n, outer => by
      unfold flattenKids
      exact heredL_append lang _ _ (flattenAt_hered lang c _ _ _ _) (flattenKids_hered lang rest _ _ _ _ _ _ _)
end

/-- **flatten_hered.**  The tree `flatten` builds is, at every node, the enumeration of the visible
children of that node's raw subtree — the list the node.c and cursor theorems speak about. -/
theorem flatten_hered (lang : Lang) (root : Tree) (rootId : Nat) :
    HeredEnum lang (flatten lang root rootId) ∧ (flatten lang root rootId).info.raw = root := by
  obtain ⟨d, kids⟩ := root
  unfold flatten
  simp only
  unfold HeredEnum
  refine ⟨⟨?_, flattenKids_hered lang kids _ _ _ _ _ _ _⟩, rfl⟩
  have := flat_children_are_enum lang (.mk d kids) length_zero []
  rw [vproj_eq]
  simpa [kids_mk, data_mk] using this

/-- The node of the flattened tree, and its place in `FT`, for a raw node `d` (relevant, or the root
itself) given by a raw path. -/
theorem flat_node_exists (lang : Lang) (root : NodeRef) : ∀ (m : Nat) (p : List Nat) (d : NodeRef), p.length ≤ m →
    nodeAt lang root p = some d → (p = [] ∨ d.relevant lang true = true) →
    ∃ info kids k par dep, GoodAt (flatOf (flatten lang root.t root.id)).toList (.mk info kids) k par dep ∧
      info.raw = d.t ∧ (p ≠ [] → info.alias = d.alias) ∧ HeredEnum lang (.mk info kids)
  | m, [], d, _, hat, _ => by
    simp only [nodeAt, Option.some.injEq] at hat
    subst hat
    have hh := flatten_hered lang root.t root.id
    have hg := flatOf_good (flatten lang root.t root.id)
    cases hv : flatten lang root.t root.id with
    | mk info kids =>
      rw [hv] at hh hg
      exact ⟨info, kids, 0, none, 0, hg, by simpa [VTree.info] using hh.2, by simp, hh.1⟩
  | 0, k :: rest, _, hm, _, _ => by simp at hm
  | m + 1, k :: rest, d, hm, hat, hrel => by
    have hrel' : d.relevant lang true = true := by
      rcases hrel with h | h
      · simp at h
      · exact h
    obtain ⟨pre, q, hpq, hq, hatP, hatq, hhid, hor⟩ := parent_path_spec lang d (k :: rest).length (k :: rest) root (Nat.le_refl _) (by simp) hat
    have hlen : pre.length ≤ m := by
      have h1 : (k :: rest).length = pre.length + q.length := by rw [hpq]; simp
      have h2 : q.length > 0 := List.length_pos_iff.mpr hq
      simp only [List.length_cons] at hm h1
      omega
    obtain ⟨infoP, kidsP, kP, parP, depP, hgP, hrawP, _, hhP⟩ := flat_node_exists lang root m pre _ hlen hatP hor
    have hsplit := path_siblings_split lang d hrel' q _ hq hatq hhid
    unfold HeredEnum at hhP
    rw [← hrawP, ← hhP.1] at hsplit
    obtain ⟨kj, v, hv, hpv, _, hgv, _, _, _, _⟩ := ft_neighbours _ infoP kidsP kP parP depP hgP _ _ _ hsplit
    obtain ⟨vi, vk⟩ := v
    have hhv := heredL_get lang kidsP _ _ hhP.2 hv
    simp only [vproj, VTree.info, Prod.mk.injEq] at hpv
    exact ⟨vi, vk, kj, some kP, depP + 1, hgv, hpv.1, fun _ => hpv.2, hhv⟩

/-- **nav_ft_spec.**  The evaluated cross-checks `parentOnPath = FT.parent`, `head(laterOnPath) =
FT.nextSibling`, `last(earlierOnPath) = FT.prevSibling` as a theorem.  For a relevant NON-EMPTY node
`d` at raw path `p` below the root of a summarized parser-shaped tree (hypotheses of
`node_nav_flat_spec`), let `ft` be the preorder array of `flatten`.  Then there are indices `kP`, `kd`
such that `ft[kP]` is the node built from the raw subtree that the port of `ts_node_parent(d)` returns,
`ft[kd]` is the node built from `d` (same raw subtree and alias), `FT.parent kd = kP`, and — under
`nsPathOK` / `psPathOK` — the port of `ts_node_next_sibling(d)` / `ts_node_prev_sibling(d)` returns the
(raw subtree, alias) of `FT.nextSibling kd` / `FT.prevSibling kd` (null iff null). -/
theorem nav_ft_spec (lang : Lang) (fuel : Nat) (root d : NodeRef) (p : List Nat) (ps : Option Nat)
    (hp : p ≠ []) (hfp : p.length ≤ fuel) (hsz : root.t.size ≤ fuel + 1)
    (hs : Summarized lang root.t) (hsh : shapeOK ps root.t = true) (hat : nodeAt lang root p = some d)
    (hrel : d.relevant lang true = true) (hne : d.startByte < d.endByte) (hroot : root.id ≠ d.id)
    (hok : pathOK lang d.id root p = true) :
    let ft : FT := flatOf (flatten lang root.t root.id)
    ∃ q kP kd P, q ≠ [] ∧ nodeParent lang fuel root d = some P ∧ nodeAt lang P q = some d ∧
      (ft.node kP).info.raw = P.t ∧ ft.proj kd = (d.t, d.alias) ∧ (ft.node kd).parent = some kP ∧
      (nsPathOK lang d P q = true →
        (nextSiblingPort lang fuel root d true).map (fun r => (r.t, r.alias)) = (ft.nextSibling kd false).map ft.proj) ∧
      (psPathOK lang d P q = true →
        (prevSiblingPort lang fuel root d true).map (fun r => (r.t, r.alias)) = (ft.prevSibling kd false).map ft.proj) := by
  intro ft
  obtain ⟨q, hq, hatq, hhid, hpar, hsplit, hns, hps⟩ := node_nav_flat_spec lang fuel root d p ps hp hfp hsz hs hsh hat hrel hne hroot hok
  obtain ⟨pre, q', hpq, _, hatP, _, _, hor⟩ := parent_path_spec lang d p.length p root (Nat.le_refl _) hp hat
  obtain ⟨infoP, kidsP, kP, parP, depP, hgP, hrawP, _, hhP⟩ := flat_node_exists lang root pre.length pre _ (Nat.le_refl _) hatP hor
  unfold HeredEnum at hhP
  rw [← hrawP, ← hhP.1] at hsplit
  obtain ⟨kd, v, _, _, _, _, hpd, hpard, hnx, hpv⟩ := ft_neighbours ft infoP kidsP kP parP depP hgP _ _ _ hsplit
  refine ⟨q, kP, kd, _, hq, hpar, hatq, ?_, hpd, hpard, ?_, ?_⟩
  · rw [good_node ft infoP kidsP kP parP depP hgP]; exact hrawP
  · intro h; rw [hns h, hnx]
  · intro h; rw [hps h, hpv]

/-- **nav_ft_spec_empty.**  The same for a relevant ZERO-WIDTH node (hypotheses of
`node_nav_flat_spec_empty`; sibling parts under `nsPathOK` + `nsZwOK` / `psPathOK` + `psZwOK`). -/
theorem nav_ft_spec_empty (lang : Lang) (fuel : Nat) (root d : NodeRef) (p : List Nat) (ps : Option Nat)
    (hp : p ≠ []) (hfp : p.length ≤ fuel) (hsz : root.t.size ≤ fuel + 1)
    (hs : Summarized lang root.t) (hsh : shapeOK ps root.t = true) (hat : nodeAt lang root p = some d)
    (hrel : d.relevant lang true = true) (hemp : d.startByte = d.endByte) (hroot : root.id ≠ d.id)
    (hok : psPathOK lang d root p = true) :
    let ft : FT := flatOf (flatten lang root.t root.id)
    ∃ q kP kd P, q ≠ [] ∧ nodeParent lang fuel root d = some P ∧ nodeAt lang P q = some d ∧
      (ft.node kP).info.raw = P.t ∧ ft.proj kd = (d.t, d.alias) ∧ (ft.node kd).parent = some kP ∧
      (nsPathOK lang d P q = true → nsZwOK lang d P q = true →
        (nextSiblingPort lang fuel root d true).map (fun r => (r.t, r.alias)) = (ft.nextSibling kd false).map ft.proj) ∧
      (psPathOK lang d P q = true → psZwOK lang fuel d P q = true →
        (prevSiblingPort lang fuel root d true).map (fun r => (r.t, r.alias)) = (ft.prevSibling kd false).map ft.proj) := by
  intro ft
  obtain ⟨q, hq, hatq, hhid, hpar, hsplit, hns, hps⟩ := node_nav_flat_spec_empty lang fuel root d p ps hp hfp hsz hs hsh hat hrel hemp hroot hok
  obtain ⟨pre, q', hpq, _, hatP, _, _, hor⟩ := parent_path_spec lang d p.length p root (Nat.le_refl _) hp hat
  obtain ⟨infoP, kidsP, kP, parP, depP, hgP, hrawP, _, hhP⟩ := flat_node_exists lang root pre.length pre _ (Nat.le_refl _) hatP hor
  unfold HeredEnum at hhP
  rw [← hrawP, ← hhP.1] at hsplit
  obtain ⟨kd, v, _, _, _, _, hpd, hpard, hnx, hpv⟩ := ft_neighbours ft infoP kidsP kP parP depP hgP _ _ _ hsplit
  refine ⟨q, kP, kd, _, hq, hpar, hatq, ?_, hpd, hpard, ?_, ?_⟩
  · rw [good_node ft infoP kidsP kP parP depP hgP]; exact hrawP
  · intro h1 h2; rw [hns h1 h2, hnx]
  · intro h1 h2; rw [hps h1 h2, hpv]


/-! ## Part E: identities and positions — `first_child_for_byte` on `FT` -/

/-- The `TSNode` a visible node stands for (what the driver builds from an `FT` entry). -/
def refOf (i : VInfo) : NodeRef := { t := i.raw, alias := i.alias, id := i.id, start := i.start }

/-- `v` was built by `flattenAt` (or is the root of `flatten`): it starts after its raw subtree's
padding, ends after its size, and its children are `flattenKids` of its raw children. -/
def IsFlatNode (lang : Lang) (v : VTree) : Prop :=
  ∃ pos, v.info.start = length_add pos v.info.raw.data.padding ∧ v.info.stop = length_add v.info.start v.info.raw.data.size ∧
    v.kids = flattenKids lang v.info.raw.kids pos v.info.raw.data.productionId 0 0 v.info.raw.data.addr v.info.raw.kids.length []

/-- What the theorems need of a node of the flattened tree. -/
def QQ (lang : Lang) (v : VTree) : Prop :=
  IsFlatNode lang v ∧ Summarized lang v.info.raw ∧ ∃ ps, shapeOK ps v.info.raw = true

mutual
  theorem flattenAt_all (lang : Lang) : ∀ (t : Tree) (pos : Length) (al id : Nat) (chain : List (List Nat)) (ps : Option Nat),
      Summarized lang t → shapeOK ps t = true → ∀ c ∈ flattenAt lang t pos al id chain, QQ lang c
    | .mk d kids, pos, al, id, chain, ps, hs, hsh, c, hc => by
      unfold flattenAt at hc
      simp only at hc
      have hsk := summarizedL_kids lang (.mk d kids) hs
      have hshk := shapeOKL_kids ps (.mk d kids) hsh
      simp only [kids_mk, data_mk] at hsk hshk
      split at hc
      · simp only [List.mem_singleton] at hc
        subst hc
        exact ⟨⟨pos, rfl, rfl, rfl⟩, hs, ps, hsh⟩
      · exact flattenKids_all lang kids pos d.productionId 0 0 d.addr kids.length chain _ hsk hshk c hc
  theorem flattenKids_all (lang : Lang) : ∀ (kids : List Tree) (cur : Length) (pid si i addr n : Nat) (outer : List (List Nat))
      (ps : Option Nat), SummarizedL lang kids → shapeOKL ps kids = true →
      ∀ c ∈ flattenKids lang kids cur pid si i addr n outer, QQ lang c
    | [], _, _, _, _, _, _, _, _, _, _, c, hc => by simp [flattenKids] at hc
    | k :: rest, cur, pid, si, i, addr, n, outer, ps, hs, hsh, c, hc => by
      unfold flattenKids at hc
      unfold SummarizedL at hs
      unfold shapeOKL at hsh
      simp only [Bool.and_eq_true] at hsh
      simp only [List.mem_append] at hc
      rcases hc with hc | hc
      · exact flattenAt_all lang k _ _ _ _ ps hs.1 hsh.1 c hc
      · exact flattenKids_all lang rest _ _ _ _ _ _ _ ps hs.2 hsh.2 c hc
end

theorem qq_kids (lang : Lang) (info : VInfo) (kids : List VTree) (h : QQ lang (.mk info kids)) : ∀ c ∈ kids, QQ lang c := by
  obtain ⟨⟨pos, _, _, hk⟩, hs, ps, hsh⟩ := h
  simp only [VTree.kids, VTree.info] at hk hs hsh
  intro c hc
  rw [hk] at hc
  exact flattenKids_all lang _ _ _ _ _ _ _ _ _ (summarizedL_kids lang info.raw hs) (shapeOKL_kids ps info.raw hsh) c hc

theorem flatten_qq (lang : Lang) (root : Tree) (rootId : Nat) (ps : Option Nat) (hs : Summarized lang root)
    (hsh : shapeOK ps root = true) : QQ lang (flatten lang root rootId) := by
  obtain ⟨d, kids⟩ := root
  unfold flatten
  exact ⟨⟨length_zero, rfl, rfl, rfl⟩, hs, ps, hsh⟩

mutual
  /-- Every index inside the preorder interval of a good node is a good node itself, and a hereditary
  property of the tree holds for it. -/
  theorem good_cover (L : List Flat) (Q : VTree → Prop) (hQ : ∀ info kids, Q (.mk info kids) → ∀ c ∈ kids, Q c) :
      ∀ (v : VTree) (k : Nat) (par : Option Nat) (dep : Nat), GoodAt L v k par dep → Q v → ∀ i, k ≤ i → i < k + vsize v →
      ∃ info kids par' dep', GoodAt L (.mk info kids) i par' dep' ∧ Q (.mk info kids)
    | .mk info kids, k, par, dep, hg, hq, i, h1, h2 => by
      by_cases hi : i = k
      · subst hi; exact ⟨info, kids, par, dep, hg, hq⟩
      · unfold GoodAt at hg
        unfold vsize at h2
        exact good_coverL L Q hQ kids (k + 1) k (dep + 1) hg.2 (hQ info kids hq) i (by omega) (by omega)
  theorem good_coverL (L : List Flat) (Q : VTree → Prop) (hQ : ∀ info kids, Q (.mk info kids) → ∀ c ∈ kids, Q c) :
      ∀ (kids : List VTree) (s p dep : Nat), GoodL L kids s p dep → (∀ c ∈ kids, Q c) → ∀ i, s ≤ i → i < s + vsizeL kids →
      ∃ info kids' par' dep', GoodAt L (.mk info kids') i par' dep' ∧ Q (.mk info kids')
    | [], _, _, _, _, _, i, h1, h2 => by unfold vsizeL at h2; omega
    | c :: r, s, p, dep, hg, hq, i, h1, h2 => by
      unfold GoodL at hg
      unfold vsizeL at h2
      by_cases hi : i < s + vsize c
      · exact good_cover L Q hQ c s (some p) dep hg.1 (hq c (by simp)) i h1 hi
      · exact good_coverL L Q hQ r (s + vsize c) p dep hg.2 (fun x hx => hq x (by simp [hx])) i (by omega) (by omega)
end

theorem flatOf_size (t : VTree) : (flatOf t).size = vsize t := by
  have := congrArg List.length (flatOf_spec t)
  simpa [pre_length] using this

/-- **ft_all_good.**  Every entry of the preorder array of `flatten` is a node of the flattened tree,
stored with its record, built by `flattenAt` over a summarized parser-shaped raw subtree. -/
theorem ft_all_good (lang : Lang) (root : Tree) (rootId : Nat) (ps : Option Nat) (hs : Summarized lang root)
    (hsh : shapeOK ps root = true) (i : Nat) (hi : i < (flatOf (flatten lang root rootId)).size) :
    ∃ info kids par dep, GoodAt (flatOf (flatten lang root rootId)).toList (.mk info kids) i par dep ∧ QQ lang (.mk info kids) := by
  rw [flatOf_size] at hi
  exact good_cover _ (QQ lang) (qq_kids lang) _ 0 none 0 (flatOf_good _) (flatten_qq lang root rootId ps hs hsh) i (Nat.zero_le _) (by omega)

mutual
  /-- The nodes `flatten` lists for a raw subtree are EXACTLY the nodes `ts_node_child` hands out for
  it (`enumRefs`: raw subtree, alias, slot id, start position in bytes, rows and columns) — the two
  position systems (start of the padding vs start of the content) agree because a node's padding is
  its first child's (`Sized`) and `length_add` is associative. -/
  theorem flattenAt_refs (lang : Lang) : ∀ (t : Tree) (cur : Length) (al id : Nat) (chain : List (List Nat)) (cstart : Length),
      cstart = length_add cur t.data.padding → Sized t →
      (flattenAt lang t cur al id chain).map (fun c => refOf c.info) =
        (if t.data.visible || al != 0 then [({ t := t, alias := al, id := id, start := cstart } : NodeRef)] else enumRefs lang t cstart)
    | .mk d kids, cur, al, id, chain, cstart, hpos, hs => by
      unfold flattenAt
      simp only [data_mk] at hpos ⊢
      by_cases hv : (d.visible || al != 0) = true
      · simp only [hv, if_true, List.map_cons, List.map_nil, refOf, VTree.info, hpos]
      · simp only [hv, if_false, Bool.false_eq_true]
        unfold enumRefs
        unfold Sized at hs
        refine flattenKids_refs lang kids cur d.productionId 0 0 d.addr kids.length chain cstart ?_ hs.2
        simp only [Nat.lt_irrefl, if_false]
        intro c r hk
        have := (hs.1 (by rw [hk]; simp)).1
        rw [hk] at this
        simp only [kidsPadding] at this
        rw [hpos, this]
  theorem flattenKids_refs (lang : Lang) : ∀ (kids : List Tree) (cur : Length) (pid si i addr n : Nat) (outer : List (List Nat))
      (pos : Length), (if i > 0 then pos = cur else ∀ c r, kids = c :: r → pos = length_add cur c.data.padding) →
      SizedL kids →
      (flattenKids lang kids cur pid si i addr n outer).map (fun c => refOf c.info) = enumRefsKids lang pid addr n kids pos si i
    | [], _, _, _, _, _, _, _, _, _, _ => by simp [flattenKids, enumRefsKids]
    | c :: rest, cur, pid, si, i, addr, n, outer, pos, hpos, hs => by
      unfold flattenKids enumRefsKids
      unfold SizedL at hs
      simp only [List.map_append]
      have hcs : (if i > 0 then length_add pos c.data.padding else pos) = length_add cur c.data.padding := by
        by_cases hi : i > 0
        · simp only [hi, if_true] at hpos ⊢
          rw [hpos]
        · simp only [hi, if_false] at hpos ⊢
          exact hpos c rest rfl
      congr 1
      · have := flattenAt_refs lang c cur (if c.data.extra then 0 else lang.aliasAt pid si) (slotId addr n i)
          (if c.data.extra then [] else directFields lang pid si :: outer) (if i > 0 then length_add pos c.data.padding else pos) hcs hs.1
        rw [this]
        simp only [NodeRef.relevant, isRelevant, if_true]
      · refine flattenKids_refs lang rest _ pid _ (i + 1) addr n outer _ ?_ hs.2
        simp only [Nat.succ_pos, if_true, gt_iff_lt, hcs, Tree.totalSize, length_add_assoc]
end

/-- The children of a node of the flattened tree, as `TSNode`s, are `enumRefs` of the node. -/
theorem qq_kids_refs (lang : Lang) (info : VInfo) (kids : List VTree) (h : QQ lang (.mk info kids)) :
    kids.map (fun c => refOf c.info) = enumRefs lang info.raw info.start := by
  obtain ⟨⟨pos, hst, _, hkids⟩, hsv, _, _⟩ := h
  simp only [VTree.info, VTree.kids] at hst hkids hsv
  have hsz := sized_of_summarized lang info.raw hsv
  rw [hkids]
  cases hraw : info.raw with
  | mk d rk =>
    rw [hraw] at hsz hst
    unfold Sized at hsz
    unfold enumRefs
    simp only [kids_mk, data_mk] at hst ⊢
    refine flattenKids_refs lang rk pos d.productionId 0 0 d.addr rk.length [] info.start ?_ hsz.2
    simp only [Nat.lt_irrefl, if_false]
    intro c r hk'
    have := (hsz.1 (by rw [hk']; simp)).1
    rw [hk'] at this
    simp only [kidsPadding] at this
    rw [hst, this]

/-- … read through `FT`: the entries `kidsOf k` stand for `enumRefs`, and their end bytes are the
end bytes of those `TSNode`s. -/
theorem ft_kids_refs (lang : Lang) (ft : FT) (info : VInfo) (kids : List VTree) (k : Nat) (par : Option Nat) (dep : Nat)
    (hg : GoodAt ft.toList (.mk info kids) k par dep) (hq : QQ lang (.mk info kids)) :
    (ft.kidsOf k).map (fun j => refOf (ft.node j).info) = enumRefs lang info.raw info.start ∧
    (∀ j ∈ ft.kidsOf k, ft.eb j = (refOf (ft.node j).info).endByte ∧ ft.sb j = (refOf (ft.node j).info).startByte) := by
  have hK := ft_kid_info ft info kids k par dep hg
  have hlen : (ft.kidsOf k).length = kids.length := by rw [ft_kidsOf ft info kids k par dep hg, kidIdxFrom_length]
  refine ⟨?_, ?_⟩
  · rw [← qq_kids_refs lang info kids hq]
    apply List.ext_getElem?
    intro j
    have := congrArg (Option.map refOf) (hK j)
    simpa [List.getElem?_map, Option.map_map, Function.comp_def] using this
  · intro j hj
    obtain ⟨m, hm⟩ := List.mem_iff_getElem?.mp hj
    have h1 := hK m
    rw [hm] at h1
    cases hc : kids[m]? with
    | none => rw [hc] at h1; simp at h1
    | some c =>
      rw [hc] at h1
      simp only [Option.map_some, Option.some.injEq] at h1
      obtain ⟨⟨_, _, hstop, _⟩, _, _⟩ := qq_kids lang info kids hq c (List.mem_of_getElem? hc)
      simp only [FT.eb, FT.sb, h1, refOf, NodeRef.endByte, NodeRef.startByte, hstop, length_add_bytes]
      exact ⟨trivial, trivial⟩

theorem find_map_refs (g : Nat → NodeRef) (e : Nat → Nat) (goal : Nat) : ∀ (A : List Nat),
    (∀ j ∈ A, e j = (g j).endByte) →
    (A.find? (fun j => decide (e j > goal))).map g = (A.map g).find? (fun r => decide (r.endByte > goal))
  | [], _ => rfl
  | a :: A, h => by
    simp only [List.find?_cons, List.map_cons, h a (by simp)]
    split
    · rfl
    · exact find_map_refs g e goal A (fun j hj => h j (by simp [hj]))

/-- **first_child_for_byte_ft_spec.**  The evaluated cross-check `fcbNode = FT.firstChildForByte` as a
theorem, in the form the driver evaluates it: for EVERY entry `k` of the preorder array of `flatten`
(root summarized and parser-shaped), with `self` the `TSNode` built from that entry, and a goal byte
without dead end (`ndeNode`), the port of `ts_node_first_child_for_byte(self, goal)` returns exactly
the `TSNode` (raw subtree, alias, slot id, position) of the entry `FT.firstChildForByte k goal`
designates — null iff null. -/
theorem first_child_for_byte_ft_spec (lang : Lang) (root : Tree) (rootId : Nat) (ps : Option Nat) (fuel k goal : Nat)
    (hs : Summarized lang root) (hsh : shapeOK ps root = true) :
    let ft : FT := flatOf (flatten lang root rootId)
    k < ft.size → (refOf (ft.node k).info).t.size ≤ 2 * fuel + 4 →
    ndeNode lang goal (refOf (ft.node k).info).t (refOf (ft.node k).info).start = true →
    firstChildForBytePort lang fuel (refOf (ft.node k).info) goal true =
      (ft.firstChildForByte k goal false).map (fun j => refOf (ft.node j).info) := by
  intro ft hk hf hnde
  obtain ⟨info, kids, par, dep, hg, hq⟩ := ft_all_good lang root rootId ps hs hsh k hk
  have hnode := good_node ft info kids k par dep hg
  have hinfo : (ft.node k).info = info := by rw [hnode]
  rw [hinfo] at hf hnde ⊢
  simp only [refOf] at hf hnde
  obtain ⟨hrefs, hpos⟩ := ft_kids_refs lang ft info kids k par dep hg hq
  obtain ⟨_, hsv, psv, hshv⟩ := hq
  simp only [VTree.info] at hsv hshv
  rw [first_child_for_byte_flat_spec lang fuel (refOf info) goal psv hf hsv hshv hnde]
  have hfc : ft.firstChildForByte k goal false = (ft.kidsOf k).find? (fun j => decide (ft.eb j > goal)) := by
    simp [FT.firstChildForByte]
  rw [hfc, find_map_refs (fun j => refOf (ft.node j).info) ft.eb goal (ft.kidsOf k) (fun j hj => (hpos j hj).1), hrefs]
  rfl

/-! ## Part F: `descendant_for_byte_range` on `FT` -/

theorem find_congr_mem {α : Type} (p q : α → Bool) : ∀ (l : List α), (∀ x ∈ l, p x = q x) → l.find? p = l.find? q
  | [], _ => rfl
  | a :: l, h => by
    simp only [List.find?_cons, h a (by simp)]
    split
    · rfl
    · exact find_congr_mem p q l (fun x hx => h x (by simp [hx]))

theorem find_map_refs' (g : Nat → NodeRef) (e : Nat → Nat) (q : Nat → Bool) : ∀ (A : List Nat),
    (∀ j ∈ A, e j = (g j).endByte) →
    (A.find? (fun j => q (e j))).map g = (A.map g).find? (fun r => q r.endByte)
  | [], _ => rfl
  | a :: A, h => by
    simp only [List.find?_cons, List.map_cons, h a (by simp)]
    split
    · rfl
    · exact find_map_refs' g e q A (fun j hj => h j (by simp [hj]))

theorem find_some_mem {α : Type} (p : α → Bool) : ∀ (l : List α) (x : α), l.find? p = some x → x ∈ l ∧ p x = true
  | [], _, h => by simp at h
  | a :: l, x, h => by
    simp only [List.find?_cons] at h
    split at h
    · simp only [Option.some.injEq] at h; subst h; exact ⟨by simp, by assumption⟩
    · have := find_some_mem p l x h; exact ⟨by simp [this.1], this.2⟩

/-- The search of `FT.descendantForBytes` written on `TSNode`s: among the visible children
(`enumRefs`) take the first that ends at or after `re`; stop if it starts after `rs`, otherwise go on
inside it. -/
def vgo (lang : Lang) (rs re : Nat) : Nat → NodeRef → NodeRef → NodeRef
  | 0, _, last => last
  | f + 1, self, last =>
    match (enumRefs lang self.t self.start).find? (fun r => decide (r.endByte ≥ re)) with
    | none => last
    | some r => if rs < r.startByte then last else vgo lang rs re f r r

theorem ftgo_succ (ft : FT) (s e : Nat) (nm : Bool) (f cur last : Nat) :
    FT.descendantForBytes.go ft s e nm (f + 1) cur last =
      (match (ft.kidsOf cur).find? (fun c => decide (ft.eb c ≥ e) && (if ft.sb c == ft.eb c then decide (ft.eb c ≥ s) else decide (ft.eb c > s))) with
       | none => last
       | some c => if s < ft.sb c then last else FT.descendantForBytes.go ft s e nm f c (if !nm || ft.named c then c else last)) := by
  simp only [FT.descendantForBytes.go]
  cases List.find? (fun c => decide (ft.eb c ≥ e) && if (ft.sb c == ft.eb c) = true then decide (ft.eb c ≥ s) else decide (ft.eb c > s)) (ft.kidsOf cur) <;> rfl

theorem vsizeL_mem : ∀ (kids : List VTree) (c : VTree), c ∈ kids → vsize c ≤ vsizeL kids
  | [], _, h => by simp at h
  | k :: r, c, h => by
    unfold vsizeL
    simp only [List.mem_cons] at h
    rcases h with h | h
    · subst h; omega
    · have := vsizeL_mem r c h; omega

/-- One step of the `FT` search at a good node, in terms of `enumRefs`. -/
theorem ftgo_step (lang : Lang) (ft : FT) (rs re : Nat) (hr : rs < re) (info : VInfo) (kids : List VTree) (k : Nat)
    (par : Option Nat) (dep : Nat) (hg : GoodAt ft.toList (.mk info kids) k par dep) (hq : QQ lang (.mk info kids)) (f last : Nat) :
    (∃ c vi vk, FT.descendantForBytes.go ft rs re false (f + 1) k last = FT.descendantForBytes.go ft rs re false f c c ∧
        GoodAt ft.toList (.mk vi vk) c (some k) (dep + 1) ∧ QQ lang (.mk vi vk) ∧ (.mk vi vk) ∈ kids ∧
        (enumRefs lang info.raw info.start).find? (fun r => decide (r.endByte ≥ re)) = some (refOf vi) ∧ ¬ (rs < (refOf vi).startByte)) ∨
    (FT.descendantForBytes.go ft rs re false (f + 1) k last = last ∧
      (match (enumRefs lang info.raw info.start).find? (fun r => decide (r.endByte ≥ re)) with
       | none => True
       | some r => rs < r.startByte)) := by
  obtain ⟨hrefs, hpos⟩ := ft_kids_refs lang ft info kids k par dep hg hq
  rw [ftgo_succ]
  have hpred : (ft.kidsOf k).find? (fun c => decide (ft.eb c ≥ re) && (if ft.sb c == ft.eb c then decide (ft.eb c ≥ rs) else decide (ft.eb c > rs))) =
      (ft.kidsOf k).find? (fun c => decide (ft.eb c ≥ re)) := by
    apply find_congr_mem
    intro x _
    by_cases h1 : ft.eb x ≥ re
    · have h2 : ft.eb x ≥ rs := by omega
      have h3 : ft.eb x > rs := by omega
      simp [h1, h2, h3]
    · simp [h1]
  rw [hpred]
  have hmap := find_map_refs' (fun j => refOf (ft.node j).info) ft.eb (fun x => decide (x ≥ re)) (ft.kidsOf k) (fun j hj => (hpos j hj).1)
  rw [hrefs] at hmap
  cases hf : (ft.kidsOf k).find? (fun c => decide (ft.eb c ≥ re)) with
  | none =>
    rw [hf] at hmap
    simp only [Option.map_none] at hmap
    right
    rw [← hmap]
    exact ⟨rfl, trivial⟩
  | some c =>
    rw [hf] at hmap
    simp only [Option.map_some] at hmap
    obtain ⟨hcm, _⟩ := find_some_mem _ _ _ hf
    have hsb := (hpos c hcm).2
    obtain ⟨m, hm⟩ := List.mem_iff_getElem?.mp hcm
    have hlen : m < kids.length := by
      have := lt_of_getElem?_some _ _ _ hm
      rw [ft_kidsOf ft info kids k par dep hg, kidIdxFrom_length] at this
      exact this
    obtain ⟨kj, h1, h2, _, _, _⟩ := ft_child_spec ft info kids k par dep m kids[m] hg (List.getElem?_eq_getElem hlen)
    rw [hm] at h1
    simp only [Option.some.injEq] at h1
    subst h1
    cases hv : kids[m] with
    | mk vi vk =>
      rw [hv] at h2
      have hci : (ft.node c).info = vi := by rw [good_node ft vi vk c (some k) (dep + 1) h2]
      have hmem : VTree.mk vi vk ∈ kids := by rw [← hv]; exact List.getElem_mem hlen
      by_cases hlt : rs < ft.sb c
      · right
        simp only [hlt, if_true, ← hmap, true_and]
        rw [hsb] at hlt
        exact hlt
      · left
        refine ⟨c, vi, vk, by simp [hlt], h2, qq_kids lang info kids hq _ hmem, hmem, ?_, ?_⟩
        · rw [← hmap, hci]
        · rw [hsb, hci] at hlt; exact hlt

/-- The `FT` search does not depend on the fuel once it covers the subtree. -/
theorem ftgo_fuel (lang : Lang) (ft : FT) (rs re : Nat) : ∀ (n : Nat) (info : VInfo) (kids : List VTree) (k : Nat)
    (par : Option Nat) (dep : Nat), GoodAt ft.toList (.mk info kids) k par dep → vsize (.mk info kids) ≤ n →
    ∀ (f1 f2 last : Nat), vsize (.mk info kids) ≤ f1 → vsize (.mk info kids) ≤ f2 →
    FT.descendantForBytes.go ft rs re false f1 k last = FT.descendantForBytes.go ft rs re false f2 k last
  | 0, info, kids, _, _, _, _, hn, _, _, _, _, _ => by have := vsize_pos (.mk info kids); omega
  | n + 1, info, kids, k, par, dep, hg, hn, f1, f2, last, h1, h2 => by
    have hpos := vsize_pos (.mk info kids)
    obtain ⟨f1', rfl⟩ : ∃ x, f1 = x + 1 := ⟨f1 - 1, by omega⟩
    obtain ⟨f2', rfl⟩ : ∃ x, f2 = x + 1 := ⟨f2 - 1, by omega⟩
    have hvs : vsize (.mk info kids) = 1 + vsizeL kids := by rw [vsize]
    rw [ftgo_succ, ftgo_succ]
    cases hf : (ft.kidsOf k).find? (fun c => decide (ft.eb c ≥ re) && (if ft.sb c == ft.eb c then decide (ft.eb c ≥ rs) else decide (ft.eb c > rs))) with
    | none => rfl
    | some cc =>
      simp only
      by_cases hlt : rs < ft.sb cc
      · simp [hlt]
      · simp only [hlt, if_false, Bool.not_false, Bool.true_or, if_true]
        obtain ⟨hcm, _⟩ := find_some_mem _ _ _ hf
        obtain ⟨m, hm⟩ := List.mem_iff_getElem?.mp hcm
        have hlen : m < kids.length := by
          have := lt_of_getElem?_some _ _ _ hm
          rw [ft_kidsOf ft info kids k par dep hg, kidIdxFrom_length] at this
          exact this
        obtain ⟨kj, h1', h2', _, _, _⟩ := ft_child_spec ft info kids k par dep m kids[m] hg (List.getElem?_eq_getElem hlen)
        rw [hm] at h1'
        simp only [Option.some.injEq] at h1'
        subst h1'
        cases hv : kids[m] with
        | mk wi wk =>
          rw [hv] at h2'
          have hmem' : VTree.mk wi wk ∈ kids := by rw [← hv]; exact List.getElem_mem hlen
          have := vsizeL_mem kids _ hmem'
          exact ftgo_fuel lang ft rs re n wi wk cc (some k) (dep + 1) h2' (by omega) f1' f2' cc (by omega) (by omega)

/-- **ftgo_eq_vgo.**  With the same fuel, the `FT` search from a good node and the search on `TSNode`s
from the `TSNode` of that node end on the same `TSNode`. -/
theorem ftgo_eq_vgo (lang : Lang) (ft : FT) (rs re : Nat) (hr : rs < re) : ∀ (f : Nat) (info : VInfo) (kids : List VTree) (k : Nat)
    (par : Option Nat) (dep : Nat), GoodAt ft.toList (.mk info kids) k par dep → QQ lang (.mk info kids) → ∀ (last : Nat),
    refOf (ft.node (FT.descendantForBytes.go ft rs re false f k last)).info =
      vgo lang rs re f (refOf info) (refOf (ft.node last).info)
  | 0, _, _, _, _, _, _, _, _ => by rw [FT.descendantForBytes.go, vgo]
  | f + 1, info, kids, k, par, dep, hg, hq, last => by
    rw [vgo]
    rcases ftgo_step lang ft rs re hr info kids k par dep hg hq f last with ⟨c, vi, vk, e1, hgc, hqc, _, hfind, hnl⟩ | ⟨e1, hx⟩
    · have hf' : (enumRefs lang (refOf info).t (refOf info).start).find? (fun r => decide (r.endByte ≥ re)) = some (refOf vi) := hfind
      rw [e1, hf']
      simp only [hnl, if_false]
      have := ftgo_eq_vgo lang ft rs re hr f vi vk c (some k) (dep + 1) hgc hqc c
      rw [this, good_node ft vi vk c (some k) (dep + 1) hgc]
    · rw [e1]
      cases hfd : (enumRefs lang info.raw info.start).find? (fun r => decide (r.endByte ≥ re)) with
      | none =>
        have hf' : (enumRefs lang (refOf info).t (refOf info).start).find? (fun r => decide (r.endByte ≥ re)) = none := hfd
        rw [hf']
      | some r =>
        have hf' : (enumRefs lang (refOf info).t (refOf info).start).find? (fun r => decide (r.endByte ≥ re)) = some r := hfd
        rw [hfd] at hx
        simp only at hx
        rw [hf']
        simp [hx]

mutual
  /-- The `TSNode`s handed out for a subtree start at or after its start, belong to strictly smaller
  raw subtrees, and are `Sized` if the subtree is. -/
  theorem enumRefs_props (lang : Lang) : ∀ (t : Tree) (start : Length), Sized t → ∀ r ∈ enumRefs lang t start,
      start.bytes ≤ r.startByte ∧ r.t.size < t.size ∧ Sized r.t
    | .mk d kids, start, hs, r, hr => by
      unfold enumRefs at hr
      unfold Sized at hs
      have := enumRefsKids_props lang d.productionId d.addr kids.length kids start 0 0 hs.2 r hr
      simp only [Tree.size]
      exact ⟨this.1, by omega, this.2.2⟩
  theorem enumRefsKids_props (lang : Lang) (pid addr nk : Nat) : ∀ (kids : List Tree) (pos : Length) (si k : Nat), SizedL kids →
      ∀ r ∈ enumRefsKids lang pid addr nk kids pos si k, pos.bytes ≤ r.startByte ∧ r.t.size ≤ Tree.sizeList kids ∧ Sized r.t
    | [], _, _, _, _, r, hr => by simp [enumRefsKids] at hr
    | c :: rest, pos, si, k, hs, r, hr => by
      unfold enumRefsKids at hr
      unfold SizedL at hs
      simp only [List.mem_append] at hr
      simp only [Tree.sizeList]
      have hcs : pos.bytes ≤ (if k > 0 then length_add pos c.data.padding else pos).bytes := by
        split <;> simp [length_add_bytes]
      generalize (if k > 0 then length_add pos c.data.padding else pos) = cstart at hr hcs
      generalize (if c.data.extra = true then 0 else lang.aliasAt pid si) = al at hr
      rcases hr with hr | hr
      · by_cases hrel : ({ t := c, alias := al, id := slotId addr nk k, start := cstart } : NodeRef).relevant lang true = true
        · simp only [hrel, if_true, List.mem_singleton] at hr
          subst hr
          simp only [NodeRef.startByte]
          exact ⟨hcs, by omega, hs.1⟩
        · simp only [hrel, if_false, Bool.false_eq_true] at hr
          have := enumRefs_props lang c _ hs.1 r hr
          exact ⟨by omega, by omega, this.2.2⟩
      · have := enumRefsKids_props lang pid addr nk rest _ _ _ hs.2 r hr
        simp only [length_add_bytes] at this
        exact ⟨by omega, by omega, this.2.2⟩
end

theorem raw_child_size (lang : Lang) (n : NodeRef) (rc : RawChild) (h : rc ∈ rawChildren lang n) : rc.node.t.size < n.t.size := by
  obtain ⟨j, hj⟩ := List.mem_iff_getElem?.mp h
  simp only [rawChildren] at hj
  have he := go_elem lang _ _ _ _ _ _ _ j rc hj
  have := sizeList_mem _ _ (List.mem_of_getElem? he.2.2)
  have := tree_size_kids n.t
  omega

/-- `dfrIdeal` does not depend on the fuel once it covers the raw subtree. -/
theorem dfrIdeal_fuel (lang : Lang) (rs re : Nat) : ∀ (n : Nat) (node : NodeRef), node.t.size ≤ n → ∀ (f1 f2 : Nat) (last : NodeRef),
    node.t.size ≤ f1 → node.t.size ≤ f2 → dfrIdeal lang rs re f1 node last = dfrIdeal lang rs re f2 node last
  | 0, node, hn, _, _, _, _, _ => by have := tree_size_pos node.t; omega
  | n + 1, node, hn, f1, f2, last, h1, h2 => by
    have hpos := tree_size_pos node.t
    obtain ⟨f1', rfl⟩ : ∃ x, f1 = x + 1 := ⟨f1 - 1, by omega⟩
    obtain ⟨f2', rfl⟩ : ∃ x, f2 = x + 1 := ⟨f2 - 1, by omega⟩
    simp only [dfrIdeal]
    cases hf : (rawChildren lang node).find? (spans rs re) with
    | none => rfl
    | some rc =>
      have := raw_child_size lang node rc (find_some_mem _ _ _ hf).1
      exact dfrIdeal_fuel lang rs re n rc.node (by omega) f1' f2' _ (by omega) (by omega)

/-- What `dfrIdeal` does with the raw children still to be scanned / what the visible search does
with the visible children still to be scanned. -/
def dfrL (lang : Lang) (rs re f : Nat) (last : NodeRef) (raws : List RawChild) : NodeRef :=
  match raws.find? (spans rs re) with
  | none => last
  | some rc => dfrIdeal lang rs re f rc.node (if rc.node.relevant lang true then rc.node else last)
def dfrR (lang : Lang) (rs re : Nat) (last : NodeRef) (refs : List NodeRef) : NodeRef :=
  match refs.find? (fun r => decide (r.endByte ≥ re)) with
  | none => last
  | some r => if rs < r.startByte then last else dfrIdeal lang rs re r.t.size r r

theorem dfrL_cons (lang : Lang) (rs re f : Nat) (last : NodeRef) (rc : RawChild) (raws : List RawChild) :
    dfrL lang rs re f last (rc :: raws) =
      if spans rs re rc then dfrIdeal lang rs re f rc.node (if rc.node.relevant lang true then rc.node else last)
      else dfrL lang rs re f last raws := by
  simp only [dfrL, List.find?_cons]
  cases spans rs re rc <;> rfl

theorem dfrR_append (lang : Lang) (rs re : Nat) (last : NodeRef) (a b : List NodeRef) :
    dfrR lang rs re last (a ++ b) =
      match a.find? (fun r => decide (r.endByte ≥ re)) with
      | none => dfrR lang rs re last b
      | some r => if rs < r.startByte then last else dfrIdeal lang rs re r.t.size r r := by
  simp only [dfrR, find_append_or]
  cases a.find? (fun r => decide (r.endByte ≥ re)) <;> rfl

theorem dfrL_none (lang : Lang) (rs re f : Nat) (last : NodeRef) (raws : List RawChild)
    (h : ∀ rc ∈ raws, rs < rc.node.startByte) : dfrL lang rs re f last raws = last := by
  have : raws.find? (spans rs re) = none := by
    apply find_none_of_all
    intro x hx
    have := h x hx
    simp only [spans, Bool.and_eq_false_iff, decide_eq_false_iff_not]
    left; omega
  simp [dfrL, this]

theorem dfrR_after (lang : Lang) (rs re : Nat) (last : NodeRef) (refs : List NodeRef)
    (h : ∀ r ∈ refs, rs < r.startByte) : dfrR lang rs re last refs = last := by
  unfold dfrR
  cases hf : refs.find? (fun r => decide (r.endByte ≥ re)) with
  | none => rfl
  | some r =>
    have := h r (find_some_mem _ _ _ hf).1
    simp [this]

/-- One raw child (`node`, ending at `pa`) against the visible nodes it contributes (`cpart`). -/
theorem dfr_step (lang : Lang) (rs re f : Nat) (hr : rs < re) (last : NodeRef) (rc : RawChild) (raws : List RawChild)
    (cpart refs : List NodeRef) (hpa : rc.posAfter.bytes = rc.node.endByte)
    (hX : if rc.node.relevant lang true then
            cpart = [rc.node] ∧ dfrIdeal lang rs re f rc.node rc.node = dfrIdeal lang rs re rc.node.t.size rc.node rc.node
          else dfrIdeal lang rs re f rc.node last = dfrR lang rs re last cpart)
    (hIH : dfrL lang rs re f last raws = dfrR lang rs re last refs)
    (hF1 : ∀ r ∈ refs, rc.node.endByte ≤ r.startByte)
    (hF2 : ∀ r ∈ cpart, rc.node.startByte ≤ r.startByte ∧ r.endByte ≤ rc.node.endByte)
    (hF3 : ∀ x ∈ raws, rc.node.endByte ≤ x.node.startByte) :
    dfrL lang rs re f last (rc :: raws) = dfrR lang rs re last (cpart ++ refs) := by
  rw [dfrL_cons, dfrR_append]
  by_cases hsp : spans rs re rc = true
  · simp only [hsp, if_true]
    simp only [spans, Bool.and_eq_true, decide_eq_true_eq] at hsp
    by_cases hrel : rc.node.relevant lang true = true
    · simp only [hrel, if_true] at hX ⊢
      rw [hX.1]
      have h1 : decide (rc.node.endByte ≥ re) = true := by simp; omega
      have h2 : ¬ (rs < rc.node.startByte) := by omega
      simp only [List.find?_cons, h1, h2, if_false]
      exact hX.2
    · simp only [hrel, if_false, Bool.false_eq_true] at hX ⊢
      rw [hX]
      unfold dfrR
      cases hf : cpart.find? (fun r => decide (r.endByte ≥ re)) with
      | some r => rfl
      | none =>
        simp only
        have := dfrR_after lang rs re last refs (fun r hr' => by have := hF1 r hr'; omega)
        unfold dfrR at this
        exact this.symm
  · have hsp' : spans rs re rc = false := by simpa using hsp
    simp only [hsp', Bool.false_eq_true, if_false]
    simp only [spans, Bool.and_eq_false_iff, decide_eq_false_iff_not] at hsp'
    by_cases hend : rc.node.endByte < re
    · -- nothing of this child reaches the end of the range
      have hnone : cpart.find? (fun r => decide (r.endByte ≥ re)) = none := by
        apply find_none_of_all
        intro r hr'
        have := (hF2 r hr').2
        simp; omega
      rw [hnone]
      exact hIH
    · -- the child reaches the end of the range but starts after its start: the search ends here
      have hst : rs < rc.node.startByte := by
        rcases hsp' with h | h
        · omega
        · omega
      rw [dfrL_none lang rs re f last raws (fun x hx => by have := hF3 x hx; omega)]
      cases hf : cpart.find? (fun r => decide (r.endByte ≥ re)) with
      | some r =>
        have := (hF2 r (find_some_mem _ _ _ hf).1).1
        have hlt : rs < r.startByte := by omega
        simp [hlt]
      | none =>
        simp only
        exact (dfrR_after lang rs re last refs (fun r hr' => by have := hF1 r hr'; omega)).symm

mutual
  /-- **dfrH.**  On a `Sized` raw subtree and for a non-empty range, `dfrIdeal` (first raw child that
  spans the range, through any number of hidden levels) does what the visible search does: take the
  first VISIBLE child ending at or after `re`; if it starts after `rs` stop, else continue in it. -/
  theorem dfrH (lang : Lang) (rs re : Nat) (hr : rs < re) : ∀ (t : Tree) (al id : Nat) (start : Length) (last : NodeRef) (f : Nat),
      t.size ≤ f → Sized t →
      dfrIdeal lang rs re f ⟨t, al, id, start⟩ last = dfrR lang rs re last (enumRefs lang t start)
    | .mk d kids, al, id, start, last, f, hf, hs => by
      obtain ⟨f', rfl⟩ : ∃ x, f = x + 1 := ⟨f - 1, by simp only [Tree.size] at hf; omega⟩
      unfold Sized at hs
      simp only [Tree.size] at hf
      have := dfrHL lang rs re hr kids ⟨.mk d kids, al, id, start⟩ d.productionId kids.length start 0 0 last f' (by omega) hs.2
      unfold enumRefs
      simp only [data_mk] at this
      rw [← this]
      rfl
  theorem dfrHL (lang : Lang) (rs re : Nat) (hr : rs < re) : ∀ (kids : List Tree) (n : NodeRef) (pid nk : Nat) (pos : Length) (si k : Nat)
      (last : NodeRef) (f : Nat), Tree.sizeList kids ≤ f → SizedL kids →
      dfrL lang rs re f last (rawChildren.go lang n pid nk kids pos si k) =
        dfrR lang rs re last (enumRefsKids lang pid n.t.data.addr nk kids pos si k)
    | [], _, _, _, _, _, _, _, _, _, _ => by simp [rawChildren.go, enumRefsKids, dfrL, dfrR]
    | c :: rest, n, pid, nk, pos, si, k, last, f, hf, hs => by
      unfold SizedL at hs
      simp only [Tree.sizeList] at hf
      rw [go_getElem_zero]
      unfold enumRefsKids
      simp only
      have hF1 := enumRefsKids_props lang pid n.t.data.addr nk rest
        (length_add (if k > 0 then length_add pos c.data.padding else pos) c.data.size) (if c.data.extra then si else si + 1) (k + 1) hs.2
      have hF3 := startsFrom_ge _ _ (go_startsFrom lang n pid nk rest
        (length_add (if k > 0 then length_add pos c.data.padding else pos) c.data.size) (if c.data.extra then si else si + 1) (k + 1))
      have ih := dfrHL lang rs re hr rest n pid nk (length_add (if k > 0 then length_add pos c.data.padding else pos) c.data.size)
        (if c.data.extra then si else si + 1) (k + 1) last f (by omega) hs.2
      generalize (if k > 0 then length_add pos c.data.padding else pos) = cstart at hF1 hF3 ih ⊢
      generalize (if c.data.extra = true then 0 else lang.aliasAt pid si) = al
      generalize (if c.data.extra = true then si else si + 1) = si' at hF1 hF3 ih ⊢
      refine dfr_step lang rs re f hr last _ _ _ _ (by simp [NodeRef.endByte, length_add_bytes]) ?_ ih ?_ ?_ ?_
      · simp only
        by_cases hrel : ({ t := c, alias := al, id := slotId n.t.data.addr nk k, start := cstart } : NodeRef).relevant lang true = true
        · simp only [hrel, if_true, true_and]
          exact dfrIdeal_fuel lang rs re c.size _ (Nat.le_refl _) f c.size _ (by simp; omega) (Nat.le_refl _)
        · simp only [hrel, if_false, Bool.false_eq_true]
          exact dfrH lang rs re hr c al _ cstart last f (by omega) hs.1
      · intro r hr'
        have := (hF1 r hr').1
        simp only [NodeRef.endByte, length_add_bytes] at this ⊢
        exact this
      · intro r hr'
        by_cases hrel : ({ t := c, alias := al, id := slotId n.t.data.addr nk k, start := cstart } : NodeRef).relevant lang true = true
        · simp only [hrel, if_true, List.mem_singleton] at hr'
          subst hr'
          exact ⟨Nat.le_refl _, Nat.le_refl _⟩
        · simp only [hrel, if_false, Bool.false_eq_true] at hr'
          have h1 := (enumRefs_props lang c cstart hs.1 r hr').1
          have h2 := enumRefs_within lang c cstart hs.1 r hr'
          simp only [NodeRef.startByte, NodeRef.endByte] at h1 h2 ⊢
          exact ⟨h1, h2⟩
      · intro x hx
        have := hF3 x hx
        simp only [NodeRef.endByte, length_add_bytes] at this ⊢
        exact this
end

/-- The visible search on `TSNode`s is `dfrIdeal` (fuel covering the raw subtree, `Sized` tree,
non-empty range). -/
theorem vgo_eq_dfr (lang : Lang) (rs re : Nat) (hr : rs < re) : ∀ (m : Nat) (self last : NodeRef) (F : Nat),
    self.t.size ≤ m → self.t.size ≤ F → Sized self.t → vgo lang rs re F self last = dfrIdeal lang rs re F self last
  | 0, self, _, _, hm, _, _ => by have := tree_size_pos self.t; omega
  | m + 1, self, last, F, hm, hF, hs => by
    have hpos := tree_size_pos self.t
    obtain ⟨F', rfl⟩ : ∃ x, F = x + 1 := ⟨F - 1, by omega⟩
    obtain ⟨t, al, id, start⟩ := self
    rw [dfrH lang rs re hr t al id start last (F' + 1) hF hs, vgo]
    unfold dfrR
    simp only
    cases hf : (enumRefs lang t start).find? (fun r => decide (r.endByte ≥ re)) with
    | none => rfl
    | some r =>
      simp only
      by_cases hlt : rs < r.startByte
      · simp [hlt]
      · simp only [hlt, if_false]
        have hp := enumRefs_props lang t start hs r (find_some_mem _ _ _ hf).1
        simp only at hm hF
        rw [vgo_eq_dfr lang rs re hr m r r F' (by omega) (by omega) hp.2.2]
        exact dfrIdeal_fuel lang rs re r.t.size r (Nat.le_refl _) F' r.t.size r (by omega) (Nat.le_refl _)

/-- **descendant_for_byte_range_ft_spec.**  The evaluated cross-check `dfrIdeal = FT.descendantForBytes`
as a theorem, in the form the driver evaluates it: root summarized and parser-shaped, `ft` the preorder
array of `flatten`, `rootRef` the `TSNode` of entry 0, a NON-EMPTY byte range and fuel covering the raw
tree: the port of `ts_node_descendant_for_byte_range(rootRef, rs, re)` returns exactly the `TSNode` of
the entry `FT.descendantForBytes 0 rs re` designates. -/
theorem descendant_for_byte_range_ft_spec (lang : Lang) (root : Tree) (rootId : Nat) (ps : Option Nat) (fuel rs re : Nat)
    (hs : Summarized lang root) (hsh : shapeOK ps root = true) (hr : rs < re) :
    let ft : FT := flatOf (flatten lang root rootId)
    root.size ≤ fuel →
    descendantForByteRangePort lang fuel (refOf (ft.node 0).info) rs re true =
      (ft.descendantForBytes 0 rs re false).map (fun j => refOf (ft.node j).info) := by
  intro ft hfuel
  have hg0 := flatOf_good (flatten lang root rootId)
  have hq0 := flatten_qq lang root rootId ps hs hsh
  have hraw := (flatten_hered lang root rootId).2
  have hsize := flatOf_size (flatten lang root rootId)
  cases hv : flatten lang root rootId with
  | mk info kids =>
    rw [hv] at hg0 hq0 hraw hsize
    have hfte : ft = flatOf (VTree.mk info kids) := by simp only [ft, hv]
    rw [← hfte] at hg0 hsize
    simp only [VTree.info] at hraw
    have hnode : (ft.node 0).info = info := by rw [good_node ft info kids 0 none 0 hg0]
    rw [hnode, descendant_for_byte_range_spec_partial lang fuel (refOf info) rs re hr]
    have hng : ¬ (rs > re) := by omega
    simp only [FT.descendantForBytes, hng, if_false, Option.map_some, Option.some.injEq]
    have hsz : Sized root := sized_of_summarized lang root hs
    have hft : Array.size ft = vsize (.mk info kids) := hsize
    rw [ftgo_fuel lang ft rs re (vsize (.mk info kids)) info kids 0 none 0 hg0 (Nat.le_refl _) (Array.size ft) (Array.size ft + root.size) 0
      (by omega) (by omega)]
    rw [ftgo_eq_vgo lang ft rs re hr _ info kids 0 none 0 hg0 hq0 0, hnode]
    have hrt : (refOf info).t = root := hraw
    rw [vgo_eq_dfr lang rs re hr root.size (refOf info) (refOf info) _ (by rw [hrt]; exact Nat.le_refl _) (by rw [hrt]; omega) (by rw [hrt]; exact hsz)]
    exact dfrIdeal_fuel lang rs re root.size (refOf info) (by rw [hrt]; exact Nat.le_refl _) _ _ _ (by rw [hrt]; omega) (by rw [hrt]; omega)

/-! ## Non-vacuity (demo tree of `NodeProps.lean`: root → [a, hidden h → [v → [b], c], d]) -/

/-- The hypotheses of `nav_ft_spec` hold for the leaf `c` below the hidden `h`. -/
example := nav_ft_spec C02.demoLang 8 pvRoot pvC [1, 1] none (by simp) (by simp) (by decide)
  pvRoot_summarized pvRoot_shape rfl (by decide) (by decide) (by decide) (by decide)
/-- … and the array is what one expects: preorder ids, parents, children lists. -/
example : (pre (flatten C02.demoLang pvRoot.t pvRoot.id) none 0 0).map (fun f => (f.info.id, f.parent, f.kids.toList)) =
    [(1, none, [1, 2, 4, 5]), (976, some 0, []), (1984, some 0, [3]), (2992, some 2, []), (1992, some 0, []), (992, some 0, [])] := by decide

theorem ft_node_zero (t : VTree) : (FT.node (flatOf t) 0).info = t.info := by
  obtain ⟨info, kids⟩ := t
  rw [good_node (flatOf (.mk info kids)) info kids 0 none 0 (flatOf_good _)]
  rfl

/-- The hypotheses of the two `FT` theorems about byte searches hold on the demo tree (entry 0 = root,
goal byte 1 / range [1, 2]). -/
example := first_child_for_byte_ft_spec C02.demoLang pvRoot.t pvRoot.id none 8 0 1 pvRoot_summarized pvRoot_shape
  (by rw [flatOf_size]; decide) (by rw [ft_node_zero]; decide) (by rw [ft_node_zero]; decide)
example := descendant_for_byte_range_ft_spec C02.demoLang pvRoot.t pvRoot.id none 8 1 2 pvRoot_summarized pvRoot_shape (by decide) (by decide)

end TsVerif.C06
