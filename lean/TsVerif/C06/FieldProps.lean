import TsVerif.C06.FlatProps
/-!
C06, node.c: `ts_node_child_by_field_id`.

`child_by_field_id_spec_partial`: for every language, every summarized parser-shaped subtree and every
field `f ≠ 0`, under the decidable premise `cbfOK lang f t` the port returns the first visible child of
the node, in the order of `ts_node_child`, whose field chain (its own structural slot in its raw parent,
then the slots of the hidden ancestors below the node — what `flatten` records and
`ts_node_field_name_for_child` / `ts_tree_cursor_current_field_id` report) contains `f`.

The premise has a LANGUAGE part — per production and field the entries have strictly increasing child
indices (`entriesSorted`; `fieldMapsSorted` is the same for the whole table and is evaluated once per
language dump) — and a TREE part about the meaning of `inherited`: an inherited entry points at a hidden
child only, every hidden child that contains a node carrying `f` has an entry (fails below ERROR nodes,
finding 8), and a directly tagged hidden child does not begin with an extra.  Everything is evaluated for
every (node, field) pair of every real tree by the driver.
-/
open TsVerif TsVerif.C02 TsGen

namespace TsVerif.C06


theorem cbf_unfold (lang : Lang) (fuel : Nat) (self : NodeRef) (f : Nat) :
    childByFieldIdPort lang (fuel + 1) self f =
      (if f == 0 || self.childCount == 0 then none else
       if (fieldEntries lang self.t.data.productionId f).isEmpty then none else
       childByFieldIdPort.scan lang f fuel (rawChildren lang self) (fieldEntries lang self.t.data.productionId f)) := by
  rw [childByFieldIdPort]
  rfl

theorem cbf_zero (lang : Lang) (self : NodeRef) (f : Nat) : childByFieldIdPort lang 0 self f = none := by
  rw [childByFieldIdPort]

theorem cbfScan_nil (lang : Lang) (f fuel : Nat) (ms : List FieldEntry) : childByFieldIdPort.scan lang f fuel [] ms = none := by
  rw [childByFieldIdPort.scan]

theorem cbfScan_nil_ms (lang : Lang) (f fuel : Nat) (raws : List RawChild) : childByFieldIdPort.scan lang f fuel raws [] = none := by
  cases raws with
  | nil => rw [childByFieldIdPort.scan]
  | cons a b => rw [childByFieldIdPort.scan]; simp

theorem cbfScan_cons (lang : Lang) (f fuel : Nat) (rc : RawChild) (rest : List RawChild) (m : FieldEntry) (ms : List FieldEntry) :
    childByFieldIdPort.scan lang f fuel (rc :: rest) (m :: ms) =
      (if rc.node.t.data.extra then childByFieldIdPort.scan lang f fuel rest (m :: ms)
       else if rc.si < m.childIndex then childByFieldIdPort.scan lang f fuel rest (m :: ms)
       else if m.inherited then
         (if ms.isEmpty then childByFieldIdPort lang fuel rc.node f
          else match childByFieldIdPort lang fuel rc.node f with
            | some r => some r
            | none => childByFieldIdPort.scan lang f fuel rest ms)
       else if rc.node.relevant lang true then some rc.node
       else if rc.node.childCount > 0 then nodeChild lang true rc.node.t rc.node.start 0
       else childByFieldIdPort.scan lang f fuel rest ms) := by
  rw [childByFieldIdPort.scan]
  cases childByFieldIdPort lang fuel rc.node f <;> rfl


/-! ### list / table lemmas -/

theorem hasF_cons (f : Nat) (a : List Nat) (o : List (List Nat)) : hasF f (a :: o) = (a.contains f || hasF f o) := by
  simp [hasF]

def fproj (f : Nat) (x : Tree × Nat × List (List Nat)) : Tree × Nat × Bool := (x.1, x.2.1, hasF f x.2.2)

mutual
  /-- Whether the visible children of a subtree carry `f` depends on the chain above only through
  whether THAT chain carries `f`. -/
  theorem enumF_outer (lang : Lang) (f : Nat) : ∀ (t : Tree) (o1 o2 : List (List Nat)), hasF f o1 = hasF f o2 →
      (enumF lang t o1).map (fproj f) = (enumF lang t o2).map (fproj f)
    | .mk d kids, o1, o2, h => by unfold enumF; exact enumKidsF_outer lang f d.productionId kids 0 o1 o2 h
  theorem enumKidsF_outer (lang : Lang) (f pid : Nat) : ∀ (kids : List Tree) (si : Nat) (o1 o2 : List (List Nat)), hasF f o1 = hasF f o2 →
      (enumKidsF lang pid kids si o1).map (fproj f) = (enumKidsF lang pid kids si o2).map (fproj f)
    | [], _, _, _, _ => by simp [enumKidsF]
    | c :: rest, si, o1, o2, h => by
      unfold enumKidsF
      simp only [List.map_append]
      rw [enumKidsF_outer lang f pid rest _ o1 o2 h]
      congr 1
      have hc : hasF f (if c.data.extra then [] else directFields lang pid si :: o1) =
          hasF f (if c.data.extra then [] else directFields lang pid si :: o2) := by
        by_cases hx : c.data.extra = true
        · simp [hx]
        · simp only [hx, if_false, Bool.false_eq_true, hasF_cons, h]
      by_cases hv : (c.data.visible || (if c.data.extra then 0 else lang.aliasAt pid si) != 0) = true
      · simp only [hv, if_true, List.map_cons, List.map_nil, fproj, hc]
      · simp only [hv, if_false, Bool.false_eq_true]
        exact enumF_outer lang f c _ _ hc
end

theorem find_fproj (f : Nat) : ∀ (A B : List (Tree × Nat × List (List Nat))), A.map (fproj f) = B.map (fproj f) →
    (A.find? (fun x => hasF f x.2.2)).map (fun x => (x.1, x.2.1)) = (B.find? (fun x => hasF f x.2.2)).map (fun x => (x.1, x.2.1))
  | [], [], _ => rfl
  | [], _ :: _, h => by simp at h
  | _ :: _, [], h => by simp at h
  | a :: A, b :: B, h => by
    simp only [List.map_cons, List.cons.injEq, fproj, Prod.mk.injEq] at h
    simp only [List.find?_cons, h.1.2.2]
    split
    · simp [h.1.1, h.1.2.1]
    · exact find_fproj f A B h.2

theorem sorted_lt : ∀ (a : FieldEntry) (r : List FieldEntry), entriesSorted (a :: r) = true → ∀ b ∈ r, a.childIndex < b.childIndex
  | _, [], _, _, hb => by simp at hb
  | a, c :: r, h, b, hb => by
    unfold entriesSorted at h
    simp only [Bool.and_eq_true, decide_eq_true_eq] at h
    simp only [List.mem_cons] at hb
    rcases hb with hb | hb
    · subst hb; exact h.1
    · have := sorted_lt c r h.2 b hb; omega

theorem sorted_tail : ∀ (a : FieldEntry) (r : List FieldEntry), entriesSorted (a :: r) = true → entriesSorted r = true
  | _, [], _ => rfl
  | a, c :: r, h => by
    unfold entriesSorted at h
    simp only [Bool.and_eq_true] at h
    exact h.2

theorem entryAt_some (es : List FieldEntry) (i : Nat) (m : FieldEntry) (h : entryAt es i = some m) : m ∈ es ∧ m.childIndex = i := by
  have := find_some_mem _ _ _ h
  exact ⟨this.1, by simpa using this.2⟩

theorem entryAt_unique : ∀ (es : List FieldEntry), entriesSorted es = true → ∀ (e : FieldEntry) (i : Nat), e ∈ es → e.childIndex = i →
    entryAt es i = some e
  | [], _, _, _, he, _ => by simp at he
  | a :: r, hs, e, i, he, hi => by
    simp only [entryAt, List.find?_cons]
    simp only [List.mem_cons] at he
    rcases he with he | he
    · subst he; simp [hi]
    · have hlt := sorted_lt a r hs e he
      have : (a.childIndex == i) = false := by simp; omega
      simp only [this]
      exact entryAt_unique r (sorted_tail a r hs) e i he hi

/-- A direct field of structural child `si` = a non-inherited entry at `si` (the only entry there). -/
theorem direct_iff (lang : Lang) (pid f si : Nat) (hs : entriesSorted (fieldEntries lang pid f) = true) :
    (directFields lang pid si).contains f =
      (match entryAt (fieldEntries lang pid f) si with | some m => !m.inherited | none => false) := by
  cases he : entryAt (fieldEntries lang pid f) si with
  | none =>
    simp only
    rw [Bool.eq_false_iff]
    intro hc
    simp only [directFields, List.contains_iff_mem, List.mem_map, List.mem_filter, Bool.and_eq_true, Bool.not_eq_true', beq_iff_eq] at hc
    obtain ⟨e, ⟨hm, hni, hci⟩, hfid⟩ := hc
    have hin : e ∈ fieldEntries lang pid f := by simp [fieldEntries, hm, hfid]
    have := entryAt_unique _ hs e si hin hci
    rw [he] at this
    simp at this
  | some m =>
    simp only
    obtain ⟨hm, hci⟩ := entryAt_some _ _ _ he
    have hm' := hm
    simp only [fieldEntries, List.mem_filter, beq_iff_eq] at hm'
    cases hinh : m.inherited with
    | false =>
      simp only [Bool.not_false]
      simp only [directFields, List.contains_iff_mem, List.mem_map, List.mem_filter, Bool.and_eq_true, Bool.not_eq_true', beq_iff_eq]
      exact ⟨m, ⟨hm'.1, hinh, hci⟩, hm'.2⟩
    | true =>
      simp only [Bool.not_true]
      rw [Bool.eq_false_iff]
      intro hc
      simp only [directFields, List.contains_iff_mem, List.mem_map, List.mem_filter, Bool.and_eq_true, Bool.not_eq_true', beq_iff_eq] at hc
      obtain ⟨e, ⟨hme, hni, hcie⟩, hfid⟩ := hc
      have hin : e ∈ fieldEntries lang pid f := by simp [fieldEntries, hme, hfid]
      have := entryAt_unique _ hs e si hin hcie
      rw [he] at this
      simp only [Option.some.injEq] at this
      subst this
      rw [hinh] at hni
      cases hni


theorem find_hasF_none_of_all (f : Nat) (L : List (Tree × Nat × List (List Nat))) (h : L.all (fun x => !hasF f x.2.2) = true) :
    L.find? (fun x => hasF f x.2.2) = none := by
  apply find_none_of_all
  intro x hx
  have := List.all_eq_true.mp h x hx
  simpa using this

theorem find_proj_none {α β : Type} (p : α → Bool) (g : α → β) (L : List α) (h : (L.find? p).map g = none) : L.find? p = none := by
  cases hf : L.find? p with
  | none => rfl
  | some x => rw [hf] at h; simp at h

/-- What one child contributes when the table has NO entry of `f` for it (or it is extra): nothing. -/
theorem cbf_child_none (lang : Lang) (f pid : Nat) (hsE : entriesSorted (fieldEntries lang pid f) = true) (c : Tree) (si : Nat)
    (outer : List (List Nat)) (ho : hasF f outer = false)
    (hprem : if c.data.extra then (c.data.visible || (enumF lang c []).all (fun x => !hasF f x.2.2)) = true
             else entryAt (fieldEntries lang pid f) si = none ∧
               ((c.data.visible || lang.aliasAt pid si != 0) = false → (enumF lang c []).all (fun x => !hasF f x.2.2) = true)) :
    (if c.data.visible || (if c.data.extra then 0 else lang.aliasAt pid si) != 0 then
        [(c, (if c.data.extra then 0 else lang.aliasAt pid si), (if c.data.extra then [] else directFields lang pid si :: outer))]
      else enumF lang c (if c.data.extra then [] else directFields lang pid si :: outer)).find? (fun x => hasF f x.2.2) = none := by
  by_cases hx : c.data.extra = true
  · simp only [hx, if_true, bne_self_eq_false, Bool.or_false] at hprem ⊢
    by_cases hv : c.data.visible = true
    · simp [hv, hasF]
    · simp only [hv, Bool.false_or, Bool.false_eq_true, if_false] at hprem ⊢
      exact find_hasF_none_of_all f _ hprem
  · simp only [hx, if_false, Bool.false_eq_true] at hprem ⊢
    have hd := direct_iff lang pid f si hsE
    rw [hprem.1] at hd
    simp only at hd
    have hch : hasF f (directFields lang pid si :: outer) = false := by rw [hasF_cons, hd, ho]; rfl
    by_cases hv : (c.data.visible || lang.aliasAt pid si != 0) = true
    · simp [hv, hch]
    · simp only [hv, if_false, Bool.false_eq_true]
      have hall := hprem.2 (by simpa using hv)
      have hA := enumF_outer lang f c (directFields lang pid si :: outer) [] (by rw [hch]; rfl)
      have hfp := find_fproj f _ _ hA
      rw [find_hasF_none_of_all f _ hall] at hfp
      exact find_proj_none _ _ _ hfp

/-- Children for which the table has no entry of `f` at all contribute nothing. -/
theorem cbf_no_entries (lang : Lang) (f pid : Nat) (hsE : entriesSorted (fieldEntries lang pid f) = true) :
    ∀ (kids : List Tree) (si : Nat) (outer : List (List Nat)),
    (∀ i, si ≤ i → entryAt (fieldEntries lang pid f) i = none) → cbfOKKids lang f pid (fieldEntries lang pid f) kids si = true →
    hasF f outer = false → (enumKidsF lang pid kids si outer).find? (fun x => hasF f x.2.2) = none
  | [], _, _, _, _, _ => by simp [enumKidsF]
  | c :: rest, si, outer, hno, hok, ho => by
    unfold enumKidsF
    unfold cbfOKKids at hok
    simp only [find_append_or]
    by_cases hx : c.data.extra = true
    · simp only [hx, if_true, Bool.and_eq_true] at hok
      rw [cbf_child_none lang f pid hsE c si outer ho (by simp only [hx, if_true]; exact hok.1)]
      simp only [hx, if_true, Option.none_or]
      exact cbf_no_entries lang f pid hsE rest si outer hno hok.2 ho
    · simp only [hx, if_false, Bool.false_eq_true, Bool.and_eq_true] at hok
      have hn := hno si (Nat.le_refl _)
      rw [cbf_child_none lang f pid hsE c si outer ho (by
        simp only [hx, if_false, Bool.false_eq_true]
        refine ⟨hn, ?_⟩
        intro hv
        have h1 := hok.1
        rw [hn] at h1
        simpa [hv] using h1)]
      simp only [hx, if_false, Bool.false_eq_true, Option.none_or]
      exact cbf_no_entries lang f pid hsE rest (si + 1) outer (fun i hi => hno i (by omega)) hok.2 ho


theorem enumChildren_nil_of_childCount (lang : Lang) (n : NodeRef) (ps : Option Nat) (hs : Summarized lang n.t) (hsh : shapeOK ps n.t = true)
    (hcc : ¬ (n.childCount > 0)) : enumChildren lang n.t = [] := by
  have hcnt := (summarize_counts lang n.t ps hs hsh).1
  simp only [NodeRef.childCount] at hcc
  by_cases hk : n.t.kids.length > 0
  · simp only [hk, if_true] at hcc
    have : n.t.data.visibleChildCount = 0 := by omega
    rw [this] at hcnt
    exact List.eq_nil_of_length_eq_zero hcnt.symm
  · obtain ⟨t, al, id, st⟩ := n
    obtain ⟨cd, ck⟩ := t
    simp only [kids_mk] at hk
    have : ck = [] := List.eq_nil_of_length_eq_zero (by omega)
    subst this
    simp [enumChildren, enumKids]

theorem enumF_nil_of_enum (lang : Lang) (t : Tree) (o : List (List Nat)) (h : enumChildren lang t = []) : enumF lang t o = [] := by
  have := enumF_proj lang t o
  rw [h] at this
  exact List.map_eq_nil_iff.mp this

theorem entryAt_cons_ne (m : FieldEntry) (ms : List FieldEntry) (i : Nat) (h : m.childIndex ≠ i) : entryAt (m :: ms) i = entryAt ms i := by
  simp [entryAt, List.find?_cons, h]

theorem entryAt_none_of_gt : ∀ (ms : List FieldEntry) (i : Nat), (∀ m ∈ ms, i < m.childIndex) → entryAt ms i = none
  | [], _, _ => rfl
  | m :: ms, i, h => by
    rw [entryAt_cons_ne m ms i (by have := h m (by simp); omega)]
    exact entryAt_none_of_gt ms i (fun x hx => h x (by simp [hx]))

/-- The scan of `ts_node_child_by_field_id` over the children from structural index `si` on, with the
entries `ms` still to be consumed, against the first visible child carrying `f`. -/
theorem cbf_scan_spec (lang : Lang) (f fuel : Nat)
    (ihT : ∀ (t : Tree) (al id : Nat) (st : Length) (ps : Option Nat), t.size ≤ fuel → Summarized lang t → shapeOK ps t = true →
      cbfOK lang f t = true → (childByFieldIdPort lang fuel ⟨t, al, id, st⟩ f).map (fun r => (r.t, r.alias)) = cbfSpec lang f t) :
    ∀ (kids : List Tree) (n : NodeRef) (pid nk : Nat) (pos : Length) (si k : Nat) (ms : List FieldEntry) (outer : List (List Nat))
      (ps : Option Nat), Tree.sizeList kids ≤ fuel → SummarizedL lang kids → shapeOKL ps kids = true →
      entriesSorted (fieldEntries lang pid f) = true → entriesSorted ms = true → (∀ m ∈ ms, si ≤ m.childIndex) →
      (∀ i, si ≤ i → entryAt (fieldEntries lang pid f) i = entryAt ms i) →
      cbfOKKids lang f pid (fieldEntries lang pid f) kids si = true → hasF f outer = false →
      (childByFieldIdPort.scan lang f fuel (rawChildren.go lang n pid nk kids pos si k) ms).map (fun r => (r.t, r.alias)) =
        ((enumKidsF lang pid kids si outer).find? (fun x => hasF f x.2.2)).map (fun x => (x.1, x.2.1))
  | [], _, _, _, _, _, _, _, _, _, _, _, _, _, _, _, _, _, _ => by simp [rawChildren.go, cbfScan_nil, enumKidsF]
  | c :: rest, n, pid, nk, pos, si, k, [], outer, ps, _, _, _, hsE, _, _, hE, hok, ho => by
    rw [cbfScan_nil_ms]
    rw [cbf_no_entries lang f pid hsE (c :: rest) si outer (fun i hi => by rw [hE i hi]; rfl) hok ho]
    rfl
  | c :: rest, n, pid, nk, pos, si, k, m :: ms, outer, ps, hfu, hs, hsh, hsE, hsm, hge, hE, hok, ho => by
    unfold SummarizedL at hs
    unfold shapeOKL at hsh
    simp only [Bool.and_eq_true] at hsh
    simp only [Tree.sizeList] at hfu
    rw [go_getElem_zero, cbfScan_cons]
    unfold enumKidsF
    have hokc := hok
    unfold cbfOKKids at hok
    simp only [find_append_or]
    have ihR := cbf_scan_spec lang f fuel ihT rest n pid nk
    by_cases hx : c.data.extra = true
    · -- an extra child is skipped
      simp only [hx, if_true, Bool.and_eq_true] at hok ⊢
      have hnone := cbf_child_none lang f pid hsE c si outer ho (by simp only [hx, if_true]; exact hok.1)
      simp only [hx, if_true] at hnone
      rw [hnone]
      simp only [Option.none_or]
      exact ihR _ si (k + 1) (m :: ms) outer ps (by omega) hs.2 hsh.2 hsE hsm hge hE hok.2 ho
    · simp only [hx, if_false, Bool.false_eq_true, Bool.and_eq_true] at hok ⊢
      by_cases hlt : si < m.childIndex
      · -- no entry for this child
        simp only [hlt, if_true]
        have hnE : entryAt (fieldEntries lang pid f) si = none := by
          rw [hE si (Nat.le_refl _)]
          apply entryAt_none_of_gt
          intro x hx'
          simp only [List.mem_cons] at hx'
          rcases hx' with h | h
          · subst h; exact hlt
          · have := sorted_lt m ms hsm x h; omega
        have hnone := cbf_child_none lang f pid hsE c si outer ho (by
          simp only [hx, if_false, Bool.false_eq_true]
          refine ⟨hnE, ?_⟩
          intro hv
          have h1 := hok.1
          rw [hnE] at h1
          simpa [hv] using h1)
        simp only [hx, if_false, Bool.false_eq_true] at hnone
        rw [hnone]
        simp only [Option.none_or]
        exact ihR _ (si + 1) (k + 1) (m :: ms) outer ps (by omega) hs.2 hsh.2 hsE hsm
          (fun x hx' => by
            simp only [List.mem_cons] at hx'
            rcases hx' with h | h
            · subst h; omega
            · have := sorted_lt m ms hsm x h; omega)
          (fun i hi => hE i (by omega)) hok.2 ho
      · -- the entry `m` is for this child
        have hmi : m.childIndex = si := by have := hge m (by simp); omega
        have hEm : entryAt (fieldEntries lang pid f) si = some m := by
          rw [hE si (Nat.le_refl _)]; simp [entryAt, hmi]
        have hsm' := sorted_tail m ms hsm
        have hge' : ∀ x ∈ ms, si + 1 ≤ x.childIndex := fun x hx' => by have := sorted_lt m ms hsm x hx'; omega
        have hE' : ∀ i, si + 1 ≤ i → entryAt (fieldEntries lang pid f) i = entryAt ms i := fun i hi => by
          rw [hE i (by omega), entryAt_cons_ne m ms i (by omega)]
        have ihR' := ihR (length_add (if k > 0 then length_add pos c.data.padding else pos) c.data.size) (si + 1) (k + 1) ms outer ps
          (by omega) hs.2 hsh.2 hsE hsm' hge' hE' hok.2 ho
        have hd := direct_iff lang pid f si hsE
        rw [hEm] at hd
        simp only at hd
        simp only [hlt, if_false]
        have h1 := hok.1
        rw [hEm] at h1
        simp only at h1
        have hsc := hs.1
        have hshc := hsh.1
        by_cases hinh : m.inherited = true
        · -- inherited: the search continues inside the (hidden) child
          simp only [hinh, if_true]
          have hvis : (c.data.visible || lang.aliasAt pid si != 0) = false := by
            by_cases hv : (c.data.visible || lang.aliasAt pid si != 0) = true
            · simp [hv, hinh] at h1
            · simpa using hv
          simp only [hvis, Bool.false_eq_true, if_false, hinh, if_true] at h1 ⊢
          have hch : hasF f (directFields lang pid si :: outer) = false := by rw [hasF_cons, hd, ho, hinh]; rfl
          have hR := ihT c (lang.aliasAt pid si) (slotId n.t.data.addr nk k) (if k > 0 then length_add pos c.data.padding else pos) ps
            (by omega) hsc hshc h1
          have hA := find_fproj f _ _ (enumF_outer lang f c (directFields lang pid si :: outer) [] (by rw [hch]; rfl))
          simp only [cbfSpec] at hR
          rw [← hA] at hR
          by_cases hme : ms.isEmpty = true
          · simp only [hme, if_true]
            rw [hR]
            cases hfc : (enumF lang c (directFields lang pid si :: outer)).find? (fun x => hasF f x.2.2) with
            | some x => simp
            | none =>
              simp only [Option.map_none, Option.none_or]
              have : ms = [] := by cases ms <;> simp_all
              subst this
              rw [cbf_no_entries lang f pid hsE rest (si + 1) outer (fun i hi => by rw [hE' i hi]; rfl) hok.2 ho]
              rfl
          · simp only [hme, if_false, Bool.false_eq_true]
            cases hr : childByFieldIdPort lang fuel ⟨c, lang.aliasAt pid si, slotId n.t.data.addr nk k, (if k > 0 then length_add pos c.data.padding else pos)⟩ f with
            | some r =>
              rw [hr] at hR
              simp only [Option.map_some] at hR ⊢
              cases hfc : (enumF lang c (directFields lang pid si :: outer)).find? (fun x => hasF f x.2.2) with
              | some x => rw [hfc] at hR; simpa using hR
              | none => rw [hfc] at hR; simp at hR
            | none =>
              rw [hr] at hR
              simp only [Option.map_none] at hR
              have := find_proj_none _ _ _ hR.symm
              rw [this]
              simp only [Option.none_or]
              exact ihR'
        · -- a direct entry
          have hinh' : m.inherited = false := by simpa using hinh
          simp only [hinh', Bool.false_eq_true, if_false, Bool.not_false] at h1 hd ⊢
          have hch : hasF f (directFields lang pid si :: outer) = true := by rw [hasF_cons, hd]; rfl
          by_cases hv : (c.data.visible || lang.aliasAt pid si != 0) = true
          · -- the child itself
            have hrel : NodeRef.relevant lang ⟨c, lang.aliasAt pid si, slotId n.t.data.addr nk k, (if k > 0 then length_add pos c.data.padding else pos)⟩ true = true := by
              simpa [NodeRef.relevant, isRelevant] using hv
            simp [hrel, hv, hch]
          · have hv' : (c.data.visible || lang.aliasAt pid si != 0) = false := by simpa using hv
            have hrel : NodeRef.relevant lang ⟨c, lang.aliasAt pid si, slotId n.t.data.addr nk k, (if k > 0 then length_add pos c.data.padding else pos)⟩ true = false := by
              simpa [NodeRef.relevant, isRelevant] using hv'
            simp only [hrel, hv', Bool.false_eq_true, if_false] at h1 ⊢
            have hA := enumF_outer lang f c (directFields lang pid si :: outer) [[f]] (by rw [hch]; simp [hasF])
            by_cases hcc : NodeRef.childCount ⟨c, lang.aliasAt pid si, slotId n.t.data.addr nk k, (if k > 0 then length_add pos c.data.padding else pos)⟩ > 0
            · -- hidden with visible children: the first one
              simp only [hcc, if_true]
              rw [child_spec lang c ps _ 0 hsc hshc]
              have hne : enumChildren lang c ≠ [] := by
                apply enum_ne_nil_of_vcc lang c ps hsc hshc
                simp only [NodeRef.childCount] at hcc
                unfold vcc
                by_cases hk : c.kids.length > 0
                · simp only [hk, if_true] at hcc
                  have : c.kids.isEmpty = false := by cases hkk : c.kids <;> simp_all
                  simp [this]; exact hcc
                · simp [hk] at hcc
              cases hl : enumF lang c [[f]] with
              | nil =>
                have := enumF_proj lang c [[f]]
                rw [hl] at this
                exact absurd this.symm (by simpa using hne)
              | cons x xs =>
                rw [hl] at h1 hA
                simp only [List.head?_cons] at h1
                cases hl2 : enumF lang c (directFields lang pid si :: outer) with
                | nil => rw [hl2] at hA; simp at hA
                | cons y ys =>
                  rw [hl2] at hA
                  simp only [List.map_cons, List.cons.injEq, fproj, Prod.mk.injEq] at hA
                  have hy : hasF f y.2.2 = true := by rw [hA.1.2.2]; exact h1
                  simp only [List.find?_cons, hy, Option.some_or, Option.map_some]
                  have hp := enumF_proj lang c (directFields lang pid si :: outer)
                  rw [hl2] at hp
                  rw [← hp]
                  simp
            · -- hidden without visible children: next entry
              simp only [hcc, if_false]
              have hnil := enumChildren_nil_of_childCount lang ⟨c, lang.aliasAt pid si, slotId n.t.data.addr nk k, (if k > 0 then length_add pos c.data.padding else pos)⟩ ps hsc hshc hcc
              rw [enumF_nil_of_enum lang c _ hnil]
              simp only [List.find?_nil, Option.none_or]
              exact ihR'

/-- **child_by_field_id_spec_partial.**  For every language, every summarized parser-shaped subtree and
every field `f ≠ 0`: under the premise `cbfOK` (the entries of `f` are sorted by child index at every
node the search enters; inherited entries point at hidden children only and are complete; a directly
tagged hidden child does not begin with an extra), the port of `ts_node_child_by_field_id(self, f)`
returns the FIRST visible child of `self`, in order, whose field chain contains `f` — null iff none. -/
theorem child_by_field_id_spec_partial (lang : Lang) (f : Nat) (hf0 : f ≠ 0) : ∀ (fuel : Nat) (t : Tree) (al id : Nat) (st : Length)
    (ps : Option Nat), t.size ≤ fuel → Summarized lang t → shapeOK ps t = true → cbfOK lang f t = true →
    (childByFieldIdPort lang fuel ⟨t, al, id, st⟩ f).map (fun r => (r.t, r.alias)) = cbfSpec lang f t
  | 0, t, _, _, _, _, hf, _, _, _ => by have := tree_size_pos t; omega
  | fuel + 1, .mk d kids, al, id, st, ps, hf, hs, hsh, hok => by
    rw [cbf_unfold]
    have hf0' : (f == 0) = false := by simpa using hf0
    simp only [hf0', Bool.false_or, data_mk]
    unfold cbfOK at hok
    simp only [Bool.and_eq_true] at hok
    unfold cbfSpec enumF
    by_cases hcc : NodeRef.childCount ⟨.mk d kids, al, id, st⟩ = 0
    · have : (NodeRef.childCount ⟨.mk d kids, al, id, st⟩ == 0) = true := by simp [hcc]
      simp only [this, if_true, Option.map_none]
      have hnil := enumChildren_nil_of_childCount lang ⟨.mk d kids, al, id, st⟩ ps hs hsh (by omega)
      have := enumF_nil_of_enum lang (.mk d kids) [] hnil
      unfold enumF at this
      rw [this]
      rfl
    · have : (NodeRef.childCount ⟨.mk d kids, al, id, st⟩ == 0) = false := by simp [hcc]
      simp only [this, Bool.false_eq_true, if_false]
      by_cases hem : (fieldEntries lang d.productionId f).isEmpty = true
      · simp only [hem, if_true, Option.map_none]
        have hE : fieldEntries lang d.productionId f = [] := by cases h : fieldEntries lang d.productionId f <;> simp_all
        rw [cbf_no_entries lang f d.productionId hok.1 kids 0 [] (fun i _ => by rw [hE]; rfl) hok.2 rfl]
        rfl
      · simp only [hem, if_false, Bool.false_eq_true]
        unfold Summarized at hs
        unfold shapeOK at hsh
        simp only [Bool.and_eq_true] at hsh
        simp only [Tree.size] at hf
        exact cbf_scan_spec lang f fuel (child_by_field_id_spec_partial lang f hf0 fuel) kids ⟨.mk d kids, al, id, st⟩ d.productionId kids.length st 0 0
          (fieldEntries lang d.productionId f) [] (some d.symbol) (by omega) hs.2.2 hsh.2 hok.1 hok.1 (fun _ _ => Nat.zero_le _)
          (fun _ _ => rfl) hok.2 rfl


/-! ### `child_by_field_id` on `FT` -/

mutual
  /-- A visible node that is an extra carries no field chain. -/
  theorem flattenAt_extra (lang : Lang) : ∀ (t : Tree) (pos : Length) (al id : Nat) (chain : List (List Nat)),
      (t.data.extra = true → chain = []) → ∀ v ∈ flattenAt lang t pos al id chain, v.info.extra = true → v.info.fields = []
    | .mk d kids, pos, al, id, chain, hch, v, hv, hx => by
      unfold flattenAt at hv
      simp only [data_mk] at hch hv
      split at hv
      · simp only [List.mem_singleton] at hv
        subst hv
        simp only [VTree.info] at hx ⊢
        exact hch hx
      · exact flattenKids_extra lang kids pos d.productionId 0 0 d.addr kids.length chain v hv hx
  theorem flattenKids_extra (lang : Lang) : ∀ (kids : List Tree) (cur : Length) (pid si i addr n : Nat) (outer : List (List Nat)),
      ∀ v ∈ flattenKids lang kids cur pid si i addr n outer, v.info.extra = true → v.info.fields = []
    | [], _, _, _, _, _, _, _, v, hv, _ => by simp [flattenKids] at hv
    | c :: rest, cur, pid, si, i, addr, n, outer, v, hv, hx => by
      unfold flattenKids at hv
      simp only [List.mem_append] at hv
      rcases hv with hv | hv
      · exact flattenAt_extra lang c _ _ _ _ (by intro h; simp [h]) v hv hx
      · exact flattenKids_extra lang rest _ _ _ _ _ _ _ v hv hx
end

theorem find_congr_infos (g : Nat → VInfo) (p : VInfo → Bool) : ∀ (K : List Nat) (kids : List VTree),
    K.map g = kids.map (·.info) → (K.find? (fun j => p (g j))).map g = (kids.find? (fun v => p v.info)).map (·.info)
  | [], [], _ => rfl
  | [], _ :: _, h => by simp at h
  | _ :: _, [], h => by simp at h
  | a :: K, b :: kids, h => by
    simp only [List.map_cons, List.cons.injEq] at h
    simp only [List.find?_cons, h.1]
    split
    · simp [h.1]
    · exact find_congr_infos g p K kids h.2

theorem find_map_fields (f : Nat) : ∀ (kids : List VTree),
    ((kids.find? (fun v => hasF f v.info.fields)).map (fun v => (v.info.raw, v.info.alias))) =
      (((kids.map (fun v => (v.info.raw, v.info.alias, v.info.fields))).find? (fun x => hasF f x.2.2)).map (fun x => (x.1, x.2.1)))
  | [] => rfl
  | v :: kids => by
    simp only [List.map_cons, List.find?_cons]
    split
    · rfl
    · exact find_map_fields f kids

/-- **child_by_field_id_ft_spec.**  In the form the driver evaluates it: root summarized and parser-shaped,
`ft` the preorder array of `flatten`; for EVERY entry `k`, with `self` the `TSNode` of that entry, every
field `f ≠ 0` with `cbfOK`, and fuel covering the subtree, the port of `ts_node_child_by_field_id(self, f)`
returns the (raw subtree, alias) of the entry `FT.childByField k f` designates — null iff null. -/
theorem child_by_field_id_ft_spec (lang : Lang) (root : Tree) (rootId : Nat) (ps : Option Nat) (fuel k f : Nat)
    (hs : Summarized lang root) (hsh : shapeOK ps root = true) (hf0 : f ≠ 0) :
    let ft : FT := flatOf (flatten lang root rootId)
    k < ft.size → (refOf (ft.node k).info).t.size ≤ fuel → cbfOK lang f (refOf (ft.node k).info).t = true →
    (childByFieldIdPort lang fuel (refOf (ft.node k).info) f).map (fun r => (r.t, r.alias)) = (ft.childByField k f).map ft.proj := by
  intro ft hk hfu hok
  obtain ⟨info, kids, par, dep, hg, hq⟩ := ft_all_good lang root rootId ps hs hsh k hk
  have hnode := good_node ft info kids k par dep hg
  have hinfo : (ft.node k).info = info := by rw [hnode]
  rw [hinfo] at hfu hok ⊢
  simp only [refOf] at hfu hok
  obtain ⟨⟨pos, _, _, hkids⟩, hsv, psv, hshv⟩ := hq
  simp only [VTree.info, VTree.kids] at hkids hsv hshv
  have := child_by_field_id_spec_partial lang f hf0 fuel info.raw info.alias info.id info.start psv hfu hsv hshv hok
  simp only [refOf]
  rw [this]
  -- the FT side
  have hK := ft_kid_info ft info kids k par dep hg
  have hmapK : (ft.kidsOf k).map (fun j => (ft.node j).info) = kids.map (·.info) := by
    apply List.ext_getElem?
    intro j
    simpa [List.getElem?_map] using hK j
  have hextra : ∀ v ∈ kids, v.info.extra = true → v.info.fields = [] := by
    intro v hv
    rw [hkids] at hv
    exact flattenKids_extra lang _ _ _ _ _ _ _ _ v hv
  have hfields : kids.map (fun v => (v.info.raw, v.info.alias, v.info.fields)) = enumF lang info.raw [] := by
    rw [hkids]
    cases hraw : info.raw with
    | mk d rk =>
      unfold enumF
      simp only [kids_mk, data_mk]
      exact flattenKids_fields lang rk pos d.productionId 0 0 d.addr rk.length []
  have hpred : (ft.kidsOf k).find? (ft.hasField · f) = (ft.kidsOf k).find? (fun j => hasF f (ft.node j).info.fields) := by
    apply find_congr_mem
    intro j hj
    obtain ⟨m, hm⟩ := List.mem_iff_getElem?.mp hj
    have h1 := hK m
    rw [hm] at h1
    cases hc : kids[m]? with
    | none => rw [hc] at h1; simp at h1
    | some v =>
      rw [hc] at h1
      simp only [Option.map_some, Option.some.injEq] at h1
      simp only [FT.hasField, h1, hasF]
      by_cases hx : v.info.extra = true
      · rw [hextra v (List.mem_of_getElem? hc) hx]; simp [hx]
      · simp [hx]
  simp only [FT.childByField, cbfSpec]
  rw [hpred]
  have h2 := find_congr_infos (fun j => (ft.node j).info) (fun i => hasF f i.fields) (ft.kidsOf k) kids hmapK
  have h3 := congrArg (Option.map fun (i : VInfo) => (i.raw, i.alias)) h2
  simp only [Option.map_map, Function.comp_def] at h3
  have e1 : ft.proj = fun j => ((ft.node j).info.raw, (ft.node j).info.alias) := rfl
  rw [e1, h3, find_map_fields f kids, hfields]

/-! ## Non-vacuity -/

/-- `demoLang` with two fields: production 1 (`rule`) gives field 1 to child 0 directly and INHERITS
field 2 from its hidden child 1; production 2 (`_hidden`) gives field 2 to its child 0. -/
def fldLang : Lang :=
  { C02.demoLang with fieldCount := 2, productionIdCount := 3
                      fieldMaps := #[#[], #[⟨1, 0, false⟩, ⟨2, 1, true⟩], #[⟨2, 0, false⟩]] }
def fldLeaf : Tree := C02.newLeaf fldLang 1 length_zero ⟨1, ⟨0, 1⟩⟩ 1 1 false false false
def fldHidden : Tree := atAddr (C02.newNode fldLang 3 [fldLeaf] 2) 2000
def fldRoot : Tree := atAddr (C02.newNode fldLang 2 [fldLeaf, fldHidden] 1) 1000

theorem fldRoot_summarized : Summarized fldLang fldRoot := by
  have hl : Summarized fldLang fldLeaf := leaf_summarized _ _ (by unfold LeafOK; decide)
  have hh : Summarized fldLang fldHidden := node_summarized _ _ _ _ (by unfold NodeOK; decide) (by unfold SummarizedL SummarizedL; exact ⟨hl, trivial⟩)
  exact node_summarized _ _ _ _ (by unfold NodeOK; decide) (by unfold SummarizedL SummarizedL SummarizedL; exact ⟨hl, hh, trivial⟩)

example : fieldMapsSorted fldLang = true ∧ cbfOK fldLang 1 fldRoot = true ∧ cbfOK fldLang 2 fldRoot = true := by decide
/-- Field 2 is found THROUGH the hidden child (inherited entry, then the hidden production's own entry):
slot 0 of the hidden node at 2000. -/
example : (childByFieldIdPort fldLang 4 ⟨fldRoot, 0, 1, length_zero⟩ 2).map (fun r => (r.t, r.alias)) = some (fldLeaf, 0) := by
  rw [child_by_field_id_spec_partial fldLang 2 (by decide) 4 fldRoot 0 1 length_zero none (by decide) fldRoot_summarized (by decide) (by decide)]
  rfl

end TsVerif.C06
