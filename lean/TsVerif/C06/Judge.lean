import TsVerif.C06.Model
import TsVerif.C06.Cursor
import TsVerif.C06.NodePort
import TsVerif.C06.Sexp
import TsVerif.C06.NodeNav
import TsVerif.C02.Judge
import Std.Data.HashMap
/-!
# C06 judge: every recorded API answer against the answer computed on `flatten` (from the dump)

The explorer prints one line per question, `o <node-index> <op> <args…> <answer…>`; `expected`
recomputes the answer part from the numbered visible tree alone (it never sees the API), in the
same textual format, and the two are compared as strings.
-/
namespace TsVerif.C06
open TsGen TsVerif TsVerif.C02

def hexDigit (n : Nat) : Char := if n < 10 then Char.ofNat (48 + n) else Char.ofNat (87 + n)

def toHex (n : Nat) : String :=
  if n == 0 then "0" else
  let rec go (fuel n : Nat) (acc : List Char) : List Char :=
    match fuel with
    | 0 => acc
    | fuel + 1 => if n == 0 then acc else go fuel (n / 16) (hexDigit (n % 16) :: acc)
  String.ofList (go 64 n [])

def hexOfString (s : String) : String :=
  String.ofList (s.toUTF8.toList.flatMap fun b => [hexDigit (b.toNat / 16), hexDigit (b.toNat % 16)])

structure Ctx where
  lang : Lang
  ft : FT
  vt : VTree
  byId : Std.HashMap Nat Nat
  /-- subtrees of the visible tree by preorder index (for rendering) -/
  sub : Array VTree
  /-- number of raw nodes of the tree (fuel bound for the ports' descent loops) -/
  rootSize : Nat := 0

def Ctx.idOf (c : Ctx) (k : Nat) : String := toHex (c.ft.node k).info.id
def Ctx.optId (c : Ctx) : Option Nat → String
  | some k => c.idOf k
  | none => "-"

/-- Cursor state `<id> <kind> <depth> <descendant index> <field id>` relative to a cursor rooted at `r`. -/
def Ctx.state (c : Ctx) (r k : Nat) : String :=
  let f := if k == r then 0 else c.ft.fieldOf k
  s!"{c.idOf k} {c.lang.publicSymbol (c.ft.node k).info.sym} {(c.ft.node k).depth - (c.ft.node r).depth} {k - r} {f}"

def Ctx.fieldNameHex (c : Ctx) (k : Nat) : String :=
  let f := c.ft.fieldOf k
  if f == 0 then "-" else hexOfString (c.lang.fieldNames.getD f "")

mutual
  def collectSubs : VTree → Array VTree → Array VTree
    | .mk i kids, acc => collectSubsL kids (acc.push (.mk i kids))
  def collectSubsL : List VTree → Array VTree → Array VTree
    | [], acc => acc
    | k :: rest, acc => collectSubsL rest (collectSubs k acc)
end

def mkCtx (lang : Lang) (root : Tree) (rootId : Nat) : Ctx :=
  let vt := flatten lang root rootId
  let ft := flatOf vt
  let byId := Id.run do
    let mut m : Std.HashMap Nat Nat := {}
    for h : k in [0:ft.size] do
      m := m.insert (ft[k]'h.2.1).info.id k
    return m
  { lang := lang, ft := ft, vt := vt, byId := byId, sub := collectSubs vt #[], rootSize := root.size }

def idList (c : Ctx) (l : List Nat) : String :=
  if l.isEmpty then "-" else String.intercalate "," (l.map c.idOf)

def pt (r c : String) : TSPoint := { row := natOf r, column := natOf c }

/-- Target of a cursor move from node `k` (cursor rooted at `r`): 0 first child, 1 last child,
2 next sibling, 3 previous sibling, 4 parent. -/
def Ctx.moveTarget (c : Ctx) (r k mv : Nat) : Option Nat :=
  match mv with
  | 0 => (c.ft.kidsOf k).head?
  | 1 => (c.ft.kidsOf k).getLast?
  | 2 => if k == r then none else c.ft.nextSibling k false
  | 3 => if k == r then none else c.ft.prevSibling k false
  | _ => if k == r then none else (c.ft.node k).parent

def Ctx.moveAnswer (c : Ctx) (r k mv : Nat) (withPos : Bool) : String :=
  let (ok, t) := match c.moveTarget r k mv with
    | some t => (1, t)
    | none => (0, k)
  let pos := if withPos then s!" {c.ft.sb t} {(c.ft.sp t).row} {(c.ft.sp t).column}" else ""
  s!"{ok} {c.state r t}{pos}"

/-- Expected answer text for one question, or `none` if the question is not understood. -/
def Ctx.expected (c : Ctx) (k : Nat) (op : String) (args : List String) : Option String :=
  let ft := c.ft
  match op, args with
  | "par", _ => some (c.optId (ft.node k).parent)
  | "cnt", _ => some s!"{(ft.kidsOf k).length} {(ft.namedKids k).length} {(ft.node k).size}"
  | "ns", _ => some (c.optId (ft.nextSibling k false))
  | "ps", _ => some (c.optId (ft.prevSibling k false))
  | "nns", _ => some (c.optId (ft.nextSibling k true))
  | "pns", _ => some (c.optId (ft.prevSibling k true))
  | "ch", i :: _ => some (c.optId ((ft.kidsOf k)[natOf i]?))
  | "nch", i :: _ => some (c.optId ((ft.namedKids k)[natOf i]?))
  | "fn", i :: _ => some (match (ft.kidsOf k)[natOf i]? with | some j => c.fieldNameHex j | none => "-")
  | "fnn", i :: _ => some (match (ft.namedKids k)[natOf i]? with | some j => c.fieldNameHex j | none => "-")
  | "cbf", f :: _ => some (c.optId (ft.childByField k (natOf f)))
  | "fcb", g :: _ => some (c.optId (ft.firstChildForByte k (natOf g) false))
  | "fncb", g :: _ => some (c.optId (ft.firstChildForByte k (natOf g) true))
  | "dbr", w :: s :: e :: _ => some (c.optId (ft.descendantForBytes (if w == "r" then 0 else k) (natOf s) (natOf e) false))
  | "ndbr", w :: s :: e :: _ => some (c.optId (ft.descendantForBytes (if w == "r" then 0 else k) (natOf s) (natOf e) true))
  | "dpr", w :: sr :: sc :: er :: ec :: _ =>
    some (c.optId (ft.descendantForPoints (if w == "r" then 0 else k) (pt sr sc) (pt er ec) false))
  | "ndpr", w :: sr :: sc :: er :: ec :: _ =>
    some (c.optId (ft.descendantForPoints (if w == "r" then 0 else k) (pt sr sc) (pt er ec) true))
  | "cwd", _ => some (c.optId (ft.childWithDescendant 0 k))
  | "cwd2", d :: _ => some (c.optId (ft.childWithDescendant k (natOf d)))
  | "sx", _ =>
    let t := c.sub.getD k default
    let i := t.info
    -- the root frame is printed when MISSING or (alias ? "alias visible" : visible ∧ named)
    let printed := i.missing || (if i.alias != 0 then (c.lang.symMeta i.alias).visible else i.named)
    some (hexOfString (render c.lang t printed))
  | "kind", _ =>
    let i := (ft.node k).info
    some s!"{c.lang.publicSymbol i.sym} {i.raw.data.symbol} {hexOfString (c.lang.symMeta i.sym).name} {hexOfString (c.lang.symMeta i.raw.data.symbol).name}"
  | "fl", _ =>
    let i := (ft.node k).info
    let b := fun (x : Bool) (n : Nat) => if x then n else 0
    some (toString (b i.named 1 + b i.extra 2 + b i.missing 4 + b (c.lang.publicSymbol i.sym == symError) 8 + b i.raw.data.hasChanges 16))
  | "pst", _ => some s!"{(ft.node k).info.raw.data.parseState} 1"
  | "rng", _ => some s!"{ft.sb k} {ft.eb k} {(ft.sp k).row} {(ft.sp k).column} {(ft.ep k).row} {(ft.ep k).column}"
  | "chi", _ => some (idList c (ft.kidsOf k))
  | "nchi", _ => some (idList c (ft.namedKids k))
  | "cbfi", f :: _ => some (idList c ((ft.kidsOf k).filter fun j => ft.fieldOf j == natOf f))
  | "cbni", f :: _ => some (idList c ((ft.kidsOf k).filter fun j => ft.fieldOf j == natOf f))
  | "cbn", f :: _ => some (c.optId (ft.childByField k (natOf f)))
  | "gdn", _ => some (c.fieldNameHex k)
  | "gdc", _ => some (c.state 0 k)
  | "wcl", _ => some (c.state k k)
  | "wrs", _ => some (c.state k k)
  | "wrt", _ =>
    some (match (ft.kidsOf k).head? with
      | some j => s!"{c.state k k} 1 {c.state k j} 1 {c.state k k}"
      | none => s!"{c.state k k} 0 {c.state k k} 0 {c.state k k}")
  | "wrd", _ =>
    some (match (ft.kidsOf k).getLast? with
      | some j => s!"1 {c.state k j} 1 {c.state k k}"
      | none => s!"0 {c.state k k} 0 {c.state k k}")
  | "gd", _ => some (c.state 0 k)
  | "cfc", _ => some (c.moveAnswer 0 k 0 true)
  | "clc", _ => some (c.moveAnswer 0 k 1 true)
  | "cns", _ => some (c.moveAnswer 0 k 2 true)
  | "cps", _ => some (c.moveAnswer 0 k 3 true)
  | "cpa", _ => some (c.moveAnswer 0 k 4 true)
  | "cfcb", g :: _ =>
    some (match ft.cursorFirstChildFor k (natOf g) POINT_ZERO with
      | some (i, j) => s!"{i} {c.state 0 j}"
      | none => s!"-1 {c.state 0 k}")
  | "cfcp", r :: cl :: _ =>
    some (match ft.cursorFirstChildFor k 0 (pt r cl) with
      | some (i, j) => s!"{i} {c.state 0 j}"
      | none => s!"-1 {c.state 0 k}")
  | "w0", _ => some (c.state k k)
  | "wfc", _ => some (c.moveAnswer k k 0 false)
  | "wlc", _ => some (c.moveAnswer k k 1 false)
  | "wns", _ => some (c.moveAnswer k k 2 false)
  | "wps", _ => some (c.moveAnswer k k 3 false)
  | "wpa", _ => some (c.moveAnswer k k 4 false)
  | "wback", _ =>
    let ks := (ft.kidsOf k).reverse
    match ks with
    | [] => none
    | last :: before =>
      let steps := before.length
      let shown := (before.zipIdx.filter fun (_, i) => i + 1 ≤ 6 || (i + 1) % 50 == 0).map fun (j, _) => s!"{c.idOf j}@{ft.sb j}"
      some s!"{steps} {String.intercalate "," (c.idOf last :: shown)}"
  | _, _ => none

/-- Number of answer tokens that follow the arguments of each op. -/
def argCount (op : String) : Nat :=
  match op with
  | "ch" | "nch" | "fn" | "fnn" | "cbf" | "fcb" | "fncb" | "cwd" | "cwd2" | "cfcb" | "cbfi" | "cbni" | "cbn" => 1
  | "dbr" | "ndbr" => 3
  | "dpr" | "ndpr" => 5
  | "cfcp" => 2
  | _ => 0

structure Res where
  asked : Nat := 0
  fails : C02.Fails := {}
  corrFails : C02.Fails := {}
  portCompared : Nat := 0
  /-- cursor stacks of the port on which `stackLinked` failed -/
  stackBad : Nat := 0
  /-- `cursor_first_child_for_spec` evaluated on every goto_first_child_for_byte/point question: hypothesis
  `ndeCur` holds and port = `cfcIdeal` / hypothesis fails / conclusion fails / `cfcIdeal` ≠ `FT.cursorFirstChildFor` -/
  cfcChk : Nat := 0
  cfcOut : Nat := 0
  cfcBad : Nat := 0
  cfcFlat : Nat := 0
  /-- `cursor_parent_is_parentOnPath` (+ `goto_parent_spec`, `depth_parent`) evaluated on every positioned cursor:
  hypotheses (linked stack, top entry visible) and conclusion (goto_parent shows the node `parentOnPath` designates for
  the stack's path — compared by id —, depth decreases by one; on the root: fails) hold / conclusion fails -/
  cparChk : Nat := 0
  cparBad : Nat := 0
  /-- the port's cursor positioned on node `cacheNode` by `gotoDescendant` -/
  cacheNode : Nat := u32max
  cache : Cursor := default
  deriving Inhabited

def quirkSets : List (String × Quirks) :=
  [ ("none", Quirks.none),
    ("int8", { Quirks.none with int8 := true }),
    ("descidx", { Quirks.none with noDescIdx := true }),
    ("structidx", { Quirks.none with staleSi := true }),
    ("int8+descidx", { Quirks.none with int8 := true, noDescIdx := true }),
    ("int8+structidx", { Quirks.none with int8 := true, staleSi := true }),
    ("descidx+structidx", { Quirks.none with noDescIdx := true, staleSi := true }),
    ("int8+descidx+structidx", Quirks.current) ]

def isCursorOp (op : String) : Bool :=
  ["gd", "gdn", "gdc", "cfc", "clc", "cns", "cps", "cpa", "cfcb", "cfcp", "w0", "wcl", "wrt", "wrs", "wrd", "wfc", "wlc", "wns", "wps", "wpa", "wback"].contains op

def usesPrev (op : String) : Bool := op == "cps" || op == "wps" || op == "wback"

def applyMove (lang : Lang) (q : Quirks) (mv : Nat) (c : Cursor) : Bool × Cursor :=
  match mv with
  | 0 => let r := gotoChild lang false (topSize c.stack) c.stack; (r.1, { c with stack := r.2 })
  | 1 => let r := gotoChild lang true (topSize c.stack) c.stack; (r.1, { c with stack := r.2 })
  | 2 => gotoNextSibling lang c
  | 3 => gotoPreviousSibling lang q c
  | _ => gotoParent lang c

/-- The port's answer to a cursor question, for the cursor `cur` already positioned on the node. -/
def portAnswer (lang : Lang) (q : Quirks) (cur : Cursor) (op : String) (args : List String) : Option String :=
  let st := fun (c : Cursor) => c.state lang toHex
  let mvAns := fun (c : Cursor) (mv : Nat) (withPos : Bool) =>
    let (ok, c') := applyMove lang q mv c
    s!"{if ok then 1 else 0} {st c'}" ++ (if withPos then " " ++ c'.posString else "")
  match op, args with
  | "gd", _ => some (st cur)
  | "gdc", _ => some (st cur)
  | "gdn", _ =>
    let f := currentFieldId lang cur
    some (if f == 0 then "-" else hexOfString (lang.fieldNames.getD f ""))
  -- `ts_tree_cursor_copy`, `_reset_to`, `_reset`: the stack and the root alias are carried over
  | "wcl", _ => some (st (cur.rootedHere lang))
  | "wrs", _ => some (st (cur.rootedHere lang))
  | "wrt", _ =>
    let w := cur.rootedHere lang
    let (ok, w1) := applyMove lang q 0 w
    let (okp, w2) := applyMove lang q 4 w1
    some s!"{st w} {if ok then 1 else 0} {st w1} {if okp then 1 else 0} {st w2}"
  | "wrd", _ =>
    let w := cur.rootedHere lang
    let (okd, deep) := applyMove lang q 1 w
    let (okz, z) := applyMove lang q 4 deep
    some s!"{if okd then 1 else 0} {st deep} {if okz then 1 else 0} {st z}"
  | "cfc", _ => some (mvAns cur 0 true)
  | "clc", _ => some (mvAns cur 1 true)
  | "cns", _ => some (mvAns cur 2 true)
  | "cps", _ => some (mvAns cur 3 true)
  | "cpa", _ => some (mvAns cur 4 true)
  | "cfcb", g :: _ => let (i, c') := gotoFirstChildFor lang (natOf g) POINT_ZERO cur; some s!"{i} {st c'}"
  | "cfcp", r :: cl :: _ => let (i, c') := gotoFirstChildFor lang 0 (pt r cl) cur; some s!"{i} {st c'}"
  | "w0", _ => some (st (cur.rootedHere lang))
  | "wfc", _ => some (mvAns (cur.rootedHere lang) 0 false)
  | "wlc", _ => some (mvAns (cur.rootedHere lang) 1 false)
  | "wns", _ => some (mvAns (cur.rootedHere lang) 2 false)
  | "wps", _ => some (mvAns (cur.rootedHere lang) 3 false)
  | "wpa", _ => some (mvAns (cur.rootedHere lang) 4 false)
  | "wback", _ =>
    let w := cur.rootedHere lang
    let (_, w) := applyMove lang q 1 w
    let first := match w.stack.head? with | some e => toHex e.id | none => "?"
    let rec back (fuel steps : Nat) (w : Cursor) (acc : List String) : Nat × List String :=
      match fuel with
      | 0 => (steps, acc)
      | fuel + 1 =>
        let (ok, w') := gotoPreviousSibling lang q w
        if !ok then (steps, acc) else
        let steps := steps + 1
        let acc := if steps ≤ 6 || steps % 50 == 0 then
            (match w'.stack.head? with | some e => s!"{toHex e.id}@{e.pos.bytes}" | none => "?") :: acc else acc
        back fuel steps w' acc
    let (steps, acc) := back (topSize cur.stack) 0 w []
    some s!"{steps} {String.intercalate "," (first :: acc.reverse)}"
  | _, _ => none

mutual
  /-- Condition of finding 11 (`child-by-field-enters-visible-child`): on the way of the search for field `f`
  below `t` an INHERITED field-map entry points at a child that is visible (or aliased) in this tree — the
  generator's table says "search inside the hidden rule at this position", but the unit reduction to a visible
  alternative of that rule was eliminated, and the C code searches inside the visible child. -/
  def inhOnVisible (lang : Lang) (f : Nat) : Tree → Bool
    | .mk d kids => inhOnVisibleKids lang f d.productionId (fieldEntries lang d.productionId f) kids 0
  def inhOnVisibleKids (lang : Lang) (f pid : Nat) (es : List FieldEntry) : List Tree → Nat → Bool
    | [], _ => false
    | c :: rest, si =>
      if c.data.extra then inhOnVisibleKids lang f pid es rest si
      else
        (match entryAt es si with
         | some m => m.inherited && (if c.data.visible || lang.aliasAt pid si != 0 then c.kids.length > 0 else inhOnVisible lang f c)
         | none => false) || inhOnVisibleKids lang f pid es rest (si + 1)
end

def judgeLine (c : Ctx) (root : Tree) (rootId : Nat) (r : Res) (line : String) : Res :=
  match line.splitOn " " with
  | "o" :: idx :: op :: rest =>
    let k := natOf idx
    let args := rest.take (argCount op)
    let answer := " ".intercalate (rest.drop (argCount op))
    match c.expected k op args with
    | some exp =>
      let r := { r with asked := r.asked + 1 }
      let where_ := fun (_ : Unit) => s!"node#{k} [{c.ft.sb k},{c.ft.eb k}] sym={(c.ft.node k).info.sym} {op} {" ".intercalate args}"
      if isCursorOp op then
        -- position the port's cursor on node k once per node
        let r := if r.cacheNode == k then r else
          let cur := gotoDescendant c.lang k (Cursor.ofRoot root rootId)
          let hypOK := stackLinked cur.stack && stackIdxOK cur.stack
          let topVis := match cur.stack with | e :: rest => isEntryVisible c.lang e rest.head? | [] => false
          let rootRef : NodeRef := { t := root, alias := 0, id := rootId, start := root.data.padding }
          let (pok, pc) := gotoParent c.lang cur
          let concl : Bool :=
            if cur.stack.length ≤ 1 then !pok
            else
              let path := (cur.stack.dropLast.map (·.childIndex)).reverse
              let exp := parentOnPath c.lang rootRef rootRef path
              pok && (pc.stack.head?.map (·.id)) == some exp.id &&
                (match pc.stack with
                 | [r0] => decide (r0.t.data = exp.t.data) && exp.alias == 0
                 | e :: p :: _ => decide (e.t.data = exp.t.data) && exp.alias == (if e.t.data.extra then 0 else c.lang.aliasAt p.t.data.productionId e.si)
                 | [] => false) &&
                currentDepth c.lang pc + 1 == currentDepth c.lang cur
          { r with cacheNode := k, cache := cur, stackBad := r.stackBad + (if hypOK && topVis then 0 else 1),
                   cparChk := r.cparChk + (if hypOK && topVis && concl then 1 else 0),
                   cparBad := r.cparBad + (if hypOK && topVis && !concl then 1 else 0) }
        let r := if op == "cfcb" || op == "cfcp" then
            let (gb, gp) := if op == "cfcb" then (natOf (args.headD "0"), POINT_ZERO) else (0, pt (args.headD "0") (args.getD 1 "0"))
            let cur := r.cache
            let f := topSize cur.stack
            if !(ndeCur c.lang gb gp f cur.stack 0) then { r with cfcOut := r.cfcOut + 1 }
            else
              let ideal := cfcIdeal c.lang gb gp f cur.stack 0
              let (pi, pc) := gotoFirstChildFor c.lang gb gp cur
              let okPort : Bool := match ideal with
                | some (idx, st) => pi == (idx : Int) && (pc.stack.map (·.id)) == (st.map (·.id))
                | none => pi == -1 && (pc.stack.map (·.id)) == (cur.stack.map (·.id))
              let okFlat : Bool := match ideal, c.ft.cursorFirstChildFor k gb gp with
                | some (idx, st), some (i, j) => idx == i && (st.head?.map (·.id)) == some (c.ft.node j).info.id
                | none, none => true
                | _, _ => false
              { r with cfcChk := r.cfcChk + (if okPort then 1 else 0), cfcBad := r.cfcBad + (if okPort then 0 else 1),
                       cfcFlat := r.cfcFlat + (if okFlat then 0 else 1) }
          else r
        let qs := if usesPrev op then quirkSets else [("none", Quirks.none)]
        let hit := qs.find? fun (_, q) => portAnswer c.lang q r.cache op args == some answer
        let r := { r with portCompared := r.portCompared + 1 }
        let r := match hit with
          | some _ => r
          | none => { r with corrFails := r.corrFails.add ("corr:" ++ op) fun _ =>
                      s!"{where_ ()}: api={answer} port={(portAnswer c.lang Quirks.current r.cache op args).getD "?"}" }
        if exp == answer then r
        else
          let label := match hit with
            | some (name, _) =>
              if name == "none" then
                -- the port of the unchanged algorithm gives the API's answer: attribute to the known
                -- dead-end descent only for "-1 although a child ends after the goal"
                (if (op == "cfcb" || op == "cfcp") && answer.startsWith "-1 " && !exp.startsWith "-1 "
                 then op ++ ":dead-end-descent" else op ++ ":port-vs-tree")
              else op ++ ":quirk-" ++ name
            | none => op ++ ":unexplained"
          { r with fails := r.fails.add label fun _ => s!"{where_ ()}: api={answer} tree={exp}" }
      else
      -- node.c ports: child / named_child by index
      let r := if op == "ch" || op == "nch" then
          let info := (c.ft.node k).info
          let port := match nodeChild c.lang (op == "ch") info.raw info.start (natOf (args.headD "0")) with
            | some nr => toHex nr.id
            | none => "-"
          let r := { r with portCompared := r.portCompared + 1 }
          if port == answer then r
          else { r with corrFails := r.corrFails.add ("corr:" ++ op) fun _ => s!"{where_ ()}: api={answer} port={port}" }
        else r
      let refOf := fun (j : Nat) =>
        let i := (c.ft.node j).info
        ({ t := i.raw, alias := i.alias, id := i.id, start := i.start } : NodeRef)
      let optRef := fun (o : Option NodeRef) => match o with | some n => toHex n.id | none => "-"
      let navPort : Option String :=
        match op, args with
        | "par", _ => some (optRef (nodeParent c.lang (c.rootSize + 1) (refOf 0) (refOf k)))
        | "cwd", _ => some (optRef (childWithDescendant c.lang (c.rootSize + 1) (refOf 0) (refOf k).id (refOf k).startByte (refOf k).endByte))
        | "cwd2", dd :: _ =>
          let dn := refOf (natOf dd)
          some (optRef (childWithDescendant c.lang (c.rootSize + 1) (refOf k) dn.id dn.startByte dn.endByte))
        | "ns", _ => some (optRef (nextSiblingPort c.lang (c.rootSize + 1) (refOf 0) (refOf k) true))
        | "nns", _ => some (optRef (nextSiblingPort c.lang (c.rootSize + 1) (refOf 0) (refOf k) false))
        | "ps", _ => some (optRef (prevSiblingPort c.lang (c.rootSize + 1) (refOf 0) (refOf k) true))
        | "pns", _ => some (optRef (prevSiblingPort c.lang (c.rootSize + 1) (refOf 0) (refOf k) false))
        | "fcb", g :: _ => some (optRef (firstChildForBytePort c.lang (c.rootSize + 1) (refOf k) (natOf g) true))
        | "fncb", g :: _ => some (optRef (firstChildForBytePort c.lang (c.rootSize + 1) (refOf k) (natOf g) false))
        | "dbr", w :: s0 :: e0 :: _ => some (optRef (descendantForByteRangePort c.lang (c.rootSize + 1) (refOf (if w == "r" then 0 else k)) (natOf s0) (natOf e0) true))
        | "ndbr", w :: s0 :: e0 :: _ => some (optRef (descendantForByteRangePort c.lang (c.rootSize + 1) (refOf (if w == "r" then 0 else k)) (natOf s0) (natOf e0) false))
        | "dpr", w :: sr :: sc :: er :: ec :: _ =>
          some (optRef (descendantForPointRangePort c.lang (c.rootSize + 1) (refOf (if w == "r" then 0 else k)) (pt sr sc) (pt er ec) true))
        | "ndpr", w :: sr :: sc :: er :: ec :: _ =>
          some (optRef (descendantForPointRangePort c.lang (c.rootSize + 1) (refOf (if w == "r" then 0 else k)) (pt sr sc) (pt er ec) false))
        | "fn", i :: _ => some (match fieldNameForChildPort c.lang (c.rootSize + 1) (refOf k) (natOf i) true with
            | some f => hexOfString (c.lang.fieldNames.getD f "") | none => "-")
        | "fnn", i :: _ => some (match fieldNameForChildPort c.lang (c.rootSize + 1) (refOf k) (natOf i) false with
            | some f => hexOfString (c.lang.fieldNames.getD f "") | none => "-")
        | "cbf", f :: _ => some (optRef (childByFieldIdPort c.lang (c.rootSize + 1) (refOf k) (natOf f)))
        | "cbn", f :: _ => some (optRef (childByFieldIdPort c.lang (c.rootSize + 1) (refOf k) (natOf f)))
        | _, _ => none
      let r := match navPort with
        | some port =>
          let r := { r with portCompared := r.portCompared + 1 }
          if port == answer then r
          else { r with corrFails := r.corrFails.add ("corr:" ++ op) fun _ => s!"{where_ ()}: api={answer} port={port}" }
        | none => r
      let r := if op == "sx" then
          let info := (c.ft.node k).info
          let port := hexOfString (nodeString c.lang info.raw info.alias)
          let r := { r with portCompared := r.portCompared + 1 }
          if port == answer then r
          else { r with corrFails := r.corrFails.add "corr:sx" fun _ => s!"{where_ ()}: api={answer} port={port}" }
        else r
      if exp == answer then r
      else
        -- classify the position-based node.c findings by what the expected node looks like; a
        -- finding is only attributed to a known defect when the API's answer is exactly what the
        -- port of the unchanged algorithm computes (anything else is ":unexplained")
        let expNode := c.byId.get? (parseHexNat exp)
        let zeroWidth := match expNode with | some j => c.ft.sb j == c.ft.eb j | none => false
        let explained := navPort == some answer
        -- for the range searches: does the search path on the ordered tree pass a zero-width node?
        -- (point queries are mapped to bytes through the node boundaries they were built from)
        -- condition of the known defect: the search path — of the unchanged algorithm on the raw
        -- tree (hidden zero-width leaves included) or of the search on the ordered tree — visits a
        -- zero-width node
        let rangePathHasEmpty :=
          match op, args with
          | "dbr", w :: s0 :: e0 :: _ | "ndbr", w :: s0 :: e0 :: _ =>
            let r0 := if w == "r" then 0 else k
            descendantBytePathHasEmpty c.lang (c.rootSize + 1) (refOf r0) (natOf s0) (natOf e0) ||
              c.ft.descendantPathHasEmpty r0 (natOf s0) (natOf e0)
          | "dpr", w :: sr :: sc :: er :: ec :: _ | "ndpr", w :: sr :: sc :: er :: ec :: _ =>
            let r0 := if w == "r" then 0 else k
            descendantPointPathHasEmpty c.lang (c.rootSize + 1) (refOf r0) (pt sr sc) (pt er ec) ||
              c.ft.descendantPathHasEmpty r0 (c.ft.sb k) (c.ft.sb k) ||
              c.ft.descendantPathHasEmpty r0 (c.ft.eb k) (c.ft.eb k) ||
              c.ft.descendantPathHasEmpty r0 (c.ft.sb k) (c.ft.eb k)
          | _, _ => false
        let info := (c.ft.node k).info
        let label :=
          if op == "sx" then
            (if hexOfString (nodeString c.lang info.raw info.alias) == answer && hasHiddenMissing c.lang info.raw info.alias
             then "sx:hidden-missing-printed" else "sx")
          else if !explained && navPort.isSome then op ++ ":unexplained"
          else if (op == "cbf" || op == "cbn") && answer == "-" && info.raw.data.symbol == symError then "cbf:error-parent-has-no-field-map"
          else if (op == "cbf" || op == "cbn") && inhOnVisible c.lang (natOf (args.headD "0")) info.raw then "cbf:inherited-entry-on-visible-child"
          else if (op == "ns" || op == "nns") && zeroWidth then op ++ ":zero-width-sibling-skipped"
          else if (op == "ps" || op == "pns") && c.ft.sb k == c.ft.eb k then op ++ ":zero-width-self"
          else if (op == "dbr" || op == "ndbr" || op == "dpr" || op == "ndpr") &&
              (zeroWidth || rangePathHasEmpty) then op ++ ":zero-width"
          else if (op == "fcb" || op == "fncb") &&
              (answer == "-" || (match c.byId.get? (parseHexNat answer), expNode with
                                 | some a, some e => a > e
                                 | _, _ => false)) then op ++ ":fallback-lost"
          else op
        { r with fails := r.fails.add label fun _ => s!"{where_ ()}: api={answer} tree={exp}" }
    | none => { r with fails := r.fails.add "unparsed" fun _ => line }
  | ["rwo", idx, id, sb, sr, sc, eb, er, ec] =>
    let k := natOf idx
    let off : Length := { bytes := 7, extent := { row := 2, column := 3 } }
    let i := (c.ft.node k).info
    let s0 := length_add off i.start
    let e0 := length_add off i.stop
    let exp := s!"{toHex i.id} {s0.bytes} {s0.extent.row} {s0.extent.column} {e0.bytes} {e0.extent.row} {e0.extent.column}"
    let got := s!"{id} {sb} {sr} {sc} {eb} {er} {ec}"
    let r := { r with asked := r.asked + 1 }
    if k < c.ft.size && exp == got then r
    else { r with fails := r.fails.add "rwo" fun _ => s!"root_node_with_offset walk node#{k}: api={got} tree={exp}" }
  | "v" :: idx :: rest =>
    let k := natOf idx
    let r := { r with asked := r.asked + 1 }
    if k < c.ft.size && c.state 0 k == " ".intercalate rest then r
    else { r with fails := r.fails.add "walk" fun _ =>
            s!"cursor preorder walk node#{k}: api={" ".intercalate rest} tree={if k < c.ft.size then c.state 0 k else "(no such node)"}" }
  | _ => r

mutual
  def maxFanout : Tree → Nat
    | .mk _ kids => max kids.length (maxFanoutL kids)
  def maxFanoutL : List Tree → Nat
    | [] => 0
    | k :: rest => max (maxFanout k) (maxFanoutL rest)
end

mutual
  /-- COVERAGE measure for `ts_node_child_by_field_id` (not used by any theorem or verdict): does the scan for
  field `f` below `t` pass an INHERITED field-map entry whose hidden child carries no `f` in this tree before it
  reaches the child that does — at `t` itself or inside the hidden child the search continues in?  Only on such
  (node, field) pairs does the "not found inside this hidden child: go on with the next entry" branch of the C
  function decide the answer; the check demands that the explored trees contain some. -/
  def cbfPassesEmpty (lang : Lang) (f : Nat) : Tree → Bool
    | .mk d kids => cbfPassesEmptyKids lang f (fieldEntries lang d.productionId f) kids 0 false
  def cbfPassesEmptyKids (lang : Lang) (f : Nat) (es : List FieldEntry) : List Tree → Nat → Bool → Bool
    | [], _, _ => false
    | c :: rest, si, saw =>
      if c.data.extra then cbfPassesEmptyKids lang f es rest si saw
      else match entryAt es si with
        | some m =>
          if !m.inherited then saw
          else if (enumF lang c []).any (fun x => hasF f x.2.2) then saw || cbfPassesEmpty lang f c
          else cbfPassesEmptyKids lang f es rest (si + 1) true
        | none => cbfPassesEmptyKids lang f es rest (si + 1) saw
end

/-! ## Index fields of the cursor and the iterators beyond 16 bits (tie of the ℕ-valued ports to the C structs)

The ports of tree_cursor.c / node.c keep child index, structural child index and descendant index in `Nat`; the C code in
fixed-width fields of `TreeCursorEntry`, `CursorChildIterator`, `NodeChildIterator`.  They grow with the document, and no
explored PARSED tree comes near 2¹⁶ nodes (the full judge is quadratic in the fan-out).  `tsv-cunit_c02 cwidths` therefore
builds ONE flat node with `n = 70 000` one-byte leaf children with the real constructors and asks the real cursor / node
functions questions whose answers depend on indices beyond 65 535.  Child `i` of such a node starts at byte `i` and is
visible node number `i + 1` of the walk, so every expected answer is arithmetic in `n` — no field is named, the probe is
behavioural.  (`current_descendant_index`: an all-ones entry read back through the accessor: ≥ 32 bits.) -/
def wideProbeExpected (n : Nat) : List (String × Nat) :=
  [("child_count", n), ("ok", 1), ("last_start", n - 1), ("last_desc", n), ("prev_start", n - 2), ("prev_desc", n - 1),
   ("steps", n - 1), ("walk_start", n - 1), ("walk_desc", n), ("gd_start", 65536), ("gd_desc", 65537),
   ("fcb_index", 66000), ("fcb_start", 66000), ("child_last", n - 1), ("child_65536", 65536), ("next_of_65535", 65536),
   ("prev_of_65536", 65535), ("node_fcb", 66000), ("node_dbr", 67000)]

def wideProbeFails (measured : List (String × Nat)) : List String :=
  match measured.lookup "n" with
  | none => ["n: not measured"]
  | some n =>
    (if n ≥ 70000 then [] else [s!"n = {n}: the probe must exceed 16 bits"]) ++
    ((wideProbeExpected n).filterMap fun (name, e) =>
      match measured.lookup name with
      | some v => if v == e then none else some s!"{name}: real functions answer {v}, a flat node of {n} one-byte leaves gives {e}"
      | none => some s!"{name}: not measured") ++
    (match measured.lookup "current_descendant_index" with
     | some v => if C02.bitsOfMax v ≥ 32 then [] else [s!"current_descendant_index: holds {C02.bitsOfMax v} bits, the ports assume >= 32"]
     | none => ["current_descendant_index: not measured"])

end TsVerif.C06
