import TsVerif.C06.CursorFcb
/-!
# C06 — `cfcIdeal` is the search on the ordered tree (`FT.cursorFirstChildFor`)

`cursor_first_child_for_spec` (CursorFcb.lean) shows that without a dead end the port of
`ts_tree_cursor_goto_first_child_for_byte/point` is the plain search `cfcIdeal`.  This file closes the remaining
link, which was only evaluated: `cfcIdeal` — a walk with cursor iterators, counting skipped hidden children by their
cached `visible_child_count` — finds exactly the FIRST of the node's visible children (`enumRefs`, the `TSNode`s
`ts_node_child` hands out, which are the children `flatten` gives the node) whose end lies after the goal in bytes
AND in row/column order, together with its index in that list.
-/
namespace TsVerif.C06
open TsGen TsVerif TsVerif.C02

/-! ## Part 1: the visible children end inside the node, in bytes and in row/column order -/

/-- `a ≤ b` for positions: in bytes and in row/column order. -/
def lle (a b : Length) : Prop := a.bytes ≤ b.bytes ∧ point_lte a.extent b.extent = true

theorem lle_refl (a : Length) : lle a a := ⟨Nat.le_refl _, ple_refl _⟩
theorem lle_trans {a b c : Length} (h1 : lle a b) (h2 : lle b c) : lle a c :=
  ⟨Nat.le_trans h1.1 h2.1, ple_trans _ _ _ h1.2 h2.2⟩
theorem lle_add (a b : Length) : lle a (length_add a b) := ⟨by simp [length_add_bytes], by rw [length_add_extent]; exact ple_add _ _⟩

/-- End of a `TSNode` as a full position. -/
def NodeRef.endLen (r : NodeRef) : Length := length_add r.start r.t.data.size

/-- Position after laying the children out the way the node.c iterator does (the first child's padding is the
node's own and is not added). -/
def layEndL : List Tree → Length → Nat → Length
  | [], pos, _ => pos
  | c :: rest, pos, k => layEndL rest (length_add (if k > 0 then length_add pos c.data.padding else pos) c.data.size) (k + 1)

theorem layEndL_ge : ∀ (kids : List Tree) (pos : Length) (k : Nat), lle pos (layEndL kids pos k)
  | [], pos, _ => lle_refl pos
  | c :: rest, pos, k => by
    unfold layEndL
    refine lle_trans ?_ (layEndL_ge rest _ (k + 1))
    split
    · exact lle_trans (lle_add _ _) (lle_add _ _)
    · exact lle_add _ _

theorem layEndL_pos : ∀ (kids : List Tree) (pos : Length) (k : Nat), k > 0 → layEndL kids pos k = layoutEnd kids pos
  | [], _, _, _ => rfl
  | c :: rest, pos, k, hk => by
    unfold layEndL layoutEnd
    simp only [hk, if_true]
    rw [layEndL_pos rest _ (k + 1) (by omega), length_add_assoc]
    rfl

mutual
  theorem enumRefs_withinL (lang : Lang) : ∀ (t : Tree) (start : Length), Sized t → ∀ r ∈ enumRefs lang t start,
      lle r.endLen (length_add start t.data.size)
    | .mk d kids, start, hs, r, hr => by
      unfold enumRefs at hr
      unfold Sized at hs
      have := enumRefsKids_withinL lang d.productionId d.addr kids.length kids start 0 0 hs.2 r hr
      cases kids with
      | nil => simp [enumRefsKids] at hr
      | cons c rest =>
        have hsz := (hs.1 (by simp)).2
        simp only [data_mk]
        rw [hsz, kidsSize]
        unfold layEndL at this
        simp only [Nat.lt_irrefl, if_false, gt_iff_lt] at this
        rw [layEndL_pos _ _ _ (by omega), layoutEnd_restSize] at this
        exact this
  theorem enumRefsKids_withinL (lang : Lang) (pid addr nk : Nat) : ∀ (kids : List Tree) (pos : Length) (si k : Nat),
      SizedL kids → ∀ r ∈ enumRefsKids lang pid addr nk kids pos si k, lle r.endLen (layEndL kids pos k)
    | [], _, _, _, _, r, hr => by simp [enumRefsKids] at hr
    | c :: rest, pos, si, k, hs, r, hr => by
      unfold enumRefsKids at hr
      unfold SizedL at hs
      unfold layEndL
      simp only [List.mem_append] at hr
      have hmono := layEndL_ge rest (length_add (if k > 0 then length_add pos c.data.padding else pos) c.data.size) (k + 1)
      generalize (if k > 0 then length_add pos c.data.padding else pos) = cstart at hr hmono ⊢
      generalize (if c.data.extra = true then 0 else lang.aliasAt pid si) = al at hr
      rcases hr with hr | hr
      · by_cases hrel : ({ t := c, alias := al, id := slotId addr nk k, start := cstart } : NodeRef).relevant lang true = true
        · simp only [hrel, if_true, List.mem_singleton] at hr
          subst hr
          exact hmono
        · simp only [hrel, if_false, Bool.false_eq_true] at hr
          exact lle_trans (enumRefs_withinL lang c cstart hs.1 r hr) hmono
      · exact enumRefsKids_withinL lang pid addr nk rest _ _ _ hs.2 r hr
end

/-! ## Part 2: `cfcIdeal` = first visible child ending after the goal, with its index -/

/-- "ends after the goal": in bytes and in row/column order (the test of `goto_first_child_for_byte_and_point`). -/
def goalAfter (gb : Nat) (gp : TSPoint) (l : Length) : Bool := l.bytes > gb && point_gt l.extent gp

theorem goalAfter_mono (gb : Nat) (gp : TSPoint) (a b : Length) (h : lle a b) (hb : goalAfter gb gp b = false) :
    goalAfter gb gp a = false := by
  obtain ⟨h1, h2⟩ := h
  simp only [goalAfter, Bool.and_eq_false_iff, decide_eq_false_iff_not, point_gt, point_lte, decide_eq_true_eq] at *
  rcases hb with hb | hb
  · left; omega
  · right; omega

theorem findIdx_append_none {α : Type} (p : α → Bool) : ∀ (a b : List α), (∀ x ∈ a, p x = false) →
    (a ++ b).findIdx? p = (b.findIdx? p).map (· + a.length)
  | [], b, _ => by simp
  | x :: a, b, h => by
    have hx : p x = false := h x (by simp)
    simp only [List.cons_append, List.findIdx?_cons, hx, Bool.false_eq_true, if_false]
    rw [findIdx_append_none p a b (fun y hy => h y (by simp [hy]))]
    simp only [Option.map_map, List.length_cons]
    congr 1

theorem findIdx_append_some {α : Type} (p : α → Bool) : ∀ (a b : List α) (i : Nat), a.findIdx? p = some i →
    (a ++ b).findIdx? p = some i ∧ (a ++ b)[i]? = a[i]?
  | [], _, _, h => by simp at h
  | x :: a, b, i, h => by
    simp only [List.findIdx?_cons] at h
    by_cases hx : p x = true
    · simp only [hx, if_true, Option.some.injEq] at h
      subst h
      simp [List.findIdx?_cons, hx]
    · have hx' : p x = false := by simpa using hx
      simp only [hx', Bool.false_eq_true, if_false, Option.map_eq_some_iff] at h
      obtain ⟨j, hj, rfl⟩ := h
      obtain ⟨h1, h2⟩ := findIdx_append_some p a b j hj
      simp [List.findIdx?_cons, hx', h1, h2]

theorem findIdx_none_all {α : Type} (p : α → Bool) : ∀ (a : List α), a.findIdx? p = none → ∀ x ∈ a, p x = false
  | [], _, x, hx => by simp at hx
  | y :: a, h, x, hx => by
    simp only [List.findIdx?_cons] at h
    by_cases hy : p y = true
    · simp [hy] at h
    · have hy' : p y = false := by simpa using hy
      simp only [hy', Bool.false_eq_true, if_false, Option.map_eq_none_iff] at h
      rcases List.mem_cons.mp hx with rfl | hx
      · exact hy'
      · exact findIdx_none_all p a h x hx

/-- What is compared: the index, and the entry / `TSNode` found (subtree, slot id, start position). -/
def projE (r : Nat × List Entry) : Nat × Option (Tree × Nat × Length) := (r.1, r.2.head?.map fun e => (e.t, e.id, e.pos))
def pickR (refs : List NodeRef) (idx i : Nat) : Nat × Option (Tree × Nat × Length) :=
  (idx + i, (refs[i]?).map fun r => (r.t, r.id, r.start))

theorem enumRefs_length (lang : Lang) (t : Tree) (start : Length) : (enumRefs lang t start).length = (enumChildren lang t).length := by
  rw [← enumRefs_proj lang t start, List.length_map]

theorem vcc_eq_refs (lang : Lang) (t : Tree) (start : Length) (ps : Option Nat) (hs : Summarized lang t) (hsh : shapeOK ps t = true) :
    vcc t = (enumRefs lang t start).length := by
  rw [enumRefs_length]
  obtain ⟨d, kids⟩ := t
  have hc := (summarize_counts lang (.mk d kids) ps hs hsh).1
  unfold vcc
  cases kids with
  | nil => simp [Tree.kids, enumChildren, enumKids]
  | cons a b => simpa [Tree.kids] using hc

end TsVerif.C06
