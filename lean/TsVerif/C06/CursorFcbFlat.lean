import TsVerif.C06.CursorFcb
/-!
# C06 — `cfcIdeal` is the search on the ordered tree (`FT.cursorFirstChildFor`)

`cursor_first_child_for_spec` (CursorFcb.lean) shows that without a dead end the port of
`ts_tree_cursor_goto_first_child_for_byte/point` is the plain search `cfcIdeal`.  This file closes the remaining
link, which was only evaluated: `cfcIdeal` — a walk with cursor iterators, counting skipped hidden children by their
cached `visible_child_count` — finds exactly the FIRST of the node's visible children (`enumRefs`, the `TSNode`s
`ts_node_child` hands out, which are the children `flatten` gives the node) whose end lies after the goal in bytes
AND in row/column order, together with its index in that list.
-/
namespace TsVerif.C06
open TsGen TsVerif TsVerif.C02

/-! ## Part 1: the visible children end inside the node, in bytes and in row/column order -/

/-- `a ≤ b` for positions: in bytes and in row/column order. -/
def lle (a b : Length) : Prop := a.bytes ≤ b.bytes ∧ point_lte a.extent b.extent = true

theorem lle_refl (a : Length) : lle a a := ⟨Nat.le_refl _, ple_refl _⟩
theorem lle_trans {a b c : Length} (h1 : lle a b) (h2 : lle b c) : lle a c :=
  ⟨Nat.le_trans h1.1 h2.1, ple_trans _ _ _ h1.2 h2.2⟩
theorem lle_add (a b : Length) : lle a (length_add a b) := ⟨by simp [length_add_bytes], by rw [length_add_extent]; exact ple_add _ _⟩

/-- End of a `TSNode` as a full position. -/
def NodeRef.endLen (r : NodeRef) : Length := length_add r.start r.t.data.size

/-- Position after laying the children out the way the node.c iterator does (the first child's padding is the
node's own and is not added). -/
def layEndL : List Tree → Length → Nat → Length
  | [], pos, _ => pos
  | c :: rest, pos, k => layEndL rest (length_add (if k > 0 then length_add pos c.data.padding else pos) c.data.size) (k + 1)

theorem layEndL_ge : ∀ (kids : List Tree) (pos : Length) (k : Nat), lle pos (layEndL kids pos k)
  | [], pos, _ => lle_refl pos
  | c :: rest, pos, k => by
    unfold layEndL
    refine lle_trans ?_ (layEndL_ge rest _ (k + 1))
    split
    · exact lle_trans (lle_add _ _) (lle_add _ _)
    · exact lle_add _ _

theorem layEndL_pos : ∀ (kids : List Tree) (pos : Length) (k : Nat), k > 0 → layEndL kids pos k = layoutEnd kids pos
  | [], _, _, _ => rfl
  | c :: rest, pos, k, hk => by
    unfold layEndL layoutEnd
    simp only [hk, if_true]
    rw [layEndL_pos rest _ (k + 1) (by omega), length_add_assoc]
    rfl

mutual
  theorem enumRefs_withinL (lang : Lang) : ∀ (t : Tree) (start : Length), Sized t → ∀ r ∈ enumRefs lang t start,
      lle r.endLen (length_add start t.data.size)
    | .mk d kids, start, hs, r, hr => by
      unfold enumRefs at hr
      unfold Sized at hs
      have := enumRefsKids_withinL lang d.productionId d.addr kids.length kids start 0 0 hs.2 r hr
      cases kids with
      | nil => simp [enumRefsKids] at hr
      | cons c rest =>
        have hsz := (hs.1 (by simp)).2
        simp only [data_mk]
        rw [hsz, kidsSize]
        unfold layEndL at this
        simp only [Nat.lt_irrefl, if_false, gt_iff_lt] at this
        rw [layEndL_pos _ _ _ (by omega), layoutEnd_restSize] at this
        exact this
  theorem enumRefsKids_withinL (lang : Lang) (pid addr nk : Nat) : ∀ (kids : List Tree) (pos : Length) (si k : Nat),
      SizedL kids → ∀ r ∈ enumRefsKids lang pid addr nk kids pos si k, lle r.endLen (layEndL kids pos k)
    | [], _, _, _, _, r, hr => by simp [enumRefsKids] at hr
    | c :: rest, pos, si, k, hs, r, hr => by
      unfold enumRefsKids at hr
      unfold SizedL at hs
      unfold layEndL
      simp only [List.mem_append] at hr
      have hmono := layEndL_ge rest (length_add (if k > 0 then length_add pos c.data.padding else pos) c.data.size) (k + 1)
      generalize (if k > 0 then length_add pos c.data.padding else pos) = cstart at hr hmono ⊢
      generalize (if c.data.extra = true then 0 else lang.aliasAt pid si) = al at hr
      rcases hr with hr | hr
      · by_cases hrel : ({ t := c, alias := al, id := slotId addr nk k, start := cstart } : NodeRef).relevant lang true = true
        · simp only [hrel, if_true, List.mem_singleton] at hr
          subst hr
          exact hmono
        · simp only [hrel, if_false, Bool.false_eq_true] at hr
          exact lle_trans (enumRefs_withinL lang c cstart hs.1 r hr) hmono
      · exact enumRefsKids_withinL lang pid addr nk rest _ _ _ hs.2 r hr
end

/-! ## Part 2: `cfcIdeal` = first visible child ending after the goal, with its index -/

/-- "ends after the goal": in bytes and in row/column order (the test of `goto_first_child_for_byte_and_point`). -/
def goalAfter (gb : Nat) (gp : TSPoint) (l : Length) : Bool := l.bytes > gb && point_gt l.extent gp

theorem goalAfter_mono (gb : Nat) (gp : TSPoint) (a b : Length) (h : lle a b) (hb : goalAfter gb gp b = false) :
    goalAfter gb gp a = false := by
  obtain ⟨h1, h2⟩ := h
  simp only [goalAfter, Bool.and_eq_false_iff, decide_eq_false_iff_not, point_gt, point_lte, decide_eq_true_eq] at *
  rcases hb with hb | hb
  · left; omega
  · right; omega

theorem findIdx_append_none {α : Type} (p : α → Bool) : ∀ (a b : List α), (∀ x ∈ a, p x = false) →
    (a ++ b).findIdx? p = (b.findIdx? p).map (· + a.length)
  | [], b, _ => by simp
  | x :: a, b, h => by
    have hx : p x = false := h x (by simp)
    simp only [List.cons_append, List.findIdx?_cons, hx, Bool.false_eq_true, if_false]
    rw [findIdx_append_none p a b (fun y hy => h y (by simp [hy]))]
    simp only [Option.map_map, List.length_cons]
    congr 1

theorem findIdx_append_some {α : Type} (p : α → Bool) : ∀ (a b : List α) (i : Nat), a.findIdx? p = some i →
    (a ++ b).findIdx? p = some i ∧ (a ++ b)[i]? = a[i]?
  | [], _, _, h => by simp at h
  | x :: a, b, i, h => by
    simp only [List.findIdx?_cons] at h
    by_cases hx : p x = true
    · simp only [hx, if_true, Option.some.injEq] at h
      subst h
      simp [List.findIdx?_cons, hx]
    · have hx' : p x = false := by simpa using hx
      simp only [hx', Bool.false_eq_true, if_false, Option.map_eq_some_iff] at h
      obtain ⟨j, hj, rfl⟩ := h
      obtain ⟨h1, h2⟩ := findIdx_append_some p a b j hj
      simp [List.findIdx?_cons, hx', h1, h2]

theorem findIdx_none_all {α : Type} (p : α → Bool) : ∀ (a : List α), a.findIdx? p = none → ∀ x ∈ a, p x = false
  | [], _, x, hx => by simp at hx
  | y :: a, h, x, hx => by
    simp only [List.findIdx?_cons] at h
    by_cases hy : p y = true
    · simp [hy] at h
    · have hy' : p y = false := by simpa using hy
      simp only [hy', Bool.false_eq_true, if_false, Option.map_eq_none_iff] at h
      rcases List.mem_cons.mp hx with rfl | hx
      · exact hy'
      · exact findIdx_none_all p a h x hx

/-- What is compared: the index, and the entry / `TSNode` found (subtree, slot id, start position). -/
def projE (r : Nat × List Entry) : Nat × Option (Tree × Nat × Length) := (r.1, r.2.head?.map fun e => (e.t, e.id, e.pos))
def pickR (refs : List NodeRef) (idx i : Nat) : Nat × Option (Tree × Nat × Length) :=
  (idx + i, (refs[i]?).map fun r => (r.t, r.id, r.start))

theorem enumRefs_length (lang : Lang) (t : Tree) (start : Length) : (enumRefs lang t start).length = (enumChildren lang t).length := by
  rw [← enumRefs_proj lang t start, List.length_map]

theorem vcc_eq_refs (lang : Lang) (t : Tree) (start : Length) (ps : Option Nat) (hs : Summarized lang t) (hsh : shapeOK ps t = true) :
    vcc t = (enumRefs lang t start).length := by
  rw [enumRefs_length]
  obtain ⟨d, kids⟩ := t
  have hc := (summarize_counts lang (.mk d kids) ps hs hsh).1
  unfold vcc
  cases kids with
  | nil => simp [Tree.kids, enumChildren, enumKids]
  | cons a b => simpa [Tree.kids] using hc

theorem getElem?_of_drop {α : Type} (l : List α) (k : Nat) (c : α) (rest : List α) (h : l.drop k = c :: rest) :
    l[k]? = some c ∧ l.drop (k + 1) = rest := by
  have h1 : l[k]? = some c := by
    have := congrArg List.head? h
    simpa [List.head?_drop] using this
  refine ⟨h1, ?_⟩
  have := drop_eq_cons l k c h1
  rw [this] at h
  exact (List.cons.inj h).2

/-- **cfcIdeal_flat.**  For every language, goal, stack `top :: rest` whose top subtree is summarized and
parser-shaped: the plain search `cfcIdeal` from that stack returns the index (counted from `idx`) and the entry
(subtree, slot id, position) of the FIRST element of `enumRefs lang top.t top.pos` — the visible children of the
node as `TSNode`s — whose end lies after the goal in bytes and in row/column order; nothing iff there is none. -/
theorem cfcIdeal_flat (lang : Lang) (gb : Nat) (gp : TSPoint) : ∀ (f : Nat) (top : Entry) (rest : List Entry) (idx : Nat) (ps : Option Nat),
    Summarized lang top.t → shapeOK ps top.t = true → top.t.size ≤ f →
    (cfcIdeal lang gb gp f (top :: rest) idx).map projE =
      ((enumRefs lang top.t top.pos).findIdx? (fun r => goalAfter gb gp r.endLen)).map (pickR (enumRefs lang top.t top.pos) idx)
  | 0, top, _, _, _, _, _, hsz => by have := tree_size_pos top.t; omega
  | f + 1, top, rest, idx, ps, hs, hsh, hsz => by
    unfold cfcIdeal
    simp only
    cases htt : top.t with
    | mk d kids =>
      rw [htt] at hs hsh hsz
      unfold Summarized at hs
      unfold shapeOK at hsh
      simp only [Bool.and_eq_true] at hsh
      unfold enumRefs
      -- the scan over the remaining raw children `ks` = kids.drop k
      have scan : ∀ (ks : List Tree) (fuel2 : Nat) (it : Iter) (pos : Length) (si k i0 : Nat),
          ks.length < fuel2 → it.valid = true → it.parent = top.t → it.childIndex = k → it.si = si →
          kids.drop k = ks → (∀ c r, ks = c :: r → it.pos = (if k > 0 then length_add pos c.data.padding else pos)) →
          SummarizedL lang ks → shapeOKL (some d.symbol) ks = true → Tree.sizeList ks ≤ f →
          (cfcScanIdeal lang gb gp (cfcIdeal lang gb gp f) (top :: rest) fuel2 it i0).map projE =
            ((enumRefsKids lang d.productionId d.addr kids.length ks pos si k).findIdx? (fun r => goalAfter gb gp r.endLen)).map
              (pickR (enumRefsKids lang d.productionId d.addr kids.length ks pos si k) i0) := by
        intro ks
        induction ks with
        | nil =>
          intro fuel2 it pos si k i0 hf hv hp hk hsi hdrop _ _ _ _
          have hnone : it.parent.kids[it.childIndex]? = none := by
            rw [hp, htt, hk]; simp only [kids_mk]
            have : kids.length ≤ k := by
              have := congrArg List.length hdrop; simp at this; omega
            simp [this]
          cases fuel2 with
          | zero => omega
          | succ f2 => simp [cfcScanIdeal, iterNext_none lang it hnone, enumRefsKids]
        | cons c r ih =>
          intro fuel2 it pos si k i0 hf hv hp hk hsi hdrop hpos hsk hshk hszk
          obtain ⟨hck, hdrop'⟩ := getElem?_of_drop kids k c r hdrop
          have hc' : it.parent.kids[it.childIndex]? = some c := by rw [hp, htt, hk]; exact hck
          unfold SummarizedL at hsk
          unfold shapeOKL at hshk
          simp only [Bool.and_eq_true] at hshk
          have hszc : c.size ≤ f := by unfold Tree.sizeList at hszk; omega
          have hszr : Tree.sizeList r ≤ f := by unfold Tree.sizeList at hszk; omega
          cases fuel2 with
          | zero => simp at hf
          | succ f2 =>
          unfold cfcScanIdeal enumRefsKids
          rw [iterNext_some lang it c hv hc']
          simp only
          have hpos' := hpos c r rfl
          -- abbreviations
          have hepos : (entryOf it c).pos = it.pos := rfl
          have het : (entryOf it c).t = c := rfl
          have heid : (entryOf it c).id = slotId d.addr kids.length k := by
            simp only [entryOf, hp, htt, data_mk, kids_mk, hk]
          rw [← hpos']
          have hvis : visOf lang it c =
              ({ t := c, alias := (if c.data.extra then 0 else lang.aliasAt d.productionId si), id := slotId d.addr kids.length k, start := it.pos } : NodeRef).relevant lang true := by
            simp only [visOf, NodeRef.relevant, isRelevant, if_true, hp, htt, data_mk, hsi]
            cases c.data.visible <;> cases c.data.extra <;> simp
          -- the iterator after the step
          have hnext := ih f2 (nextIter lang it c) (length_add it.pos c.data.size) (if c.data.extra then si else si + 1) (k + 1)
          have hnv : (nextIter lang it c).valid = true := by simp [nextIter, hv]
          have hnpos : ∀ c2 r2, r = c2 :: r2 → (nextIter lang it c).pos =
              (if k + 1 > 0 then length_add (length_add it.pos c.data.size) c2.data.padding else length_add it.pos c.data.size) := by
            intro c2 r2 hr
            have h2 : kids[k + 1]? = some c2 := by
              have := (getElem?_of_drop kids (k + 1) c2 r2 (by rw [hdrop', hr])).1
              exact this
            simp only [nextIter, hp, htt, kids_mk, hk, h2, Nat.succ_pos, if_true, gt_iff_lt]
          have hrec := fun i1 => hnext i1 (by simp at hf ⊢; omega) hnv (by rw [nextIter_parent]; exact hp)
            (by rw [nextIter_childIndex, hk]) (by rw [nextIter_si, hsi]) hdrop' hnpos hsk.2 hshk.2 hszr
          generalize hnode : ({ t := c, alias := (if c.data.extra then 0 else lang.aliasAt d.productionId si), id := slotId d.addr kids.length k, start := it.pos } : NodeRef) = node at hvis ⊢
          have hend : length_add (entryOf it c).pos (entryOf it c).t.data.size = node.endLen := by
            rw [← hnode]; rfl
          rw [hend]
          by_cases hrel : node.relevant lang true = true
          · -- a visible child
            rw [hvis, hrel]
            simp only [if_true, List.cons_append, List.nil_append, List.findIdx?_cons]
            by_cases hg : goalAfter gb gp node.endLen = true
            · have hg' : (decide (node.endLen.bytes > gb) && point_gt node.endLen.extent gp) = true := hg
              simp only [hg', hg, if_true, Option.map_some]
              simp only [projE, pickR, List.head?_cons, Option.map_some, List.getElem?_cons_zero, Nat.add_zero]
              rw [← hnode]; simp [het, heid, hepos]
            · have hg0 : goalAfter gb gp node.endLen = false := by simpa using hg
              have hg' : (decide (node.endLen.bytes > gb) && point_gt node.endLen.extent gp) = false := hg0
              simp only [hg', hg0, Bool.false_eq_true, if_false]
              rw [hrec (i0 + 1)]
              simp only [Option.map_map]
              congr 1
              funext i
              simp only [Function.comp, pickR, List.getElem?_cons_succ]
              congr 1
              omega
          · -- a hidden child
            have hrel' : node.relevant lang true = false := by simpa using hrel
            rw [hvis, hrel']
            simp only [Bool.false_eq_true, if_false]
            have hsc : Summarized lang c := hsk.1
            have hshc : shapeOK (some d.symbol) c = true := hshk.1
            have hvcc : vcc (entryOf it c).t = (enumRefs lang c it.pos).length := by
              rw [het]; exact vcc_eq_refs lang c it.pos (some d.symbol) hsc hshc
            have hwithin : ∀ x ∈ enumRefs lang c it.pos, lle x.endLen node.endLen := by
              intro x hx
              have := enumRefs_withinL lang c it.pos (sized_of_summarized lang c hsc) x hx
              rw [← hnode]; exact this
            have hskip : goalAfter gb gp node.endLen = false →
                ∀ x ∈ enumRefs lang c it.pos, (fun r : NodeRef => goalAfter gb gp r.endLen) x = false := by
              intro hg x hx
              exact goalAfter_mono gb gp _ _ (hwithin x hx) hg
            -- descending into the hidden child: the search one level down (fuel f)
            have hinner := cfcIdeal_flat lang gb gp f (entryOf it c) (top :: rest) i0 (some d.symbol) hsc hshc hszc
            rw [hepos, het] at hinner
            by_cases hg : goalAfter gb gp node.endLen = true
            · have hg' : (decide (node.endLen.bytes > gb) && point_gt node.endLen.extent gp) = true := hg
              simp only [hg', if_true]
              by_cases hv0 : vcc (entryOf it c).t > 0
              · simp only [hv0, if_true]
                cases hin : cfcIdeal lang gb gp f (entryOf it c :: top :: rest) i0 with
                | some res =>
                  rw [hin] at hinner
                  simp only [Option.map_some] at hinner ⊢
                  cases hfi : (enumRefs lang c it.pos).findIdx? (fun r => goalAfter gb gp r.endLen) with
                  | none => rw [hfi] at hinner; simp at hinner
                  | some i =>
                    rw [hfi] at hinner
                    simp only [Option.map_some, Option.some.injEq] at hinner
                    obtain ⟨h1, h2⟩ := findIdx_append_some _ _ (enumRefsKids lang d.productionId d.addr kids.length r (length_add it.pos c.data.size) (if c.data.extra then si else si + 1) (k + 1)) i hfi
                    rw [h1]
                    simp only [Option.map_some, Option.some.injEq]
                    rw [hinner]
                    simp only [pickR, h2]
                | none =>
                  rw [hin] at hinner
                  simp only [Option.map_none] at hinner
                  have hfi : (enumRefs lang c it.pos).findIdx? (fun r => goalAfter gb gp r.endLen) = none := by
                    cases hx : (enumRefs lang c it.pos).findIdx? (fun r => goalAfter gb gp r.endLen) with
                    | none => rfl
                    | some i => rw [hx] at hinner; simp at hinner
                  simp only
                  rw [hrec (i0 + vcc (entryOf it c).t), findIdx_append_none _ _ _ (findIdx_none_all _ _ hfi)]
                  simp only [Option.map_map]
                  congr 1
                  funext i
                  simp only [Function.comp, pickR, hvcc]
                  rw [List.getElem?_append_right (by omega)]
                  rw [Nat.add_sub_cancel, Nat.add_assoc, Nat.add_comm _ i]
              · simp only [hv0, if_false]
                have hnil : enumRefs lang c it.pos = [] := by
                  apply List.eq_nil_of_length_eq_zero
                  rw [← hvcc]; omega
                rw [hrec i0, hnil]
                simp
            · have hg0 : goalAfter gb gp node.endLen = false := by simpa using hg
              have hg' : (decide (node.endLen.bytes > gb) && point_gt node.endLen.extent gp) = false := hg0
              simp only [hg', Bool.false_eq_true, if_false]
              rw [hrec (i0 + vcc (entryOf it c).t), findIdx_append_none _ _ _ (hskip hg0)]
              simp only [Option.map_map]
              congr 1
              funext i
              simp only [Function.comp, pickR, hvcc]
              rw [List.getElem?_append_right (by omega)]
              rw [Nat.add_sub_cancel, Nat.add_assoc, Nat.add_comm _ i]
      -- apply the scan to all children
      cases hk0 : kids with
      | nil =>
        have hinv : iterNext lang (iterateChildren lang top rest.head?) = none :=
          iterateChildren_invalid lang top rest.head? (by rw [htt]; simp [Tree.kids, hk0])
        simp [cfcScanIdeal, hinv, enumRefsKids]
      | cons k0 krest =>
        have hne : top.t.kids.isEmpty = false := by rw [htt]; simp [Tree.kids, hk0]
        have hit : (iterateChildren lang top rest.head?).valid = true := by unfold iterateChildren; simp [hne]
        have hitp : (iterateChildren lang top rest.head?).pos = top.pos := by unfold iterateChildren; simp [hne]
        have hitc : (iterateChildren lang top rest.head?).childIndex = 0 := by unfold iterateChildren; simp [hne]
        have hits : (iterateChildren lang top rest.head?).si = 0 := by unfold iterateChildren; simp [hne]
        have := scan kids (top.t.kids.length + 1) (iterateChildren lang top rest.head?) top.pos 0 0 idx
          (by rw [htt]; simp [Tree.kids]) hit (iterateChildren_parent lang top rest.head?) hitc hits (by simp)
          (by intro c r _; simp [hitp]) hs.2.2 hsh.2 (by unfold Tree.size at hsz; omega)
        rw [← hk0]
        simpa [htt, Tree.kids, Tree.data] using this

/-! ## Part 3: on the judge's array `FT` -/

theorem findIdx_map {α β : Type} (g : α → β) (p : β → Bool) : ∀ (l : List α), (l.map g).findIdx? p = l.findIdx? (fun x => p (g x))
  | [] => rfl
  | a :: l => by simp only [List.map_cons, List.findIdx?_cons, findIdx_map g p l]

theorem findIdx_congr_mem {α : Type} (p q : α → Bool) : ∀ (l : List α), (∀ x ∈ l, p x = q x) → l.findIdx? p = l.findIdx? q
  | [], _ => rfl
  | a :: l, h => by
    simp only [List.findIdx?_cons, h a (by simp), findIdx_congr_mem p q l (fun x hx => h x (by simp [hx]))]

theorem findIdx_lt {α : Type} (p : α → Bool) : ∀ (l : List α) (i : Nat), l.findIdx? p = some i → i < l.length
  | [], _, h => by simp at h
  | a :: l, i, h => by
    simp only [List.findIdx?_cons] at h
    by_cases ha : p a = true
    · simp only [ha, if_true, Option.some.injEq] at h; subst h; simp
    · have ha' : p a = false := by simpa using ha
      simp only [ha', Bool.false_eq_true, if_false, Option.map_eq_some_iff] at h
      obtain ⟨j, hj, rfl⟩ := h
      have := findIdx_lt p l j hj
      simp; omega

/-- the end position `flatten` records for a child of entry `k` is the end of its `TSNode` -/
theorem ft_kids_stop (lang : Lang) (ft : FT) (info : VInfo) (kids : List VTree) (k : Nat) (par : Option Nat) (dep : Nat)
    (hg : GoodAt ft.toList (.mk info kids) k par dep) (hq : QQ lang (.mk info kids)) :
    ∀ j ∈ ft.kidsOf k, (ft.node j).info.stop = (refOf (ft.node j).info).endLen := by
  have hK := ft_kid_info ft info kids k par dep hg
  intro j hj
  obtain ⟨m, hm⟩ := List.mem_iff_getElem?.mp hj
  have h1 := hK m
  rw [hm] at h1
  cases hc : kids[m]? with
  | none => rw [hc] at h1; simp at h1
  | some c =>
    rw [hc] at h1
    simp only [Option.map_some, Option.some.injEq] at h1
    obtain ⟨⟨_, _, hstop, _⟩, _, _⟩ := qq_kids lang info kids hq c (List.mem_of_getElem? hc)
    simp only [h1, refOf, NodeRef.endLen, hstop]

/-- **cursor_first_child_for_ft_spec.**  The evaluated cross-check `cfcIdeal = FT.cursorFirstChildFor` as a theorem,
in the form the driver evaluates it: for EVERY entry `k` of the preorder array of `flatten` (root summarized and
parser-shaped), every goal byte / point and every cursor stack whose top entry is that node (same raw subtree, same
start position), the plain search `cfcIdeal` returns the index and the node id that `FT.cursorFirstChildFor k`
designates — nothing iff nothing.  With `cursor_first_child_for_spec` (port = `cfcIdeal` without a dead end):
`ts_tree_cursor_goto_first_child_for_byte/point` = the first child of the ordered tree ending after the goal. -/
theorem cursor_first_child_for_ft_spec (lang : Lang) (root : Tree) (rootId : Nat) (ps : Option Nat) (fuel k gb : Nat) (gp : TSPoint)
    (hs : Summarized lang root) (hsh : shapeOK ps root = true) :
    let ft : FT := flatOf (flatten lang root rootId)
    k < ft.size → ∀ (top : Entry) (rest : List Entry), top.t = (ft.node k).info.raw → top.pos = (ft.node k).info.start →
    top.t.size ≤ fuel →
    (cfcIdeal lang gb gp fuel (top :: rest) 0).map (fun r => (r.1, r.2.head?.map (·.id))) =
      (ft.cursorFirstChildFor k gb gp).map (fun ij => (ij.1, some (ft.node ij.2).info.id)) := by
  intro ft hk top rest ht hp hf
  obtain ⟨info, kids, par, dep, hg, hq⟩ := ft_all_good lang root rootId ps hs hsh k hk
  have hnode := good_node ft info kids k par dep hg
  have hinfo : (ft.node k).info = info := by rw [hnode]
  rw [hinfo] at ht hp
  obtain ⟨hrefs, _⟩ := ft_kids_refs lang ft info kids k par dep hg hq
  have hstop := ft_kids_stop lang ft info kids k par dep hg hq
  obtain ⟨_, hsv, psv, hshv⟩ := hq
  simp only [VTree.info] at hsv hshv
  have hflat := cfcIdeal_flat lang gb gp fuel top rest 0 psv (by rw [ht]; exact hsv) (by rw [ht]; exact hshv) hf
  rw [ht, hp, ← hrefs] at hflat
  -- project both sides to (index, id)
  have hproj := congrArg (Option.map fun (x : Nat × Option (Tree × Nat × Length)) => (x.1, x.2.map (·.2.1))) hflat
  simp only [Option.map_map] at hproj
  have hl : (fun r : Nat × List Entry => (r.1, r.2.head?.map (·.id))) =
      (fun (x : Nat × Option (Tree × Nat × Length)) => (x.1, x.2.map (·.2.1))) ∘ projE := by
    funext r; simp only [projE, Function.comp, Option.map_map]; rfl
  rw [hl, hproj]
  -- the right-hand side
  unfold FT.cursorFirstChildFor
  simp only
  rw [findIdx_map]
  have hcongr : (ft.kidsOf k).findIdx? (fun j => goalAfter gb gp (refOf (ft.node j).info).endLen) =
      (ft.kidsOf k).findIdx? (fun j => decide (ft.eb j > gb) && point_gt (ft.ep j) gp) := by
    apply findIdx_congr_mem
    intro j hj
    simp only [goalAfter, FT.eb, FT.ep, hstop j hj]
  rw [hcongr]
  cases hfi : (ft.kidsOf k).findIdx? (fun j => decide (ft.eb j > gb) && point_gt (ft.ep j) gp) with
  | none => simp
  | some i =>
    have hlt := findIdx_lt _ _ i hfi
    simp only [Option.map_some, Function.comp, pickR, Nat.zero_add, List.getElem?_map, Option.some.injEq, Prod.mk.injEq, true_and]
    rw [List.getElem?_eq_getElem hlt]
    simp only [Option.map_some, refOf]
    congr 2
    simp [List.getD, List.getElem?_eq_getElem hlt]

/-! ## Non-vacuity: `cwRoot` = rule[tok, _hidden[tok, tok], tok] (4 visible children of one byte each) -/

def cffTop : Entry := { t := cwRoot, id := 1, pos := length_zero }

example : (enumRefs C02.demoLang cwRoot length_zero).map (·.endLen.bytes) = [1, 2, 3, 4] := by decide
/-- goal byte 1: the first child ending after byte 1 is child 1 — the first token INSIDE the hidden node -/
example : (cfcIdeal C02.demoLang 1 POINT_ZERO 7 [cffTop] 0).map (fun r => (r.1, r.2.length)) = some (1, 3) := by decide
example : ((enumRefs C02.demoLang cwRoot length_zero).findIdx? (fun r => goalAfter 1 POINT_ZERO r.endLen)) = some 1 := by decide

end TsVerif.C06
