import TsVerif.C06.Model
/-!
# C06 — port of `ts_subtree__write_to_string` / `ts_node_string` (lib/src/subtree.c, node.c)

The C writer is a depth-first walk with an explicit stack of frames
(subtree, alias_symbol, alias_is_named, field_name, is_root); here a frame is a call of
`writeNode`, the child loop is `writeKids`.  `include_all` is always false for `ts_node_string`.
A field name is represented by its id (0 = NULL).
-/
namespace TsVerif.C06
open TsGen TsVerif TsVerif.C02

/-- The non-inherited field of structural child `si` of production `pid` (first table entry);
`none` = NULL. -/
def directField (lang : Lang) (pid si : Nat) : Option Nat := (directFields lang pid si).head?

mutual
  /-- One frame: `pre_written` part, then the children, then the closing parenthesis. -/
  def writeNode (lang : Lang) (t : Tree) (al : Nat) (alNamed : Bool) (field : Option Nat) (isRoot : Bool) : String :=
    match t with
    | .mk d kids =>
      let isVisible := d.isMissing || (if al != 0 then alNamed else d.visible && d.named)
      let sym := if al != 0 then al else d.symbol
      let name := (lang.symMeta sym).name
      let head :=
        if isVisible then
          (if !isRoot then " " ++ fieldPrefix lang field else "") ++
          (if d.symbol == symError && kids.length == 0 && d.size.bytes > 0 then
             "(UNEXPECTED " ++ renderChar (unexpectedChar d)
           else if d.isMissing then
             "(MISSING " ++ (if alNamed || d.named then name else "\"" ++ name ++ "\"")
           else "(" ++ name)
        else if isRoot then
          (if kids.length > 0 then "(" ++ name
           else if d.named then "(" ++ name ++ ")" else "(\"" ++ name ++ "\")")
        else ""
      head ++ writeKids lang kids d.productionId 0 (if isVisible then none else field) ++ (if isVisible then ")" else "")
  /-- The child loop of a frame; `inherited` is `frame->is_visible ? NULL : frame->field_name`. -/
  def writeKids (lang : Lang) (kids : List Tree) (pid si : Nat) (inherited : Option Nat) : String :=
    match kids with
    | [] => ""
    | c :: rest =>
      if c.data.extra then
        writeNode lang c 0 false none false ++ writeKids lang rest pid si inherited
      else
        let al := lang.aliasAt pid si
        let alNamed := al != 0 && (lang.symMeta al).named
        let f := firstSome (directField lang pid si) inherited
        writeNode lang c al alNamed f false ++ writeKids lang rest pid (si + 1) inherited
end

/-- `ts_node_string(node)` for a node with subtree `t` and alias `al`: note that node.c passes
`symbol_metadata(alias).visible` where the writer expects `alias_is_named`. -/
def nodeString (lang : Lang) (t : Tree) (al : Nat) : String :=
  writeNode lang t al (lang.symMeta al).visible none true

mutual
  /-- What the S-expression theorem assumes of a tree: a hidden node is never MISSING, and a
  visible/aliased node that the writer does not print (anonymous, not MISSING) has no children. -/
  def sexpOK (lang : Lang) : Tree → Nat → Bool
    | .mk d kids, al =>
      (if d.visible || al != 0 then
        (d.isMissing || (if al != 0 then (lang.symMeta al).named else d.named) || kids.isEmpty)
       else !d.isMissing) && sexpOKKids lang kids d.productionId 0
  def sexpOKKids (lang : Lang) : List Tree → Nat → Nat → Bool
    | [], _, _ => true
    | c :: rest, pid, si =>
      sexpOK lang c (if c.data.extra then 0 else lang.aliasAt pid si) &&
        sexpOKKids lang rest pid (if c.data.extra then si else si + 1)
end


mutual
  /-- Does the subtree contain a node that is MISSING but neither visible nor aliased?  The writer
  prints such a node (`(MISSING _name)`) although no navigation function can reach it. -/
  def hasHiddenMissing (lang : Lang) : Tree → Nat → Bool
    | .mk d kids, al => (d.isMissing && !(d.visible || al != 0)) || hasHiddenMissingKids lang kids d.productionId 0
  def hasHiddenMissingKids (lang : Lang) : List Tree → Nat → Nat → Bool
    | [], _, _ => false
    | c :: rest, pid, si =>
      hasHiddenMissing lang c (if c.data.extra then 0 else lang.aliasAt pid si) ||
        hasHiddenMissingKids lang rest pid (if c.data.extra then si else si + 1)
end

end TsVerif.C06
