import TsVerif.C06.RangeFlat
import TsVerif.C06.CursorFcbFlat
/-!
# C06 — the `FT` link of the POINT-range search (both flags)

`descendant_for_point_range_spec_partial` (NavVariants.lean): for `rs < re` in row/column order the port of
`ts_node_(named_)descendant_for_point_range` is the plain raw search `dfrIdealP`.  Here the remaining link, which was
only evaluated: `dfrIdealP` = `FT.descendantForPoints` — the development of `RangeFlat.lean` with the byte order
replaced by the row/column order (the visible children of a node are ordered, disjoint and inside the node in that
order too: `enumRefsKids_propsP`, `enumRefs_withinL`).
-/
namespace TsVerif.C06
open TsGen TsVerif TsVerif.C02

/-- start / end of a `TSNode` in rows and columns -/
abbrev NodeRef.sP (r : NodeRef) : TSPoint := r.start.extent
abbrev NodeRef.eP (r : NodeRef) : TSPoint := r.endLen.extent

theorem sP_le_eP (r : NodeRef) : point_lte r.sP r.eP = true := by
  simp only [NodeRef.sP, NodeRef.eP, NodeRef.endLen, length_add_extent]; exact ple_add _ _

/-- Does the node reach the end of the range (`re ≤ end`)? -/
def reachesP (re : TSPoint) (r : NodeRef) : Bool := !point_lt r.eP re

def vgoP (lang : Lang) (anon : Bool) (rs re : TSPoint) : Nat → NodeRef → NodeRef → NodeRef
  | 0, _, last => last
  | f + 1, self, last =>
    match (enumRefs lang self.t self.start).find? (reachesP re) with
    | none => last
    | some r => if point_lt rs r.sP then last else vgoP lang anon rs re f r (if r.relevant lang anon then r else last)

theorem dfrIdealP_fuel (lang : Lang) (anon : Bool) (rs re : TSPoint) : ∀ (n : Nat) (node : NodeRef), node.t.size ≤ n → ∀ (f1 f2 : Nat) (last : NodeRef),
    node.t.size ≤ f1 → node.t.size ≤ f2 → dfrIdealP lang anon rs re f1 node last = dfrIdealP lang anon rs re f2 node last
  | 0, node, hn, _, _, _, _, _ => by have := tree_size_pos node.t; omega
  | n + 1, node, hn, f1, f2, last, h1, h2 => by
    have hpos := tree_size_pos node.t
    obtain ⟨f1', rfl⟩ : ∃ x, f1 = x + 1 := ⟨f1 - 1, by omega⟩
    obtain ⟨f2', rfl⟩ : ∃ x, f2 = x + 1 := ⟨f2 - 1, by omega⟩
    simp only [dfrIdealP]
    cases hf : (rawChildren lang node).find? (spansP rs re) with
    | none => rfl
    | some rc =>
      have := raw_child_size lang node rc (find_some_mem _ _ _ hf).1
      exact dfrIdealP_fuel lang anon rs re n rc.node (by omega) f1' f2' _ (by omega) (by omega)

def dfrLP (lang : Lang) (anon : Bool) (rs re : TSPoint) (f : Nat) (last : NodeRef) (raws : List RawChild) : NodeRef :=
  match raws.find? (spansP rs re) with
  | none => last
  | some rc => dfrIdealP lang anon rs re f rc.node (if rc.node.relevant lang anon then rc.node else last)
def dfrRP (lang : Lang) (anon : Bool) (rs re : TSPoint) (last : NodeRef) (refs : List NodeRef) : NodeRef :=
  match refs.find? (reachesP re) with
  | none => last
  | some r => if point_lt rs r.sP then last else dfrIdealP lang anon rs re r.t.size r (if r.relevant lang anon then r else last)

theorem dfrLP_cons (lang : Lang) (anon : Bool) (rs re : TSPoint) (f : Nat) (last : NodeRef) (rc : RawChild) (raws : List RawChild) :
    dfrLP lang anon rs re f last (rc :: raws) =
      if spansP rs re rc then dfrIdealP lang anon rs re f rc.node (if rc.node.relevant lang anon then rc.node else last)
      else dfrLP lang anon rs re f last raws := by
  simp only [dfrLP, List.find?_cons]
  cases spansP rs re rc <;> rfl

theorem dfrRP_append (lang : Lang) (anon : Bool) (rs re : TSPoint) (last : NodeRef) (a b : List NodeRef) :
    dfrRP lang anon rs re last (a ++ b) =
      match a.find? (reachesP re) with
      | none => dfrRP lang anon rs re last b
      | some r => if point_lt rs r.sP then last else dfrIdealP lang anon rs re r.t.size r (if r.relevant lang anon then r else last) := by
  simp only [dfrRP, find_append_or]
  cases a.find? (reachesP re) <;> rfl

theorem dfrLP_none (lang : Lang) (anon : Bool) (rs re : TSPoint) (f : Nat) (last : NodeRef) (raws : List RawChild)
    (h : ∀ rc ∈ raws, point_lt rs rc.node.sP = true) : dfrLP lang anon rs re f last raws = last := by
  have : raws.find? (spansP rs re) = none := by
    apply find_none_of_all
    intro x hx
    have := h x hx
    simp only [point_lt, decide_eq_true_eq, NodeRef.sP] at this
    simp only [spansP, point_lte, Bool.and_eq_false_iff, decide_eq_false_iff_not]
    left; omega
  simp [dfrLP, this]

theorem dfrRP_after (lang : Lang) (anon : Bool) (rs re : TSPoint) (last : NodeRef) (refs : List NodeRef)
    (h : ∀ r ∈ refs, point_lt rs r.sP = true) : dfrRP lang anon rs re last refs = last := by
  unfold dfrRP
  cases hf : refs.find? (reachesP re) with
  | none => rfl
  | some r =>
    have := h r (find_some_mem _ _ _ hf).1
    simp [this]

/-- from `a ≤ b` and `re ≤ a`, `rs < re`: `rs < b` -/
theorem plt_of_chain (rs re a b : TSPoint) (hr : point_lt rs re = true) (h1 : point_lt a re = false) (h2 : point_lte a b = true) :
    point_lt rs b = true := by
  simp only [point_lt, point_lte, decide_eq_true_eq, decide_eq_false_iff_not] at *
  omega

theorem dfr_stepP (lang : Lang) (anon : Bool) (rs re : TSPoint) (f : Nat) (hr : point_lt rs re = true) (last : NodeRef) (rc : RawChild) (raws : List RawChild)
    (cpart refs : List NodeRef) (hpa : rc.posAfter.extent = rc.node.eP)
    (hX : if rc.node.relevant lang true then
            cpart = [rc.node] ∧ ∀ l, dfrIdealP lang anon rs re f rc.node l = dfrIdealP lang anon rs re rc.node.t.size rc.node l
          else dfrIdealP lang anon rs re f rc.node last = dfrRP lang anon rs re last cpart)
    (hIH : dfrLP lang anon rs re f last raws = dfrRP lang anon rs re last refs)
    (hF1 : ∀ r ∈ refs, point_lte rc.node.eP r.sP = true)
    (hF2 : ∀ r ∈ cpart, point_lte rc.node.sP r.sP = true ∧ point_lte r.eP rc.node.eP = true)
    (hF3 : ∀ x ∈ raws, point_lte rc.node.eP x.node.sP = true) :
    dfrLP lang anon rs re f last (rc :: raws) = dfrRP lang anon rs re last (cpart ++ refs) := by
  rw [dfrLP_cons, dfrRP_append]
  by_cases hsp : spansP rs re rc = true
  · simp only [hsp, if_true]
    simp only [spansP, Bool.and_eq_true] at hsp
    rw [hpa] at hsp
    have hreach : point_lt rc.node.eP re = false := by
      have := hsp.2
      simp only [point_lt, point_lte, decide_eq_true_eq, decide_eq_false_iff_not] at *
      omega
    by_cases hrel : rc.node.relevant lang true = true
    · simp only [hrel, if_true] at hX
      rw [hX.1]
      have h1 : reachesP re rc.node = true := by simp [reachesP, hreach]
      have h2 : point_lt rs rc.node.sP = false := by
        have := hsp.1
        simp only [point_lt, point_lte, decide_eq_true_eq, decide_eq_false_iff_not, NodeRef.sP] at *
        omega
      simp only [List.find?_cons, h1, h2, Bool.false_eq_true, if_false]
      exact hX.2 _
    · have hrel' : rc.node.relevant lang true = false := by simpa using hrel
      simp only [hrel', if_false, Bool.false_eq_true] at hX
      rw [rel_of_hidden lang anon rc.node hrel']
      simp only [Bool.false_eq_true, if_false]
      rw [hX]
      unfold dfrRP
      cases hf : cpart.find? (reachesP re) with
      | some r => rfl
      | none =>
        simp only
        have := dfrRP_after lang anon rs re last refs (fun r hr' => plt_of_chain rs re _ _ hr hreach (hF1 r hr'))
        unfold dfrRP at this
        exact this.symm
  · have hsp' : spansP rs re rc = false := by simpa using hsp
    simp only [hsp', Bool.false_eq_true, if_false]
    simp only [spansP, Bool.and_eq_false_iff] at hsp'
    rw [hpa] at hsp'
    by_cases hend : point_lt rc.node.eP re = true
    · have hnone : cpart.find? (reachesP re) = none := by
        apply find_none_of_all
        intro r hr'
        have := (hF2 r hr').2
        simp only [reachesP, Bool.not_eq_false']
        simp only [point_lt, point_lte, decide_eq_true_eq] at *
        omega
      rw [hnone]
      exact hIH
    · have hend' : point_lt rc.node.eP re = false := by simpa using hend
      have hst : point_lt rs rc.node.sP = true := by
        rcases hsp' with h | h
        · simp only [point_lt, point_lte, decide_eq_true_eq, decide_eq_false_iff_not, NodeRef.sP] at *
          omega
        · simp only [point_lt, point_lte, decide_eq_true_eq, decide_eq_false_iff_not] at *
          omega
      rw [dfrLP_none lang anon rs re f last raws (fun x hx => plt_of_chain rs re _ _ hr hend' (hF3 x hx))]
      cases hf : cpart.find? (reachesP re) with
      | some r =>
        have := (hF2 r (find_some_mem _ _ _ hf).1).1
        have hlt : point_lt rs r.sP = true := by
          simp only [point_lt, point_lte, decide_eq_true_eq, NodeRef.sP] at *
          omega
        simp [hlt]
      | none =>
        simp only
        exact (dfrRP_after lang anon rs re last refs (fun r hr' => plt_of_chain rs re _ _ hr hend' (hF1 r hr'))).symm

mutual
  /-- The `TSNode`s handed out for a subtree start at or after its start, in row/column order. -/
  theorem enumRefs_propsP (lang : Lang) : ∀ (t : Tree) (start : Length), ∀ r ∈ enumRefs lang t start, point_lte start.extent r.sP = true
    | .mk d kids, start, r, hr => by
      unfold enumRefs at hr
      exact enumRefsKids_propsP lang d.productionId d.addr kids.length kids start 0 0 r hr
  theorem enumRefsKids_propsP (lang : Lang) (pid addr nk : Nat) : ∀ (kids : List Tree) (pos : Length) (si k : Nat),
      ∀ r ∈ enumRefsKids lang pid addr nk kids pos si k, point_lte pos.extent r.sP = true
    | [], _, _, _, r, hr => by simp [enumRefsKids] at hr
    | c :: rest, pos, si, k, r, hr => by
      unfold enumRefsKids at hr
      simp only [List.mem_append] at hr
      have hcs : point_lte pos.extent (if k > 0 then length_add pos c.data.padding else pos).extent = true := by
        split
        · rw [length_add_extent]; exact ple_add _ _
        · exact ple_refl _
      generalize (if k > 0 then length_add pos c.data.padding else pos) = cstart at hr hcs
      generalize (if c.data.extra = true then 0 else lang.aliasAt pid si) = al at hr
      rcases hr with hr | hr
      · by_cases hrel : ({ t := c, alias := al, id := slotId addr nk k, start := cstart } : NodeRef).relevant lang true = true
        · simp only [hrel, if_true, List.mem_singleton] at hr
          subst hr
          exact hcs
        · simp only [hrel, if_false, Bool.false_eq_true] at hr
          exact ple_trans _ _ _ hcs (enumRefs_propsP lang c _ r hr)
      · have := enumRefsKids_propsP lang pid addr nk rest _ _ _ r hr
        refine ple_trans _ _ _ (ple_trans _ _ _ hcs ?_) this
        rw [length_add_extent]; exact ple_add _ _
end

mutual
  theorem dfrHP (lang : Lang) (anon : Bool) (rs re : TSPoint) (hr : point_lt rs re = true) : ∀ (t : Tree) (al id : Nat) (start : Length) (last : NodeRef) (f : Nat),
      t.size ≤ f → Sized t →
      dfrIdealP lang anon rs re f ⟨t, al, id, start⟩ last = dfrRP lang anon rs re last (enumRefs lang t start)
    | .mk d kids, al, id, start, last, f, hf, hs => by
      obtain ⟨f', rfl⟩ : ∃ x, f = x + 1 := ⟨f - 1, by simp only [Tree.size] at hf; omega⟩
      unfold Sized at hs
      simp only [Tree.size] at hf
      have := dfrHLP lang anon rs re hr kids ⟨.mk d kids, al, id, start⟩ d.productionId kids.length start 0 0 last f' (by omega) hs.2
      unfold enumRefs
      simp only [data_mk] at this
      rw [← this]
      rfl
  theorem dfrHLP (lang : Lang) (anon : Bool) (rs re : TSPoint) (hr : point_lt rs re = true) : ∀ (kids : List Tree) (n : NodeRef) (pid nk : Nat) (pos : Length) (si k : Nat)
      (last : NodeRef) (f : Nat), Tree.sizeList kids ≤ f → SizedL kids →
      dfrLP lang anon rs re f last (rawChildren.go lang n pid nk kids pos si k) =
        dfrRP lang anon rs re last (enumRefsKids lang pid n.t.data.addr nk kids pos si k)
    | [], _, _, _, _, _, _, _, _, _, _ => by simp [rawChildren.go, enumRefsKids, dfrLP, dfrRP]
    | c :: rest, n, pid, nk, pos, si, k, last, f, hf, hs => by
      unfold SizedL at hs
      simp only [Tree.sizeList] at hf
      rw [go_getElem_zero]
      unfold enumRefsKids
      simp only
      have hF1 := enumRefsKids_propsP lang pid n.t.data.addr nk rest
        (length_add (if k > 0 then length_add pos c.data.padding else pos) c.data.size) (if c.data.extra then si else si + 1) (k + 1)
      have hF3 := startsFromP_ge _ _ (go_startsFromP lang n pid nk rest
        (length_add (if k > 0 then length_add pos c.data.padding else pos) c.data.size) (if c.data.extra then si else si + 1) (k + 1))
      have ih := dfrHLP lang anon rs re hr rest n pid nk (length_add (if k > 0 then length_add pos c.data.padding else pos) c.data.size)
        (if c.data.extra then si else si + 1) (k + 1) last f (by omega) hs.2
      generalize (if k > 0 then length_add pos c.data.padding else pos) = cstart at hF1 hF3 ih ⊢
      generalize (if c.data.extra = true then 0 else lang.aliasAt pid si) = al
      generalize (if c.data.extra = true then si else si + 1) = si' at hF1 hF3 ih ⊢
      refine dfr_stepP lang anon rs re f hr last _ _ _ _ rfl ?_ ih ?_ ?_ ?_
      · simp only
        by_cases hrel : ({ t := c, alias := al, id := slotId n.t.data.addr nk k, start := cstart } : NodeRef).relevant lang true = true
        · simp only [hrel, if_true, true_and]
          intro l
          exact dfrIdealP_fuel lang anon rs re c.size _ (Nat.le_refl _) f c.size _ (by simp; omega) (Nat.le_refl _)
        · simp only [hrel, if_false, Bool.false_eq_true]
          exact dfrHP lang anon rs re hr c al _ cstart last f (by omega) hs.1
      · intro r hr'
        exact hF1 r hr'
      · intro r hr'
        by_cases hrel : ({ t := c, alias := al, id := slotId n.t.data.addr nk k, start := cstart } : NodeRef).relevant lang true = true
        · simp only [hrel, if_true, List.mem_singleton] at hr'
          subst hr'
          exact ⟨ple_refl _, ple_refl _⟩
        · simp only [hrel, if_false, Bool.false_eq_true] at hr'
          exact ⟨enumRefs_propsP lang c cstart r hr', (enumRefs_withinL lang c cstart hs.1 r hr').2⟩
      · intro x hx
        exact hF3 x hx
end

theorem vgoP_eq_dfr (lang : Lang) (anon : Bool) (rs re : TSPoint) (hr : point_lt rs re = true) : ∀ (m : Nat) (self last : NodeRef) (F : Nat),
    self.t.size ≤ m → self.t.size ≤ F → Sized self.t → vgoP lang anon rs re F self last = dfrIdealP lang anon rs re F self last
  | 0, self, _, _, hm, _, _ => by have := tree_size_pos self.t; omega
  | m + 1, self, last, F, hm, hF, hs => by
    have hpos := tree_size_pos self.t
    obtain ⟨F', rfl⟩ : ∃ x, F = x + 1 := ⟨F - 1, by omega⟩
    obtain ⟨t, al, id, start⟩ := self
    rw [dfrHP lang anon rs re hr t al id start last (F' + 1) hF hs, vgoP]
    unfold dfrRP
    simp only
    cases hf : (enumRefs lang t start).find? (reachesP re) with
    | none => rfl
    | some r =>
      simp only
      by_cases hlt : point_lt rs r.sP = true
      · simp [hlt]
      · simp only [hlt, if_false, Bool.false_eq_true]
        have hp := enumRefs_props lang t start hs r (find_some_mem _ _ _ hf).1
        simp only at hm hF
        rw [vgoP_eq_dfr lang anon rs re hr m r _ F' (by omega) (by omega) hp.2.2]
        exact dfrIdealP_fuel lang anon rs re r.t.size r (Nat.le_refl _) F' r.t.size _ (by omega) (Nat.le_refl _)

/-! ## The `FT` side -/

theorem ftgoP_succ (ft : FT) (s e : TSPoint) (nm : Bool) (f cur last : Nat) :
    FT.descendantForPoints.go ft s e nm (f + 1) cur last =
      (match (ft.kidsOf cur).find? (fun c => !point_lt (ft.ep c) e &&
          (if point_eq (ft.sp c) (ft.ep c) then !point_lt (ft.ep c) s else !point_lte (ft.ep c) s)) with
       | none => last
       | some c => if point_lt s (ft.sp c) then last else FT.descendantForPoints.go ft s e nm f c (if !nm || ft.named c then c else last)) := by
  simp only [FT.descendantForPoints.go]
  cases List.find? (fun c => !point_lt (ft.ep c) e && if point_eq (ft.sp c) (ft.ep c) = true then !point_lt (ft.ep c) s else !point_lte (ft.ep c) s) (ft.kidsOf cur) <;> rfl

theorem find_map_gen {α β : Type} (g : α → β) (p : α → Bool) (q : β → Bool) : ∀ (A : List α), (∀ j ∈ A, p j = q (g j)) →
    (A.find? p).map g = (A.map g).find? q
  | [], _ => rfl
  | a :: A, h => by
    simp only [List.find?_cons, List.map_cons, h a (by simp)]
    split
    · rfl
    · exact find_map_gen g p q A (fun j hj => h j (by simp [hj]))

theorem ftgo_stepP (lang : Lang) (ft : FT) (nm : Bool) (rs re : TSPoint) (hr : point_lt rs re = true) (info : VInfo) (kids : List VTree) (k : Nat)
    (par : Option Nat) (dep : Nat) (hg : GoodAt ft.toList (.mk info kids) k par dep) (hq : QQ lang (.mk info kids)) (f last : Nat) :
    (∃ c vi vk, FT.descendantForPoints.go ft rs re nm (f + 1) k last =
          FT.descendantForPoints.go ft rs re nm f c (if !nm || ft.named c then c else last) ∧
        GoodAt ft.toList (.mk vi vk) c (some k) (dep + 1) ∧ QQ lang (.mk vi vk) ∧ (.mk vi vk) ∈ kids ∧
        (enumRefs lang info.raw info.start).find? (reachesP re) = some (refOf vi) ∧ point_lt rs (refOf vi).sP = false) ∨
    (FT.descendantForPoints.go ft rs re nm (f + 1) k last = last ∧
      (match (enumRefs lang info.raw info.start).find? (reachesP re) with
       | none => True
       | some r => point_lt rs r.sP = true)) := by
  obtain ⟨hrefs, _⟩ := ft_kids_refs lang ft info kids k par dep hg hq
  have hstop := ft_kids_stop lang ft info kids k par dep hg hq
  rw [ftgoP_succ]
  have hpred : (ft.kidsOf k).find? (fun c => !point_lt (ft.ep c) re &&
      (if point_eq (ft.sp c) (ft.ep c) then !point_lt (ft.ep c) rs else !point_lte (ft.ep c) rs)) =
      (ft.kidsOf k).find? (fun c => !point_lt (ft.ep c) re) := by
    apply find_congr_mem
    intro x _
    by_cases h1 : point_lt (ft.ep x) re = true
    · simp [h1]
    · have h1' : point_lt (ft.ep x) re = false := by simpa using h1
      have h2 : point_lt (ft.ep x) rs = false := by
        simp only [point_lt, decide_eq_true_eq, decide_eq_false_iff_not] at *; omega
      have h3 : point_lte (ft.ep x) rs = false := by
        simp only [point_lt, point_lte, decide_eq_true_eq, decide_eq_false_iff_not] at *; omega
      simp [h1', h2, h3]
  rw [hpred]
  have hmap := find_map_gen (fun j => refOf (ft.node j).info) (fun c => !point_lt (ft.ep c) re) (reachesP re) (ft.kidsOf k)
    (fun j hj => by simp only [reachesP, NodeRef.eP, FT.ep, hstop j hj])
  rw [hrefs] at hmap
  cases hf : (ft.kidsOf k).find? (fun c => !point_lt (ft.ep c) re) with
  | none =>
    rw [hf] at hmap
    simp only [Option.map_none] at hmap
    right
    rw [← hmap]
    exact ⟨rfl, trivial⟩
  | some c =>
    rw [hf] at hmap
    simp only [Option.map_some] at hmap
    obtain ⟨hcm, _⟩ := find_some_mem _ _ _ hf
    have hsb : ft.sp c = (refOf (ft.node c).info).sP := rfl
    obtain ⟨m, hm⟩ := List.mem_iff_getElem?.mp hcm
    have hlen : m < kids.length := by
      have := lt_of_getElem?_some _ _ _ hm
      rw [ft_kidsOf ft info kids k par dep hg, kidIdxFrom_length] at this
      exact this
    obtain ⟨kj, h1, h2, _, _, _⟩ := ft_child_spec ft info kids k par dep m kids[m] hg (List.getElem?_eq_getElem hlen)
    rw [hm] at h1
    simp only [Option.some.injEq] at h1
    subst h1
    cases hv : kids[m] with
    | mk vi vk =>
      rw [hv] at h2
      have hci : (ft.node c).info = vi := by rw [good_node ft vi vk c (some k) (dep + 1) h2]
      have hmem : VTree.mk vi vk ∈ kids := by rw [← hv]; exact List.getElem_mem hlen
      by_cases hlt : point_lt rs (ft.sp c) = true
      · right
        simp only [hlt, if_true, ← hmap, true_and]
        rw [hsb] at hlt
        exact hlt
      · left
        have hlt' : point_lt rs (ft.sp c) = false := by simpa using hlt
        refine ⟨c, vi, vk, by simp [hlt'], h2, qq_kids lang info kids hq _ hmem, hmem, ?_, ?_⟩
        · rw [← hmap, hci]
        · rw [hsb, hci] at hlt'; exact hlt'

theorem ftgo_fuelP (lang : Lang) (ft : FT) (nm : Bool) (rs re : TSPoint) : ∀ (n : Nat) (info : VInfo) (kids : List VTree) (k : Nat)
    (par : Option Nat) (dep : Nat), GoodAt ft.toList (.mk info kids) k par dep → vsize (.mk info kids) ≤ n →
    ∀ (f1 f2 last : Nat), vsize (.mk info kids) ≤ f1 → vsize (.mk info kids) ≤ f2 →
    FT.descendantForPoints.go ft rs re nm f1 k last = FT.descendantForPoints.go ft rs re nm f2 k last
  | 0, info, kids, _, _, _, _, hn, _, _, _, _, _ => by have := vsize_pos (.mk info kids); omega
  | n + 1, info, kids, k, par, dep, hg, hn, f1, f2, last, h1, h2 => by
    have hpos := vsize_pos (.mk info kids)
    obtain ⟨f1', rfl⟩ : ∃ x, f1 = x + 1 := ⟨f1 - 1, by omega⟩
    obtain ⟨f2', rfl⟩ : ∃ x, f2 = x + 1 := ⟨f2 - 1, by omega⟩
    have hvs : vsize (.mk info kids) = 1 + vsizeL kids := by rw [vsize]
    rw [ftgoP_succ, ftgoP_succ]
    cases hf : (ft.kidsOf k).find? (fun c => !point_lt (ft.ep c) re &&
        (if point_eq (ft.sp c) (ft.ep c) then !point_lt (ft.ep c) rs else !point_lte (ft.ep c) rs)) with
    | none => rfl
    | some cc =>
      simp only
      by_cases hlt : point_lt rs (ft.sp cc) = true
      · simp [hlt]
      · simp only [hlt, if_false, Bool.false_eq_true]
        obtain ⟨hcm, _⟩ := find_some_mem _ _ _ hf
        obtain ⟨m, hm⟩ := List.mem_iff_getElem?.mp hcm
        have hlen : m < kids.length := by
          have := lt_of_getElem?_some _ _ _ hm
          rw [ft_kidsOf ft info kids k par dep hg, kidIdxFrom_length] at this
          exact this
        obtain ⟨kj, h1', h2', _, _, _⟩ := ft_child_spec ft info kids k par dep m kids[m] hg (List.getElem?_eq_getElem hlen)
        rw [hm] at h1'
        simp only [Option.some.injEq] at h1'
        subst h1'
        cases hv : kids[m] with
        | mk wi wk =>
          rw [hv] at h2'
          have hmem' : VTree.mk wi wk ∈ kids := by rw [← hv]; exact List.getElem_mem hlen
          have := vsizeL_mem kids _ hmem'
          exact ftgo_fuelP lang ft nm rs re n wi wk cc (some k) (dep + 1) h2' (by omega) f1' f2' _ (by omega) (by omega)

theorem ftgo_eq_vgoP (lang : Lang) (ft : FT) (nm : Bool) (rs re : TSPoint) (hr : point_lt rs re = true) : ∀ (f : Nat) (info : VInfo) (kids : List VTree) (k : Nat)
    (par : Option Nat) (dep : Nat), GoodAt ft.toList (.mk info kids) k par dep → QQ lang (.mk info kids) → ∀ (last : Nat),
    refOf (ft.node (FT.descendantForPoints.go ft rs re nm f k last)).info =
      vgoP lang (!nm) rs re f (refOf info) (refOf (ft.node last).info)
  | 0, _, _, _, _, _, _, _, _ => by rw [FT.descendantForPoints.go, vgoP]
  | f + 1, info, kids, k, par, dep, hg, hq, last => by
    rw [vgoP]
    rcases ftgo_stepP lang ft nm rs re hr info kids k par dep hg hq f last with ⟨c, vi, vk, e1, hgc, hqc, hmem, hfind, hnl⟩ | ⟨e1, hx⟩
    · have hf' : (enumRefs lang (refOf info).t (refOf info).start).find? (reachesP re) = some (refOf vi) := hfind
      rw [e1, hf']
      simp only [hnl, Bool.false_eq_true, if_false]
      have hnode := good_node ft vi vk c (some k) (dep + 1) hgc
      have hnamed : ft.named c = entryNamed lang ((refOf vi).t, (refOf vi).alias) := by
        simp only [FT.named, hnode, refOf]
        exact kid_named lang info kids hq vi vk hmem
      have hrelT : (refOf vi).relevant lang true = true :=
        enumRefs_relevant lang info.raw info.start _ (find_some_mem _ _ _ hfind).1
      have hkeep : (refOf vi).relevant lang (!nm) = (!nm || ft.named c) := by
        rw [rel_anon_of_rel lang (!nm) (refOf vi) hrelT, hnamed]
      rw [hkeep]
      have := ftgo_eq_vgoP lang ft nm rs re hr f vi vk c (some k) (dep + 1) hgc hqc (if (!nm || ft.named c) = true then c else last)
      rw [this]
      by_cases hk : (!nm || ft.named c) = true
      · simp only [hk, if_true, hnode]
      · simp only [hk, if_false, Bool.false_eq_true]
    · rw [e1]
      cases hfd : (enumRefs lang info.raw info.start).find? (reachesP re) with
      | none =>
        have hf' : (enumRefs lang (refOf info).t (refOf info).start).find? (reachesP re) = none := hfd
        rw [hf']
      | some r =>
        have hf' : (enumRefs lang (refOf info).t (refOf info).start).find? (reachesP re) = some r := hfd
        rw [hfd] at hx
        simp only at hx
        rw [hf']
        simp [hx]

/-- **descendant_for_point_range_ft_spec.**  For either flag (`nm = true`: the NAMED function), root summarized and
parser-shaped, `ft` the preorder array of `flatten`, a point range with `rs < re` in row/column order and fuel covering
the raw tree: the port of `ts_node_(named_)descendant_for_point_range(root, rs, re)` returns exactly the `TSNode` of
the entry `FT.descendantForPoints 0 rs re nm` designates. -/
theorem descendant_for_point_range_ft_spec (lang : Lang) (nm : Bool) (root : Tree) (rootId : Nat) (ps : Option Nat) (fuel : Nat) (rs re : TSPoint)
    (hs : Summarized lang root) (hsh : shapeOK ps root = true) (hr : point_lt rs re = true) :
    let ft : FT := flatOf (flatten lang root rootId)
    root.size ≤ fuel →
    descendantForPointRangePort lang fuel (refOf (ft.node 0).info) rs re (!nm) =
      (ft.descendantForPoints 0 rs re nm).map (fun j => refOf (ft.node j).info) := by
  intro ft hfuel
  have hg0 := flatOf_good (flatten lang root rootId)
  have hq0 := flatten_qq lang root rootId ps hs hsh
  have hraw := (flatten_hered lang root rootId).2
  have hsize := flatOf_size (flatten lang root rootId)
  cases hv : flatten lang root rootId with
  | mk info kids =>
    rw [hv] at hg0 hq0 hraw hsize
    have hfte : ft = flatOf (VTree.mk info kids) := by simp only [ft, hv]
    rw [← hfte] at hg0 hsize
    simp only [VTree.info] at hraw
    have hnode : (ft.node 0).info = info := by rw [good_node ft info kids 0 none 0 hg0]
    rw [hnode, descendant_for_point_range_spec_partial lang fuel (refOf info) rs re (!nm) hr]
    have hng : point_gt rs re = false := by
      simp only [point_lt, decide_eq_true_eq] at hr
      simp only [point_gt, decide_eq_false_iff_not]; omega
    simp only [FT.descendantForPoints, hng, Bool.false_eq_true, if_false, Option.map_some, Option.some.injEq]
    have hsz : Sized root := sized_of_summarized lang root hs
    have hft : Array.size ft = vsize (.mk info kids) := hsize
    rw [ftgo_fuelP lang ft nm rs re (vsize (.mk info kids)) info kids 0 none 0 hg0 (Nat.le_refl _) (Array.size ft) (Array.size ft + root.size) 0
      (by omega) (by omega)]
    rw [ftgo_eq_vgoP lang ft nm rs re hr _ info kids 0 none 0 hg0 hq0 0, hnode]
    have hrt : (refOf info).t = root := hraw
    rw [vgoP_eq_dfr lang (!nm) rs re hr root.size (refOf info) (refOf info) _ (by rw [hrt]; exact Nat.le_refl _) (by rw [hrt]; omega) (by rw [hrt]; exact hsz)]
    exact dfrIdealP_fuel lang (!nm) rs re root.size (refOf info) (by rw [hrt]; exact Nat.le_refl _) _ _ _ (by rw [hrt]; omega) (by rw [hrt]; omega)

/-- Non-vacuity: the hypotheses hold on the demo tree (both flags, point range (0,1)–(0,2)). -/
example := descendant_for_point_range_ft_spec C02.demoLang false pvRoot.t pvRoot.id none 8 ⟨0, 1⟩ ⟨0, 2⟩ pvRoot_summarized pvRoot_shape (by decide) (by decide)
example := descendant_for_point_range_ft_spec C02.demoLang true pvRoot.t pvRoot.id none 8 ⟨0, 1⟩ ⟨0, 2⟩ pvRoot_summarized pvRoot_shape (by decide) (by decide)

end TsVerif.C06
