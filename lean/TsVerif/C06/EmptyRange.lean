import TsVerif.C06.RangeFlat
/-!
# C06 — the EMPTY-range case of `ts_node_(named_)descendant_for_byte_range` (finding 6): the exact hypothesis

For a non-empty range the port is the search on the ordered tree without any hypothesis on the tree
(`descendant_for_byte_range_spec_anon`, `named_descendant_for_byte_range_ft_spec`).  For an EMPTY range `[x, x]` it is
not (finding 6: a hidden zero-width leaf shadows a visible zero-width sibling).  Here, as for the sibling functions:

* `descendant_for_empty_byte_range_port` — without any hypothesis the port is the plain raw search `dfrIdealE`: follow
  the first raw child the scan does not pass over (it ends after `x`, or it is zero-width AT `x`), stop when it starts
  after `x`;
* `dfrHE` / `empty_range_flat_spec` — under the decidable hypothesis `emptyOK` (NodeNav.lean: (H2) a hidden child the
  scan passes over hides no visible zero-width node at `x`; (H4) a hidden child the scan enters that offers nothing
  visible at `x` is not followed by a visible node the ordered search would enter; recursively along the search path)
  the raw search is the search over the VISIBLE children (`vgoE`), for either flag;
* `descendant_for_empty_byte_range_ft_spec` — hence = `FT.descendantForBytes 0 x x nm`.

`emptyOK` is evaluated with the conclusion on every empty-range question from the root (≈ 89 000 per quick run: 0 failures;
7 positions outside, on all of which the port really differs from the ordered tree — the hypothesis is exact on the data).
-/
namespace TsVerif.C06
open TsGen TsVerif TsVerif.C02

/-! ## The port is the plain raw search -/

theorem posAfter_of_mem (lang : Lang) (node : NodeRef) (rc : RawChild) (h : rc ∈ rawChildren lang node) :
    rc.posAfter.bytes = rc.node.endByte := by
  obtain ⟨j, hj⟩ := List.mem_iff_getElem?.mp h
  simp only [rawChildren] at hj
  have he := go_elem lang _ _ _ _ _ _ _ j rc hj
  simp only [NodeRef.endByte, NodeRef.startByte] at he ⊢
  exact he.2.1

/-- The C scan (three tests) for `rs = re = x`: the first raw child that is not passed over ends the scan. -/
theorem dfrScanE_eq (x : Nat) : ∀ (L : List RawChild), (∀ rc ∈ L, rc.posAfter.bytes = rc.node.endByte) →
    dfrScan x x L = (match L.find? (fun rc => selE x rc.node) with
                     | none => none
                     | some rc => if x < rc.node.startByte then none else some rc.node)
  | [], _ => by simp [dfrScan, descendantForByteRangePort.scan]
  | rc :: rest, h => by
    rw [dfrScan_cons, List.find?_cons]
    have hp := h rc (by simp)
    have ih := dfrScanE_eq x rest (fun r hr => h r (by simp [hr]))
    rw [hp]
    by_cases h1 : rc.node.endByte < x
    · have hs : selE x rc.node = false := by
        simp only [selE, Bool.or_eq_false_iff, decide_eq_false_iff_not, Bool.and_eq_false_iff, beq_eq_false_iff_ne]
        exact ⟨by omega, Or.inr (by omega)⟩
      simp only [h1, if_true, hs]; exact ih
    · simp only [h1, if_false]
      by_cases he : rc.node.startByte = rc.node.endByte
      · have heb : (rc.node.startByte == rc.node.endByte) = true := by simpa using he
        simp only [heb, if_true, h1, if_false]
        by_cases hx : rc.node.endByte = x
        · have hs : selE x rc.node = true := by simp [selE, hx]; omega
          simp only [hs]
        · have hs : selE x rc.node = true := by
            simp only [selE, Bool.or_eq_true, decide_eq_true_eq]; left; omega
          simp only [hs]
      · have heb : (rc.node.startByte == rc.node.endByte) = false := by simpa using he
        simp only [heb, Bool.false_eq_true, if_false]
        by_cases h2 : rc.node.endByte ≤ x
        · have hs : selE x rc.node = false := by
            simp only [selE, heb, Bool.false_and, Bool.or_false, decide_eq_false_iff_not]; omega
          simp only [h2, if_true, hs]; exact ih
        · have hs : selE x rc.node = true := by
            simp only [selE, Bool.or_eq_true, decide_eq_true_eq]; left; omega
          simp only [h2, if_false, hs]

theorem dfrGoE_eq (lang : Lang) (anon : Bool) (x : Nat) : ∀ (f : Nat) (node last : NodeRef),
    descendantForByteRangePort.go lang x x anon f node last = dfrIdealE lang anon x f node last
  | 0, _, _ => rfl
  | f + 1, node, last => by
    simp only [descendantForByteRangePort.go, dfrIdealE]
    have := dfrScanE_eq x (rawChildren lang node) (fun rc hrc => posAfter_of_mem lang node rc hrc)
    simp only [dfrScan] at this
    rw [this]
    cases (rawChildren lang node).find? (fun rc => selE x rc.node) with
    | none => rfl
    | some rc =>
      simp only
      by_cases hlt : x < rc.node.startByte
      · simp [hlt]
      · simp only [hlt, if_false]; exact dfrGoE_eq lang anon x f rc.node _

/-- **descendant_for_empty_byte_range_port.**  For every tree, every byte `x` and either flag — no hypothesis — the port
of `ts_node_(named_)descendant_for_byte_range(self, x, x)` is the plain raw search `dfrIdealE`. -/
theorem descendant_for_empty_byte_range_port (lang : Lang) (fuel : Nat) (self : NodeRef) (x : Nat) (anon : Bool) :
    descendantForByteRangePort lang fuel self x x anon = some (dfrIdealE lang anon x fuel self self) := by
  unfold descendantForByteRangePort
  simp only [Nat.lt_irrefl, gt_iff_lt, if_false]
  rw [dfrGoE_eq lang anon x]

/-! ## The raw search is the search over the visible children, under `emptyOK` -/

mutual
  theorem firstSelE_eq (lang : Lang) (x : Nat) : ∀ (t : Tree) (start : Length),
      firstSelE lang x t start = (enumRefs lang t start).find? (selE x)
    | .mk d kids, start => by
      unfold firstSelE enumRefs
      exact firstSelEKids_eq lang x d.productionId d.addr kids.length kids start 0 0
  theorem firstSelEKids_eq (lang : Lang) (x pid addr nk : Nat) : ∀ (kids : List Tree) (pos : Length) (si k : Nat),
      firstSelEKids lang x pid addr nk kids pos si k = (enumRefsKids lang pid addr nk kids pos si k).find? (selE x)
    | [], _, _, _ => by simp [firstSelEKids, enumRefsKids]
    | c :: rest, pos, si, k => by
      unfold firstSelEKids enumRefsKids
      simp only [find_append_or]
      rw [firstSelEKids_eq lang x pid addr nk rest]
      generalize (if k > 0 then length_add pos c.data.padding else pos) = cstart
      generalize (if c.data.extra = true then 0 else lang.aliasAt pid si) = al
      by_cases hrel : ({ t := c, alias := al, id := slotId addr nk k, start := cstart } : NodeRef).relevant lang true = true
      · simp only [hrel, if_true, List.find?_cons, List.find?_nil]
        cases selE x { t := c, alias := al, id := slotId addr nk k, start := cstart } <;> simp
      · simp only [hrel, if_false, Bool.false_eq_true]
        rw [firstSelE_eq lang x c cstart]
        cases (enumRefs lang c cstart).find? (selE x) <;> simp
end

def vgoE (lang : Lang) (anon : Bool) (x : Nat) : Nat → NodeRef → NodeRef → NodeRef
  | 0, _, last => last
  | f + 1, self, last =>
    match (enumRefs lang self.t self.start).find? (selE x) with
    | none => last
    | some r => if x < r.startByte then last else vgoE lang anon x f r (if r.relevant lang anon then r else last)

theorem dfrIdealE_fuel (lang : Lang) (anon : Bool) (x : Nat) : ∀ (n : Nat) (node : NodeRef), node.t.size ≤ n → ∀ (f1 f2 : Nat) (last : NodeRef),
    node.t.size ≤ f1 → node.t.size ≤ f2 → dfrIdealE lang anon x f1 node last = dfrIdealE lang anon x f2 node last
  | 0, node, hn, _, _, _, _, _ => by have := tree_size_pos node.t; omega
  | n + 1, node, hn, f1, f2, last, h1, h2 => by
    have hpos := tree_size_pos node.t
    obtain ⟨f1', rfl⟩ : ∃ y, f1 = y + 1 := ⟨f1 - 1, by omega⟩
    obtain ⟨f2', rfl⟩ : ∃ y, f2 = y + 1 := ⟨f2 - 1, by omega⟩
    simp only [dfrIdealE]
    cases hf : (rawChildren lang node).find? (fun rc => selE x rc.node) with
    | none => rfl
    | some rc =>
      simp only
      have := raw_child_size lang node rc (find_some_mem _ _ _ hf).1
      split
      · rfl
      · exact dfrIdealE_fuel lang anon x n rc.node (by omega) f1' f2' _ (by omega) (by omega)

def dfrLE (lang : Lang) (anon : Bool) (x f : Nat) (last : NodeRef) (raws : List RawChild) : NodeRef :=
  match raws.find? (fun rc => selE x rc.node) with
  | none => last
  | some rc => if x < rc.node.startByte then last else dfrIdealE lang anon x f rc.node (if rc.node.relevant lang anon then rc.node else last)
def dfrRE (lang : Lang) (anon : Bool) (x : Nat) (last : NodeRef) (refs : List NodeRef) : NodeRef :=
  match refs.find? (selE x) with
  | none => last
  | some r => if x < r.startByte then last else dfrIdealE lang anon x r.t.size r (if r.relevant lang anon then r else last)

theorem dfrLE_cons (lang : Lang) (anon : Bool) (x f : Nat) (last : NodeRef) (rc : RawChild) (raws : List RawChild) :
    dfrLE lang anon x f last (rc :: raws) =
      if selE x rc.node then
        (if x < rc.node.startByte then last else dfrIdealE lang anon x f rc.node (if rc.node.relevant lang anon then rc.node else last))
      else dfrLE lang anon x f last raws := by
  simp only [dfrLE, List.find?_cons]
  cases selE x rc.node <;> rfl

theorem dfrRE_append (lang : Lang) (anon : Bool) (x : Nat) (last : NodeRef) (a b : List NodeRef) :
    dfrRE lang anon x last (a ++ b) =
      match a.find? (selE x) with
      | none => dfrRE lang anon x last b
      | some r => if x < r.startByte then last else dfrIdealE lang anon x r.t.size r (if r.relevant lang anon then r else last) := by
  simp only [dfrRE, find_append_or]
  cases a.find? (selE x) <;> rfl

theorem dfrRE_after (lang : Lang) (anon : Bool) (x : Nat) (last : NodeRef) (refs : List NodeRef)
    (h : ∀ r ∈ refs, x < r.startByte) : dfrRE lang anon x last refs = last := by
  unfold dfrRE
  cases hf : refs.find? (selE x) with
  | none => rfl
  | some r =>
    have := h r (find_some_mem _ _ _ hf).1
    simp [this]

mutual
  /-- **dfrHE.**  On a `Sized` raw subtree that satisfies `emptyOK` for the byte `x`, the plain raw search for the empty
  range `[x, x]` does what the search over the VISIBLE children does. -/
  theorem dfrHE (lang : Lang) (anon : Bool) (x : Nat) : ∀ (t : Tree) (al id : Nat) (start : Length) (last : NodeRef) (f : Nat),
      t.size ≤ f → Sized t → emptyOK lang x t start = true →
      dfrIdealE lang anon x f ⟨t, al, id, start⟩ last = dfrRE lang anon x last (enumRefs lang t start)
    | .mk d kids, al, id, start, last, f, hf, hs, hok => by
      obtain ⟨f', rfl⟩ : ∃ y, f = y + 1 := ⟨f - 1, by simp only [Tree.size] at hf; omega⟩
      unfold Sized at hs
      unfold emptyOK at hok
      simp only [Tree.size] at hf
      have := dfrHLE lang anon x kids ⟨.mk d kids, al, id, start⟩ d.productionId kids.length start 0 0 last f' (by omega) hs.2 hok
      unfold enumRefs
      simp only [data_mk] at this
      rw [← this]
      rfl
  theorem dfrHLE (lang : Lang) (anon : Bool) (x : Nat) : ∀ (kids : List Tree) (n : NodeRef) (pid nk : Nat) (pos : Length) (si k : Nat)
      (last : NodeRef) (f : Nat), Tree.sizeList kids ≤ f → SizedL kids →
      emptyOKKids lang x pid n.t.data.addr nk kids pos si k = true →
      dfrLE lang anon x f last (rawChildren.go lang n pid nk kids pos si k) =
        dfrRE lang anon x last (enumRefsKids lang pid n.t.data.addr nk kids pos si k)
    | [], _, _, _, _, _, _, _, _, _, _, _ => by simp [rawChildren.go, enumRefsKids, dfrLE, dfrRE]
    | c :: rest, n, pid, nk, pos, si, k, last, f, hf, hs, hok => by
      unfold SizedL at hs
      simp only [Tree.sizeList] at hf
      rw [go_getElem_zero]
      unfold enumRefsKids
      unfold emptyOKKids at hok
      simp only at hok ⊢
      rw [dfrLE_cons, dfrRE_append]
      have hF1 := enumRefsKids_props lang pid n.t.data.addr nk rest
        (length_add (if k > 0 then length_add pos c.data.padding else pos) c.data.size) (if c.data.extra then si else si + 1) (k + 1) hs.2
      have hfs := firstSelE_eq lang x c (if k > 0 then length_add pos c.data.padding else pos)
      have hfk := firstSelEKids_eq lang x pid n.t.data.addr nk rest
        (length_add (if k > 0 then length_add pos c.data.padding else pos) c.data.size) (if c.data.extra then si else si + 1) (k + 1)
      have hprops := enumRefs_props lang c (if k > 0 then length_add pos c.data.padding else pos) hs.1
      generalize (if k > 0 then length_add pos c.data.padding else pos) = cstart at hF1 hfs hfk hprops hok ⊢
      generalize (if c.data.extra = true then 0 else lang.aliasAt pid si) = al at hok ⊢
      generalize (if c.data.extra = true then si else si + 1) = si' at hF1 hfk hok ⊢
      generalize hnode : ({ t := c, alias := al, id := slotId n.t.data.addr nk k, start := cstart } : NodeRef) = node at hok ⊢
      have hnt : node.t = c := by rw [← hnode]
      have hns : node.start = cstart := by rw [← hnode]
      by_cases hsel : selE x node = true
      · simp only [hsel, if_true] at hok ⊢
        by_cases hlt : x < node.startByte
        · -- starts after x: both searches stop
          simp only [hlt, if_true]
          have hall : ∀ r ∈ (if node.relevant lang true = true then [node] else enumRefs lang c cstart) ++
              enumRefsKids lang pid n.t.data.addr nk rest (length_add cstart c.data.size) si' (k + 1), x < r.startByte := by
            intro r hr
            simp only [List.mem_append] at hr
            rcases hr with hr | hr
            · by_cases hrel : node.relevant lang true = true
              · simp only [hrel, if_true, List.mem_singleton] at hr; subst hr; exact hlt
              · simp only [hrel, if_false, Bool.false_eq_true] at hr
                have := (hprops r hr).1
                simp only [NodeRef.startByte, hns] at hlt this ⊢; omega
            · have := (hF1 r hr).1
              simp only [NodeRef.startByte, hns, length_add_bytes] at hlt this ⊢; omega
          have := dfrRE_after lang anon x last _ hall
          rw [dfrRE_append] at this
          exact this.symm
        · simp only [hlt, if_false] at hok ⊢
          by_cases hrel : node.relevant lang true = true
          · -- a visible child: both enter it
            simp only [hrel, if_true, List.find?_cons, hsel, hlt, if_false]
            exact dfrIdealE_fuel lang anon x c.size node (by rw [hnt]; exact Nat.le_refl _) f node.t.size _ (by rw [hnt]; omega) (Nat.le_refl _)
          · -- a hidden child the raw search enters
            have hrel' : node.relevant lang true = false := by simpa using hrel
            simp only [hrel', Bool.false_eq_true, if_false, Bool.and_eq_true] at hok ⊢
            rw [rel_of_hidden lang anon node hrel']
            simp only [Bool.false_eq_true, if_false]
            have ih := dfrHE lang anon x c al (slotId n.t.data.addr nk k) cstart last f (by omega) hs.1 hok.1
            rw [hnode] at ih
            rw [ih]
            unfold dfrRE
            cases hfind : (enumRefs lang c cstart).find? (selE x) with
            | some r => rfl
            | none =>
              simp only
              have hlater := hok.2
              rw [hfs, hfind, hfk] at hlater
              simp only [Option.isSome_none, Bool.false_eq_true, false_or] at hlater
              cases hfr : (enumRefsKids lang pid n.t.data.addr nk rest (length_add cstart c.data.size) si' (k + 1)).find? (selE x) with
              | none => rfl
              | some r =>
                rw [hfr] at hlater
                have hx : x < r.startByte := by simpa using hlater
                simp [hx]
      · -- the scan passes over this child
        have hsel' : selE x node = false := by simpa using hsel
        simp only [hsel', Bool.false_eq_true, if_false, Bool.and_eq_true, Bool.or_eq_true] at hok ⊢
        have hnone : (if node.relevant lang true = true then [node] else enumRefs lang c cstart).find? (selE x) = none := by
          by_cases hrel : node.relevant lang true = true
          · simp [hrel, hsel']
          · simp only [hrel, if_false, Bool.false_eq_true]
            rcases hok.1 with h | h
            · exact absurd h hrel
            · rw [hfs] at h; simpa using h
        rw [hnone]
        exact dfrHLE lang anon x rest n pid nk (length_add cstart c.data.size) si' (k + 1) last f (by omega) hs.2 hok.2
end

mutual
  /-- `emptyOK` is inherited by the visible child the search enters. -/
  theorem emptyOK_sel (lang : Lang) (x : Nat) : ∀ (t : Tree) (start : Length) (r : NodeRef), Sized t →
      emptyOK lang x t start = true → (enumRefs lang t start).find? (selE x) = some r → ¬ (x < r.startByte) →
      emptyOK lang x r.t r.start = true
    | .mk d kids, start, r, hs, hok, hf, hx => by
      unfold emptyOK at hok
      unfold enumRefs at hf
      unfold Sized at hs
      exact emptyOKKids_sel lang x d.productionId d.addr kids.length kids start 0 0 r hs.2 hok hf hx
  theorem emptyOKKids_sel (lang : Lang) (x pid addr nk : Nat) : ∀ (kids : List Tree) (pos : Length) (si k : Nat) (r : NodeRef), SizedL kids →
      emptyOKKids lang x pid addr nk kids pos si k = true →
      (enumRefsKids lang pid addr nk kids pos si k).find? (selE x) = some r → ¬ (x < r.startByte) →
      emptyOK lang x r.t r.start = true
    | [], _, _, _, r, _, _, hf, _ => by simp [enumRefsKids] at hf
    | c :: rest, pos, si, k, r, hs, hok, hf, hx => by
      unfold SizedL at hs
      unfold enumRefsKids at hf
      unfold emptyOKKids at hok
      simp only at hok hf
      rw [find_append_or] at hf
      have hF1 := enumRefsKids_props lang pid addr nk rest
        (length_add (if k > 0 then length_add pos c.data.padding else pos) c.data.size) (if c.data.extra then si else si + 1) (k + 1) hs.2
      have hfs := firstSelE_eq lang x c (if k > 0 then length_add pos c.data.padding else pos)
      have hfk := firstSelEKids_eq lang x pid addr nk rest
        (length_add (if k > 0 then length_add pos c.data.padding else pos) c.data.size) (if c.data.extra then si else si + 1) (k + 1)
      have hprops := enumRefs_props lang c (if k > 0 then length_add pos c.data.padding else pos) hs.1
      generalize (if k > 0 then length_add pos c.data.padding else pos) = cstart at hF1 hfs hfk hprops hok hf
      generalize (if c.data.extra = true then 0 else lang.aliasAt pid si) = al at hok hf
      generalize (if c.data.extra = true then si else si + 1) = si' at hF1 hfk hok hf
      generalize hnode : ({ t := c, alias := al, id := slotId addr nk k, start := cstart } : NodeRef) = node at hok hf
      have hnt : node.t = c := by rw [← hnode]
      have hns : node.start = cstart := by rw [← hnode]
      -- where was `r` found?
      cases hfc : (if node.relevant lang true = true then [node] else enumRefs lang c cstart).find? (selE x) with
      | some r' =>
        rw [hfc] at hf
        simp only [Option.some_or, Option.some.injEq] at hf
        subst hf
        by_cases hrel : node.relevant lang true = true
        · simp only [hrel, if_true, List.find?_cons, List.find?_nil] at hfc
          have hsel : selE x node = true := by
            cases h : selE x node with
            | true => rfl
            | false => simp [h] at hfc
          simp only [hsel, if_true, Option.some.injEq] at hfc
          subst hfc
          simp only [hsel, if_true, hx, if_false, hrel] at hok
          rw [hnt, hns]; exact hok
        · simp only [hrel, if_false, Bool.false_eq_true] at hfc
          have hrel' : node.relevant lang true = false := by simpa using hrel
          by_cases hsel : selE x node = true
          · simp only [hsel, if_true] at hok
            by_cases hlt : x < node.startByte
            · exfalso
              have := (hprops r' (find_some_mem _ _ _ hfc).1).1
              simp only [NodeRef.startByte, hns] at hlt this hx; omega
            · simp only [hlt, if_false, hrel', Bool.false_eq_true, Bool.and_eq_true] at hok
              exact emptyOK_sel lang x c cstart r' hs.1 hok.1 hfc hx
          · exfalso
            have hsel' : selE x node = false := by simpa using hsel
            simp only [hsel', Bool.false_eq_true, if_false, hrel', Bool.false_or, Bool.and_eq_true] at hok
            rw [hfs, hfc] at hok
            simp at hok
      | none =>
        rw [hfc] at hf
        simp only [Option.none_or] at hf
        by_cases hsel : selE x node = true
        · simp only [hsel, if_true] at hok
          exfalso
          have hr := (hF1 r (find_some_mem _ _ _ hf).1).1
          by_cases hlt : x < node.startByte
          · simp only [NodeRef.startByte, hns, length_add_bytes] at hlt hr hx; omega
          · simp only [hlt, if_false] at hok
            by_cases hrel : node.relevant lang true = true
            · simp [hrel, hsel] at hfc
            · have hrel' : node.relevant lang true = false := by simpa using hrel
              simp only [hrel', Bool.false_eq_true, if_false, Bool.and_eq_true] at hok hfc
              have h2 := hok.2
              rw [hfs, hfc, hfk, hf] at h2
              simp only [Option.isSome_none, Bool.false_or, decide_eq_true_eq] at h2
              exact hx h2
        · have hsel' : selE x node = false := by simpa using hsel
          simp only [hsel', Bool.false_eq_true, if_false, Bool.and_eq_true] at hok
          exact emptyOKKids_sel lang x pid addr nk rest (length_add cstart c.data.size) si' (k + 1) r hs.2 hok.2 hf hx
end

/-- The visible search on `TSNode`s is the plain raw search (fuel covering the raw subtree, `Sized` tree, `emptyOK`). -/
theorem vgoE_eq_dfr (lang : Lang) (anon : Bool) (x : Nat) : ∀ (m : Nat) (self last : NodeRef) (F : Nat),
    self.t.size ≤ m → self.t.size ≤ F → Sized self.t → emptyOK lang x self.t self.start = true →
    vgoE lang anon x F self last = dfrIdealE lang anon x F self last
  | 0, self, _, _, hm, _, _, _ => by have := tree_size_pos self.t; omega
  | m + 1, self, last, F, hm, hF, hs, hok => by
    have hpos := tree_size_pos self.t
    obtain ⟨F', rfl⟩ : ∃ y, F = y + 1 := ⟨F - 1, by omega⟩
    obtain ⟨t, al, id, start⟩ := self
    rw [dfrHE lang anon x t al id start last (F' + 1) hF hs hok, vgoE]
    unfold dfrRE
    simp only
    cases hf : (enumRefs lang t start).find? (selE x) with
    | none => rfl
    | some r =>
      simp only
      by_cases hlt : x < r.startByte
      · simp [hlt]
      · simp only [hlt, if_false]
        have hp := enumRefs_props lang t start hs r (find_some_mem _ _ _ hf).1
        have hokr := emptyOK_sel lang x t start r hs hok hf hlt
        simp only at hm hF
        rw [vgoE_eq_dfr lang anon x m r _ F' (by omega) (by omega) hp.2.2 hokr]
        exact dfrIdealE_fuel lang anon x r.t.size r (Nat.le_refl _) F' r.t.size _ (by omega) (Nat.le_refl _)

/-! ## The `FT` side -/

theorem find_map_genE {α β : Type} (g : α → β) (p : α → Bool) (q : β → Bool) : ∀ (A : List α), (∀ j ∈ A, p j = q (g j)) →
    (A.find? p).map g = (A.map g).find? q
  | [], _ => rfl
  | a :: A, h => by
    simp only [List.find?_cons, List.map_cons, h a (by simp)]
    split
    · rfl
    · exact find_map_genE g p q A (fun j hj => h j (by simp [hj]))

theorem ftgo_stepE (lang : Lang) (ft : FT) (nm : Bool) (x : Nat) (info : VInfo) (kids : List VTree) (k : Nat)
    (par : Option Nat) (dep : Nat) (hg : GoodAt ft.toList (.mk info kids) k par dep) (hq : QQ lang (.mk info kids)) (f last : Nat) :
    (∃ c vi vk, FT.descendantForBytes.go ft x x nm (f + 1) k last =
          FT.descendantForBytes.go ft x x nm f c (if !nm || ft.named c then c else last) ∧
        GoodAt ft.toList (.mk vi vk) c (some k) (dep + 1) ∧ QQ lang (.mk vi vk) ∧ (.mk vi vk) ∈ kids ∧
        (enumRefs lang info.raw info.start).find? (selE x) = some (refOf vi) ∧ ¬ (x < (refOf vi).startByte)) ∨
    (FT.descendantForBytes.go ft x x nm (f + 1) k last = last ∧
      (match (enumRefs lang info.raw info.start).find? (selE x) with
       | none => True
       | some r => x < r.startByte)) := by
  obtain ⟨hrefs, hpos⟩ := ft_kids_refs lang ft info kids k par dep hg hq
  rw [ftgo_succ]
  have hmap := find_map_genE (fun j => refOf (ft.node j).info)
    (fun c => decide (ft.eb c ≥ x) && (if ft.sb c == ft.eb c then decide (ft.eb c ≥ x) else decide (ft.eb c > x))) (selE x) (ft.kidsOf k)
    (fun j hj => by
      obtain ⟨h1, h2⟩ := hpos j hj
      simp only [selE, ← h1, ← h2]
      by_cases he : ft.sb j = ft.eb j
      · have : (ft.sb j == ft.eb j) = true := by simpa using he
        simp only [this, if_true, Bool.true_and, Bool.and_self]
        by_cases hx : ft.eb j ≥ x
        · by_cases hx2 : ft.eb j > x
          · simp [hx, hx2]
          · have : ft.eb j = x := by omega
            simp [this]
        · have h3 : ¬ ft.eb j > x := by omega
          have h4 : ¬ ft.eb j = x := by omega
          simp [hx, h3, h4]
      · have : (ft.sb j == ft.eb j) = false := by simpa using he
        simp only [this, Bool.false_eq_true, if_false, Bool.false_and, Bool.or_false]
        by_cases hx2 : ft.eb j > x
        · have : ft.eb j ≥ x := by omega
          simp [hx2, this]
        · simp [hx2])
  rw [hrefs] at hmap
  cases hf : (ft.kidsOf k).find? (fun c => decide (ft.eb c ≥ x) && (if ft.sb c == ft.eb c then decide (ft.eb c ≥ x) else decide (ft.eb c > x))) with
  | none =>
    rw [hf] at hmap
    simp only [Option.map_none] at hmap
    right
    rw [← hmap]
    exact ⟨rfl, trivial⟩
  | some c =>
    rw [hf] at hmap
    simp only [Option.map_some] at hmap
    obtain ⟨hcm, _⟩ := find_some_mem _ _ _ hf
    have hsb := (hpos c hcm).2
    obtain ⟨m, hm⟩ := List.mem_iff_getElem?.mp hcm
    have hlen : m < kids.length := by
      have := lt_of_getElem?_some _ _ _ hm
      rw [ft_kidsOf ft info kids k par dep hg, kidIdxFrom_length] at this
      exact this
    obtain ⟨kj, h1, h2, _, _, _⟩ := ft_child_spec ft info kids k par dep m kids[m] hg (List.getElem?_eq_getElem hlen)
    rw [hm] at h1
    simp only [Option.some.injEq] at h1
    subst h1
    cases hv : kids[m] with
    | mk vi vk =>
      rw [hv] at h2
      have hci : (ft.node c).info = vi := by rw [good_node ft vi vk c (some k) (dep + 1) h2]
      have hmem : VTree.mk vi vk ∈ kids := by rw [← hv]; exact List.getElem_mem hlen
      by_cases hlt : x < ft.sb c
      · right
        simp only [hlt, if_true, ← hmap, true_and]
        rw [hsb] at hlt
        exact hlt
      · left
        refine ⟨c, vi, vk, by simp [hlt], h2, qq_kids lang info kids hq _ hmem, hmem, ?_, ?_⟩
        · rw [← hmap, hci]
        · rw [hsb, hci] at hlt; exact hlt

theorem ftgo_eq_vgoE (lang : Lang) (ft : FT) (nm : Bool) (x : Nat) : ∀ (f : Nat) (info : VInfo) (kids : List VTree) (k : Nat)
    (par : Option Nat) (dep : Nat), GoodAt ft.toList (.mk info kids) k par dep → QQ lang (.mk info kids) → ∀ (last : Nat),
    refOf (ft.node (FT.descendantForBytes.go ft x x nm f k last)).info =
      vgoE lang (!nm) x f (refOf info) (refOf (ft.node last).info)
  | 0, _, _, _, _, _, _, _, _ => by rw [FT.descendantForBytes.go, vgoE]
  | f + 1, info, kids, k, par, dep, hg, hq, last => by
    rw [vgoE]
    rcases ftgo_stepE lang ft nm x info kids k par dep hg hq f last with ⟨c, vi, vk, e1, hgc, hqc, hmem, hfind, hnl⟩ | ⟨e1, hx⟩
    · have hf' : (enumRefs lang (refOf info).t (refOf info).start).find? (selE x) = some (refOf vi) := hfind
      rw [e1, hf']
      simp only [hnl, if_false]
      have hnode := good_node ft vi vk c (some k) (dep + 1) hgc
      have hnamed : ft.named c = entryNamed lang ((refOf vi).t, (refOf vi).alias) := by
        simp only [FT.named, hnode, refOf]
        exact kid_named lang info kids hq vi vk hmem
      have hrelT : (refOf vi).relevant lang true = true :=
        enumRefs_relevant lang info.raw info.start _ (find_some_mem _ _ _ hfind).1
      have hkeep : (refOf vi).relevant lang (!nm) = (!nm || ft.named c) := by
        rw [rel_anon_of_rel lang (!nm) (refOf vi) hrelT, hnamed]
      rw [hkeep]
      have := ftgo_eq_vgoE lang ft nm x f vi vk c (some k) (dep + 1) hgc hqc (if (!nm || ft.named c) = true then c else last)
      rw [this]
      by_cases hk : (!nm || ft.named c) = true
      · simp only [hk, if_true, hnode]
      · simp only [hk, if_false, Bool.false_eq_true]
    · rw [e1]
      cases hfd : (enumRefs lang info.raw info.start).find? (selE x) with
      | none =>
        have hf' : (enumRefs lang (refOf info).t (refOf info).start).find? (selE x) = none := hfd
        rw [hf']
      | some r =>
        have hf' : (enumRefs lang (refOf info).t (refOf info).start).find? (selE x) = some r := hfd
        rw [hfd] at hx
        simp only at hx
        rw [hf']
        simp [hx]

/-- **descendant_for_empty_byte_range_ft_spec.**  For either flag (`nm = true`: the NAMED function), root summarized
and parser-shaped, `ft` the preorder array of `flatten`, ANY byte `x` and fuel covering the raw tree: under the exact
hypothesis `emptyOK lang x root` the port of `ts_node_(named_)descendant_for_byte_range(root, x, x)` — the EMPTY range —
returns exactly the `TSNode` of the entry `FT.descendantForBytes 0 x x nm` designates.  Where `emptyOK` fails the two
really differ on every explored tree (finding 6). -/
theorem descendant_for_empty_byte_range_ft_spec (lang : Lang) (nm : Bool) (root : Tree) (rootId : Nat) (ps : Option Nat) (fuel x : Nat)
    (hs : Summarized lang root) (hsh : shapeOK ps root = true) :
    let ft : FT := flatOf (flatten lang root rootId)
    root.size ≤ fuel → emptyOK lang x root (refOf (ft.node 0).info).start = true →
    descendantForByteRangePort lang fuel (refOf (ft.node 0).info) x x (!nm) =
      (ft.descendantForBytes 0 x x nm).map (fun j => refOf (ft.node j).info) := by
  intro ft hfuel hok
  have hg0 := flatOf_good (flatten lang root rootId)
  have hq0 := flatten_qq lang root rootId ps hs hsh
  have hraw := (flatten_hered lang root rootId).2
  have hsize := flatOf_size (flatten lang root rootId)
  cases hv : flatten lang root rootId with
  | mk info kids =>
    rw [hv] at hg0 hq0 hraw hsize
    have hfte : ft = flatOf (VTree.mk info kids) := by simp only [ft, hv]
    rw [← hfte] at hg0 hsize
    simp only [VTree.info] at hraw
    have hnode : (ft.node 0).info = info := by rw [good_node ft info kids 0 none 0 hg0]
    rw [hnode] at hok ⊢
    rw [descendant_for_empty_byte_range_port lang fuel (refOf info) x (!nm)]
    have hng : ¬ (x > x) := by omega
    simp only [FT.descendantForBytes, hng, if_false, Option.map_some, Option.some.injEq]
    have hsz : Sized root := sized_of_summarized lang root hs
    have hft : Array.size ft = vsize (.mk info kids) := hsize
    rw [ftgo_fuelA lang ft nm x x (vsize (.mk info kids)) info kids 0 none 0 hg0 (Nat.le_refl _) (Array.size ft) (Array.size ft + root.size) 0
      (by omega) (by omega)]
    rw [ftgo_eq_vgoE lang ft nm x _ info kids 0 none 0 hg0 hq0 0, hnode]
    have hrt : (refOf info).t = root := hraw
    rw [vgoE_eq_dfr lang (!nm) x root.size (refOf info) (refOf info) _ (by rw [hrt]; exact Nat.le_refl _) (by rw [hrt]; omega) (by rw [hrt]; exact hsz)
      (by rw [hrt]; exact hok)]
    exact dfrIdealE_fuel lang (!nm) x root.size (refOf info) (by rw [hrt]; exact Nat.le_refl _) _ _ _ (by rw [hrt]; omega) (by rw [hrt]; omega)

/-- Non-vacuity: the hypotheses hold on the demo tree (both flags, the empty range at byte 1). -/
example : emptyOK C02.demoLang 1 pvRoot.t pvRoot.start = true := by decide
example := descendant_for_empty_byte_range_ft_spec C02.demoLang false pvRoot.t pvRoot.id none 8 1 pvRoot_summarized pvRoot_shape (by decide)
  (by rw [ft_node_zero]; decide)

end TsVerif.C06
