import TsVerif.C06.SiblingNamed
/-!
C06, node.c: `ts_node_next_sibling` / `ts_node_next_named_sibling` in ONE development, parametric in
`include_anonymous` and covering EMPTY and non-empty `self` (`next_sibling_spec_anon`).
-/
open TsVerif TsVerif.C02 TsGen

namespace TsVerif.C06

/-- The FIRST raw child the search would stop at, for either flag. -/
def firstRelA (lang : Lang) (anon : Bool) (pid : Nat) : List Tree → Nat → Option (Tree × Nat × Bool)
  | [], _ => none
  | c :: rest, si =>
    if relA lang anon pid si c then some (c, si, true)
    else if relevantChildCount c anon > 0 then some (c, si, false)
    else firstRelA lang anon pid rest (if c.data.extra then si else si + 1)

theorem firstRelA_mem (lang : Lang) (anon : Bool) (pid : Nat) : ∀ (kids : List Tree) (si : Nat) (c : Tree) (si' : Nat) (b : Bool),
    firstRelA lang anon pid kids si = some (c, si', b) → c ∈ kids ∧ (b = false → relevantChildCount c anon > 0 ∧ relA lang anon pid si' c = false)
  | [], _, _, _, _, h => by simp [firstRelA] at h
  | x :: rest, si, c, si', b, h => by
    unfold firstRelA at h
    by_cases h1 : relA lang anon pid si x = true
    · simp only [h1, if_true, Option.some.injEq, Prod.mk.injEq] at h
      obtain ⟨e1, _, e3⟩ := h
      subst e1
      exact ⟨by simp, by intro hb; rw [hb] at e3; cases e3⟩
    · simp only [h1, if_false, Bool.false_eq_true] at h
      by_cases h2 : relevantChildCount x anon > 0
      · simp only [h2, if_true, Option.some.injEq, Prod.mk.injEq] at h
        obtain ⟨e1, e2, _⟩ := h
        subst e1; subst e2
        exact ⟨by simp, fun _ => ⟨h2, by simpa using h1⟩⟩
      · simp only [h2, if_false] at h
        have := firstRelA_mem lang anon pid rest _ c si' b h
        exact ⟨List.mem_cons_of_mem _ this.1, this.2⟩

/-- Head of the filtered enumeration of visible children in terms of `firstRelA`. -/
theorem enumKids_headA (lang : Lang) (anon : Bool) : ∀ (kids : List Tree) (pid si : Nat) (ps : Option Nat),
    SummarizedL lang kids → shapeOKL ps kids = true → AOK lang anon kids pid si →
    ((enumKids lang pid kids si).filter (keepA lang anon)).head? =
      match firstRelA lang anon pid kids si with
      | none => none
      | some (c, si', true) => some (c, alOf lang pid si' c)
      | some (c, _, false) => (enumChildrenA lang anon c).head?
  | [], _, _, _, _, _, _ => by simp [enumKids, firstRelA]
  | c :: rest, pid, si, ps, hs, hsh, ha => by
    unfold SummarizedL at hs
    unfold shapeOKL at hsh
    simp only [Bool.and_eq_true] at hsh
    obtain ⟨hac, har⟩ := aok_cons lang anon c rest pid si ha
    have ih := enumKids_headA lang anon rest pid (if c.data.extra then si else si + 1) ps hs.2 hsh.2 har
    unfold enumKids firstRelA
    simp only [List.filter_append, List.head?_append]
    have hal : (if c.data.extra = true then 0 else lang.aliasAt pid si) = alOf lang pid si c := rfl
    simp only [hal]
    by_cases hvis : (c.data.visible || alOf lang pid si c != 0) = true
    · simp only [hvis, if_true]
      by_cases hrel : relA lang anon pid si c = true
      · have hk := relA_of_vis lang anon pid si c hvis
        rw [hrel] at hk
        simp [hrel, List.filter_cons, ← hk]
      · have hrel' : relA lang anon pid si c = false := by simpa using hrel
        have hk := relA_of_vis lang anon pid si c hvis
        rw [hrel'] at hk
        have hz := rcc_zero_of_anon lang anon pid si c hvis hrel' hac
        simp only [hrel', Bool.false_eq_true, if_false, hz, Nat.lt_irrefl, List.filter_cons, ← hk, List.filter_nil, List.head?_nil, Option.none_or]
        exact ih
    · have hvis' : (c.data.visible || alOf lang pid si c != 0) = false := by simpa using hvis
      simp only [hvis', Bool.false_eq_true, if_false, relA_of_hidden lang anon pid si c hvis']
      have hiff := rcc_pos_iff lang anon c ps hs.1 hsh.1
      by_cases hk : relevantChildCount c anon > 0
      · simp only [hk, if_true]
        have hne := hiff.mp hk
        unfold enumChildrenA at hne ⊢
        cases hl : (enumChildren lang c).filter (keepA lang anon) with
        | nil => exact absurd hl hne
        | cons a b => simp
      · simp only [hk, if_false]
        have : (enumChildren lang c).filter (keepA lang anon) = [] := by
          by_cases h0 : enumChildrenA lang anon c = []
          · exact h0
          · exact absurd (hiff.mpr h0) hk
        rw [this]
        simp only [List.head?_nil, Option.none_or]
        exact ih

/-! ### The scan, parametric in the flag and in the width of `self` -/

abbrev nsScanA (lang : Lang) (self : NodeRef) (anon : Bool) :=
  nextSiblingPort.scan lang self anon self.endByte self.startByte (self.startByte == self.endByte)
abbrev nsGoA (lang : Lang) (self : NodeRef) (anon : Bool) :=
  nextSiblingPort.go lang self anon self.endByte self.startByte (self.startByte == self.endByte)

/-- `contains_target` of the C scan. -/
def containsT (self : NodeRef) (rc : RawChild) : Bool :=
  if self.startByte == self.endByte then decide (rc.node.startByte < self.startByte) else decide (rc.node.startByte ≤ self.startByte)

theorem nsScanA_cons (lang : Lang) (self : NodeRef) (anon : Bool) (rc : RawChild) (rest : List RawChild) (cct : Option NodeRef) :
    nsScanA lang self anon (rc :: rest) cct =
      (if rc.posAfter.bytes ≤ self.endByte then nsScanA lang self anon rest cct
       else if containsT self rc then nsScanA lang self anon rest (if samePtr rc.node self then cct else some rc.node)
       else if rc.node.relevant lang anon then (cct, some (rc.node, true))
       else if rc.node.relChildCount anon > 0 then (cct, some (rc.node, false))
       else nsScanA lang self anon rest cct) := by
  simp only [nsScanA, nextSiblingPort.scan, samePtr, containsT]
  by_cases he : (self.startByte == self.endByte) = true <;> simp [he]

theorem nsScanA_skip (lang : Lang) (self : NodeRef) (anon : Bool) (cct : Option NodeRef) :
    ∀ (k : Nat) (L : List RawChild), (∀ i ri, i < k → L[i]? = some ri → ri.posAfter.bytes ≤ self.endByte) →
    nsScanA lang self anon L cct = nsScanA lang self anon (L.drop k) cct
  | 0, _, _ => by simp
  | k + 1, [], _ => by simp
  | k + 1, r0 :: rest, h => by
    have h0 := h 0 r0 (by omega) (by simp)
    rw [nsScanA_cons]
    simp only [h0, if_true, List.drop_succ_cons]
    exact nsScanA_skip lang self anon cct k rest (fun i ri hi hri => h (i + 1) ri (by omega) (by simpa using hri))

def firstLaterRefA (lang : Lang) (anon : Bool) : List RawChild → Option (NodeRef × Bool)
  | [] => none
  | rc :: rest =>
    if rc.node.relevant lang anon then some (rc.node, true)
    else if rc.node.relChildCount anon > 0 then some (rc.node, false)
    else firstLaterRefA lang anon rest

/-- Over children that end after `self` and start at or after its end, the scan is `firstLaterRefA`. -/
theorem nsScanA_later (lang : Lang) (self : NodeRef) (anon : Bool) (cct : Option NodeRef) :
    ∀ (L : List RawChild), (∀ rc ∈ L, self.endByte < rc.posAfter.bytes ∧ self.endByte ≤ rc.node.startByte) →
    nsScanA lang self anon L cct = (cct, firstLaterRefA lang anon L)
  | [], _ => rfl
  | rc :: rest, h => by
    have h0 := h rc (by simp)
    rw [nsScanA_cons, firstLaterRefA]
    have h1 : ¬ (rc.posAfter.bytes ≤ self.endByte) := by omega
    have h2 : containsT self rc = false := by
      unfold containsT
      have hle : self.startByte ≤ self.endByte := by simp [NodeRef.startByte, NodeRef.endByte]
      by_cases he : (self.startByte == self.endByte) = true
      · have : self.startByte = self.endByte := by simpa using he
        simp [he]; omega
      · have : self.startByte ≠ self.endByte := by simpa using he
        simp [he]; omega
    simp only [h1, h2, if_false, Bool.false_eq_true]
    split
    · rfl
    · split
      · rfl
      · exact nsScanA_later lang self anon cct rest (fun r hr => h r (by simp [hr]))

theorem firstLaterRefA_mem (lang : Lang) (anon : Bool) : ∀ (L : List RawChild) (r : NodeRef) (b : Bool),
    firstLaterRefA lang anon L = some (r, b) → ∃ rc ∈ L, rc.node = r
  | [], _, _, h => by simp [firstLaterRefA] at h
  | rc :: rest, r, b, h => by
    unfold firstLaterRefA at h
    split at h
    · simp only [Option.some.injEq, Prod.mk.injEq] at h; exact ⟨rc, by simp, h.1⟩
    · split at h
      · simp only [Option.some.injEq, Prod.mk.injEq] at h; exact ⟨rc, by simp, h.1⟩
      · obtain ⟨x, hx, hxr⟩ := firstLaterRefA_mem lang anon rest r b h
        exact ⟨x, by simp [hx], hxr⟩

theorem firstLaterRefA_go (lang : Lang) (anon : Bool) (n : NodeRef) (nk : Nat) : ∀ (kids : List Tree) (pos : Length) (si k : Nat),
    (firstLaterRefA lang anon (rawChildren.go lang n n.t.data.productionId nk kids pos si k)).map (fun r => (r.1.t, r.1.alias, r.2)) =
      (firstRelA lang anon n.t.data.productionId kids si).map (fun r => (r.1, alOf lang n.t.data.productionId r.2.1 r.1, r.2.2))
  | [], _, _, _ => by simp [rawChildren.go, firstLaterRefA, firstRelA]
  | c :: rest, pos, si, k => by
    rw [go_getElem_zero, firstLaterRefA, firstRelA]
    simp only [NodeRef.relevant, NodeRef.relChildCount]
    have e1 : isRelevant lang c (if c.data.extra = true then 0 else lang.aliasAt n.t.data.productionId si) anon =
        relA lang anon n.t.data.productionId si c := rfl
    simp only [e1]
    by_cases h1 : relA lang anon n.t.data.productionId si c = true
    · simp [h1, alOf]
    · simp only [h1, if_false, Bool.false_eq_true]
      by_cases h2 : relevantChildCount c anon > 0
      · simp [h2, alOf]
      · simp only [h2, if_false]
        exact firstLaterRefA_go lang anon n nk rest _ _ _

def nsNextA (lang : Lang) (self : NodeRef) (anon : Bool) (f : Nat) (later : Option (NodeRef × Bool)) :
    Option NodeRef → Option (NodeRef × Bool) → Option NodeRef
  | some c, laterChild => nsGoA lang self anon f (some c) (match laterChild with | some l => some l | none => later)
  | none, some (lc, true) => some lc
  | none, some (lc, false) => nsGoA lang self anon f (some lc) later
  | none, none =>
    match later with
    | some (ln, true) => some ln
    | some (ln, false) => nsGoA lang self anon f (some ln) later
    | none => none

theorem nsGoA_succ (lang : Lang) (self : NodeRef) (anon : Bool) (f : Nat) (node : NodeRef) (later : Option (NodeRef × Bool))
    (cct : Option NodeRef) (lch : Option (NodeRef × Bool)) (h : nsScanA lang self anon (rawChildren lang node) none = (cct, lch)) :
    nsGoA lang self anon (f + 1) (some node) later = nsNextA lang self anon f later cct lch := by
  simp only [nsGoA, nextSiblingPort.go]
  simp only [nsScanA] at h
  rw [h]
  cases cct with
  | some c => rfl
  | none =>
    cases lch with
    | none => rfl
    | some l => obtain ⟨lc, b⟩ := l; cases b <;> rfl


def resolveLaterA (lang : Lang) (anon : Bool) : Option (NodeRef × Bool) → Option (Tree × Nat)
  | none => none
  | some (ln, true) => some (ln.t, ln.alias)
  | some (ln, false) => (enumChildrenA lang anon ln.t).head?

def LaterGoodA (lang : Lang) (self : NodeRef) (anon : Bool) : Option (NodeRef × Bool) → Prop
  | some (ln, false) => (∃ ps, shapeOK ps ln.t = true) ∧ Summarized lang ln.t ∧
      endsAfterL self.endByte ln.t.kids ln.start.bytes true = true ∧ self.endByte ≤ ln.startByte ∧
      relevantChildCount ln.t anon > 0 ∧ AOK lang anon ln.t.kids ln.t.data.productionId 0
  | _ => True

theorem resolveLaterA_ne_none (lang : Lang) (self : NodeRef) (anon : Bool) (l : NodeRef × Bool) (hg : LaterGoodA lang self anon (some l)) :
    resolveLaterA lang anon (some l) ≠ none := by
  obtain ⟨ln, b⟩ := l
  cases b with
  | true => simp [resolveLaterA]
  | false =>
    obtain ⟨⟨ps, hsh⟩, hs, _, _, hv, _⟩ := hg
    have := (rcc_pos_iff lang anon ln.t ps hs hsh).mp hv
    simp only [resolveLaterA, ne_eq, List.head?_eq_none_iff]
    exact this

theorem aok_drop (lang : Lang) (anon : Bool) : ∀ (kids : List Tree) (pid si k : Nat), AOK lang anon kids pid si →
    AOK lang anon (kids.drop k) pid (siAfter (kids.take k) si)
  | _, _, _, 0, h => by simpa [siAfter] using h
  | [], _, _, _ + 1, h => by simpa [siAfter] using h
  | x :: rest, pid, si, k + 1, ha => by
    obtain ⟨_, h2⟩ := aok_cons lang anon x rest pid si ha
    have := aok_drop lang anon rest pid _ k h2
    simpa [siAfter] using this

/-- What `firstLaterRefA` over the iteration of a list of later children (none of them, nor anything
inside them, empty at the end of `self`) stands for. -/
theorem nsA_part (lang : Lang) (self n : NodeRef) (anon : Bool) (kids : List Tree) (pos : Length) (si k : Nat) (ps : Option Nat)
    (hs : SummarizedL lang kids) (hsh : shapeOKL ps kids = true)
    (hne : endsAfterL self.endByte kids pos.bytes (decide (k = 0)) = true) (hpos : self.endByte ≤ pos.bytes)
    (ha : AOK lang anon kids n.t.data.productionId si)
    (L : List RawChild) (hL : L = rawChildren.go lang n n.t.data.productionId n.t.kids.length kids pos si k) :
    (∀ r ∈ L, self.endByte < r.posAfter.bytes ∧ self.endByte ≤ r.node.startByte) ∧
    resolveLaterA lang anon (firstLaterRefA lang anon L) = ((enumKids lang n.t.data.productionId kids si).filter (keepA lang anon)).head? ∧
    LaterGoodA lang self anon (firstLaterRefA lang anon L) ∧
    (∀ lc b, firstLaterRefA lang anon L = some (lc, b) → lc.t ∈ kids) := by
  have hel : ∀ r ∈ L, self.endByte ≤ r.node.startByte ∧ self.endByte < r.posAfter.bytes ∧
      r.node.t ∈ kids ∧ endsAfterL self.endByte r.node.t.kids r.node.start.bytes true = true := by
    intro r hr
    rw [hL] at hr
    obtain ⟨j, hj⟩ := List.mem_iff_getElem?.mp hr
    have he := go_elem lang _ _ _ _ _ _ _ j r hj
    have hm : r.node.t ∈ kids := List.mem_of_getElem? he.2.2
    have hga := go_after lang n _ _ self.endByte _ _ _ k hne j r hj
    simp only [NodeRef.startByte]
    exact ⟨by omega, hga.1, hm, hga.2⟩
  have hhead := enumKids_headA lang anon kids n.t.data.productionId si ps hs hsh ha
  have hmap := firstLaterRefA_go lang anon n n.t.kids.length kids pos si k
  rw [← hL] at hmap
  refine ⟨fun r hr => ⟨(hel r hr).2.1, (hel r hr).1⟩, ?_, ?_, ?_⟩
  · rw [hhead]
    cases hfl : firstLaterRefA lang anon L with
    | none =>
      rw [hfl] at hmap
      cases hx : firstRelA lang anon n.t.data.productionId kids si with
      | none => rfl
      | some v => rw [hx] at hmap; simp at hmap
    | some rb =>
      obtain ⟨r, b⟩ := rb
      rw [hfl] at hmap
      cases hx : firstRelA lang anon n.t.data.productionId kids si with
      | none => rw [hx] at hmap; simp at hmap
      | some v =>
        obtain ⟨c, si', b'⟩ := v
        rw [hx] at hmap
        simp only [Option.map_some, Option.some.injEq, Prod.mk.injEq] at hmap
        obtain ⟨h1, h2, h3⟩ := hmap
        subst h3
        cases b <;> simp [resolveLaterA, h1, h2]
  · cases hfl : firstLaterRefA lang anon L with
    | none => trivial
    | some rb =>
      obtain ⟨r, b⟩ := rb
      cases b with
      | true => trivial
      | false =>
        obtain ⟨x, hx, hxr⟩ := firstLaterRefA_mem lang anon _ r false hfl
        have hp := hel x hx
        rw [hxr] at hp
        rw [hfl] at hmap
        cases hfr : firstRelA lang anon n.t.data.productionId kids si with
        | none => rw [hfr] at hmap; simp at hmap
        | some v =>
          obtain ⟨c, si', b'⟩ := v
          rw [hfr] at hmap
          simp only [Option.map_some, Option.some.injEq, Prod.mk.injEq] at hmap
          obtain ⟨h1, _, h3⟩ := hmap
          subst h3
          have hm := firstRelA_mem lang anon _ kids si c si' false hfr
          obtain ⟨al, hal⟩ := aok_mem lang anon kids _ si c ha hm.1
          exact ⟨⟨_, by rw [h1]; exact shapeOK_of_mem _ _ c hsh hm.1⟩,
            by rw [h1]; exact summarized_of_mem lang _ c hs hm.1, hp.2.2.2, hp.1, by rw [h1]; exact (hm.2 rfl).1,
            by rw [h1]; exact aok_child lang anon c al hal⟩
  · intro lc b hfl
    obtain ⟨x, hx, hxr⟩ := firstLaterRefA_mem lang anon _ lc b hfl
    have hp := hel x hx
    rw [hxr] at hp
    exact hp.2.2.1

/-- Descending into a later node that is not relevant: the search returns the first element of its
filtered enumeration. -/
theorem nsA_descend (lang : Lang) (self : NodeRef) (anon : Bool) (later : Option (NodeRef × Bool)) :
    ∀ (f : Nat) (lc : NodeRef) (ps : Option Nat), lc.t.size ≤ f → Summarized lang lc.t → shapeOK ps lc.t = true →
    endsAfterL self.endByte lc.t.kids lc.start.bytes true = true → self.endByte ≤ lc.startByte → relevantChildCount lc.t anon > 0 →
    AOK lang anon lc.t.kids lc.t.data.productionId 0 →
    (nsGoA lang self anon f (some lc) later).map (fun r => (r.t, r.alias)) = (enumChildrenA lang anon lc.t).head?
  | 0, lc, _, hf, _, _, _, _, _, _ => by have := tree_size_pos lc.t; omega
  | f + 1, lc, ps, hf, hs, hsh, hne, hpos, hv, ha => by
    obtain ⟨hall, hres, hgood, hmem⟩ := nsA_part lang self lc anon lc.t.kids lc.start 0 0 (some lc.t.data.symbol)
      (summarizedL_kids lang lc.t hs) (shapeOKL_kids ps lc.t hsh) (by simpa using hne) hpos ha (rawChildren lang lc) rfl
    rw [nsGoA_succ lang self anon f lc later none _ (nsScanA_later lang self anon none (rawChildren lang lc) hall),
      enumChildrenA_eq, ← hres]
    have hnn := (rcc_pos_iff lang anon lc.t ps hs hsh).mp hv
    cases hfl : firstLaterRefA lang anon (rawChildren lang lc) with
    | none =>
      rw [hfl] at hres
      simp only [resolveLaterA] at hres
      rw [enumChildrenA_eq] at hnn
      exact absurd (List.head?_eq_none_iff.mp hres.symm) hnn
    | some rb =>
      obtain ⟨r, b⟩ := rb
      cases b with
      | true => simp only [nsNextA, resolveLaterA, Option.map_some]
      | false =>
        rw [hfl] at hgood
        obtain ⟨⟨ps', hsh'⟩, hs', hne', hpos', hv', ha'⟩ := hgood
        simp only [nsNextA, resolveLaterA]
        have hm := sizeList_mem _ _ (hmem r false hfl)
        have hk := tree_size_kids lc.t
        exact nsA_descend lang self anon later f r ps' (by omega) hs' hsh' hne' hpos' hv' ha'


theorem aok_go_drop (lang : Lang) (anon : Bool) (n : NodeRef) (pid nk : Nat) : ∀ (kids : List Tree) (pos : Length) (si k j : Nat) (rc : RawChild),
    (rawChildren.go lang n pid nk kids pos si k)[j]? = some rc → AOK lang anon kids pid si →
    AOK lang anon (kids.drop (j + 1)) pid (if rc.node.t.data.extra then rc.si else rc.si + 1)
  | [], _, _, _, _, _, h, _ => by simp [rawChildren.go] at h
  | c :: rest, pos, si, k, j, rc, h, ha => by
    rw [go_getElem_zero] at h
    obtain ⟨_, h2⟩ := aok_cons lang anon c rest pid si ha
    cases j with
    | zero =>
      simp only [List.getElem?_cons_zero, Option.some.injEq] at h
      subst h
      simpa using h2
    | succ j' =>
      simp only [List.getElem?_cons_succ] at h
      have := aok_go_drop lang anon n pid nk rest _ _ _ j' rc h h2
      simpa using this

/-- The outer loop of `ts_node__next_sibling(self, anon)` along the path `n ⟶ self`, any width. -/
theorem nsA_levels (lang : Lang) (self : NodeRef) (anon : Bool) :
    ∀ (q : List Nat) (f : Nat) (n : NodeRef) (later : Option (NodeRef × Bool)) (ps : Option Nat), q ≠ [] →
    n.t.size + laterNeed later ≤ f → Summarized lang n.t → shapeOK ps n.t = true → nodeAt lang n q = some self →
    nsPathOK lang self n q = true → (self.startByte = self.endByte → nsZwOKA lang anon self n q = true) →
    AOK lang anon n.t.kids n.t.data.productionId 0 → LaterGoodA lang self anon later →
    (nsGoA lang self anon f (some n) later).map (fun r => (r.t, r.alias)) =
      (((laterOnPath lang n q).filter (keepA lang anon)).head?).or (resolveLaterA lang anon later)
  | [], _, _, _, _, h, _, _, _, _, _, _, _, _ => absurd rfl h
  | k :: rest, 0, n, _, _, _, hf, _, _, _, _, _, _, _ => by have := tree_size_pos n.t; omega
  | k :: rest, f + 1, n, later, ps, _, hf, hs, hsh, hat, hok, hzw, ha, hg => by
    obtain ⟨rc, hk, hat'⟩ := nodeAt_cons lang n self k rest hat
    have hsz := sized_of_summarized lang n.t hs
    have hn := raw_child_nested lang n hsz k rc hk
    have hd := nodeAt_nested lang rest rc.node self hn.2.2.2 hat'
    simp only [nsPathOK, hk, Bool.and_eq_true] at hok
    have hk2 := hk
    simp only [rawChildren] at hk2
    have hdrop := go_drop lang n _ _ _ _ _ _ k rc hk2
    have hLd : (rawChildren lang n).drop (k + 1) =
        rawChildren.go lang n n.t.data.productionId n.t.kids.length (n.t.kids.drop (k + 1)) rc.posAfter
          (if rc.node.t.data.extra then rc.si else rc.si + 1) (rc.k + 1) := by
      simp only [rawChildren]; exact hdrop
    obtain ⟨hel, hres, hlg, hlmem⟩ := nsA_part lang self n anon (n.t.kids.drop (k + 1)) rc.posAfter
      (if rc.node.t.data.extra then rc.si else rc.si + 1) (rc.k + 1) (some n.t.data.symbol)
      (summarizedL_drop lang _ (k + 1) (summarizedL_kids lang n.t hs)) (shapeOKL_drop _ _ (k + 1) (shapeOKL_kids ps n.t hsh))
      (by simpa using hok.1) (by have h1 := hn.2.2.1; have h2 := hd.2.1; omega) (aok_go_drop lang anon n _ _ _ _ _ _ k rc hk2 ha) _ hLd
    have hscan : ∀ cct, nsScanA lang self anon ((rawChildren lang n).drop (k + 1)) cct =
        (cct, firstLaterRefA lang anon ((rawChildren lang n).drop (k + 1))) :=
      fun cct => nsScanA_later lang self anon cct _ hel
    have hkid := (go_elem lang _ _ _ _ _ _ _ k rc hk2).2.2
    have hcmem : rc.node.t ∈ n.t.kids := List.mem_of_getElem? hkid
    have hnsize := tree_size_kids n.t
    have hle : self.startByte ≤ self.endByte := by simp [NodeRef.startByte, NodeRef.endByte]
    have hskip : nsScanA lang self anon (rawChildren lang n) none = nsScanA lang self anon (rc :: (rawChildren lang n).drop (k + 1)) none := by
      rw [nsScanA_skip lang self anon none k (rawChildren lang n) (fun i ri hi hri => by
        have := raw_ordered lang n i k ri rc hi hri hk; omega), drop_eq_cons _ k rc hk]
    simp only [laterOnPath, hk, List.filter_append, List.head?_append, Option.or_assoc]
    -- the common ending: the scan yields no containing child and the later part of this level
    have hfinish : (laterOnPath lang rc.node rest).filter (keepA lang anon) = [] →
        nsScanA lang self anon (rawChildren lang n) none = (none, firstLaterRefA lang anon ((rawChildren lang n).drop (k + 1))) →
        (nsGoA lang self anon (f + 1) (some n) later).map (fun r => (r.t, r.alias)) =
          (((laterOnPath lang rc.node rest).filter (keepA lang anon)).head?).or
            ((((enumKids lang n.t.data.productionId (n.t.kids.drop (k + 1)) (if rc.node.t.data.extra then rc.si else rc.si + 1)).filter (keepA lang anon)).head?).or
              (resolveLaterA lang anon later)) := by
      intro hA hsc
      rw [nsGoA_succ lang self anon f n later none _ hsc, hA]
      simp only [List.head?_nil, Option.none_or]
      rw [← hres]
      cases hl : firstLaterRefA lang anon ((rawChildren lang n).drop (k + 1)) with
      | none =>
        simp only [resolveLaterA, Option.none_or, nsNextA]
        cases later with
        | none => rfl
        | some l =>
          obtain ⟨ln, b⟩ := l
          cases b with
          | true => rfl
          | false =>
            simp only [resolveLaterA]
            obtain ⟨⟨ps', hsh'⟩, hs', hne', hpos', hv', ha'⟩ := hg
            exact nsA_descend lang self anon _ f ln ps' (by simp only [laterNeed] at hf; omega) hs' hsh' hne' hpos' hv' ha'
      | some l =>
        rw [hl] at hlg
        have hnn := resolveLaterA_ne_none lang self anon l hlg
        rw [or_of_ne_none _ _ hnn]
        obtain ⟨lc, b⟩ := l
        cases b with
        | true => rfl
        | false =>
          simp only [nsNextA, resolveLaterA]
          obtain ⟨⟨ps', hsh'⟩, hs', hne', hpos', hv', ha'⟩ := hlg
          have hm := sizeList_mem _ _ (List.mem_of_mem_drop (hlmem lc false hl))
          exact nsA_descend lang self anon _ f lc ps' (by omega) hs' hsh' hne' hpos' hv' ha'
    by_cases htight : rc.posAfter.bytes ≤ self.endByte
    · -- (a) the path's child ends where self ends: passed over, nothing follows self below it
      have hA : laterOnPath lang rc.node rest = [] := by
        cases rest with
        | nil => rfl
        | cons k' rest' =>
          simp only [List.isEmpty_cons, Bool.false_or, Bool.and_eq_true] at hok
          exact laterOnPath_tight lang self (k' :: rest') rc.node hn.2.2.2 hat' (by omega) hok.2.2
      exact hfinish (by rw [hA]; rfl) (by rw [hskip, nsScanA_cons]; simp only [htight, if_true]; exact hscan none)
    · have hrest : rest ≠ [] := by
        intro h0
        subst h0
        simp only [nodeAt, Option.some.injEq] at hat'
        rw [hat'] at hn
        omega
      cases rest with
      | nil => exact absurd rfl hrest
      | cons k' rest' =>
        simp only [List.isEmpty_cons, Bool.false_or, Bool.and_eq_true, Bool.not_eq_true'] at hok
        have hsc' := summarized_of_mem lang _ rc.node.t (summarizedL_kids lang n.t hs) hcmem
        have hshc' := shapeOK_of_mem _ _ rc.node.t (shapeOKL_kids ps n.t hsh) hcmem
        have hcs := sizeList_mem _ _ hcmem
        have hac := aok_get lang anon n k rc hk ha
        have hzw' : self.startByte = self.endByte → nsZwOKA lang anon self rc.node (k' :: rest') = true := by
          intro he
          have := hzw he
          rw [nsZwOKA, hk] at this
          simp only [List.isEmpty_cons, Bool.false_or, Bool.and_eq_true] at this
          exact this.2
        by_cases hct : containsT self rc = true
        · -- (b) the path's child contains the target
          have hsc : nsScanA lang self anon (rawChildren lang n) none =
              (some rc.node, firstLaterRefA lang anon ((rawChildren lang n).drop (k + 1))) := by
            rw [hskip, nsScanA_cons]
            simp only [htight, if_false, hct, if_true, hok.2.1, Bool.false_eq_true]
            exact hscan (some rc.node)
          rw [nsGoA_succ lang self anon f n later (some rc.node) _ hsc]
          simp only [nsNextA]
          cases hl : firstLaterRefA lang anon ((rawChildren lang n).drop (k + 1)) with
          | none =>
            rw [hl] at hres
            simp only [resolveLaterA] at hres
            rw [← hres]
            simp only [Option.none_or]
            exact nsA_levels lang self anon (k' :: rest') f rc.node later _ (by simp) (by omega) hsc' hshc' hat' hok.2.2 hzw' hac hg
          | some l =>
            rw [hl] at hlg hres
            have hnn := resolveLaterA_ne_none lang self anon l hlg
            rw [← hres, or_of_ne_none _ (resolveLaterA lang anon later) hnn]
            have hfuel : rc.node.t.size + laterNeed (some l) ≤ f := by
              obtain ⟨lc, b⟩ := l
              cases b with
              | true => simp only [laterNeed]; omega
              | false =>
                simp only [laterNeed]
                have := sizeList_two n.t.kids k rc.node.t lc.t hkid (hlmem lc false hl)
                omega
            exact nsA_levels lang self anon (k' :: rest') f rc.node (some l) _ (by simp) hfuel hsc' hshc' hat' hok.2.2 hzw' hac hlg
        · -- (c) self is EMPTY and the path's child starts where it lies and extends beyond it
          have hct' : containsT self rc = false := by simpa using hct
          have hemp : self.startByte = self.endByte := by
            unfold containsT at hct'
            by_cases he : (self.startByte == self.endByte) = true
            · simpa using he
            · simp only [he, Bool.false_eq_true, if_false, decide_eq_false_iff_not] at hct'
              exact absurd hd.1 hct'
          have hst : rc.node.startByte = self.startByte := by
            unfold containsT at hct'
            have he : (self.startByte == self.endByte) = true := by simp [hemp]
            simp only [he, if_true, decide_eq_false_iff_not] at hct'
            have := hd.1; omega
          have hz := hzw hemp
          rw [nsZwOKA, hk] at hz
          simp only [List.isEmpty_cons, Bool.false_or, Bool.and_eq_true] at hz
          have hcond : (rc.node.startByte == self.startByte) = true ∧ decide (self.endByte < rc.posAfter.bytes) = true := by
            refine ⟨by simp [hst], ?_⟩
            simp; omega
          have hz1 := hz.1
          rw [if_pos hcond] at hz1
          simp only [Bool.and_eq_true, Bool.not_eq_true'] at hz1
          obtain ⟨hnrel, hcase⟩ := hz1
          by_cases hrc0 : rc.node.relChildCount anon = 0
          · -- the scan passes the child over: nothing that counts follows self inside it
            have hb : (rc.node.relChildCount anon == 0) = true := by simp [hrc0]
            rw [if_pos hb] at hcase
            have hA : (laterOnPath lang rc.node (k' :: rest')).filter (keepA lang anon) = [] := by simpa using hcase
            refine hfinish hA ?_
            rw [hskip, nsScanA_cons]
            simp only [htight, if_false, hct', Bool.false_eq_true, hnrel, hrc0, Nat.lt_irrefl]
            exact hscan none
          · have hb : (rc.node.relChildCount anon == 0) = false := by simpa using hrc0
            rw [if_neg (by simp [hb])] at hcase
            have hpos : rc.node.relChildCount anon > 0 := by omega
            have hsc : nsScanA lang self anon (rawChildren lang n) none = (none, some (rc.node, false)) := by
              rw [hskip, nsScanA_cons]
              simp only [htight, if_false, hct', Bool.false_eq_true, hnrel, hpos, if_true]
            rw [nsGoA_succ lang self anon f n later none _ hsc]
            simp only [nsNextA]
            rw [nsA_levels lang self anon (k' :: rest') f rc.node later _ (by simp) (by omega) hsc' hshc' hat' hok.2.2 hzw' hac hg]
            simp only [Bool.or_eq_true, Bool.not_eq_true', List.isEmpty_iff] at hcase
            rcases hcase with hl | hl
            · have hnn : ((laterOnPath lang rc.node (k' :: rest')).filter (keepA lang anon)).head? ≠ none := by
                intro h0
                rw [List.head?_eq_none_iff.mp h0] at hl
                simp at hl
              rw [or_of_ne_none _ _ hnn, or_of_ne_none _ _ hnn]
            · rw [hl]
              simp

/-- **next_sibling_spec_anon.**  `ts_node_next_sibling` (`anon = true`) and `ts_node_next_named_sibling`
(`anon = false`), for ANY `self` (empty or not): with `P` = what `ts_node_parent(self)` returns and `q` a
raw path `P ⟶ self`, under `nsPathOK` (no zero-width raw node follows at the end of `self`), for an
EMPTY `self` also `nsZwOKA`, and — for the named flag — `anonLeafOK` below `P`, the port returns the
FIRST element of `laterOnPath P q` that counts for the flag, null iff there is none. -/
theorem next_sibling_spec_anon (lang : Lang) (fuel : Nat) (root self P : NodeRef) (q : List Nat) (ps : Option Nat) (anon : Bool)
    (hpar : nodeParent lang fuel root self = some P) (hq : q ≠ []) (hf : P.t.size ≤ fuel + 1)
    (hs : Summarized lang P.t) (hsh : shapeOK ps P.t = true) (hat : nodeAt lang P q = some self)
    (hok : nsPathOK lang self P q = true) (hzw : self.startByte = self.endByte → nsZwOKA lang anon self P q = true)
    (ha : anon = true ∨ anonLeafOKKids lang P.t.kids P.t.data.productionId 0 = true) :
    (nextSiblingPort lang fuel root self anon).map (fun r => (r.t, r.alias)) =
      ((laterOnPath lang P q).filter (keepA lang anon)).head? := by
  unfold nextSiblingPort
  simp only [hpar]
  have := nsA_levels lang self anon q (fuel + 1) P none ps hq (by simp only [laterNeed]; omega) hs hsh hat hok hzw ha trivial
  simpa [resolveLaterA] using this

end TsVerif.C06
