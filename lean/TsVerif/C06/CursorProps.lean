import TsVerif.C06.Props
import TsVerif.C06.NodeNav
/-!
# C06 — cursor walk theorems (second Props file of C06)

Clause "cursor moves first child / next sibling are consistent with the single ordered tree":

* `cursor_first_child_spec` — for every entry over a summarized parser-shaped subtree, the port of
  `ts_tree_cursor_goto_first_child` succeeds exactly when the node has a visible child and then
  shows (subtree, alias) = the FIRST element of `enumChildren` (= first child in `flatten`),
  descending through hidden nodes by their cached `visible_child_count`.
* `cursor_last_child_spec` — mirror image for `ts_tree_cursor_goto_last_child`: the LAST element of
  `enumChildren` (`lastRel`, `lastGo_spec`, `enumKids_last`).
* `cursor_next_sibling_spec` — for every well-formed cursor stack (`StackOK`), the port of
  `ts_tree_cursor_goto_next_sibling` succeeds exactly when `laterSiblings` is non-empty and then
  shows its first element.  `laterSiblings` is the list of visible nodes that follow the current
  node inside its nearest visible ancestor: what follows it in its raw parent (`enumKids` of the
  remaining raw children), then what follows each hidden ancestor, stopping at a visible one.
* `later_siblings_split`, `cursor_next_sibling_index_spec` — under the structural-index invariant
  `IdxOK` (every entry's `si` = number of non-extra raw siblings before it; evaluated on every
  stack the port builds) the children of the nearest visible ancestor are
  `before ++ node :: laterSiblings`, i.e. goto_next_sibling = `siblings[idx + 1]?`.
* `cursor_node_agree_first`, `cursor_node_agree_next` — cursor walk = node API: goto_first_child
  reaches what `ts_node_child(node, 0)` returns, goto_next_sibling from child i of a visible parent
  what `ts_node_child(parent, i + 1)` returns (ports on both sides).
* `cursor_field_spec` — the port of `ts_tree_cursor_current_field_id` = `chainField (stackChain …)`,
  the stack-side construction of the `fields` chain `flattenKids` records (innermost level with a
  field wins; extras and the cursor's root have none).
* `gotoChild_preserves_inv`, `sibling_internal_preserves_inv`, `gotoNextSibling_preserves_inv` —
  `CursorInv` (root index 0; every entry is the child of the one below at its raw index, with the
  structural index `siAfter` and the descendant index `base + descBefore` of the forward iterator) is
  an invariant of goto_first_child / goto_last_child / goto_next_sibling; `cursorInv_idx`,
  `cursorInv_linked`: it implies the hypotheses `IdxOK` and the linkage of `StackOK`.
* `descendant_index_spec` — under `CursorInv` and the summaries, the reported descendant index =
  index of the entry below (+1 if that is a visible node) + number of visible nodes, counted by
  enumeration (`preCount`/`countDesc`), in the subtrees of the earlier raw siblings: the preorder
  position among the visible nodes of the cursor's root.
* `cursor_prev_sibling_spec` (with `iterPrev_some`, `prevIter_ok`, `prevScan_spec`, `prev_internal_spec`)
  — the backwards walk for the REPAIRED reverse iterator: under `CursorInv` the port of
  `goto_previous_sibling` succeeds iff `earlierSiblings` ≠ [] and shows its LAST element
  (`earlierSiblings` = what precedes the node in its raw parent, preceded by what precedes each
  hidden ancestor).
* `gotoPreviousSibling_preserves_inv` — the repaired goto_previous_sibling keeps `CursorInv`.
* `goto_descendant_spec` (with `gdScan_spec`, `vdc_eq_descBefore`, `gdDescend_spec`, `ascend_spec`) — on a
  cursor with the invariant whose root subtree contains the visible node number `goal`, the port of
  `ts_tree_cursor_goto_descendant(goal)` ends on a VISIBLE entry with descendant index `goal` and
  keeps the invariant (the descent picks, at each level, the first child whose cumulative visible
  count passes the goal; the cached `visible_descendant_count` is that total).
* `field_name_for_child_spec` (with `enumF`, `flattenKids_fields`, `fn_go_spec`) — the port of
  `ts_node_field_name_for_child` = `chainField` of the chain `flatten` records for that child, under
  `hiddenExtraOK` (hidden extras have no visible children; evaluated on every real tree).
  `child_by_field_id` stays OPEN: it follows the `inherited` entries of the field map, whose
  agreement with the hidden rule's own entries is a property of the generated TABLES, not of the
  runtime (judged on every node against the chains).
* supporting: `iterNext_some/none` (the forward iterator step in closed form), `firstGo_spec`,
  `scanSiblings_eq`, `enumKids_head`, `sibling_internal_spec`.

Together with `child_spec` these give: a walk by goto_first_child / goto_next_sibling visits the
children of a node in the order of `enumChildren`.  The position-based node.c searches
(`parent_spec_partial`, `child_with_descendant_spec_partial`, `next_sibling_spec_partial`,
`prev_sibling_spec_partial`) are in NodeProps.lean.
-/
open TsGen TsVerif TsVerif.C02 TsVerif.C06
namespace TsVerif.C06

/-- The first raw child (from a list of remaining children, with structural index `si`) that the
cursor would stop at: visible/aliased (`true`) or hidden with visible children (`false`). -/
def firstRel (lang : Lang) (pid : Nat) : List Tree → Nat → Option (Tree × Nat × Bool)
  | [], _ => none
  | c :: rest, si =>
    let vis := c.data.visible || (!c.data.extra && lang.aliasAt pid si != 0)
    if vis then some (c, si, true)
    else if vcc c > 0 then some (c, si, false)
    else firstRel lang pid rest (if c.data.extra then si else si + 1)

theorem drop_eq_cons {α : Type} (l : List α) (i : Nat) (c : α) (h : l[i]? = some c) : l.drop i = c :: l.drop (i + 1) := by
  induction l generalizing i with
  | nil => simp at h
  | cons x xs ih =>
    cases i with
    | zero => simp at h; simp [h]
    | succ j => simp at h; simpa using ih j h

theorem drop_eq_nil_of_none {α : Type} (l : List α) (i : Nat) (h : l[i]? = none) : l.drop i = [] := by
  simp at h
  exact List.drop_eq_nil_of_le h

/-- The iterator after `iterNext` stepped over child `c`. -/
def nextIter (lang : Lang) (it : Iter) (c : Tree) : Iter :=
  { it with
    pos := (match it.parent.kids[it.childIndex + 1]? with
            | some next => length_add (length_add it.pos c.data.size) next.data.padding
            | none => length_add it.pos c.data.size)
    childIndex := it.childIndex + 1
    si := if c.data.extra then it.si else it.si + 1
    descIdx := it.descIdx + vdc c +
      (if (c.data.visible || (!c.data.extra && lang.aliasAt it.parent.data.productionId it.si != 0)) then 1 else 0) }

def entryOf (it : Iter) (c : Tree) : Entry :=
  { t := c, id := slotId it.parent.data.addr it.parent.kids.length it.childIndex, pos := it.pos
    childIndex := it.childIndex, si := it.si, descIdx := it.descIdx }

def visOf (lang : Lang) (it : Iter) (c : Tree) : Bool :=
  c.data.visible || (!c.data.extra && lang.aliasAt it.parent.data.productionId it.si != 0)

theorem lt_of_getElem?_some {α : Type} (l : List α) (i : Nat) (c : α) (h : l[i]? = some c) : i < l.length := by
  cases Nat.lt_or_ge i l.length with
  | inl h1 => exact h1
  | inr h1 =>
    have : l[i]? = none := by simp; omega
    simp [this] at h

theorem iterNext_some (lang : Lang) (it : Iter) (c : Tree) (hv : it.valid = true)
    (hc : it.parent.kids[it.childIndex]? = some c) :
    iterNext lang it = some (entryOf it c, visOf lang it c, nextIter lang it c) := by
  have hlt := lt_of_getElem?_some _ _ _ hc
  have hne : (it.childIndex == it.parent.kids.length) = false := by
    simp only [beq_eq_false_iff_ne, ne_eq]; omega
  unfold iterNext
  simp only [hv, hne, hc, Bool.not_true, Bool.or_self, Bool.false_eq_true, if_false]
  cases hn : it.parent.kids[it.childIndex + 1]? <;> simp [entryOf, visOf, nextIter, hn, hv]

theorem iterNext_none (lang : Lang) (it : Iter) (hc : it.parent.kids[it.childIndex]? = none) :
    iterNext lang it = none := by
  unfold iterNext
  simp only [hc]
  split <;> rfl

/-- `firstChildInternal`'s scan is `firstRel` on the remaining children. -/
theorem firstGo_spec (lang : Lang) : ∀ (fuel : Nat) (it : Iter), it.valid = true →
    it.parent.kids.length - it.childIndex < fuel →
    ((firstChildInternal.go lang fuel it).2.map fun e => (e.t, e.si)) =
      ((firstRel lang it.parent.data.productionId (it.parent.kids.drop it.childIndex) it.si).map fun r => (r.1, r.2.1)) ∧
    ((firstChildInternal.go lang fuel it).1 =
      match firstRel lang it.parent.data.productionId (it.parent.kids.drop it.childIndex) it.si with
      | some (_, _, true) => Step.visible
      | some (_, _, false) => Step.hidden
      | none => Step.none)
  | 0, it, _, hf => by omega
  | fuel + 1, it, hv, hf => by
    unfold firstChildInternal.go
    cases hc : it.parent.kids[it.childIndex]? with
    | none =>
      rw [iterNext_none lang it hc, drop_eq_nil_of_none _ _ hc]
      simp [firstRel]
    | some c =>
      rw [iterNext_some lang it c hv hc, drop_eq_cons _ _ _ hc]
      have hlt := lt_of_getElem?_some _ _ _ hc
      simp only [firstRel]
      by_cases hvis : (c.data.visible || (!c.data.extra && lang.aliasAt it.parent.data.productionId it.si != 0)) = true
      · simp [visOf, hvis, entryOf]
      · have hvis' : (c.data.visible || (!c.data.extra && lang.aliasAt it.parent.data.productionId it.si != 0)) = false := by
          simpa using hvis
        simp only [visOf, hvis', Bool.false_eq_true, if_false, entryOf]
        by_cases hk : vcc c > 0
        · simp [hk]
        · simp only [hk, if_false]
          have ih := firstGo_spec lang fuel (nextIter lang it c) (by simp [nextIter, hv]) (by simp only [nextIter]; omega)
          simpa [nextIter] using ih

theorem firstRel_mem (lang : Lang) (pid : Nat) : ∀ (kids : List Tree) (si : Nat) (c : Tree) (si' : Nat) (b : Bool),
    firstRel lang pid kids si = some (c, si', b) → c ∈ kids
  | [], _, _, _, _, h => by simp [firstRel] at h
  | x :: rest, si, c, si', b, h => by
    unfold firstRel at h
    simp only at h
    split at h
    · simp only [Option.some.injEq, Prod.mk.injEq] at h; simp [h.1]
    · split at h
      · simp only [Option.some.injEq, Prod.mk.injEq] at h; simp [h.1]
      · exact List.mem_cons_of_mem _ (firstRel_mem lang pid rest _ c si' b h)

theorem summarized_of_mem (lang : Lang) : ∀ (kids : List Tree) (c : Tree), SummarizedL lang kids → c ∈ kids → Summarized lang c
  | [], _, _, h => by simp at h
  | x :: rest, c, hs, h => by
    unfold SummarizedL at hs
    simp only [List.mem_cons] at h
    rcases h with h | h
    · subst h; exact hs.1
    · exact summarized_of_mem lang rest c hs.2 h

theorem shapeOK_of_mem : ∀ (kids : List Tree) (ps : Option Nat) (c : Tree), shapeOKL ps kids = true → c ∈ kids → shapeOK ps c = true
  | [], _, _, _, h => by simp at h
  | x :: rest, ps, c, hs, h => by
    unfold shapeOKL at hs
    simp only [Bool.and_eq_true] at hs
    simp only [List.mem_cons] at h
    rcases h with h | h
    · subst h; exact hs.1
    · exact shapeOK_of_mem rest ps c hs.2 h

theorem sizeList_mem : ∀ (kids : List Tree) (c : Tree), c ∈ kids → c.size ≤ Tree.sizeList kids
  | [], _, h => by simp at h
  | x :: rest, c, h => by
    simp only [List.mem_cons] at h
    unfold Tree.sizeList
    rcases h with h | h
    · subst h; omega
    · have := sizeList_mem rest c h; omega

/-- Head of the enumeration of visible children in terms of `firstRel`. -/
theorem enumKids_head (lang : Lang) : ∀ (kids : List Tree) (pid si : Nat) (ps : Option Nat),
    SummarizedL lang kids → shapeOKL ps kids = true →
    (enumKids lang pid kids si).head? =
      match firstRel lang pid kids si with
      | none => none
      | some (c, si', true) => some (c, if c.data.extra then 0 else lang.aliasAt pid si')
      | some (c, _, false) => (enumChildren lang c).head?
  | [], _, _, _, _, _ => by simp [enumKids, firstRel]
  | c :: rest, pid, si, ps, hs, hsh => by
    unfold SummarizedL at hs
    unfold shapeOKL at hsh
    simp only [Bool.and_eq_true] at hsh
    unfold enumKids firstRel
    have hcond : (c.data.visible || (if c.data.extra then 0 else lang.aliasAt pid si) != 0) =
        (c.data.visible || (!c.data.extra && lang.aliasAt pid si != 0)) := by
      by_cases hx : c.data.extra = true <;> simp [hx]
    simp only [hcond]
    by_cases hvis : (c.data.visible || (!c.data.extra && lang.aliasAt pid si != 0)) = true
    · simp [hvis]
    · have hvis' : (c.data.visible || (!c.data.extra && lang.aliasAt pid si != 0)) = false := by simpa using hvis
      simp only [hvis', Bool.false_eq_true, if_false]
      have hcnt := (summarize_counts lang c ps hs.1 hsh.1).1
      by_cases hk : vcc c > 0
      · simp only [hk, if_true]
        have hne : enumChildren lang c ≠ [] := by
          intro h0
          rw [h0] at hcnt
          unfold vcc at hk
          split at hk
          · omega
          · simp at hcnt; omega
        cases hl : enumChildren lang c with
        | nil => exact absurd hl hne
        | cons a b => simp
      · simp only [hk, if_false]
        have hnil : enumChildren lang c = [] := by
          unfold vcc at hk
          split at hk
          · obtain ⟨cd, ck⟩ := c
            simp only [Tree.kids] at *
            have : ck = [] := by simpa using ‹ck.isEmpty = true›
            subst this
            simp [enumChildren, enumKids]
          · have : c.data.visibleChildCount = 0 := by omega
            rw [this] at hcnt
            exact List.eq_nil_of_length_eq_zero hcnt.symm
        rw [hnil, List.nil_append]
        exact enumKids_head lang rest pid _ ps hs.2 hsh.2

theorem firstRel_false_vcc (lang : Lang) (pid : Nat) : ∀ (kids : List Tree) (si : Nat) (c : Tree) (si' : Nat),
    firstRel lang pid kids si = some (c, si', false) → vcc c > 0
  | [], _, _, _, h => by simp [firstRel] at h
  | x :: rest, si, c, si', h => by
    unfold firstRel at h
    simp only at h
    split at h
    · simp at h
    · split at h
      · simp only [Option.some.injEq, Prod.mk.injEq] at h
        rw [← h.1]; assumption
      · exact firstRel_false_vcc lang pid rest _ c si' h

/-- The node the cursor shows: subtree of the top entry and the alias its parent entry gives it. -/
def topNode (lang : Lang) : List Entry → Option (Tree × Nat)
  | e :: p :: _ => some (e.t, if e.t.data.extra then 0 else lang.aliasAt p.t.data.productionId e.si)
  | _ => none


theorem tree_size_pos : ∀ t : Tree, t.size ≥ 1
  | .mk d kids => by unfold Tree.size; omega

theorem cursor_first_child_spec (lang : Lang) : ∀ (fuel : Nat) (top : Entry) (rest : List Entry) (ps : Option Nat),
    Summarized lang top.t → shapeOK ps top.t = true → top.t.size ≤ fuel →
    ((gotoChild lang false fuel (top :: rest)).1 = true →
        topNode lang (gotoChild lang false fuel (top :: rest)).2 = (enumChildren lang top.t).head?) ∧
    ((gotoChild lang false fuel (top :: rest)).1 = false → enumChildren lang top.t = [])
  | 0, top, _, _, _, _, hsz => by
    have := tree_size_pos top.t
    omega
  | fuel + 1, top, rest, ps, hs, hsh, hsz => by
    obtain ⟨t, id, pos, ci, si0, di⟩ := top
    obtain ⟨d, kids⟩ := t
    simp only at hs hsh hsz ⊢
    unfold Summarized at hs
    unfold shapeOK at hsh
    simp only [Bool.and_eq_true] at hsh
    unfold gotoChild
    simp only [Bool.false_eq_true, if_false]
    unfold firstChildInternal iterateChildren
    cases hk : kids with
    | nil =>
      simp [Tree.kids, firstChildInternal.go, iterNext, enumChildren, enumKids]
    | cons k0 krest =>
      have hkne : (Tree.mk d (k0 :: krest)).kids.isEmpty = false := by simp [Tree.kids]
      simp only [hkne, Bool.false_eq_true, if_false]
      rw [← hk]
      simp only [Tree.kids]
      -- the scan of the children
      have hgo := firstGo_spec lang (kids.length + 1)
        { valid := true, parent := Tree.mk d kids, pos := pos, childIndex := 0, si := 0
          descIdx := di + (if isEntryVisible lang { t := Tree.mk d kids, id := id, pos := pos, childIndex := ci, si := si0, descIdx := di } rest.head? then 1 else 0) }
        rfl (by simp [Tree.kids])
      simp only [Tree.kids, Tree.data, List.drop_zero] at hgo
      have hhead := enumKids_head lang kids d.productionId 0 (some d.symbol) hs.2.2 hsh.2
      unfold enumChildren
      generalize hr : firstChildInternal.go lang (kids.length + 1) _ = r at hgo
      obtain ⟨step, eo⟩ := r
      simp only at hgo
      cases hf : firstRel lang d.productionId kids 0 with
      | none =>
        rw [hf] at hgo hhead
        simp only [Option.map_none, Option.map_eq_none_iff] at hgo
        obtain ⟨h1, h2⟩ := hgo
        subst h1 h2
        simp only at hhead
        simp [List.head?_eq_none_iff.mp hhead]
      | some trip =>
        obtain ⟨c, si', b⟩ := trip
        rw [hf] at hgo hhead
        simp only [Option.map_some] at hgo
        obtain ⟨h1, h2⟩ := hgo
        cases eo with
        | none => simp at h1
        | some e =>
          simp only [Option.map_some, Option.some.injEq, Prod.mk.injEq] at h1
          cases b with
          | true =>
            simp only at h2 hhead
            subst h2
            simp only [topNode, Tree.data]
            rw [hhead, h1.1, h1.2]
            refine ⟨fun _ => rfl, fun h => ?_⟩
            simp at h
          | false =>
            simp only at h2 hhead
            subst h2
            have hmem := firstRel_mem lang d.productionId kids 0 c si' false hf
            have hsc := summarized_of_mem lang kids c hs.2.2 hmem
            have hshc := shapeOK_of_mem kids (some d.symbol) c hsh.2 hmem
            have hszc : e.t.size ≤ fuel := by
              rw [h1.1]
              have := sizeList_mem kids c hmem
              unfold Tree.size at hsz
              omega
            have ih := cursor_first_child_spec lang fuel e
              ({ t := Tree.mk d kids, id := id, pos := pos, childIndex := ci, si := si0, descIdx := di } :: rest)
              (some d.symbol) (by rw [h1.1]; exact hsc) (by rw [h1.1]; exact hshc) hszc
            rw [h1.1] at ih
            rw [hhead]
            refine ⟨ih.1, ?_⟩
            intro hfalse
            have hnil := ih.2 hfalse
            -- but the hidden child has visible children
            exfalso
            have hcnt := (summarize_counts lang c (some d.symbol) hsc hshc).1
            rw [hnil] at hcnt
            -- vcc c > 0 from firstRel
            have : vcc c > 0 := firstRel_false_vcc lang d.productionId kids 0 c si' hf
            unfold vcc at this
            split at this
            · omega
            · simp at hcnt; omega


/-- With the forward iterator, the sibling scan is the first-child scan. -/
theorem scanSiblings_eq (lang : Lang) : ∀ (fuel : Nat) (it : Iter),
    scanSiblings (iterNext lang) fuel it = firstChildInternal.go lang fuel it
  | 0, _ => by simp [scanSiblings, firstChildInternal.go]
  | fuel + 1, it => by
    unfold scanSiblings firstChildInternal.go
    cases h : iterNext lang it with
    | none => rfl
    | some r =>
      obtain ⟨e, vis, it'⟩ := r
      simp only
      split
      · rfl
      · split
        · rfl
        · exact scanSiblings_eq lang fuel it'

theorem summarizedL_drop (lang : Lang) : ∀ (kids : List Tree) (n : Nat), SummarizedL lang kids → SummarizedL lang (kids.drop n)
  | [], n, h => by simpa using h
  | x :: rest, 0, h => by simpa using h
  | x :: rest, n + 1, h => by
    unfold SummarizedL at h
    simpa using summarizedL_drop lang rest n h.2

theorem shapeOKL_drop : ∀ (kids : List Tree) (ps : Option Nat) (n : Nat), shapeOKL ps kids = true → shapeOKL ps (kids.drop n) = true
  | [], ps, n, h => by simpa using h
  | x :: rest, ps, 0, h => by simpa using h
  | x :: rest, ps, n + 1, h => by
    unfold shapeOKL at h
    simp only [Bool.and_eq_true] at h
    simpa using shapeOKL_drop rest ps n h.2

/-- Is the entry `e` (a child of the entry `p`) a visible node of the tree? -/
def visEntry (lang : Lang) (e p : Entry) : Bool :=
  e.t.data.visible || (!e.t.data.extra && lang.aliasAt p.t.data.productionId e.si != 0)

/-- Visible nodes that follow entry `e` among the raw children of its parent entry `p`. -/
def laterInParent (lang : Lang) (e p : Entry) : List (Tree × Nat) :=
  enumKids lang p.t.data.productionId (p.t.kids.drop (e.childIndex + 1)) (if e.t.data.extra then e.si else e.si + 1)

/-- The siblings that follow the cursor's node in the ordered tree: what follows it in its raw
parent, then — as long as the ancestors passed are hidden — what follows each of them. -/
def laterSiblings (lang : Lang) : Bool → List Entry → List (Tree × Nat)
  | first, e :: p :: rest =>
    if !first && visEntry lang e p then []
    else laterInParent lang e p ++ laterSiblings lang false (p :: rest)
  | _, _ => []

/-- What the theorems need of a cursor stack: every entry's subtree is summarized and
parser-shaped, and every entry is the child of the entry below it at its recorded index. -/
def StackOK (lang : Lang) : List Entry → Prop
  | [] => True
  | e :: rest =>
    Summarized lang e.t ∧ (∃ ps, shapeOK ps e.t = true) ∧
    (match rest with
     | p :: _ => p.t.kids[e.childIndex]? = some e.t
     | [] => True) ∧ StackOK lang rest


theorem head?_append_of_head? {α : Type} (a b : List α) (x : α) (h : a.head? = some x) : (a ++ b).head? = some x := by
  cases a with
  | nil => simp at h
  | cons y ys => simpa using h

theorem data_mk (d : NodeData) (k : List Tree) : (Tree.mk d k).data = d := rfl
theorem kids_mk (d : NodeData) (k : List Tree) : (Tree.mk d k).kids = k := rfl

theorem visOf_eq (lang : Lang) (it : Iter) (e p : Entry) (h1 : it.parent = p.t) (h2 : it.si = e.si) :
    visOf lang it e.t = visEntry lang e p := by
  simp [visOf, visEntry, h1, h2]

/-- What `gotoSiblingInternal` (forward) returns, against `laterSiblings`. -/
theorem sibling_internal_spec (lang : Lang) (initialSize : Nat) : ∀ (stack : List Entry) (first : Bool),
    StackOK lang stack → (first = true → stack.length = initialSize) → (first = false → stack.length < initialSize) →
    ((gotoSiblingInternal lang (iterNext lang) initialSize stack).1 = Step.visible →
        topNode lang (gotoSiblingInternal lang (iterNext lang) initialSize stack).2 = (laterSiblings lang first stack).head?) ∧
    ((gotoSiblingInternal lang (iterNext lang) initialSize stack).1 = Step.hidden →
        ∃ e st', (gotoSiblingInternal lang (iterNext lang) initialSize stack).2 = e :: st' ∧ vcc e.t > 0 ∧
          Summarized lang e.t ∧ (∃ ps, shapeOK ps e.t = true) ∧
          (enumChildren lang e.t).head? = (laterSiblings lang first stack).head?) ∧
    ((gotoSiblingInternal lang (iterNext lang) initialSize stack).1 = Step.none → laterSiblings lang first stack = [])
  | [], first, _, _, _ => by simp [gotoSiblingInternal, laterSiblings]
  | [e], first, _, _, _ => by simp [gotoSiblingInternal, laterSiblings]
  | entry :: parent :: rest, first, hok, hf1, hf2 => by
    unfold StackOK at hok
    obtain ⟨_, _, hchild, hokp⟩ := hok
    simp only at hchild
    have hokp' := hokp
    unfold StackOK at hokp'
    obtain ⟨hsp, ⟨psp, hshp⟩, _, _⟩ := hokp'
    obtain ⟨pt, pid_, ppos, pci, psi, pdi⟩ := parent
    obtain ⟨pd, pkids⟩ := pt
    simp only [Tree.kids] at hchild
    have hne : pkids.isEmpty = false := by
      cases pkids with
      | nil => simp at hchild
      | cons a b => rfl
    unfold Summarized at hsp
    unfold shapeOK at hshp
    simp only [Bool.and_eq_true] at hshp
    -- the iterator positioned on `entry`
    unfold gotoSiblingInternal
    simp only [iterateChildren, Tree.kids, hne, Bool.false_eq_true, if_false]
    rw [iterNext_some lang _ entry.t rfl (by simpa [Tree.kids] using hchild)]
    simp only [List.length_cons]
    rw [visOf_eq lang _ entry { t := Tree.mk pd pkids, id := pid_, pos := ppos, childIndex := pci, si := psi, descIdx := pdi } rfl rfl]
    by_cases hbreak : (visEntry lang entry { t := Tree.mk pd pkids, id := pid_, pos := ppos, childIndex := pci, si := psi, descIdx := pdi } &&
        decide (rest.length + 1 + 1 < initialSize)) = true
    · -- a visible ancestor ends the search
      simp only [hbreak, if_true]
      simp only [Bool.and_eq_true, decide_eq_true_eq] at hbreak
      have hfirst : first = false := by
        cases first with
        | false => rfl
        | true => have := hf1 rfl; simp only [List.length_cons] at this; omega
      refine ⟨fun h => by simp at h, fun h => by simp at h, fun _ => ?_⟩
      simp [laterSiblings, hfirst, hbreak.1]
    · simp only [hbreak, Bool.false_eq_true, if_false]
      have hnotstop : (!first && visEntry lang entry { t := Tree.mk pd pkids, id := pid_, pos := ppos, childIndex := pci, si := psi, descIdx := pdi }) = false := by
        cases first with
        | true => rfl
        | false =>
          have hl := hf2 rfl
          simp only [List.length_cons] at hl
          have hd : decide (rest.length + 1 + 1 < initialSize) = true := by simpa using hl
          simp only [hd, Bool.and_true] at hbreak
          simpa using hbreak
      -- the scan over the later raw siblings
      rw [scanSiblings_eq]
      have hgo := firstGo_spec lang (pkids.length + 2)
        (nextIter lang { valid := true, parent := Tree.mk pd pkids, pos := entry.pos, childIndex := entry.childIndex, si := entry.si, descIdx := entry.descIdx } entry.t)
        (by simp [nextIter]) (by simp only [nextIter, kids_mk]; omega)
      simp only [nextIter, kids_mk, data_mk] at hgo
      have hhead := enumKids_head lang (pkids.drop (entry.childIndex + 1)) pd.productionId
        (if entry.t.data.extra then entry.si else entry.si + 1) (some pd.symbol)
        (summarizedL_drop lang pkids _ hsp.2.2) (shapeOKL_drop pkids _ _ hshp.2)
      have hlater : laterSiblings lang first (entry :: { t := Tree.mk pd pkids, id := pid_, pos := ppos, childIndex := pci, si := psi, descIdx := pdi } :: rest) =
          enumKids lang pd.productionId (pkids.drop (entry.childIndex + 1)) (if entry.t.data.extra then entry.si else entry.si + 1) ++
            laterSiblings lang false ({ t := Tree.mk pd pkids, id := pid_, pos := ppos, childIndex := pci, si := psi, descIdx := pdi } :: rest) := by
        simp [laterSiblings, hnotstop, laterInParent, kids_mk, data_mk]
      rw [hlater]
      simp only [nextIter, kids_mk, data_mk]
      generalize hr : firstChildInternal.go lang (pkids.length + 2) _ = r at hgo
      obtain ⟨step, eo⟩ := r
      simp only at hgo
      cases hfr : firstRel lang pd.productionId (pkids.drop (entry.childIndex + 1)) (if entry.t.data.extra then entry.si else entry.si + 1) with
      | none =>
        rw [hfr] at hgo hhead
        simp only [Option.map_none, Option.map_eq_none_iff] at hgo
        obtain ⟨h1, h2⟩ := hgo
        subst h1 h2
        simp only at hhead
        rw [List.head?_eq_none_iff.mp hhead, List.nil_append]
        simp only
        exact sibling_internal_spec lang initialSize
          ({ t := Tree.mk pd pkids, id := pid_, pos := ppos, childIndex := pci, si := psi, descIdx := pdi } :: rest) false hokp
          (fun h => by simp at h)
          (fun _ => by
            cases first with
            | true => have := hf1 rfl; simp only [List.length_cons] at this ⊢; omega
            | false => have := hf2 rfl; simp only [List.length_cons] at this ⊢; omega)
      | some trip =>
        obtain ⟨c, si', b⟩ := trip
        rw [hfr] at hgo hhead
        simp only [Option.map_some] at hgo
        obtain ⟨h1, h2⟩ := hgo
        cases eo with
        | none => simp at h1
        | some e =>
          simp only [Option.map_some, Option.some.injEq, Prod.mk.injEq] at h1
          have hmem : c ∈ pkids := List.mem_of_mem_drop (firstRel_mem lang pd.productionId _ _ c si' b hfr)
          cases b with
          | true =>
            simp only at h2 hhead
            subst h2
            refine ⟨fun _ => ?_, fun h => by simp at h, fun h => by simp at h⟩
            simp only [topNode, data_mk]
            rw [head?_append_of_head? _ _ _ hhead, h1.1, h1.2]
          | false =>
            simp only at h2 hhead
            subst h2
            refine ⟨fun h => by simp at h, fun _ => ?_, fun h => by simp at h⟩
            refine ⟨e, _, rfl, ?_, ?_, ?_, ?_⟩
            · rw [h1.1]; exact firstRel_false_vcc lang pd.productionId _ _ c si' hfr
            · rw [h1.1]; exact summarized_of_mem lang pkids c hsp.2.2 hmem
            · rw [h1.1]; exact ⟨some pd.symbol, shapeOK_of_mem pkids _ c hshp.2 hmem⟩
            · rw [h1.1]
              have hvc := firstRel_false_vcc lang pd.productionId _ _ c si' hfr
              have hcnt := (summarize_counts lang c (some pd.symbol) (summarized_of_mem lang pkids c hsp.2.2 hmem)
                (shapeOK_of_mem pkids _ c hshp.2 hmem)).1
              cases hl : enumChildren lang c with
              | nil =>
                rw [hl] at hcnt
                unfold vcc at hvc
                split at hvc
                · omega
                · simp at hcnt; omega
              | cons a bs =>
                rw [hl] at hhead
                simp only [List.head?_cons] at hhead ⊢
                rw [head?_append_of_head? _ _ _ hhead]


/-- `cursor_next_sibling_spec`: for every cursor whose stack is well formed over summarized
parser-shaped subtrees, the port of `ts_tree_cursor_goto_next_sibling` succeeds exactly when a
later sibling exists in the ordered tree (`laterSiblings`: what follows the node in its raw
parent, then what follows each hidden ancestor), and then shows exactly the first of them. -/
theorem cursor_next_sibling_spec (lang : Lang) (c : Cursor) (hok : StackOK lang c.stack) :
    ((gotoNextSibling lang c).1 = true →
        topNode lang (gotoNextSibling lang c).2.stack = (laterSiblings lang true c.stack).head?) ∧
    ((gotoNextSibling lang c).1 = false → laterSiblings lang true c.stack = []) := by
  have h := sibling_internal_spec lang c.stack.length c.stack true hok (fun _ => rfl) (fun h => by simp at h)
  unfold gotoNextSibling
  generalize hr : gotoSiblingInternal lang (iterNext lang) c.stack.length c.stack = r at h
  obtain ⟨step, st⟩ := r
  simp only at h
  cases step with
  | visible =>
    simp only
    exact ⟨fun _ => h.1 rfl, fun hf => by simp at hf⟩
  | none =>
    simp only
    exact ⟨fun hf => by simp at hf, fun _ => h.2.2 rfl⟩
  | hidden =>
    simp only
    obtain ⟨e, st', hst, hv, hs, ⟨ps, hsh⟩, hhead⟩ := h.2.1 rfl
    subst hst
    have hfc := cursor_first_child_spec lang (topSize (e :: st')) e st' ps hs hsh (by simp [topSize])
    have hne : enumChildren lang e.t ≠ [] := by
      intro h0
      have hcnt := (summarize_counts lang e.t ps hs hsh).1
      rw [h0] at hcnt
      unfold vcc at hv
      split at hv
      · omega
      · simp at hcnt; omega
    have hok1 : (gotoChild lang false (topSize (e :: st')) (e :: st')).1 = true := by
      cases hb : (gotoChild lang false (topSize (e :: st')) (e :: st')).1 with
      | true => rfl
      | false => exact absurd (hfc.2 hb) hne
    refine ⟨fun _ => ?_, fun hf => by simp at hf⟩
    rw [hfc.1 hok1, hhead]

end TsVerif.C06

namespace TsVerif.C06

theorem enumKids_append (lang : Lang) (pid : Nat) : ∀ (a b : List Tree) (si : Nat),
    enumKids lang pid (a ++ b) si = enumKids lang pid a si ++ enumKids lang pid b (siAfter a si)
  | [], b, si => by simp [enumKids, siAfter]
  | c :: a, b, si => by
    simp only [List.cons_append, enumKids, siAfter]
    rw [enumKids_append lang pid a b, List.append_assoc]

/-- What entry `e` (child of entry `p`) contributes to the enumeration of `p`'s visible children:
itself when visible or aliased, otherwise its own visible children. -/
def contrib (lang : Lang) (e p : Entry) : List (Tree × Nat) :=
  if e.t.data.visible || (if e.t.data.extra then 0 else lang.aliasAt p.t.data.productionId e.si) != 0
  then [(e.t, (if e.t.data.extra then 0 else lang.aliasAt p.t.data.productionId e.si))] else enumChildren lang e.t

theorem visEntry_eq (lang : Lang) (e p : Entry) :
    visEntry lang e p = (e.t.data.visible || (if e.t.data.extra then 0 else lang.aliasAt p.t.data.productionId e.si) != 0) := by
  unfold visEntry
  by_cases hx : e.t.data.extra = true <;> simp [hx]

/-- The structural-index invariant of a cursor stack: every entry records the number of non-extra
raw siblings before it. -/
def IdxOK : List Entry → Prop
  | e :: p :: rest => e.si = siAfter (p.t.kids.take e.childIndex) 0 ∧ IdxOK (p :: rest)
  | _ => True

/-- One level: the enumeration of `p`'s children splits around the entry `e`. -/
theorem enum_split_level (lang : Lang) (e p : Entry)
    (hchild : p.t.kids[e.childIndex]? = some e.t) (hsi : e.si = siAfter (p.t.kids.take e.childIndex) 0) :
    enumChildren lang p.t =
      enumKids lang p.t.data.productionId (p.t.kids.take e.childIndex) 0 ++ contrib lang e p ++ laterInParent lang e p := by
  cases hp : p.t with
  | mk pd pkids =>
  rw [hp] at hchild hsi
  simp only [kids_mk, data_mk] at hchild hsi ⊢
  unfold enumChildren
  have hsplit : pkids = pkids.take e.childIndex ++ e.t :: pkids.drop (e.childIndex + 1) := by
    rw [← drop_eq_cons _ _ _ hchild, List.take_append_drop]
  conv => lhs; rw [hsplit]
  rw [enumKids_append, ← hsi]
  unfold laterInParent contrib
  simp only [hp, kids_mk, data_mk]
  conv => lhs; rw [enumKids]
  simp only [List.append_assoc]

/-- The enumeration of the children of the nearest visible ancestor (the bottom entry counts as
visible: it is the cursor's root). -/
def ancEnum (lang : Lang) : List Entry → List (Tree × Nat)
  | [] => []
  | [p] => enumChildren lang p.t
  | p :: p' :: rest => if visEntry lang p p' then enumChildren lang p.t else ancEnum lang (p' :: rest)

/-- `later_siblings_split`: for a well-linked stack with the structural-index invariant, the
enumeration of the children of the nearest visible ancestor is
`before ++ (what the current entry contributes) ++ laterSiblings`. -/
theorem later_siblings_split (lang : Lang) : ∀ (rest : List Entry) (e p : Entry),
    StackOK lang (e :: p :: rest) → IdxOK (e :: p :: rest) →
    ∃ before, ancEnum lang (p :: rest) = before ++ contrib lang e p ++ laterSiblings lang true (e :: p :: rest)
  | [], e, p, hok, hidx => by
    unfold StackOK at hok
    unfold IdxOK at hidx
    refine ⟨enumKids lang p.t.data.productionId (p.t.kids.take e.childIndex) 0, ?_⟩
    simp only [ancEnum, laterSiblings, Bool.not_true, Bool.false_and, Bool.false_eq_true, if_false, List.append_nil]
    exact enum_split_level lang e p hok.2.2.1 hidx.1
  | p' :: rest, e, p, hok, hidx => by
    have hok' := hok
    unfold StackOK at hok'
    have hidx' := hidx
    unfold IdxOK at hidx'
    have hlevel := enum_split_level lang e p hok'.2.2.1 hidx'.1
    obtain ⟨before', hb⟩ := later_siblings_split lang rest p p' hok'.2.2.2 hidx'.2
    by_cases hv : visEntry lang p p' = true
    · refine ⟨enumKids lang p.t.data.productionId (p.t.kids.take e.childIndex) 0, ?_⟩
      simp only [ancEnum, hv, if_true, laterSiblings, Bool.not_true, Bool.false_and, Bool.false_eq_true, if_false,
        Bool.not_false, Bool.true_and, List.append_nil]
      exact hlevel
    · have hv' : visEntry lang p p' = false := by simpa using hv
      have hcp : contrib lang p p' = enumChildren lang p.t := by
        unfold contrib
        rw [← visEntry_eq, hv']
        simp
      refine ⟨before' ++ enumKids lang p.t.data.productionId (p.t.kids.take e.childIndex) 0, ?_⟩
      have hl : laterSiblings lang true (e :: p :: p' :: rest) =
          laterInParent lang e p ++ laterSiblings lang true (p :: p' :: rest) := by
        simp [laterSiblings, hv']
      rw [hl]
      simp only [ancEnum, hv', Bool.false_eq_true, if_false]
      rw [hb, hcp, hlevel]
      simp only [List.append_assoc]

/-- `cursor_next_sibling_index_spec` — "nextSibling n = (siblingsOf n)[idx n + 1]?": when the cursor
shows a visible node, the children of its nearest visible ancestor are
`before ++ node :: laterSiblings`, so `goto_next_sibling` moves to the element with index
`before.length + 1` of the sibling list and fails exactly when there is none. -/
theorem cursor_next_sibling_index_spec (lang : Lang) (c : Cursor) (e p : Entry) (rest : List Entry)
    (hst : c.stack = e :: p :: rest) (hok : StackOK lang c.stack) (hidx : IdxOK c.stack)
    (hvis : visEntry lang e p = true) :
    ∃ before,
      ancEnum lang (p :: rest) =
        before ++ (e.t, (if e.t.data.extra then 0 else lang.aliasAt p.t.data.productionId e.si)) :: laterSiblings lang true c.stack ∧
      ((gotoNextSibling lang c).1 = true →
        topNode lang (gotoNextSibling lang c).2.stack = (ancEnum lang (p :: rest))[before.length + 1]?) ∧
      ((gotoNextSibling lang c).1 = false → (ancEnum lang (p :: rest))[before.length + 1]? = none) := by
  rw [hst] at hok hidx
  obtain ⟨before, hb⟩ := later_siblings_split lang rest e p hok hidx
  have hc : contrib lang e p = [(e.t, (if e.t.data.extra then 0 else lang.aliasAt p.t.data.productionId e.si))] := by
    unfold contrib
    rw [← visEntry_eq, hvis]
    simp
  rw [hc] at hb
  have hspec := cursor_next_sibling_spec lang c (by rw [hst]; exact hok)
  refine ⟨before, by rw [hb, hst]; simp, ?_, ?_⟩
  · intro h
    rw [hspec.1 h, hb, ← hst]
    simp [List.getElem?_append_right, List.head?_eq_getElem?]
  · intro h
    rw [hb, ← hst, hspec.2 h]
    simp [List.getElem?_append_right]

end TsVerif.C06

namespace TsVerif.C06

/-- `cursor_node_agree_first`: `goto_first_child` of a cursor and `ts_node_child(node, 0)` reach the
same (subtree, alias), for every summarized parser-shaped subtree. -/
theorem cursor_node_agree_first (lang : Lang) (top : Entry) (rest : List Entry) (ps : Option Nat)
    (hs : Summarized lang top.t) (hsh : shapeOK ps top.t = true) :
    (if (gotoChild lang false (topSize (top :: rest)) (top :: rest)).1
      then topNode lang (gotoChild lang false (topSize (top :: rest)) (top :: rest)).2 else none) =
    (nodeChild lang true top.t top.pos 0).map (fun r => (r.t, r.alias)) := by
  have hc := cursor_first_child_spec lang (topSize (top :: rest)) top rest ps hs hsh (by simp [topSize])
  rw [child_spec lang top.t ps top.pos 0 hs hsh]
  cases hb : (gotoChild lang false (topSize (top :: rest)) (top :: rest)).1 with
  | true => simp only [if_true]; rw [hc.1 hb]; simp [List.head?_eq_getElem?]
  | false => simp [hc.2 hb]

/-- `cursor_node_agree_next`: when the cursor shows the child with index `before.length` of a
VISIBLE parent entry (or of the cursor's root), `goto_next_sibling` reaches the same
(subtree, alias) as `ts_node_child(parent, before.length + 1)`. -/
theorem cursor_node_agree_next (lang : Lang) (c : Cursor) (e p : Entry) (rest : List Entry) (ps : Option Nat)
    (hst : c.stack = e :: p :: rest) (hok : StackOK lang c.stack) (hidx : IdxOK c.stack)
    (hvis : visEntry lang e p = true)
    (hpv : match rest with | p' :: _ => visEntry lang p p' = true | [] => True)
    (hsh : shapeOK ps p.t = true) :
    ∃ i, (enumChildren lang p.t)[i]? = some (e.t, (if e.t.data.extra then 0 else lang.aliasAt p.t.data.productionId e.si)) ∧
      (if (gotoNextSibling lang c).1 then topNode lang (gotoNextSibling lang c).2.stack else none) =
        (nodeChild lang true p.t p.pos (i + 1)).map (fun r => (r.t, r.alias)) := by
  obtain ⟨before, hb, h1, h2⟩ := cursor_next_sibling_index_spec lang c e p rest hst hok hidx hvis
  have hanc : ancEnum lang (p :: rest) = enumChildren lang p.t := by
    cases rest with
    | nil => rfl
    | cons p' r => simp only [ancEnum]; simp only at hpv; simp [hpv]
  have hsp : Summarized lang p.t := by
    rw [hst] at hok
    unfold StackOK at hok
    have := hok.2.2.2
    unfold StackOK at this
    exact this.1
  refine ⟨before.length, ?_, ?_⟩
  · rw [← hanc, hb]; simp
  · rw [child_spec lang p.t ps p.pos (before.length + 1) hsp hsh, ← hanc]
    cases hbn : (gotoNextSibling lang c).1 with
    | true => simp only [if_true]; exact h1 hbn
    | false => simp only [Bool.false_eq_true, if_false]; exact (h2 hbn).symm


/-- The field chain of the cursor's node, built from the stack exactly as `flattenKids` builds the
`fields` of a node of `flatten`: the node's own structural slot, then the slots of its hidden
ancestors up to (excluding) the nearest visible one; an extra entry cuts the chain. -/
def stackChain (lang : Lang) : List Entry → List (List Nat)
  | e :: p :: rest =>
    if e.t.data.extra then []
    else directFields lang p.t.data.productionId e.si ::
      (match rest with
       | p' :: _ => if visEntry lang p p' then [] else stackChain lang (p :: rest)
       | [] => [])
  | _ => []

theorem isEntryVisible_eq (lang : Lang) (e p : Entry) : isEntryVisible lang e (some p) = visEntry lang e p := by
  unfold isEntryVisible visEntry
  by_cases hv : e.t.data.visible = true <;> by_cases hx : e.t.data.extra = true <;> simp [hv, hx]

theorem find_eq_head_filter {α : Type} (q : α → Bool) : ∀ l : List α, l.find? q = (l.filter q).head?
  | [] => rfl
  | x :: xs => by
    by_cases h : q x = true
    · rw [List.find?_cons_of_pos (h := h), List.filter_cons_of_pos h]; rfl
    · rw [List.find?_cons_of_neg (h := h), List.filter_cons_of_neg h]; exact find_eq_head_filter q xs

theorem currentFieldId_go_spec (lang : Lang) : ∀ (stack : List Entry) (isTop : Bool),
    currentFieldId.go lang isTop stack =
      match stack with
      | e :: p :: _ => if !isTop && visEntry lang e p then 0 else (chainField (stackChain lang stack)).getD 0
      | _ => 0
  | [], _ => by simp [currentFieldId.go]
  | [_], _ => by simp [currentFieldId.go]
  | e :: p :: rest, isTop => by
    unfold currentFieldId.go
    rw [isEntryVisible_eq]
    by_cases hstop : (!isTop && visEntry lang e p) = true
    · simp [hstop]
    · have hstop' : (!isTop && visEntry lang e p) = false := by simpa using hstop
      simp only [hstop', Bool.false_eq_true, if_false]
      by_cases hx : e.t.data.extra = true
      · simp [hx, stackChain, chainField]
      · have hx' : e.t.data.extra = false := by simpa using hx
        simp only [hx', Bool.false_eq_true, if_false]
        rw [find_eq_head_filter]
        unfold stackChain
        simp only [hx', Bool.false_eq_true, if_false]
        rw [chainField_cons]
        unfold directFields
        cases hf : ((lang.fieldMap p.t.data.productionId).toList.filter fun m => !m.inherited && m.childIndex == e.si) with
        | cons m ms => simp [firstSome]
        | nil =>
          simp only [List.head?_nil, List.map_nil, firstSome]
          rw [currentFieldId_go_spec lang (p :: rest) false]
          cases rest with
          | nil => simp [chainField]
          | cons p' r =>
            simp only [Bool.not_false, Bool.true_and]
            by_cases hv : visEntry lang p p' = true
            · simp [hv, chainField]
            · have hv' : visEntry lang p p' = false := by simpa using hv
              simp [hv']

/-- `cursor_field_spec`: the port of `ts_tree_cursor_current_field_id` returns the field that the
field chain of the node shows (`chainField`, the function `FT.fieldOf`/`render` use on `flatten`):
the first field of the innermost level that has one; none for extras and for the cursor's root. -/
theorem cursor_field_spec (lang : Lang) (c : Cursor) :
    currentFieldId lang c = (chainField (stackChain lang c.stack)).getD 0 := by
  unfold currentFieldId
  rw [currentFieldId_go_spec]
  cases hs : c.stack with
  | nil => simp [stackChain, chainField]
  | cons e r =>
    cases r with
    | nil => simp [stackChain, chainField]
    | cons p rest => simp

end TsVerif.C06

namespace TsVerif.C06

/-- The LAST raw child (of the remaining ones) the cursor would stop at. -/
def lastRel (lang : Lang) (pid : Nat) : List Tree → Nat → Option (Tree × Nat × Bool)
  | [], _ => none
  | c :: rest, si =>
    match lastRel lang pid rest (if c.data.extra then si else si + 1) with
    | some r => some r
    | none =>
      if c.data.visible || (!c.data.extra && lang.aliasAt pid si != 0) then some (c, si, true)
      else if vcc c > 0 then some (c, si, false)
      else none

def bestOf : Step × Option Entry → Option (Tree × Nat × Bool)
  | (.visible, some e) => some (e.t, e.si, true)
  | (.hidden, some e) => some (e.t, e.si, false)
  | _ => none

theorem nextIter_parent (lang : Lang) (it : Iter) (c : Tree) : (nextIter lang it c).parent = it.parent := rfl
theorem nextIter_childIndex (lang : Lang) (it : Iter) (c : Tree) : (nextIter lang it c).childIndex = it.childIndex + 1 := rfl
theorem nextIter_si (lang : Lang) (it : Iter) (c : Tree) : (nextIter lang it c).si = (if c.data.extra then it.si else it.si + 1) := rfl

/-- `lastChildInternal`'s scan: the last stop among the remaining children, else what it had. -/
theorem lastGo_spec (lang : Lang) : ∀ (fuel : Nat) (it : Iter) (best : Step × Option Entry), it.valid = true →
    it.parent.kids.length - it.childIndex < fuel →
    bestOf (lastChildInternal.go lang fuel it best) =
      (match lastRel lang it.parent.data.productionId (it.parent.kids.drop it.childIndex) it.si with
       | some r => some r
       | none => bestOf best)
  | 0, it, _, _, hf => by omega
  | fuel + 1, it, best, hv, hf => by
    unfold lastChildInternal.go
    cases hc : it.parent.kids[it.childIndex]? with
    | none =>
      rw [iterNext_none lang it hc, drop_eq_nil_of_none _ _ hc]
      simp [lastRel]
    | some c =>
      rw [iterNext_some lang it c hv hc, drop_eq_cons _ _ _ hc]
      have hlt := lt_of_getElem?_some _ _ _ hc
      simp only [lastRel]
      have ih := fun b => lastGo_spec lang fuel (nextIter lang it c) b (by simp [nextIter, hv]) (by simp only [nextIter]; omega)
      simp only [nextIter_parent, nextIter_childIndex, nextIter_si] at ih
      by_cases hvis : (c.data.visible || (!c.data.extra && lang.aliasAt it.parent.data.productionId it.si != 0)) = true
      · simp only [visOf, hvis, if_true, entryOf]
        rw [ih]
        cases lastRel lang it.parent.data.productionId (it.parent.kids.drop (it.childIndex + 1)) (if c.data.extra then it.si else it.si + 1) <;> simp [bestOf]
      · have hvis' : (c.data.visible || (!c.data.extra && lang.aliasAt it.parent.data.productionId it.si != 0)) = false := by simpa using hvis
        simp only [visOf, hvis', Bool.false_eq_true, if_false, entryOf]
        by_cases hk : vcc c > 0
        · simp only [hk, if_true]
          rw [ih]
          cases lastRel lang it.parent.data.productionId (it.parent.kids.drop (it.childIndex + 1)) (if c.data.extra then it.si else it.si + 1) <;> simp [bestOf]
        · simp only [hk, if_false]
          rw [ih]
          cases lastRel lang it.parent.data.productionId (it.parent.kids.drop (it.childIndex + 1)) (if c.data.extra then it.si else it.si + 1) <;> simp


theorem lastRel_mem (lang : Lang) (pid : Nat) : ∀ (kids : List Tree) (si : Nat) (c : Tree) (si' : Nat) (b : Bool),
    lastRel lang pid kids si = some (c, si', b) → c ∈ kids
  | [], _, _, _, _, h => by simp [lastRel] at h
  | x :: rest, si, c, si', b, h => by
    unfold lastRel at h
    cases hr : lastRel lang pid rest (if x.data.extra then si else si + 1) with
    | some r =>
      rw [hr] at h
      simp only [Option.some.injEq] at h
      subst h
      exact List.mem_cons_of_mem _ (lastRel_mem lang pid rest _ c si' b hr)
    | none =>
      rw [hr] at h
      simp only at h
      split at h
      · simp only [Option.some.injEq, Prod.mk.injEq] at h; simp [h.1]
      · split at h
        · simp only [Option.some.injEq, Prod.mk.injEq] at h; simp [h.1]
        · simp at h

theorem lastRel_false_vcc (lang : Lang) (pid : Nat) : ∀ (kids : List Tree) (si : Nat) (c : Tree) (si' : Nat),
    lastRel lang pid kids si = some (c, si', false) → vcc c > 0
  | [], _, _, _, h => by simp [lastRel] at h
  | x :: rest, si, c, si', h => by
    unfold lastRel at h
    cases hr : lastRel lang pid rest (if x.data.extra then si else si + 1) with
    | some r =>
      rw [hr] at h
      simp only [Option.some.injEq] at h
      subst h
      exact lastRel_false_vcc lang pid rest _ c si' hr
    | none =>
      rw [hr] at h
      simp only at h
      split at h
      · simp at h
      · split at h
        · simp only [Option.some.injEq, Prod.mk.injEq] at h
          rw [← h.1]; assumption
        · simp at h

theorem getLast?_append_of_some {α : Type} (a b : List α) (x : α) (h : b.getLast? = some x) : (a ++ b).getLast? = some x := by
  cases b with
  | nil => simp at h
  | cons y ys => rw [List.getLast?_append]; simp [h]

/-- Last element of the enumeration of visible children in terms of `lastRel`. -/
theorem enumKids_last (lang : Lang) : ∀ (kids : List Tree) (pid si : Nat) (ps : Option Nat),
    SummarizedL lang kids → shapeOKL ps kids = true →
    (enumKids lang pid kids si).getLast? =
      match lastRel lang pid kids si with
      | none => none
      | some (c, si', true) => some (c, if c.data.extra then 0 else lang.aliasAt pid si')
      | some (c, _, false) => (enumChildren lang c).getLast?
  | [], _, _, _, _, _ => by simp [enumKids, lastRel]
  | c :: rest, pid, si, ps, hs, hsh => by
    unfold SummarizedL at hs
    unfold shapeOKL at hsh
    simp only [Bool.and_eq_true] at hsh
    have ih := enumKids_last lang rest pid (if c.data.extra then si else si + 1) ps hs.2 hsh.2
    unfold enumKids lastRel
    have hcond : (c.data.visible || (if c.data.extra then 0 else lang.aliasAt pid si) != 0) =
        (c.data.visible || (!c.data.extra && lang.aliasAt pid si != 0)) := by
      by_cases hx : c.data.extra = true <;> simp [hx]
    simp only [hcond]
    cases hr : lastRel lang pid rest (if c.data.extra then si else si + 1) with
    | some r =>
      rw [hr] at ih
      obtain ⟨c', si', b⟩ := r
      simp only
      cases b with
      | true =>
        simp only at ih ⊢
        exact getLast?_append_of_some _ _ _ ih
      | false =>
        simp only at ih ⊢
        have hv := lastRel_false_vcc lang pid rest _ c' si' hr
        have hm := lastRel_mem lang pid rest _ c' si' false hr
        have hcnt := (summarize_counts lang c' ps (summarized_of_mem lang rest c' hs.2 hm) (shapeOK_of_mem rest ps c' hsh.2 hm)).1
        cases hl : (enumChildren lang c').getLast? with
        | none =>
          have : enumChildren lang c' = [] := List.getLast?_eq_none_iff.mp hl
          rw [this] at hcnt
          unfold vcc at hv
          split at hv
          · omega
          · simp at hcnt; omega
        | some x =>
          rw [hl] at ih
          exact getLast?_append_of_some _ _ _ ih
    | none =>
      rw [hr] at ih
      simp only at ih ⊢
      have hnil : enumKids lang pid rest (if c.data.extra then si else si + 1) = [] := List.getLast?_eq_none_iff.mp ih
      rw [hnil, List.append_nil]
      by_cases hvis : (c.data.visible || (!c.data.extra && lang.aliasAt pid si != 0)) = true
      · simp [hvis]
      · have hvis' : (c.data.visible || (!c.data.extra && lang.aliasAt pid si != 0)) = false := by simpa using hvis
        simp only [hvis', Bool.false_eq_true, if_false]
        have hcnt := (summarize_counts lang c ps hs.1 hsh.1).1
        by_cases hk : vcc c > 0
        · simp [hk]
        · simp only [hk, if_false]
          have hnil2 : enumChildren lang c = [] := by
            unfold vcc at hk
            split at hk
            · obtain ⟨cd, ck⟩ := c
              simp only [Tree.kids] at *
              have : ck = [] := by simpa using ‹ck.isEmpty = true›
              subst this
              simp [enumChildren, enumKids]
            · have : c.data.visibleChildCount = 0 := by omega
              rw [this] at hcnt
              exact List.eq_nil_of_length_eq_zero hcnt.symm
          simp [hnil2]


theorem bestOf_some (step : Step) (eo : Option Entry) (c : Tree) (si : Nat) (b : Bool)
    (h : bestOf (step, eo) = some (c, si, b)) :
    ∃ e, eo = some e ∧ e.t = c ∧ e.si = si ∧ step = (if b then Step.visible else Step.hidden) := by
  cases step <;> cases eo <;> simp only [bestOf] at h <;> try (cases h)
  · exact ⟨_, rfl, rfl, rfl, rfl⟩
  · exact ⟨_, rfl, rfl, rfl, rfl⟩

/-- `cursor_last_child_spec`: the port of `ts_tree_cursor_goto_last_child` succeeds exactly when the
node has a visible child and then shows the LAST element of `enumChildren`. -/
theorem cursor_last_child_spec (lang : Lang) : ∀ (fuel : Nat) (top : Entry) (rest : List Entry) (ps : Option Nat),
    Summarized lang top.t → shapeOK ps top.t = true → top.t.size ≤ fuel →
    ((gotoChild lang true fuel (top :: rest)).1 = true →
        topNode lang (gotoChild lang true fuel (top :: rest)).2 = (enumChildren lang top.t).getLast?) ∧
    ((gotoChild lang true fuel (top :: rest)).1 = false → enumChildren lang top.t = [])
  | 0, top, _, _, _, _, hsz => by
    have := tree_size_pos top.t
    omega
  | fuel + 1, top, rest, ps, hs, hsh, hsz => by
    obtain ⟨t, id, pos, ci, si0, di⟩ := top
    obtain ⟨d, kids⟩ := t
    simp only at hs hsh hsz ⊢
    unfold Summarized at hs
    unfold shapeOK at hsh
    simp only [Bool.and_eq_true] at hsh
    unfold gotoChild
    simp only [if_true]
    unfold lastChildInternal iterateChildren
    cases hk : kids with
    | nil =>
      simp [kids_mk, lastChildInternal.go, iterNext, enumChildren, enumKids]
    | cons k0 krest =>
      have hkne : (Tree.mk d (k0 :: krest)).kids.isEmpty = false := by simp [kids_mk]
      simp only [hkne, Bool.false_eq_true, if_false]
      rw [← hk]
      simp only [kids_mk]
      have hgo := lastGo_spec lang (kids.length + 1)
        { valid := true, parent := Tree.mk d kids, pos := pos, childIndex := 0, si := 0
          descIdx := di + (if isEntryVisible lang { t := Tree.mk d kids, id := id, pos := pos, childIndex := ci, si := si0, descIdx := di } rest.head? then 1 else 0) }
        (Step.none, none) rfl (by simp [kids_mk])
      simp only [kids_mk, data_mk, List.drop_zero, bestOf] at hgo
      have hlast := enumKids_last lang kids d.productionId 0 (some d.symbol) hs.2.2 hsh.2
      unfold enumChildren
      generalize hr : lastChildInternal.go lang (kids.length + 1) _ _ = r at hgo
      obtain ⟨step, eo⟩ := r
      cases hf : lastRel lang d.productionId kids 0 with
      | none =>
        rw [hf] at hgo hlast
        simp only at hgo hlast
        have hnil := List.getLast?_eq_none_iff.mp hlast
        cases step <;> cases eo <;> simp [bestOf] at hgo <;> simp [hnil]
      | some trip =>
        obtain ⟨c, si', b⟩ := trip
        rw [hf] at hgo hlast
        simp only at hgo
        obtain ⟨e, heo, h1, h2, hstep⟩ := bestOf_some step eo c si' b hgo
        subst heo
        cases b with
        | false =>
          simp only [Bool.false_eq_true, if_false] at hstep
          subst hstep
          simp only at hlast ⊢
          have hmem := lastRel_mem lang d.productionId kids 0 c si' false hf
          have hsc := summarized_of_mem lang kids c hs.2.2 hmem
          have hshc := shapeOK_of_mem kids (some d.symbol) c hsh.2 hmem
          have hszc : e.t.size ≤ fuel := by
            rw [h1]
            have := sizeList_mem kids c hmem
            unfold Tree.size at hsz
            omega
          have ih := cursor_last_child_spec lang fuel e
            ({ t := Tree.mk d kids, id := id, pos := pos, childIndex := ci, si := si0, descIdx := di } :: rest)
            (some d.symbol) (by rw [h1]; exact hsc) (by rw [h1]; exact hshc) hszc
          rw [h1] at ih
          rw [hlast]
          refine ⟨ih.1, ?_⟩
          intro hfalse
          have hnil := ih.2 hfalse
          exfalso
          have hcnt := (summarize_counts lang c (some d.symbol) hsc hshc).1
          rw [hnil] at hcnt
          have : vcc c > 0 := lastRel_false_vcc lang d.productionId kids 0 c si' hf
          unfold vcc at this
          split at this
          · omega
          · simp at hcnt; omega
        | true =>
          simp only [if_true] at hstep
          subst hstep
          simp only at hlast ⊢
          simp only [topNode, data_mk]
          rw [hlast, h1, h2]
          refine ⟨fun _ => rfl, fun h => ?_⟩
          simp at h

end TsVerif.C06

namespace TsVerif.C06

/-- Visible nodes contained in the raw children `kids` (each child's visible descendants, plus the
child itself when visible or aliased), structural index threaded from `si`: what
`ts_tree_cursor_child_iterator_next` adds to `descendant_index` while passing them. -/
def descBefore (lang : Lang) (pid : Nat) : List Tree → Nat → Nat
  | [], _ => 0
  | c :: rest, si =>
    (vdc c + (if (c.data.visible || (!c.data.extra && lang.aliasAt pid si != 0)) then 1 else 0)) +
      descBefore lang pid rest (if c.data.extra then si else si + 1)

theorem siAfter_append : ∀ (a b : List Tree) (si : Nat), siAfter (a ++ b) si = siAfter b (siAfter a si)
  | [], _, _ => rfl
  | c :: a, b, si => by simp only [List.cons_append, siAfter]; exact siAfter_append a b _

theorem descBefore_append (lang : Lang) (pid : Nat) : ∀ (a b : List Tree) (si : Nat),
    descBefore lang pid (a ++ b) si = descBefore lang pid a si + descBefore lang pid b (siAfter a si)
  | [], _, _ => by simp [descBefore, siAfter]
  | c :: a, b, si => by
    simp only [List.cons_append, descBefore, siAfter]
    rw [descBefore_append lang pid a b]
    omega

theorem take_succ_of_getElem? {α : Type} (l : List α) (i : Nat) (c : α) (h : l[i]? = some c) :
    l.take (i + 1) = l.take i ++ [c] := by
  rw [List.take_succ, h]; rfl

/-- The invariant of a child iterator over the children of `parent`, started with descendant
index `base`: structural index and descendant index are those of the child at `childIndex`. -/
def IterOK (lang : Lang) (base : Nat) (it : Iter) : Prop :=
  it.valid = true ∧
  it.si = siAfter (it.parent.kids.take it.childIndex) 0 ∧
  it.descIdx = base + descBefore lang it.parent.data.productionId (it.parent.kids.take it.childIndex) 0

/-- The invariant of an entry produced by such an iterator. -/
def EntryOK (lang : Lang) (parent : Tree) (base : Nat) (e : Entry) : Prop :=
  parent.kids[e.childIndex]? = some e.t ∧
  e.si = siAfter (parent.kids.take e.childIndex) 0 ∧
  e.descIdx = base + descBefore lang parent.data.productionId (parent.kids.take e.childIndex) 0

theorem nextIter_ok (lang : Lang) (base : Nat) (it : Iter) (c : Tree) (h : IterOK lang base it)
    (hc : it.parent.kids[it.childIndex]? = some c) : IterOK lang base (nextIter lang it c) := by
  obtain ⟨hv, hsi, hd⟩ := h
  refine ⟨by simp [nextIter, hv], ?_, ?_⟩
  · simp only [nextIter_si, nextIter_parent, nextIter_childIndex]
    rw [take_succ_of_getElem? _ _ _ hc, siAfter_append, ← hsi]
    simp [siAfter]
  · simp only [nextIter, nextIter_parent]
    rw [take_succ_of_getElem? _ _ _ hc, descBefore_append, ← hsi, hd]
    simp only [descBefore]
    omega

theorem entryOf_ok (lang : Lang) (base : Nat) (it : Iter) (c : Tree) (h : IterOK lang base it)
    (hc : it.parent.kids[it.childIndex]? = some c) : EntryOK lang it.parent base (entryOf it c) := by
  obtain ⟨_, hsi, hd⟩ := h
  exact ⟨hc, hsi, hd⟩

/-- Every entry the forward scans return satisfies the entry invariant. -/
theorem firstGo_entry_ok (lang : Lang) (base : Nat) : ∀ (fuel : Nat) (it : Iter), IterOK lang base it →
    ∀ e, (firstChildInternal.go lang fuel it).2 = some e → EntryOK lang it.parent base e
  | 0, _, _, e, h => by simp [firstChildInternal.go] at h
  | fuel + 1, it, hok, e, h => by
    unfold firstChildInternal.go at h
    cases hc : it.parent.kids[it.childIndex]? with
    | none => rw [iterNext_none lang it hc] at h; simp at h
    | some c =>
      rw [iterNext_some lang it c hok.1 hc] at h
      simp only at h
      split at h
      · simp only [Option.some.injEq] at h; rw [← h]; exact entryOf_ok lang base it c hok hc
      · split at h
        · simp only [Option.some.injEq] at h; rw [← h]; exact entryOf_ok lang base it c hok hc
        · have := firstGo_entry_ok lang base fuel (nextIter lang it c) (nextIter_ok lang base it c hok hc) e h
          simpa [nextIter_parent] using this

theorem lastGo_entry_ok (lang : Lang) (base : Nat) : ∀ (fuel : Nat) (it : Iter) (best : Step × Option Entry),
    IterOK lang base it → (∀ e, best.2 = some e → EntryOK lang it.parent base e) →
    ∀ e, (lastChildInternal.go lang fuel it best).2 = some e → EntryOK lang it.parent base e
  | 0, _, best, _, hb, e, h => by simp only [lastChildInternal.go] at h; exact hb e h
  | fuel + 1, it, best, hok, hb, e, h => by
    unfold lastChildInternal.go at h
    cases hc : it.parent.kids[it.childIndex]? with
    | none => rw [iterNext_none lang it hc] at h; exact hb e h
    | some c =>
      rw [iterNext_some lang it c hok.1 hc] at h
      simp only at h
      have hn := nextIter_ok lang base it c hok hc
      have he := entryOf_ok lang base it c hok hc
      split at h
      · have := lastGo_entry_ok lang base fuel (nextIter lang it c) _ hn
          (by intro e' he'; simp only [Option.some.injEq] at he'; rw [← he']; simpa [nextIter_parent] using he) e h
        simpa [nextIter_parent] using this
      · split at h
        · have := lastGo_entry_ok lang base fuel (nextIter lang it c) _ hn
            (by intro e' he'; simp only [Option.some.injEq] at he'; rw [← he']; simpa [nextIter_parent] using he) e h
          simpa [nextIter_parent] using this
        · have := lastGo_entry_ok lang base fuel (nextIter lang it c) best hn
            (by intro e' he'; simpa [nextIter_parent] using hb e' he') e h
          simpa [nextIter_parent] using this


/-- The invariant of a whole cursor stack: the root entry has descendant index 0, and every other
entry is the child of the entry below it at its recorded raw index, with the structural index and
the descendant index the forward iterator would give it. -/
def CursorInv (lang : Lang) : List Entry → Prop
  | [] => False
  | [root] => root.descIdx = 0
  | e :: p :: rest =>
    EntryOK lang p.t (p.descIdx + (if isEntryVisible lang p rest.head? then 1 else 0)) e ∧ CursorInv lang (p :: rest)

theorem iterateChildren_ok (lang : Lang) (top : Entry) (p? : Option Entry) (hne : top.t.kids.isEmpty = false) :
    IterOK lang (top.descIdx + (if isEntryVisible lang top p? then 1 else 0)) (iterateChildren lang top p?) := by
  unfold iterateChildren IterOK
  simp [hne, siAfter, descBefore]

theorem iterateChildren_parent (lang : Lang) (top : Entry) (p? : Option Entry) :
    (iterateChildren lang top p?).parent = top.t := by
  unfold iterateChildren
  split <;> rfl

theorem iterateChildren_invalid (lang : Lang) (top : Entry) (p? : Option Entry) (he : top.t.kids.isEmpty = true) :
    iterNext lang (iterateChildren lang top p?) = none := by
  unfold iterateChildren iterNext
  simp [he]

/-- `gotoChild_preserves_inv`: `goto_first_child` / `goto_last_child` keep the stack invariant. -/
theorem gotoChild_preserves_inv (lang : Lang) (last : Bool) : ∀ (fuel : Nat) (stack : List Entry),
    CursorInv lang stack → CursorInv lang (gotoChild lang last fuel stack).2
  | 0, stack, h => by simpa [gotoChild] using h
  | fuel + 1, [], h => by simpa [gotoChild] using h
  | fuel + 1, top :: rest, h => by
    unfold gotoChild
    simp only
    by_cases hempty : top.t.kids.isEmpty = true
    · -- no children: both scans return nothing
      have hnone := iterateChildren_invalid lang top rest.head? hempty
      cases last with
      | true =>
        have : lastChildInternal lang top rest.head? = (Step.none, none) := by
          unfold lastChildInternal lastChildInternal.go
          rw [hnone]
        simp [this, h]
      | false =>
        have : firstChildInternal lang top rest.head? = (Step.none, none) := by
          unfold firstChildInternal firstChildInternal.go
          rw [hnone]
        simp [this, h]
    · have hne : top.t.kids.isEmpty = false := by simpa using hempty
      have hit := iterateChildren_ok lang top rest.head? hne
      have hpar := iterateChildren_parent lang top rest.head?
      -- the entry either scan returns is OK for `top`
      have hentry : ∀ e, (if last then lastChildInternal lang top rest.head? else firstChildInternal lang top rest.head?).2 = some e →
          EntryOK lang top.t (top.descIdx + (if isEntryVisible lang top rest.head? then 1 else 0)) e := by
        intro e he
        cases last with
        | true =>
          simp only [if_true] at he
          unfold lastChildInternal at he
          have := lastGo_entry_ok lang _ _ _ (Step.none, none) hit (by intro e' h'; simp at h') e he
          rwa [hpar] at this
        | false =>
          simp only [Bool.false_eq_true, if_false] at he
          unfold firstChildInternal at he
          have := firstGo_entry_ok lang _ _ _ hit e he
          rwa [hpar] at this
      generalize hr : (if last then lastChildInternal lang top rest.head? else firstChildInternal lang top rest.head?) = r at hentry
      obtain ⟨step, eo⟩ := r
      cases step <;> cases eo <;> simp only <;> try exact h
      · rename_i e
        apply gotoChild_preserves_inv lang last fuel
        exact ⟨hentry e rfl, h⟩
      · rename_i e
        exact ⟨hentry e rfl, h⟩


theorem sibling_internal_preserves_inv (lang : Lang) (initialSize : Nat) : ∀ (stack : List Entry),
    CursorInv lang stack →
    (gotoSiblingInternal lang (iterNext lang) initialSize stack).1 ≠ Step.none →
    CursorInv lang (gotoSiblingInternal lang (iterNext lang) initialSize stack).2
  | [], h, _ => by simp [CursorInv] at h
  | [e], _, hne => by simp [gotoSiblingInternal] at hne
  | entry :: parent :: rest, h, hne => by
    obtain ⟨hent, hrest⟩ := h
    obtain ⟨hchild, hsi, hd⟩ := hent
    have hkne : parent.t.kids.isEmpty = false := by
      cases hk : parent.t.kids with
      | nil => rw [hk] at hchild; simp at hchild
      | cons a b => rfl
    have hit0 := iterateChildren_ok lang parent rest.head? hkne
    have hpar := iterateChildren_parent lang parent rest.head?
    -- the iterator repositioned on `entry`
    have hit : IterOK lang (parent.descIdx + (if isEntryVisible lang parent rest.head? then 1 else 0))
        { valid := (iterateChildren lang parent rest.head?).valid, parent := (iterateChildren lang parent rest.head?).parent, pos := entry.pos, childIndex := entry.childIndex, si := entry.si, descIdx := entry.descIdx } := by
      refine ⟨hit0.1, ?_, ?_⟩
      · simp only [hpar]; exact hsi
      · simp only [hpar]; exact hd
    have hc' : ({ valid := (iterateChildren lang parent rest.head?).valid, parent := (iterateChildren lang parent rest.head?).parent, pos := entry.pos, childIndex := entry.childIndex, si := entry.si, descIdx := entry.descIdx } : Iter).parent.kids[({ valid := (iterateChildren lang parent rest.head?).valid, parent := (iterateChildren lang parent rest.head?).parent, pos := entry.pos, childIndex := entry.childIndex, si := entry.si, descIdx := entry.descIdx } : Iter).childIndex]? = some entry.t := by
      simp only [hpar]; exact hchild
    have hpar' : ({ valid := (iterateChildren lang parent rest.head?).valid, parent := (iterateChildren lang parent rest.head?).parent, pos := entry.pos, childIndex := entry.childIndex, si := entry.si, descIdx := entry.descIdx } : Iter).parent = parent.t := hpar
    unfold gotoSiblingInternal at hne ⊢
    dsimp only at hne ⊢
    generalize ({ valid := (iterateChildren lang parent rest.head?).valid, parent := (iterateChildren lang parent rest.head?).parent, pos := entry.pos, childIndex := entry.childIndex, si := entry.si, descIdx := entry.descIdx } : Iter) = itx at hit hc' hpar' hne ⊢
    rw [iterNext_some lang itx entry.t hit.1 hc'] at hne ⊢
    dsimp only at hne ⊢
    by_cases hbr : (visOf lang itx entry.t && decide ((parent :: rest).length + 1 < initialSize)) = true
    · rw [if_pos hbr] at hne; exact absurd rfl hne
    · rw [if_neg hbr] at hne ⊢
      rw [scanSiblings_eq] at hne ⊢
      have hn := nextIter_ok lang _ itx entry.t hit hc'
      have hentry := firstGo_entry_ok lang _ (parent.t.kids.length + 2) _ hn
      simp only [nextIter_parent, hpar'] at hentry
      generalize firstChildInternal.go lang (parent.t.kids.length + 2) (nextIter lang itx entry.t) = r at hentry hne ⊢
      obtain ⟨step, eo⟩ := r
      cases step <;> cases eo
      all_goals first
        | exact sibling_internal_preserves_inv lang initialSize (parent :: rest) hrest hne
        | exact ⟨hentry _ rfl, hrest⟩

/-- `gotoNextSibling_preserves_inv`: `goto_next_sibling` keeps the stack invariant (a failed move
leaves the cursor unchanged). -/
theorem gotoNextSibling_preserves_inv (lang : Lang) (c : Cursor) (h : CursorInv lang c.stack) :
    CursorInv lang (gotoNextSibling lang c).2.stack := by
  unfold gotoNextSibling
  have hs := sibling_internal_preserves_inv lang c.stack.length c.stack h
  generalize hr : gotoSiblingInternal lang (iterNext lang) c.stack.length c.stack = r at hs
  obtain ⟨step, st⟩ := r
  cases step with
  | none => simpa using h
  | visible => simpa using hs (by simp)
  | hidden =>
    simp only
    exact gotoChild_preserves_inv lang false _ st (hs (by simp))

/-- The invariant gives the hypotheses of the walk theorems: linkage and structural indices. -/
theorem cursorInv_idx (lang : Lang) : ∀ (stack : List Entry), CursorInv lang stack → IdxOK stack
  | [], h => by simp [CursorInv] at h
  | [_], _ => by simp [IdxOK]
  | e :: p :: rest, h => by
    unfold IdxOK
    exact ⟨h.1.2.1, cursorInv_idx lang (p :: rest) h.2⟩

theorem cursorInv_linked (lang : Lang) : ∀ (stack : List Entry), CursorInv lang stack →
    match stack with
    | e :: p :: _ => p.t.kids[e.childIndex]? = some e.t
    | _ => True
  | [], _ => trivial
  | [_], _ => trivial
  | e :: p :: rest, h => h.1.1

/-- Number of visible nodes in the subtrees of the raw children `kids`, counted by enumeration. -/
def preCount (lang : Lang) (pid : Nat) : List Tree → Nat → Nat
  | [], _ => 0
  | c :: rest, si =>
    (countDesc lang c + (if (c.data.visible || (!c.data.extra && lang.aliasAt pid si != 0)) then 1 else 0)) +
      preCount lang pid rest (if c.data.extra then si else si + 1)

theorem descBefore_eq_preCount (lang : Lang) (pid : Nat) : ∀ (kids : List Tree) (si : Nat) (ps : Option Nat),
    SummarizedL lang kids → shapeOKL ps kids = true → descBefore lang pid kids si = preCount lang pid kids si
  | [], _, _, _, _ => rfl
  | c :: rest, si, ps, hs, hsh => by
    unfold SummarizedL at hs
    unfold shapeOKL at hsh
    simp only [Bool.and_eq_true] at hsh
    simp only [descBefore, preCount]
    rw [descBefore_eq_preCount lang pid rest _ ps hs.2 hsh.2]
    have hcnt := (summarize_counts lang c ps hs.1 hsh.1).2.2
    have hv : vdc c = countDesc lang c := by
      unfold vdc
      split
      · obtain ⟨cd, ck⟩ := c
        simp only [Tree.kids] at *
        have : ck = [] := by simpa using ‹ck.isEmpty = true›
        subst this
        simp [countDesc, countDescKids]
      · exact hcnt
    rw [hv]

theorem summarizedL_take (lang : Lang) : ∀ (kids : List Tree) (n : Nat), SummarizedL lang kids → SummarizedL lang (kids.take n)
  | [], n, h => by simpa using h
  | x :: rest, 0, _ => by simp [SummarizedL]
  | x :: rest, n + 1, h => by
    unfold SummarizedL at h
    simp only [List.take_succ_cons, SummarizedL]
    exact ⟨h.1, summarizedL_take lang rest n h.2⟩

theorem shapeOKL_take : ∀ (kids : List Tree) (ps : Option Nat) (n : Nat), shapeOKL ps kids = true → shapeOKL ps (kids.take n) = true
  | [], ps, n, h => by simpa using h
  | x :: rest, ps, 0, _ => by simp [shapeOKL]
  | x :: rest, ps, n + 1, h => by
    unfold shapeOKL at h
    simp only [Bool.and_eq_true] at h
    simp only [List.take_succ_cons, shapeOKL, Bool.and_eq_true]
    exact ⟨h.1, shapeOKL_take rest ps n h.2⟩

/-- `descendant_index_spec`: under the stack invariant and the summaries, the descendant index the
cursor reports for an entry is the descendant index of the entry below it, plus one if that entry
is a visible node, plus the number of visible nodes (counted by enumeration) in the subtrees of the
raw siblings before it — i.e. its preorder position among the visible nodes of the cursor's root. -/
theorem descendant_index_spec (lang : Lang) (e p : Entry) (rest : List Entry) (ps : Option Nat)
    (h : CursorInv lang (e :: p :: rest)) (hs : Summarized lang p.t) (hsh : shapeOK ps p.t = true) :
    e.descIdx = p.descIdx + (if isEntryVisible lang p rest.head? then 1 else 0) +
      preCount lang p.t.data.productionId (p.t.kids.take e.childIndex) 0 := by
  obtain ⟨⟨_, _, hd⟩, _⟩ := h
  rw [hd]
  cases hp : p.t with
  | mk pd pk =>
    rw [hp] at hs hsh
    unfold Summarized at hs
    unfold shapeOK at hsh
    simp only [Bool.and_eq_true] at hsh
    simp only [kids_mk, data_mk]
    rw [descBefore_eq_preCount lang pd.productionId (pk.take e.childIndex) 0 (some pd.symbol)
      (summarizedL_take lang pk _ hs.2.2) (shapeOKL_take pk _ _ hsh.2)]

end TsVerif.C06

namespace TsVerif.C06

def prevIndex (it : Iter) : Nat := if it.childIndex == 0 then u32max else it.childIndex - 1

/-- The child entered when stepping back (none when stepping back from the first child). -/
def prevOf (it : Iter) : Option Tree :=
  if prevIndex it < it.parent.kids.length then it.parent.kids[prevIndex it]? else none

/-- The iterator after the repaired `iterPrev` stepped back over child `c` (at `it.childIndex`). -/
def prevIter (lang : Lang) (it : Iter) (c : Tree) : Iter :=
  match prevOf it with
  | some prev =>
    { it with pos := length_backtrack (length_backtrack it.pos c.data.padding) prev.data.size
              childIndex := prevIndex it
              si := if prev.data.extra then it.si else it.si - 1
              descIdx := it.descIdx - (vdc prev + (if (prev.data.visible || (!prev.data.extra &&
                lang.aliasAt it.parent.data.productionId (if prev.data.extra then it.si else it.si - 1) != 0)) then 1 else 0)) }
  | none => { it with pos := length_backtrack it.pos c.data.padding, childIndex := prevIndex it }

theorem iterPrev_some (lang : Lang) (it : Iter) (c : Tree) (hv : it.valid = true)
    (hc : it.parent.kids[it.childIndex]? = some c) (hn : it.parent.kids.length ≤ u32max) :
    iterPrev lang Quirks.none it = some (entryOf it c, visOf lang it c, prevIter lang it c) := by
  have hlt := lt_of_getElem?_some _ _ _ hc
  have hne : (it.childIndex == u32max) = false := by
    simp only [beq_eq_false_iff_ne, ne_eq]; omega
  unfold iterPrev prevIter prevOf prevIndex entryOf visOf
  simp only [Quirks.none, hv, hne, hc, Bool.not_true, Bool.or_self, Bool.false_eq_true, if_false]
  cases hp : (if (if it.childIndex == 0 then u32max else it.childIndex - 1) < it.parent.kids.length
      then it.parent.kids[(if it.childIndex == 0 then u32max else it.childIndex - 1)]? else none) <;> simp [hv]

theorem prevIter_parent (lang : Lang) (it : Iter) (c : Tree) : (prevIter lang it c).parent = it.parent := by
  unfold prevIter; cases prevOf it <;> rfl
theorem prevIter_valid (lang : Lang) (it : Iter) (c : Tree) : (prevIter lang it c).valid = it.valid := by
  unfold prevIter; cases prevOf it <;> rfl
theorem prevIter_childIndex (lang : Lang) (it : Iter) (c : Tree) : (prevIter lang it c).childIndex = prevIndex it := by
  unfold prevIter; cases prevOf it <;> rfl

theorem iterPrev_none (lang : Lang) (it : Iter) (h : it.childIndex = u32max) : iterPrev lang Quirks.none it = none := by
  unfold iterPrev
  simp [Quirks.none, h]

/-- Stepping back keeps the iterator invariant (structural and descendant index of the child
entered), as long as there is a child to enter. -/
theorem prevIter_ok (lang : Lang) (base : Nat) (it : Iter) (c : Tree) (h : IterOK lang base it)
    (hpos : it.childIndex > 0) (hlt : it.childIndex < it.parent.kids.length) (hn : it.parent.kids.length ≤ u32max) :
    IterOK lang base (prevIter lang it c) := by
  obtain ⟨hv, hsi, hd⟩ := h
  have hpi : prevIndex it = it.childIndex - 1 := by
    unfold prevIndex
    have : (it.childIndex == 0) = false := by simp only [beq_eq_false_iff_ne, ne_eq]; omega
    simp [this]
  have hlt' : it.childIndex - 1 < it.parent.kids.length := by omega
  have hget : it.parent.kids[it.childIndex - 1]? = some (it.parent.kids[it.childIndex - 1]) := by simp [hlt']
  have hpo : prevOf it = some (it.parent.kids[it.childIndex - 1]) := by
    unfold prevOf; rw [hpi]; simp [hlt']
  have htake : it.parent.kids.take it.childIndex = it.parent.kids.take (it.childIndex - 1) ++ [it.parent.kids[it.childIndex - 1]] := by
    have := take_succ_of_getElem? it.parent.kids (it.childIndex - 1) _ hget
    have e : it.childIndex - 1 + 1 = it.childIndex := by omega
    rwa [e] at this
  unfold prevIter
  rw [hpo]
  refine ⟨hv, ?_, ?_⟩
  · simp only [hpi]
    rw [htake, siAfter_append] at hsi
    simp only [siAfter] at hsi
    by_cases hx : (it.parent.kids[it.childIndex - 1]).data.extra = true
    · simp only [hx, if_true] at hsi ⊢; exact hsi
    · simp only [hx, Bool.false_eq_true, if_false] at hsi ⊢; omega
  · simp only [hpi]
    rw [htake, siAfter_append] at hsi
    rw [htake, descBefore_append] at hd
    simp only [descBefore, siAfter] at hd hsi
    by_cases hx : (it.parent.kids[it.childIndex - 1]).data.extra = true
    · simp only [hx, if_true, Bool.not_true, Bool.false_and, Bool.or_false] at hd hsi ⊢
      omega
    · simp only [hx, Bool.false_eq_true, if_false, Bool.not_false, Bool.true_and] at hd hsi ⊢
      have hs1 : it.si - 1 = siAfter (it.parent.kids.take (it.childIndex - 1)) 0 := by omega
      rw [hs1]
      omega


theorem lastRel_snoc (lang : Lang) (pid : Nat) (c : Tree) : ∀ (a : List Tree) (si : Nat),
    lastRel lang pid (a ++ [c]) si =
      (if c.data.visible || (!c.data.extra && lang.aliasAt pid (siAfter a si) != 0) then some (c, siAfter a si, true)
       else if vcc c > 0 then some (c, siAfter a si, false)
       else lastRel lang pid a si)
  | [], si => by
    simp only [List.nil_append, lastRel, siAfter]
    rfl
  | x :: a, si => by
    simp only [List.cons_append, lastRel, siAfter]
    rw [lastRel_snoc lang pid c a]
    by_cases h1 : (c.data.visible || (!c.data.extra && lang.aliasAt pid (siAfter a (if x.data.extra then si else si + 1)) != 0)) = true
    · simp [h1]
    · simp only [h1, Bool.false_eq_true, if_false]
      by_cases h2 : vcc c > 0
      · simp [h2]
      · simp only [h2, if_false]

/-- The backward scan of the repaired iterator from child `i` finds the LAST stop among the
children `0..i`. -/
theorem prevScan_spec (lang : Lang) (base : Nat) : ∀ (i fuel : Nat) (it : Iter), IterOK lang base it →
    it.childIndex = i → i < it.parent.kids.length → it.parent.kids.length ≤ u32max → i + 1 < fuel →
    bestOf (scanSiblings (iterPrev lang Quirks.none) fuel it) =
      lastRel lang it.parent.data.productionId (it.parent.kids.take (i + 1)) 0
  | i, 0, _, _, _, _, _, hf => by omega
  | i, fuel + 1, it, hok, hi, hlt, hn, hf => by
    have hget : it.parent.kids[it.childIndex]? = some (it.parent.kids[i]) := by
      rw [hi]; simp [hlt]
    unfold scanSiblings
    rw [iterPrev_some lang it _ hok.1 hget hn]
    have htake : it.parent.kids.take (i + 1) = it.parent.kids.take i ++ [it.parent.kids[i]] :=
      take_succ_of_getElem? _ _ _ (by simp [hlt])
    rw [htake, lastRel_snoc]
    have hsi : siAfter (it.parent.kids.take i) 0 = it.si := by rw [← hi]; exact hok.2.1.symm
    rw [hsi]
    simp only [visOf]
    by_cases hvis : ((it.parent.kids[i]).data.visible || (!(it.parent.kids[i]).data.extra && lang.aliasAt it.parent.data.productionId it.si != 0)) = true
    · simp [hvis, bestOf, entryOf]
    · simp only [hvis, Bool.false_eq_true, if_false, entryOf]
      by_cases hk : vcc (it.parent.kids[i]) > 0
      · simp [hk, bestOf]
      · simp only [hk, if_false]
        cases i with
        | zero =>
          have hci : (prevIter lang it (it.parent.kids[0])).childIndex = u32max := by
            rw [prevIter_childIndex]; unfold prevIndex; simp [hi]
          cases fuel with
          | zero => omega
          | succ f =>
            unfold scanSiblings
            rw [iterPrev_none lang _ hci]
            simp [bestOf, lastRel]
        | succ j =>
          have hpos : it.childIndex > 0 := by omega
          have hok' := prevIter_ok lang base it (it.parent.kids[j + 1]) hok hpos (by omega) hn
          have hci : (prevIter lang it (it.parent.kids[j + 1])).childIndex = j := by
            rw [prevIter_childIndex]; unfold prevIndex
            have : (it.childIndex == 0) = false := by simp only [beq_eq_false_iff_ne, ne_eq]; omega
            simp [this, hi]
          have ih := prevScan_spec lang base j fuel (prevIter lang it (it.parent.kids[j + 1])) hok' hci
            (by rw [prevIter_parent]; omega) (by rw [prevIter_parent]; exact hn) (by omega)
          rw [prevIter_parent] at ih
          exact ih


/-- Visible nodes that precede entry `e` among the raw children of its parent entry `p`. -/
def earlierInParent (lang : Lang) (e p : Entry) : List (Tree × Nat) :=
  enumKids lang p.t.data.productionId (p.t.kids.take e.childIndex) 0

/-- The siblings that precede the cursor's node in the ordered tree (in document order). -/
def earlierSiblings (lang : Lang) : Bool → List Entry → List (Tree × Nat)
  | first, e :: p :: rest =>
    if !first && visEntry lang e p then []
    else earlierSiblings lang false (p :: rest) ++ earlierInParent lang e p
  | _, _ => []

theorem scanPrev_none (lang : Lang) (fuel : Nat) (it : Iter) (h : it.childIndex = u32max) :
    scanSiblings (iterPrev lang Quirks.none) fuel it = (Step.none, none) := by
  cases fuel with
  | zero => rfl
  | succ f => unfold scanSiblings; rw [iterPrev_none lang it h]

theorem getLast?_append_nil_right {α : Type} (a b : List α) (h : b = []) : (a ++ b).getLast? = a.getLast? := by
  subst h; simp

theorem prev_internal_spec (lang : Lang) (initialSize : Nat) : ∀ (stack : List Entry) (first : Bool),
    StackOK lang stack → CursorInv lang stack → (∀ e ∈ stack, e.t.kids.length ≤ u32max) →
    (first = true → stack.length = initialSize) → (first = false → stack.length < initialSize) →
    ((gotoSiblingInternal lang (iterPrev lang Quirks.none) initialSize stack).1 = Step.visible →
        topNode lang (gotoSiblingInternal lang (iterPrev lang Quirks.none) initialSize stack).2 =
          (earlierSiblings lang first stack).getLast?) ∧
    ((gotoSiblingInternal lang (iterPrev lang Quirks.none) initialSize stack).1 = Step.hidden →
        ∃ e st', (gotoSiblingInternal lang (iterPrev lang Quirks.none) initialSize stack).2 = e :: st' ∧ vcc e.t > 0 ∧
          Summarized lang e.t ∧ (∃ ps, shapeOK ps e.t = true) ∧
          (enumChildren lang e.t).getLast? = (earlierSiblings lang first stack).getLast?) ∧
    ((gotoSiblingInternal lang (iterPrev lang Quirks.none) initialSize stack).1 = Step.none →
        earlierSiblings lang first stack = [])
  | [], first, _, _, _, _, _ => by simp [gotoSiblingInternal, earlierSiblings]
  | [e], first, _, _, _, _, _ => by simp [gotoSiblingInternal, earlierSiblings]
  | entry :: parent :: rest, first, hok, hinv, hsmall, hf1, hf2 => by
    unfold StackOK at hok
    obtain ⟨_, _, _, hokp⟩ := hok
    have hokp' := hokp
    unfold StackOK at hokp'
    obtain ⟨hsp, ⟨psp, hshp⟩, _, _⟩ := hokp'
    obtain ⟨⟨hchild, hsi, hd⟩, hinvp⟩ := hinv
    have hnp : parent.t.kids.length ≤ u32max := hsmall parent (by simp)
    have hkne : parent.t.kids.isEmpty = false := by
      cases hk : parent.t.kids with
      | nil => rw [hk] at hchild; simp at hchild
      | cons a b => rfl
    have hit0 := iterateChildren_ok lang parent rest.head? hkne
    have hpar := iterateChildren_parent lang parent rest.head?
    have hit : IterOK lang (parent.descIdx + (if isEntryVisible lang parent rest.head? then 1 else 0))
        { valid := (iterateChildren lang parent rest.head?).valid, parent := (iterateChildren lang parent rest.head?).parent, pos := entry.pos, childIndex := entry.childIndex, si := entry.si, descIdx := entry.descIdx } := by
      refine ⟨hit0.1, ?_, ?_⟩
      · simp only [hpar]; exact hsi
      · simp only [hpar]; exact hd
    have hc' : ({ valid := (iterateChildren lang parent rest.head?).valid, parent := (iterateChildren lang parent rest.head?).parent, pos := entry.pos, childIndex := entry.childIndex, si := entry.si, descIdx := entry.descIdx } : Iter).parent.kids[({ valid := (iterateChildren lang parent rest.head?).valid, parent := (iterateChildren lang parent rest.head?).parent, pos := entry.pos, childIndex := entry.childIndex, si := entry.si, descIdx := entry.descIdx } : Iter).childIndex]? = some entry.t := by
      simp only [hpar]; exact hchild
    have hpar' : ({ valid := (iterateChildren lang parent rest.head?).valid, parent := (iterateChildren lang parent rest.head?).parent, pos := entry.pos, childIndex := entry.childIndex, si := entry.si, descIdx := entry.descIdx } : Iter).parent = parent.t := hpar
    have hci' : ({ valid := (iterateChildren lang parent rest.head?).valid, parent := (iterateChildren lang parent rest.head?).parent, pos := entry.pos, childIndex := entry.childIndex, si := entry.si, descIdx := entry.descIdx } : Iter).childIndex = entry.childIndex := rfl
    have hsi' : ({ valid := (iterateChildren lang parent rest.head?).valid, parent := (iterateChildren lang parent rest.head?).parent, pos := entry.pos, childIndex := entry.childIndex, si := entry.si, descIdx := entry.descIdx } : Iter).si = entry.si := rfl
    unfold gotoSiblingInternal
    dsimp only
    generalize ({ valid := (iterateChildren lang parent rest.head?).valid, parent := (iterateChildren lang parent rest.head?).parent, pos := entry.pos, childIndex := entry.childIndex, si := entry.si, descIdx := entry.descIdx } : Iter) = itx at hit hc' hpar' hci' hsi' ⊢
    rw [iterPrev_some lang itx entry.t hit.1 hc' (by rw [hpar']; exact hnp)]
    dsimp only
    rw [visOf_eq lang itx entry parent hpar' hsi']
    have hrec := prev_internal_spec lang initialSize (parent :: rest) false hokp hinvp
      (fun e he => hsmall e (List.mem_cons_of_mem _ he)) (fun h => by simp at h)
      (fun _ => by
        cases first with
        | true => have := hf1 rfl; simp only [List.length_cons] at this ⊢; omega
        | false => have := hf2 rfl; simp only [List.length_cons] at this ⊢; omega)
    by_cases hbreak : (visEntry lang entry parent && decide ((parent :: rest).length + 1 < initialSize)) = true
    · rw [if_pos hbreak]
      simp only [Bool.and_eq_true, decide_eq_true_eq, List.length_cons] at hbreak
      have hfirst : first = false := by
        cases first with
        | false => rfl
        | true => have := hf1 rfl; simp only [List.length_cons] at this; omega
      refine ⟨fun h => by simp at h, fun h => by simp at h, fun _ => ?_⟩
      simp [earlierSiblings, hfirst, hbreak.1]
    · rw [if_neg hbreak]
      have hnotstop : (!first && visEntry lang entry parent) = false := by
        cases first with
        | true => rfl
        | false =>
          have hl := hf2 rfl
          simp only [List.length_cons] at hl
          have hdd : decide ((parent :: rest).length + 1 < initialSize) = true := by simpa using hl
          simp only [hdd, Bool.and_true] at hbreak
          simpa using hbreak
      have hearlier : earlierSiblings lang first (entry :: parent :: rest) =
          earlierSiblings lang false (parent :: rest) ++ enumKids lang parent.t.data.productionId (parent.t.kids.take entry.childIndex) 0 := by
        simp [earlierSiblings, hnotstop, earlierInParent]
      rw [hearlier]
      have hlastE := enumKids_last lang (parent.t.kids.take entry.childIndex) parent.t.data.productionId 0 psp
      -- summaries of the earlier children
      have hsumm : SummarizedL lang parent.t.kids ∧ shapeOKL (some parent.t.data.symbol) parent.t.kids = true := by
        cases hpt : parent.t with
        | mk pd pk =>
          rw [hpt] at hsp hshp
          unfold Summarized at hsp
          unfold shapeOK at hshp
          simp only [Bool.and_eq_true] at hshp
          exact ⟨hsp.2.2, hshp.2⟩
      have hlast := enumKids_last lang (parent.t.kids.take entry.childIndex) parent.t.data.productionId 0
        (some parent.t.data.symbol) (summarizedL_take lang _ _ hsumm.1) (shapeOKL_take _ _ _ hsumm.2)
      -- the backward scan
      have hscan : bestOf (scanSiblings (iterPrev lang Quirks.none) (parent.t.kids.length + 2) (prevIter lang itx entry.t)) =
          lastRel lang parent.t.data.productionId (parent.t.kids.take entry.childIndex) 0 := by
        by_cases hz : entry.childIndex = 0
        · have hcu : (prevIter lang itx entry.t).childIndex = u32max := by
            rw [prevIter_childIndex]; unfold prevIndex; simp [hci', hz]
          rw [scanPrev_none lang _ _ hcu, hz]
          simp [bestOf, lastRel]
        · have hlt := lt_of_getElem?_some _ _ _ hchild
          have hok1 := prevIter_ok lang _ itx entry.t hit (by omega) (by rw [hpar', hci']; exact hlt) (by rw [hpar']; exact hnp)
          have hcj : (prevIter lang itx entry.t).childIndex = entry.childIndex - 1 := by
            rw [prevIter_childIndex]; unfold prevIndex
            have : (entry.childIndex == 0) = false := by simp only [beq_eq_false_iff_ne, ne_eq]; omega
            simp [hci', this]
          have := prevScan_spec lang _ (entry.childIndex - 1) (parent.t.kids.length + 2) (prevIter lang itx entry.t) hok1 hcj
            (by rw [prevIter_parent, hpar']; omega) (by rw [prevIter_parent, hpar']; exact hnp) (by omega)
          rw [prevIter_parent, hpar'] at this
          have e1 : entry.childIndex - 1 + 1 = entry.childIndex := by omega
          rwa [e1] at this
      generalize scanSiblings (iterPrev lang Quirks.none) (parent.t.kids.length + 2) (prevIter lang itx entry.t) = r at hscan ⊢
      obtain ⟨step, eo⟩ := r
      cases hfr : lastRel lang parent.t.data.productionId (parent.t.kids.take entry.childIndex) 0 with
      | none =>
        rw [hfr] at hscan hlast
        simp only at hlast
        have hnil := List.getLast?_eq_none_iff.mp hlast
        rw [getLast?_append_nil_right _ _ hnil, hnil, List.append_nil]
        cases step <;> cases eo <;> simp only [bestOf] at hscan <;> first
          | exact hrec
          | (exact absurd hscan (by simp))
      | some trip =>
        obtain ⟨c, si', b⟩ := trip
        rw [hfr] at hscan hlast
        obtain ⟨e, heo, h1, h2, hstep⟩ := bestOf_some step eo c si' b hscan
        subst heo
        have hmem : c ∈ parent.t.kids := List.mem_of_mem_take (lastRel_mem lang _ _ _ c si' b hfr)
        cases b with
        | true =>
          simp only [if_true] at hstep
          subst hstep
          simp only at hlast ⊢
          refine ⟨fun _ => ?_, fun h => by simp at h, fun h => by simp at h⟩
          simp only [topNode]
          rw [getLast?_append_of_some _ _ _ hlast, h1, h2]
        | false =>
          simp only [Bool.false_eq_true, if_false] at hstep
          subst hstep
          simp only at hlast ⊢
          refine ⟨fun h => by simp at h, fun _ => ?_, fun h => by simp at h⟩
          have hvc := lastRel_false_vcc lang _ _ _ c si' hfr
          have hsc := summarized_of_mem lang _ c hsumm.1 hmem
          have hshc := shapeOK_of_mem _ _ c hsumm.2 hmem
          refine ⟨e, _, rfl, by rw [h1]; exact hvc, by rw [h1]; exact hsc, ⟨_, by rw [h1]; exact hshc⟩, ?_⟩
          rw [h1]
          have hcnt := (summarize_counts lang c _ hsc hshc).1
          cases hl : (enumChildren lang c).getLast? with
          | none =>
            have : enumChildren lang c = [] := List.getLast?_eq_none_iff.mp hl
            rw [this] at hcnt
            unfold vcc at hvc
            split at hvc
            · omega
            · simp at hcnt; omega
          | some x =>
            rw [hl] at hlast
            rw [getLast?_append_of_some _ _ _ hlast]


theorem topNode_pos_irrelevant (lang : Lang) (top parent : Entry) (rest : List Entry) (p : Length) :
    topNode lang ({ top with pos := p } :: parent :: rest) = topNode lang (top :: parent :: rest) := rfl

/-- `cursor_prev_sibling_spec`: for the REPAIRED reverse iterator (`Quirks.none`,
fixes/C06-cursor-prev-iterator.diff, committed), on every cursor stack that satisfies the invariant
`CursorInv` over summarized parser-shaped subtrees (and fewer than 2³² children per node), the port
of `ts_tree_cursor_goto_previous_sibling` succeeds exactly when an earlier sibling exists in the
ordered tree and then shows the LAST of the earlier siblings. -/
theorem cursor_prev_sibling_spec (lang : Lang) (c : Cursor) (hok : StackOK lang c.stack) (hinv : CursorInv lang c.stack)
    (hsmall : ∀ e ∈ c.stack, e.t.kids.length ≤ u32max) :
    ((gotoPreviousSibling lang Quirks.none c).1 = true →
        topNode lang (gotoPreviousSibling lang Quirks.none c).2.stack = (earlierSiblings lang true c.stack).getLast?) ∧
    ((gotoPreviousSibling lang Quirks.none c).1 = false → earlierSiblings lang true c.stack = []) := by
  have h := prev_internal_spec lang c.stack.length c.stack true hok hinv hsmall (fun _ => rfl) (fun h => by simp at h)
  unfold gotoPreviousSibling
  generalize hr : gotoSiblingInternal lang (iterPrev lang Quirks.none) c.stack.length c.stack = r at h
  obtain ⟨step, st⟩ := r
  simp only at h
  cases step with
  | none =>
    simp only
    exact ⟨fun hf => by simp at hf, fun _ => h.2.2 rfl⟩
  | visible =>
    simp only
    refine ⟨fun _ => ?_, fun hf => by simp at hf⟩
    have h1 := h.1 rfl
    -- the position repair does not change the node shown
    cases st with
    | nil => simpa using h1
    | cons top r1 =>
      cases r1 with
      | nil => simpa using h1
      | cons parent rest =>
        simp only [show (Step.visible == Step.hidden) = false from rfl, Bool.false_eq_true, if_false]
        split <;> exact h1
  | hidden =>
    simp only
    obtain ⟨e, st', hst, hv, hs, ⟨ps, hsh⟩, hlast⟩ := h.2.1 rfl
    subst hst
    refine ⟨fun _ => ?_, fun hf => by simp at hf⟩
    simp only [show (Step.hidden == Step.hidden) = true from rfl, if_true]
    -- after the position repair the top entry has the same subtree; descend to its last child
    have key : ∀ (e' : Entry), e'.t = e.t → e'.si = e.si →
        topNode lang (gotoChild lang true (topSize (e' :: st')) (e' :: st')).2 = (earlierSiblings lang true c.stack).getLast? := by
      intro e' ht hsi
      have hfc := cursor_last_child_spec lang (topSize (e' :: st')) e' st' ps (by rw [ht]; exact hs) (by rw [ht]; exact hsh) (by simp [topSize])
      have hne : enumChildren lang e'.t ≠ [] := by
        rw [ht]
        intro h0
        have hcnt := (summarize_counts lang e.t ps hs hsh).1
        rw [h0] at hcnt
        unfold vcc at hv
        split at hv
        · omega
        · simp at hcnt; omega
      have hok1 : (gotoChild lang true (topSize (e' :: st')) (e' :: st')).1 = true := by
        cases hb : (gotoChild lang true (topSize (e' :: st')) (e' :: st')).1 with
        | true => rfl
        | false => exact absurd (hfc.2 hb) hne
      rw [hfc.1 hok1, ht, hlast]
    cases st' with
    | nil => exact key e rfl rfl
    | cons parent rest =>
      simp only
      split
      · exact key _ rfl rfl
      · exact key e rfl rfl

end TsVerif.C06

namespace TsVerif.C06

/-- Every entry the backward scan of the repaired iterator returns satisfies the entry invariant. -/
theorem prevScan_entry_ok (lang : Lang) (base : Nat) : ∀ (fuel : Nat) (it : Iter), IterOK lang base it →
    it.childIndex < it.parent.kids.length → it.parent.kids.length ≤ u32max →
    ∀ e, (scanSiblings (iterPrev lang Quirks.none) fuel it).2 = some e → EntryOK lang it.parent base e
  | 0, _, _, _, _, e, h => by simp [scanSiblings] at h
  | fuel + 1, it, hok, hlt, hn, e, h => by
    have hget : it.parent.kids[it.childIndex]? = some (it.parent.kids[it.childIndex]) := by simp [hlt]
    unfold scanSiblings at h
    rw [iterPrev_some lang it _ hok.1 hget hn] at h
    simp only at h
    split at h
    · simp only [Option.some.injEq] at h; rw [← h]; exact entryOf_ok lang base it _ hok hget
    · split at h
      · simp only [Option.some.injEq] at h; rw [← h]; exact entryOf_ok lang base it _ hok hget
      · by_cases hz : it.childIndex = 0
        · have hcu : (prevIter lang it (it.parent.kids[it.childIndex])).childIndex = u32max := by
            rw [prevIter_childIndex]; unfold prevIndex; simp [hz]
          rw [scanPrev_none lang _ _ hcu] at h
          simp at h
        · have hok' := prevIter_ok lang base it (it.parent.kids[it.childIndex]) hok (by omega) hlt hn
          have hci : (prevIter lang it (it.parent.kids[it.childIndex])).childIndex = it.childIndex - 1 := by
            rw [prevIter_childIndex]; unfold prevIndex
            have : (it.childIndex == 0) = false := by simp only [beq_eq_false_iff_ne, ne_eq]; omega
            simp [this]
          have := prevScan_entry_ok lang base fuel _ hok' (by rw [hci, prevIter_parent]; omega)
            (by rw [prevIter_parent]; exact hn) e h
          rwa [prevIter_parent] at this

theorem prev_internal_preserves_inv (lang : Lang) (initialSize : Nat) : ∀ (stack : List Entry),
    CursorInv lang stack → (∀ e ∈ stack, e.t.kids.length ≤ u32max) →
    (gotoSiblingInternal lang (iterPrev lang Quirks.none) initialSize stack).1 ≠ Step.none →
    CursorInv lang (gotoSiblingInternal lang (iterPrev lang Quirks.none) initialSize stack).2
  | [], h, _, _ => by simp [CursorInv] at h
  | [e], _, _, hne => by simp [gotoSiblingInternal] at hne
  | entry :: parent :: rest, h, hsmall, hne => by
    obtain ⟨hent, hrest⟩ := h
    obtain ⟨hchild, hsi, hd⟩ := hent
    have hnp : parent.t.kids.length ≤ u32max := hsmall parent (by simp)
    have hkne : parent.t.kids.isEmpty = false := by
      cases hk : parent.t.kids with
      | nil => rw [hk] at hchild; simp at hchild
      | cons a b => rfl
    have hit0 := iterateChildren_ok lang parent rest.head? hkne
    have hpar := iterateChildren_parent lang parent rest.head?
    have hit : IterOK lang (parent.descIdx + (if isEntryVisible lang parent rest.head? then 1 else 0))
        { valid := (iterateChildren lang parent rest.head?).valid, parent := (iterateChildren lang parent rest.head?).parent, pos := entry.pos, childIndex := entry.childIndex, si := entry.si, descIdx := entry.descIdx } := by
      refine ⟨hit0.1, ?_, ?_⟩
      · simp only [hpar]; exact hsi
      · simp only [hpar]; exact hd
    have hc' : ({ valid := (iterateChildren lang parent rest.head?).valid, parent := (iterateChildren lang parent rest.head?).parent, pos := entry.pos, childIndex := entry.childIndex, si := entry.si, descIdx := entry.descIdx } : Iter).parent.kids[({ valid := (iterateChildren lang parent rest.head?).valid, parent := (iterateChildren lang parent rest.head?).parent, pos := entry.pos, childIndex := entry.childIndex, si := entry.si, descIdx := entry.descIdx } : Iter).childIndex]? = some entry.t := by
      simp only [hpar]; exact hchild
    have hpar' : ({ valid := (iterateChildren lang parent rest.head?).valid, parent := (iterateChildren lang parent rest.head?).parent, pos := entry.pos, childIndex := entry.childIndex, si := entry.si, descIdx := entry.descIdx } : Iter).parent = parent.t := hpar
    have hci' : ({ valid := (iterateChildren lang parent rest.head?).valid, parent := (iterateChildren lang parent rest.head?).parent, pos := entry.pos, childIndex := entry.childIndex, si := entry.si, descIdx := entry.descIdx } : Iter).childIndex = entry.childIndex := rfl
    unfold gotoSiblingInternal at hne ⊢
    dsimp only at hne ⊢
    generalize ({ valid := (iterateChildren lang parent rest.head?).valid, parent := (iterateChildren lang parent rest.head?).parent, pos := entry.pos, childIndex := entry.childIndex, si := entry.si, descIdx := entry.descIdx } : Iter) = itx at hit hc' hpar' hci' hne ⊢
    rw [iterPrev_some lang itx entry.t hit.1 hc' (by rw [hpar']; exact hnp)] at hne ⊢
    dsimp only at hne ⊢
    have hrec := prev_internal_preserves_inv lang initialSize (parent :: rest) hrest
      (fun e he => hsmall e (List.mem_cons_of_mem _ he))
    by_cases hbr : (visOf lang itx entry.t && decide ((parent :: rest).length + 1 < initialSize)) = true
    · rw [if_pos hbr] at hne; exact absurd rfl hne
    · rw [if_neg hbr] at hne ⊢
      have hlt := lt_of_getElem?_some _ _ _ hchild
      -- entries of the backward scan are OK
      have hentry : ∀ e, (scanSiblings (iterPrev lang Quirks.none) (parent.t.kids.length + 2) (prevIter lang itx entry.t)).2 = some e →
          EntryOK lang parent.t (parent.descIdx + (if isEntryVisible lang parent rest.head? then 1 else 0)) e := by
        intro e he
        by_cases hz : entry.childIndex = 0
        · have hcu : (prevIter lang itx entry.t).childIndex = u32max := by
            rw [prevIter_childIndex]; unfold prevIndex; simp [hci', hz]
          rw [scanPrev_none lang _ _ hcu] at he
          simp at he
        · have hok1 := prevIter_ok lang _ itx entry.t hit (by omega) (by rw [hpar', hci']; exact hlt) (by rw [hpar']; exact hnp)
          have hcj : (prevIter lang itx entry.t).childIndex = entry.childIndex - 1 := by
            rw [prevIter_childIndex]; unfold prevIndex
            have : (entry.childIndex == 0) = false := by simp only [beq_eq_false_iff_ne, ne_eq]; omega
            simp [hci', this]
          have := prevScan_entry_ok lang _ (parent.t.kids.length + 2) _ hok1
            (by rw [hcj, prevIter_parent, hpar']; omega) (by rw [prevIter_parent, hpar']; exact hnp) e he
          rwa [prevIter_parent, hpar'] at this
      generalize scanSiblings (iterPrev lang Quirks.none) (parent.t.kids.length + 2) (prevIter lang itx entry.t) = r at hentry hne ⊢
      obtain ⟨step, eo⟩ := r
      cases step <;> cases eo
      all_goals first
        | exact hrec hne
        | exact ⟨hentry _ rfl, hrest⟩

/-- `gotoPreviousSibling_preserves_inv`: the repaired `goto_previous_sibling` keeps the stack
invariant (the position repair only touches `pos`; a hidden step is followed by goto_last_child). -/
theorem gotoPreviousSibling_preserves_inv (lang : Lang) (c : Cursor) (h : CursorInv lang c.stack)
    (hsmall : ∀ e ∈ c.stack, e.t.kids.length ≤ u32max) :
    CursorInv lang (gotoPreviousSibling lang Quirks.none c).2.stack := by
  unfold gotoPreviousSibling
  have hs := prev_internal_preserves_inv lang c.stack.length c.stack h hsmall
  generalize hr : gotoSiblingInternal lang (iterPrev lang Quirks.none) c.stack.length c.stack = r at hs
  obtain ⟨step, st⟩ := r
  have posfix : ∀ (st : List Entry), CursorInv lang st →
      CursorInv lang (match st with
        | top :: parent :: rest =>
          if length_is_undefined top.pos then { top with pos := recomputePosition parent top.childIndex } :: parent :: rest
          else st
        | _ => st) := by
    intro st hst
    cases st with
    | nil => exact hst
    | cons top r1 =>
      cases r1 with
      | nil => exact hst
      | cons parent rest =>
        simp only
        split
        · exact ⟨hst.1, hst.2⟩
        · exact hst
  cases step with
  | none => simpa using h
  | visible =>
    simp only [show (Step.visible == Step.hidden) = false from rfl, Bool.false_eq_true, if_false]
    exact posfix st (hs (by simp))
  | hidden =>
    simp only [show (Step.hidden == Step.hidden) = true from rfl, if_true]
    exact gotoChild_preserves_inv lang true _ _ (posfix st (hs (by simp)))

/-- The entry's subtree contains the visible node with preorder index `goal`. -/
def Contains (lang : Lang) (goal : Nat) (e : Entry) (p? : Option Entry) : Prop :=
  e.descIdx ≤ goal ∧ goal < e.descIdx + (if isEntryVisible lang e p? then 1 else 0) + vdc e.t

theorem drop_cons_of_getElem? {α : Type} (l : List α) (i : Nat) (c : α) (h : l[i]? = some c) :
    l.drop i = c :: l.drop (i + 1) := drop_eq_cons l i c h

/-- `goto_descendant`'s scan: among the remaining children the first whose cumulative count passes
the goal contains the goal. -/
theorem gdScan_spec (lang : Lang) (goal base : Nat) : ∀ (fuel : Nat) (it : Iter), IterOK lang base it →
    it.descIdx ≤ goal →
    goal < it.descIdx + descBefore lang it.parent.data.productionId (it.parent.kids.drop it.childIndex) it.si →
    it.parent.kids.length - it.childIndex < fuel →
    ∃ e vis, gotoDescendant.scan lang goal fuel it = some (e, vis) ∧ EntryOK lang it.parent base e ∧
      vis = (e.t.data.visible || (!e.t.data.extra && lang.aliasAt it.parent.data.productionId e.si != 0)) ∧
      e.descIdx ≤ goal ∧ goal < e.descIdx + (if vis then 1 else 0) + vdc e.t
  | 0, it, _, _, _, hf => by omega
  | fuel + 1, it, hok, hle, hlt, hf => by
    cases hc : it.parent.kids[it.childIndex]? with
    | none =>
      rw [drop_eq_nil_of_none _ _ hc] at hlt
      simp only [descBefore] at hlt
      omega
    | some c =>
      rw [drop_cons_of_getElem? _ _ _ hc] at hlt
      simp only [descBefore] at hlt
      unfold gotoDescendant.scan
      rw [iterNext_some lang it c hok.1 hc]
      simp only
      by_cases hgt : (nextIter lang it c).descIdx > goal
      · simp only [hgt, if_true]
        refine ⟨entryOf it c, visOf lang it c, rfl, entryOf_ok lang base it c hok hc, rfl, hle, ?_⟩
        simp only [nextIter] at hgt
        simp only [entryOf, visOf]
        by_cases hb : (c.data.visible || (!c.data.extra && lang.aliasAt it.parent.data.productionId it.si != 0)) = true
        · simp only [hb, ↓reduceIte] at hgt ⊢; omega
        · simp only [hb, ↓reduceIte] at hgt ⊢; omega
      · simp only [hgt, if_false]
        have hlen := lt_of_getElem?_some _ _ _ hc
        have ih := gdScan_spec lang goal base fuel (nextIter lang it c) (nextIter_ok lang base it c hok hc)
          (by
            simp only [nextIter] at hgt ⊢
            omega)
          (by
            simp only [nextIter_parent, nextIter_childIndex, nextIter_si]
            simp only [nextIter] at hgt ⊢
            by_cases hb : (c.data.visible || (!c.data.extra && lang.aliasAt it.parent.data.productionId it.si != 0)) = true
            · simp only [hb, ↓reduceIte] at hgt hlt ⊢; omega
            · simp only [hb, ↓reduceIte] at hgt hlt ⊢; omega)
          (by simp only [nextIter_parent, nextIter_childIndex]; omega)
        simpa [nextIter_parent] using ih


/-- What one child adds to the parent's `visible_descendant_count` is what the cursor's iterator adds
to its descendant index while passing it. -/
theorem childCounts_desc (lang : Lang) (pid si : Nat) (c : Tree) (ps : Option Nat)
    (hs : Summarized lang c) (hsh : shapeOK ps c = true) :
    (childCounts lang pid si c).2.2 =
      vdc c + (if (c.data.visible || (!c.data.extra && lang.aliasAt pid si != 0)) then 1 else 0) := by
  obtain ⟨cd, ck⟩ := c
  unfold Summarized at hs
  unfold shapeOK at hsh
  simp only [Bool.and_eq_true, Bool.or_eq_true, bne_iff_ne, ne_eq] at hsh
  have hend : cd.symbol = 0 → cd.extra = true := by
    intro h0
    rcases hsh.1.2 with h | h
    · exact absurd h0 h
    · exact h
  have hleaf : ck = [] → cd.visibleDescendantCount = 0 := fun h => (hs.1 h).2.2.2
  unfold childCounts aliasedAt vdc
  simp only [Tree.data, Tree.kids]
  by_cases hx : cd.extra = true
  · by_cases hv : cd.visible = true
    · cases ck with
      | nil => simp [hx, hv, hleaf rfl]
      | cons a b => simp [hx, hv]
    · cases ck with
      | nil => simp [hx, hv, hleaf rfl]
      | cons a b => simp [hx, hv]
  · have hs0 : cd.symbol ≠ 0 := fun h => hx (hend h)
    by_cases ha : lang.aliasAt pid si = 0
    · by_cases hv : cd.visible = true
      · cases ck with
        | nil => simp [hx, hv, ha, hleaf rfl]
        | cons a b => simp [hx, hv, ha]
      · cases ck with
        | nil => simp [hx, hv, ha, hleaf rfl]
        | cons a b => simp [hx, hv, ha]
    · cases ck with
      | nil => simp [hx, ha, hs0, hleaf rfl]
      | cons a b => simp [hx, ha, hs0]

theorem sumSI_desc (lang : Lang) (pid : Nat) : ∀ (kids : List Tree) (si : Nat) (ps : Option Nat),
    SummarizedL lang kids → shapeOKL ps kids = true →
    sumSI (fun si c => (childCounts lang pid si c).2.2) kids si = descBefore lang pid kids si
  | [], _, _, _, _ => rfl
  | c :: rest, si, ps, hs, hsh => by
    unfold SummarizedL at hs
    unfold shapeOKL at hsh
    simp only [Bool.and_eq_true] at hsh
    simp only [sumSI, descBefore]
    rw [childCounts_desc lang pid si c ps hs.1 hsh.1, sumSI_desc lang pid rest _ ps hs.2 hsh.2]

/-- In a summarized inner node the cached `visible_descendant_count` is the total the cursor's
iterator accumulates over all children. -/
theorem vdc_eq_descBefore (lang : Lang) (t : Tree) (ps : Option Nat) (hs : Summarized lang t) (hsh : shapeOK ps t = true) :
    vdc t = descBefore lang t.data.productionId t.kids 0 := by
  obtain ⟨d, kids⟩ := t
  unfold Summarized at hs
  unfold shapeOK at hsh
  simp only [Bool.and_eq_true] at hsh
  unfold vdc
  simp only [Tree.kids, Tree.data]
  cases hk : kids with
  | nil => simp [descBefore]
  | cons c rest =>
    have hne : kids ≠ [] := by simp [hk]
    have hn := hs.2.1 hne
    have hc := (summarize_counts_eq lang length_zero d kids).2.2
    rw [← hk]
    have : kids.isEmpty = false := by simp [hk]
    simp only [this, Bool.false_eq_true, if_false]
    rw [hn.2.2.2.2.2, hc, sumSI_desc lang d.productionId kids 0 (some d.symbol) hs.2.2 hsh.2]


theorem mem_of_getElem? {α : Type} (l : List α) (i : Nat) (c : α) (h : l[i]? = some c) : c ∈ l :=
  List.mem_of_getElem? h

/-- The descent of `ts_tree_cursor_goto_descendant`: from an entry whose subtree contains the goal
it ends on a VISIBLE entry whose descendant index is the goal, keeping the stack invariant. -/
theorem gdDescend_spec (lang : Lang) (goal : Nat) : ∀ (fuel : Nat) (top : Entry) (rest : List Entry) (ps : Option Nat),
    CursorInv lang (top :: rest) → Summarized lang top.t → shapeOK ps top.t = true →
    Contains lang goal top rest.head? → top.t.size ≤ fuel →
    CursorInv lang (gotoDescendant.descend lang goal fuel (top :: rest)) ∧
    ∃ e r, gotoDescendant.descend lang goal fuel (top :: rest) = e :: r ∧ e.descIdx = goal ∧
      isEntryVisible lang e r.head? = true
  | 0, top, _, _, _, _, _, _, hsz => by
    have := tree_size_pos top.t
    omega
  | fuel + 1, top, rest, ps, hinv, hs, hsh, hcont, hsz => by
    obtain ⟨hle, hlt⟩ := hcont
    unfold gotoDescendant.descend
    simp only
    -- the answer is `top` itself exactly when it is visible with index `goal`
    have hself : top.descIdx + (if isEntryVisible lang top rest.head? then 1 else 0) > goal →
        CursorInv lang (top :: rest) ∧ ∃ e r, top :: rest = e :: r ∧ e.descIdx = goal ∧ isEntryVisible lang e r.head? = true := by
      intro hgt
      refine ⟨hinv, top, rest, rfl, ?_, ?_⟩
      · cases hv : isEntryVisible lang top rest.head? with
        | true => simp only [hv, if_true] at hgt; omega
        | false => simp only [hv, Bool.false_eq_true, if_false] at hgt; omega
      · cases hv : isEntryVisible lang top rest.head? with
        | true => rfl
        | false => simp only [hv, Bool.false_eq_true, if_false] at hgt; omega
    by_cases hempty : top.t.kids.isEmpty = true
    · -- a leaf: `vdc = 0`, so it is the goal itself
      have hvdc : vdc top.t = 0 := by simp [vdc, hempty]
      rw [hvdc] at hlt
      have hit : (iterateChildren lang top rest.head?) = { valid := false, parent := top.t, pos := length_zero, childIndex := 0, si := 0, descIdx := 0 } := by
        unfold iterateChildren; simp [hempty]
      rw [hit]
      simp only
      by_cases hg : 0 > goal
      · omega
      · simp only [hg, if_false]
        have : gotoDescendant.scan lang goal (top.t.kids.length + 1) { valid := false, parent := top.t, pos := length_zero, childIndex := 0, si := 0, descIdx := 0 } = none := by
          unfold gotoDescendant.scan iterNext
          simp
        rw [this]
        exact hself (by omega)
    · have hne : top.t.kids.isEmpty = false := by simpa using hempty
      have hitok := iterateChildren_ok lang top rest.head? hne
      have hpar := iterateChildren_parent lang top rest.head?
      have hdi : (iterateChildren lang top rest.head?).descIdx = top.descIdx + (if isEntryVisible lang top rest.head? then 1 else 0) := by
        unfold iterateChildren; simp [hne]
      have hci : (iterateChildren lang top rest.head?).childIndex = 0 := by unfold iterateChildren; simp [hne]
      have hsi0 : (iterateChildren lang top rest.head?).si = 0 := by unfold iterateChildren; simp [hne]
      by_cases hgt : (iterateChildren lang top rest.head?).descIdx > goal
      · simp only [hgt, if_true]
        exact hself (by rw [← hdi]; exact hgt)
      · simp only [hgt, if_false]
        have htot := vdc_eq_descBefore lang top.t ps hs hsh
        obtain ⟨e, vis, hscan, heok, hvis, hele, helt⟩ := gdScan_spec lang goal _ (top.t.kids.length + 1) _ hitok (by omega)
          (by rw [hpar, hci, hsi0, hdi, List.drop_zero, ← htot]; omega)
          (by rw [hpar, hci]; omega)
        rw [hpar] at heok hvis
        rw [hscan]
        simp only
        have hev : isEntryVisible lang e (some top) = vis := by
          rw [isEntryVisible_eq, hvis]; rfl
        by_cases hstop : (vis && e.descIdx == goal) = true
        · simp only [hstop, if_true]
          simp only [Bool.and_eq_true, beq_iff_eq] at hstop
          refine ⟨⟨heok, hinv⟩, e, top :: rest, rfl, hstop.2, ?_⟩
          simp only [List.head?_cons]
          rw [hev]; exact hstop.1
        · simp only [hstop, Bool.false_eq_true, if_false]
          have hmem := mem_of_getElem? _ _ _ heok.1
          have hsumm : SummarizedL lang top.t.kids ∧ shapeOKL (some top.t.data.symbol) top.t.kids = true := by
            cases hpt : top.t with
            | mk pd pk =>
              rw [hpt] at hs hsh
              unfold Summarized at hs
              unfold shapeOK at hsh
              simp only [Bool.and_eq_true] at hsh
              exact ⟨hs.2.2, hsh.2⟩
          have hsz' : e.t.size ≤ fuel := by
            have := sizeList_mem top.t.kids e.t hmem
            cases hpt : top.t with
            | mk pd pk =>
              rw [hpt] at hsz this
              unfold Tree.size at hsz
              simp only [kids_mk] at this
              omega
          exact gdDescend_spec lang goal fuel e (top :: rest) (some top.t.data.symbol) ⟨heok, hinv⟩
            (summarized_of_mem lang _ e.t hsumm.1 hmem) (shapeOK_of_mem _ _ e.t hsumm.2 hmem)
            ⟨hele, by simp only [List.head?_cons, hev]; exact helt⟩ hsz'


/-- The cursor's root subtree contains the goal. -/
def bottomContains (lang : Lang) (goal : Nat) : List Entry → Prop
  | [] => False
  | [e] => Contains lang goal e none
  | _ :: p :: rest => bottomContains lang goal (p :: rest)

theorem stackOK_tail (lang : Lang) (e : Entry) (rest : List Entry) (h : StackOK lang (e :: rest)) : StackOK lang rest := by
  unfold StackOK at h; exact h.2.2.2

theorem ascend_spec (lang : Lang) (goal : Nat) : ∀ (stack : List Entry), CursorInv lang stack → StackOK lang stack →
    bottomContains lang goal stack →
    CursorInv lang (gotoDescendant.ascend lang goal stack) ∧ StackOK lang (gotoDescendant.ascend lang goal stack) ∧
    ∃ e r, gotoDescendant.ascend lang goal stack = e :: r ∧ Contains lang goal e r.head?
  | [], h, _, _ => by simp [CursorInv] at h
  | [e], hinv, hok, hb => by
    unfold gotoDescendant.ascend
    simp only [List.isEmpty_nil, if_true, ite_self]
    exact ⟨hinv, hok, e, [], rfl, hb⟩
  | e :: p :: rest, hinv, hok, hb => by
    unfold gotoDescendant.ascend
    simp only
    by_cases hc : (decide (e.descIdx ≤ goal) && decide (e.descIdx + (if isEntryVisible lang e (p :: rest).head? then 1 else 0) + vdc e.t > goal)) = true
    · simp only [hc, if_true]
      simp only [Bool.and_eq_true, decide_eq_true_eq] at hc
      exact ⟨hinv, hok, e, p :: rest, rfl, hc.1, hc.2⟩
    · simp only [hc, Bool.false_eq_true, if_false, List.isEmpty_cons]
      exact ascend_spec lang goal (p :: rest) hinv.2 (stackOK_tail lang e _ hok) hb

/-- `goto_descendant_spec`: on a cursor satisfying the invariant over summarized parser-shaped
subtrees, whose root subtree contains the visible node with preorder index `goal`, the port of
`ts_tree_cursor_goto_descendant(goal)` ends on a VISIBLE entry whose descendant index is `goal`,
and the stack invariant still holds. -/
theorem goto_descendant_spec (lang : Lang) (goal : Nat) (c : Cursor)
    (hinv : CursorInv lang c.stack) (hok : StackOK lang c.stack) (hb : bottomContains lang goal c.stack) :
    CursorInv lang (gotoDescendant lang goal c).stack ∧
    ∃ e r, (gotoDescendant lang goal c).stack = e :: r ∧ e.descIdx = goal ∧ isEntryVisible lang e r.head? = true := by
  obtain ⟨hinv', hok', e, r, hst, hcont⟩ := ascend_spec lang goal c.stack hinv hok hb
  unfold gotoDescendant
  simp only
  rw [hst]
  have hcb : (decide (e.descIdx ≤ goal) && decide (e.descIdx + (if isEntryVisible lang e r.head? then 1 else 0) + vdc e.t > goal)) = true := by
    simp only [Bool.and_eq_true, decide_eq_true_eq]
    exact ⟨hcont.1, hcont.2⟩
  simp only [hcb, Bool.not_true, Bool.false_eq_true, if_false]
  rw [hst] at hinv' hok'
  have hok'' := hok'
  unfold StackOK at hok''
  obtain ⟨hs, ⟨ps, hsh⟩, _, _⟩ := hok''
  exact gdDescend_spec lang goal (topSize (e :: r)) e r ps hinv' hs hsh hcont (by simp [topSize])

end TsVerif.C06

namespace TsVerif.C06

mutual
  theorem enumF_proj (lang : Lang) : ∀ (t : Tree) (outer : List (List Nat)),
      (enumF lang t outer).map (fun x => (x.1, x.2.1)) = enumChildren lang t
    | .mk d kids, outer => by unfold enumF enumChildren; exact enumKidsF_proj lang d.productionId kids 0 outer
  theorem enumKidsF_proj (lang : Lang) (pid : Nat) : ∀ (kids : List Tree) (si : Nat) (outer : List (List Nat)),
      (enumKidsF lang pid kids si outer).map (fun x => (x.1, x.2.1)) = enumKids lang pid kids si
    | [], _, _ => by simp [enumKidsF, enumKids]
    | c :: rest, si, outer => by
      unfold enumKidsF enumKids
      simp only [List.map_append]
      rw [enumKidsF_proj lang pid rest]
      by_cases h : (c.data.visible || (if c.data.extra then 0 else lang.aliasAt pid si) != 0) = true
      · simp [h]
      · simp only [h, Bool.false_eq_true, if_false]
        rw [enumF_proj lang c]
end

mutual
  /-- The children of a node of `flatten` carry exactly these chains (with the raw subtree and the
  alias): `flatten`'s `fields` is the chain `enumF` computes. -/
  theorem flattenAt_fields (lang : Lang) : ∀ (t : Tree) (pos : Length) (al id : Nat) (chain : List (List Nat)),
      (flattenAt lang t pos al id chain).map (fun v => (v.info.raw, v.info.alias, v.info.fields)) =
        (if t.data.visible || al != 0 then [(t, al, chain)] else enumF lang t chain)
    | .mk d kids, pos, al, id, chain => by
      unfold flattenAt enumF
      simp only [Tree.data]
      by_cases h : (d.visible || al != 0) = true
      · simp [h, VTree.info]
      · simp only [h, Bool.false_eq_true, if_false]
        exact flattenKids_fields lang kids pos d.productionId 0 0 d.addr kids.length chain
  theorem flattenKids_fields (lang : Lang) : ∀ (kids : List Tree) (cur : Length) (pid si i addr n : Nat)
      (outer : List (List Nat)),
      (flattenKids lang kids cur pid si i addr n outer).map (fun v => (v.info.raw, v.info.alias, v.info.fields)) =
        enumKidsF lang pid kids si outer
    | [], _, _, _, _, _, _, _ => by simp [flattenKids, enumKidsF]
    | c :: rest, cur, pid, si, i, addr, n, outer => by
      unfold flattenKids enumKidsF
      simp only [List.map_append]
      rw [flattenAt_fields lang c, flattenKids_fields lang rest]
end


theorem fieldFromLanguage_eq (lang : Lang) (n : NodeRef) (si : Nat) :
    fieldFromLanguage lang n si = (directFields lang n.t.data.productionId si).head? := by
  unfold fieldFromLanguage directFields
  rw [find_eq_head_filter]
  cases ((lang.fieldMap n.t.data.productionId).toList.filter fun m => !m.inherited && m.childIndex == si) <;> rfl

theorem match_firstSome (o b : Option Nat) : (match o with | some fn => some fn | none => b) = firstSome o b := by
  cases o <;> rfl

/-- What `field_name_for_child` reports for the `i`-th entry of the chained enumeration. -/
def fieldAt (l : List (Tree × Nat × List (List Nat))) (i : Nat) : Option Nat :=
  (l[i]?).bind fun x => chainField x.2.2

theorem fn_go_spec (lang : Lang) : ∀ (f : Nat) (result : NodeRef) (ci : Nat) (outer : List (List Nat)) (ps : Option Nat),
    Summarized lang result.t → shapeOK ps result.t = true →
    hiddenExtraOKKids lang result.t.kids result.t.data.productionId 0 = true → result.t.size ≤ f →
    fieldNameForChildPort.go lang true f result ci (chainField outer) = fieldAt (enumF lang result.t outer) ci
  | 0, result, _, _, _, _, _, _, hsz => by
    have := tree_size_pos result.t
    omega
  | f + 1, result, ci, outer, ps, hs, hsh, hx, hsz => by
    unfold fieldNameForChildPort.go
    cases hrt : result.t with
    | mk d kids =>
      rw [hrt] at hs hsh hx hsz
      unfold Summarized at hs
      unfold shapeOK at hsh
      simp only [Bool.and_eq_true] at hsh
      simp only [kids_mk, data_mk] at hx
      unfold rawChildren enumF
      simp only [hrt, kids_mk, data_mk]
      -- the scan over the raw children
      have scan : ∀ (ks : List Tree) (pos : Length) (si k index : Nat), index ≤ ci →
          SummarizedL lang ks → shapeOKL (some d.symbol) ks = true → hiddenExtraOKKids lang ks d.productionId si = true →
          Tree.sizeList ks ≤ f →
          fieldNameForChildPort.go.scan lang true result ci (chainField outer) f
            (rawChildren.go lang result d.productionId kids.length ks pos si k) index =
          fieldAt (enumKidsF lang d.productionId ks si outer) (ci - index) := by
        intro ks
        induction ks with
        | nil => intro pos si k index _ _ _ _ _; simp [rawChildren.go, fieldNameForChildPort.go.scan, enumKidsF, fieldAt]
        | cons c rest ih =>
          intro pos si k index hidx hsk hshk hxk hszk
          unfold SummarizedL at hsk
          unfold shapeOKL at hshk
          unfold hiddenExtraOKKids at hxk
          simp only [Bool.and_eq_true] at hshk hxk
          have hszc : c.size ≤ f := by unfold Tree.sizeList at hszk; omega
          have hszr : Tree.sizeList rest ≤ f := by unfold Tree.sizeList at hszk; omega
          unfold rawChildren.go fieldNameForChildPort.go.scan enumKidsF
          simp only [NodeRef.relevant, isRelevant, if_true, NodeRef.relChildCount]
          have hcnt := (summarize_counts lang c (some d.symbol) hsk.1 hshk.1).1
          have hlen : (enumF lang c (if c.data.extra then [] else directFields lang d.productionId si :: outer)).length =
              (enumChildren lang c).length := by rw [← enumF_proj lang c, List.length_map]
          by_cases hrel : (c.data.visible || (if c.data.extra then 0 else lang.aliasAt d.productionId si) != 0) = true
          · simp only [hrel, if_true]
            by_cases hi : index = ci
            · -- this child is the one asked for
              subst hi
              simp only [beq_self_eq_true, if_true, Nat.sub_self, fieldAt, List.cons_append, List.nil_append,
                List.getElem?_cons_zero, Option.bind_some]
              by_cases hex : c.data.extra = true
              · simp [hex, chainField]
              · have hex' : c.data.extra = false := by simpa using hex
                simp only [hex', Bool.false_eq_true, if_false]
                have hz : (si + 1 == 0) = false := by simp
                simp only [hz, Bool.false_eq_true, if_false, Nat.add_sub_cancel]
                rw [fieldFromLanguage_eq, hrt, data_mk, chainField_cons]
                generalize (directFields lang d.productionId si).head? = o
                cases o <;> rfl
            · have hne : (index == ci) = false := by simpa using hi
              simp only [hne, Bool.false_eq_true, if_false]
              rw [ih _ _ _ (index + 1) (by omega) hsk.2 hshk.2 hxk.2 hszr]
              simp only [fieldAt, List.cons_append, List.nil_append]
              have : ci - index = (ci - (index + 1)) + 1 := by omega
              rw [this, List.getElem?_cons_succ]
          · have hrel' : (c.data.visible || (if c.data.extra then 0 else lang.aliasAt d.productionId si) != 0) = false := by simpa using hrel
            simp only [hrel', Bool.false_eq_true, if_false]
            have hgc : relevantChildCount c true = (enumChildren lang c).length := by
              obtain ⟨cd, ck⟩ := c
              cases ck with
              | nil => simp [relevantChildCount, Tree.kids, enumChildren, enumKids]
              | cons x xs =>
                simp only [Tree.data] at hcnt
                simp [relevantChildCount, Tree.kids, Tree.data, hcnt]
            by_cases hin : ci - index < relevantChildCount c true
            · simp only [hin, if_true]
              -- descend into the hidden child; it is not extra (a hidden extra has no visible children)
              have hnx : c.data.extra = false := by
                cases hce : c.data.extra with
                | false => rfl
                | true =>
                  exfalso
                  obtain ⟨cd, ck⟩ := c
                  have h1 := hxk.1
                  unfold hiddenExtraOK at h1
                  simp only [Tree.data] at hce hrel'
                  simp only [hce, if_true] at hrel'
                  simp only [Bool.and_eq_true, hce, Bool.true_and] at h1
                  have hv0 : vcc (Tree.mk cd ck) = 0 := by
                    have h2 := h1.1
                    simp only [Tree.data, hce, if_true] at h2
                    have hvf : cd.visible = false := by simpa using hrel'
                    simpa [hvf] using h2
                  have : relevantChildCount (Tree.mk cd ck) true = 0 := by
                    unfold vcc at hv0
                    unfold relevantChildCount
                    cases ck with
                    | nil => simp [Tree.kids]
                    | cons a b => simpa [Tree.kids, Tree.data] using hv0
                  omega
              simp only [hnx, Bool.false_eq_true, if_false]
              have hsidx : (if (si + 1 == 0) = true then fieldNameForChildPort.u32maxN else si + 1 - 1) = si := by simp
              rw [hsidx, fieldFromLanguage_eq, hrt, data_mk]
              have hxc : hiddenExtraOKKids lang c.kids c.data.productionId 0 = true := by
                obtain ⟨cd, ck⟩ := c
                have h1 := hxk.1
                unfold hiddenExtraOK at h1
                simp only [Bool.and_eq_true] at h1
                simpa [Tree.kids, Tree.data] using h1.2
              have ihgo := fn_go_spec lang f
                { t := c, alias := lang.aliasAt d.productionId si, id := slotId d.addr kids.length k,
                  start := (if k > 0 then length_add pos c.data.padding else pos) }
                (ci - index) (directFields lang d.productionId si :: outer) (some d.symbol) hsk.1 hshk.1 hxc hszc
              rw [chainField_cons] at ihgo
              simp only [hnx, Bool.false_eq_true, if_false] at hlen
              generalize (directFields lang d.productionId si).head? = o at ihgo ⊢
              cases o with
              | none =>
                simp only [firstSome] at ihgo
                dsimp only
                rw [ihgo]
                simp only [fieldAt]
                rw [List.getElem?_append_left (by rw [hlen, ← hgc]; exact hin)]
              | some v =>
                simp only [firstSome] at ihgo
                dsimp only
                rw [ihgo]
                simp only [fieldAt]
                rw [List.getElem?_append_left (by rw [hlen, ← hgc]; exact hin)]
            · simp only [hin, if_false]
              rw [ih _ _ _ (index + relevantChildCount c true) (by omega) hsk.2 hshk.2 hxk.2 hszr]
              simp only [fieldAt]
              rw [List.getElem?_append_right (by rw [hlen, ← hgc]; omega), hlen, ← hgc]
              congr 2
              omega
      have hszk : Tree.sizeList kids ≤ f := by unfold Tree.size at hsz; omega
      have := scan kids result.start 0 0 0 (Nat.zero_le _) hs.2.2 hsh.2 hx hszk
      simpa using this


/-- `field_name_for_child_spec`: for every summarized parser-shaped subtree in which hidden extras
have no visible children, the port of `ts_node_field_name_for_child(self, i)` returns the field the
chain of the `i`-th child shows (`chainField`), where the chains are exactly the `fields` that
`flatten` records for the children of the node (`flattenKids_fields`). -/
theorem field_name_for_child_spec (lang : Lang) (self : NodeRef) (i fuel : Nat) (ps : Option Nat)
    (hs : Summarized lang self.t) (hsh : shapeOK ps self.t = true)
    (hx : hiddenExtraOKKids lang self.t.kids self.t.data.productionId 0 = true) (hf : self.t.size ≤ fuel) :
    fieldNameForChildPort lang fuel self i true = fieldAt (enumF lang self.t []) i := by
  unfold fieldNameForChildPort
  have := fn_go_spec lang fuel self i [] ps hs hsh hx hf
  simpa [chainField] using this

end TsVerif.C06

namespace TsVerif.C06
open TsGen TsVerif TsVerif.C02

/-! ## Non-vacuity: a real-shaped stack satisfies `StackOK`, and the theorems compute on it -/

/-- root(visible) → [leaf a, hidden h → [leaf b, leaf c], leaf d] built by the C02 port. -/
def cwLeaf : Tree := C02.demoLeaf 0 1
def cwHidden : Tree := C02.newNode C02.demoLang 3 [cwLeaf, cwLeaf] 0
def cwRoot : Tree := C02.newNode C02.demoLang 2 [cwLeaf, cwHidden, cwLeaf] 0

example : (enumChildren C02.demoLang cwRoot).length = 4 := by decide
example : (gotoChild C02.demoLang false 10 [{ t := cwRoot, id := 0, pos := length_zero }]).1 = true := by decide
example : shapeOK none cwRoot = true := by decide

end TsVerif.C06
