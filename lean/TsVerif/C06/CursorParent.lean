import TsVerif.C06.NodeProps
/-!
# C06 — `ts_tree_cursor_goto_parent` and `ts_tree_cursor_current_depth`

`gotoParent` pops the top entry and then every entry that is not a visible node of the tree (`isEntryVisible`; the
bottom entry — the cursor's root — always counts as visible).  Shown here, for every language and every stack:

* `goto_parent_spec` — it fails exactly on a one-entry stack; otherwise the new stack is the suffix of the old
  one that begins at the NEAREST entry below the top that is a visible node, everything popped in between is hidden;
* `HiddenOver`, `gotoChild_shape`, `goto_parent_undoes_child` — `goto_first_child` / `goto_last_child` push a run
  of hidden entries and one visible entry, so `goto_parent` after either of them restores the stack exactly
  (when the cursor stood on a visible node, which every successful move establishes: `TopVisible`);
* `depth_spec`, `depth_child`, `depth_parent` — the depth is the number of visible entries above the cursor's
  root; it grows by one with `goto_first/last_child` and shrinks by one with `goto_parent`;
* `gotoParent_preserves_inv` — `CursorInv` is kept.
-/
namespace TsVerif.C06
open TsGen TsVerif TsVerif.C02

/-- `pre` is a run of entries none of which is a visible node of the tree, relative to the entry below it in
`pre ++ stack`. -/
def HiddenOver (lang : Lang) : List Entry → List Entry → Prop
  | [], _ => True
  | h :: hs, stack => isEntryVisible lang h (hs ++ stack).head? = false ∧ HiddenOver lang hs stack

/-- The cursor stands on a visible node (or on its root). -/
def TopVisible (lang : Lang) : List Entry → Prop
  | [] => False
  | e :: rest => isEntryVisible lang e rest.head? = true

theorem hiddenOver_append (lang : Lang) : ∀ (a b stack : List Entry),
    HiddenOver lang a (b ++ stack) → HiddenOver lang b stack → HiddenOver lang (a ++ b) stack
  | [], _, _, _, hb => hb
  | h :: hs, b, stack, ha, hb => by
    simp only [List.cons_append, HiddenOver, List.append_assoc] at ha ⊢
    exact ⟨ha.1, hiddenOver_append lang hs b stack ha.2 hb⟩

theorem parentGo_skip (lang : Lang) : ∀ (hs stack : List Entry), HiddenOver lang hs stack →
    gotoParent.go lang (hs ++ stack) = gotoParent.go lang stack
  | [], _, _ => rfl
  | h :: hs, stack, hh => by
    simp only [HiddenOver] at hh
    simp only [List.cons_append, gotoParent.go, hh.1, Bool.false_eq_true, if_false]
    exact parentGo_skip lang hs stack hh.2

theorem parentGo_visible (lang : Lang) (stack : List Entry) (h : TopVisible lang stack) : gotoParent.go lang stack = some stack := by
  cases stack with
  | nil => exact absurd h (by simp [TopVisible])
  | cons e rest => simp only [TopVisible] at h; simp [gotoParent.go, h]

/-- The nearest visible entry of a non-empty stack exists (the bottom entry is visible by definition): the stack
splits into a hidden run and a suffix that begins with a visible entry, and the scan of `goto_parent` returns that suffix. -/
theorem parentGo_split (lang : Lang) : ∀ (stack : List Entry), stack ≠ [] →
    ∃ hs st, stack = hs ++ st ∧ HiddenOver lang hs st ∧ TopVisible lang st ∧ gotoParent.go lang stack = some st
  | [], h => absurd rfl h
  | [e], _ => ⟨[], [e], rfl, trivial, by simp [TopVisible, isEntryVisible], by simp [gotoParent.go, isEntryVisible]⟩
  | e :: p :: rest, _ => by
    by_cases hv : isEntryVisible lang e (some p) = true
    · exact ⟨[], e :: p :: rest, rfl, trivial, by simpa [TopVisible] using hv, by simp [gotoParent.go, hv]⟩
    · have hv' : isEntryVisible lang e (some p) = false := by simpa using hv
      obtain ⟨hs, st, e1, h1, h2, h3⟩ := parentGo_split lang (p :: rest) (by simp)
      refine ⟨e :: hs, st, by simp [e1], ?_, h2, ?_⟩
      · simp only [HiddenOver]
        refine ⟨?_, h1⟩
        rw [← e1]; simpa using hv'
      · simp only [gotoParent.go, List.head?_cons, hv', Bool.false_eq_true, if_false]
        exact h3

/-- **goto_parent_spec.**  For every language and every cursor: `ts_tree_cursor_goto_parent` fails (cursor
unchanged) exactly when the stack has at most one entry; otherwise it succeeds and the new stack is what remains of
the old one after popping the top entry and the run of hidden entries below it: it begins with the nearest entry
below the top that is a visible node of the tree (or with the cursor's root). -/
theorem goto_parent_spec (lang : Lang) (c : Cursor) :
    (c.stack.length ≤ 1 → gotoParent lang c = (false, c)) ∧
    (∀ top rest, c.stack = top :: rest → rest ≠ [] →
      ∃ hs st, rest = hs ++ st ∧ HiddenOver lang hs st ∧ TopVisible lang st ∧
        gotoParent lang c = (true, { c with stack := st })) := by
  constructor
  · intro h
    unfold gotoParent
    cases hc : c.stack with
    | nil => rfl
    | cons top rest =>
      have : rest = [] := by rw [hc] at h; cases rest <;> simp_all
      subst this
      simp [gotoParent.go]
  · intro top rest hc hne
    obtain ⟨hs, st, e1, h1, h2, h3⟩ := parentGo_split lang rest hne
    refine ⟨hs, st, e1, h1, h2, ?_⟩
    unfold gotoParent
    simp only [hc, h3]

/-! ## `goto_first_child` / `goto_last_child` push hidden entries and one visible entry -/

theorem iterNext_vis (lang : Lang) (it : Iter) (e : Entry) (vis : Bool) (it' : Iter) (p : Entry) (hp : it.parent = p.t)
    (h : iterNext lang it = some (e, vis, it')) : vis = isEntryVisible lang e (some p) ∧ it'.parent = it.parent := by
  cases hv : it.valid with
  | false => simp [iterNext, hv] at h
  | true =>
    cases hc : it.parent.kids[it.childIndex]? with
    | none => rw [iterNext_none lang it hc] at h; simp at h
    | some c =>
      rw [iterNext_some lang it c hv hc] at h
      simp only [Option.some.injEq, Prod.mk.injEq] at h
      obtain ⟨h1, h2, h3⟩ := h
      subst h1 h2 h3
      refine ⟨?_, rfl⟩
      simp only [visOf, isEntryVisible, entryOf, hp]
      cases c.data.visible <;> cases c.data.extra <;> simp

theorem firstGo_vis (lang : Lang) (p : Entry) : ∀ (fuel : Nat) (it : Iter), it.parent = p.t →
    ∀ e, ((firstChildInternal.go lang fuel it) = (.visible, some e) → isEntryVisible lang e (some p) = true) ∧
         ((firstChildInternal.go lang fuel it) = (.hidden, some e) → isEntryVisible lang e (some p) = false)
  | 0, it, _, e => by simp [firstChildInternal.go]
  | fuel + 1, it, hp, e => by
    unfold firstChildInternal.go
    cases hn : iterNext lang it with
    | none => simp
    | some r =>
      obtain ⟨e1, vis, it'⟩ := r
      obtain ⟨hvis, hpar⟩ := iterNext_vis lang it e1 vis it' p hp hn
      simp only
      by_cases hv : vis = true
      · simp only [hv, if_true, Prod.mk.injEq, Option.some.injEq, reduceCtorEq, false_and, false_implies, and_true, true_and]
        intro he; subst he; rw [← hvis]; exact hv
      · have hv' : vis = false := by simpa using hv
        simp only [hv', Bool.false_eq_true, if_false]
        by_cases hk : vcc e1.t > 0
        · simp only [hk, if_true, Prod.mk.injEq, Option.some.injEq, reduceCtorEq, false_and, false_implies, true_and]
          intro he; subst he; rw [← hvis]; exact hv'
        · simp only [hk, if_false]
          exact firstGo_vis lang p fuel it' (hpar.trans hp) e

/-- What a child step may return: a visible entry that IS visible relative to `p`, or a hidden one that is not. -/
def StepOK (lang : Lang) (p : Entry) (r : Step × Option Entry) : Prop :=
  ∀ e, (r = (.visible, some e) → isEntryVisible lang e (some p) = true) ∧
       (r = (.hidden, some e) → isEntryVisible lang e (some p) = false)

theorem stepOK_first (lang : Lang) (p : Entry) (fuel : Nat) (it : Iter) (hp : it.parent = p.t) :
    StepOK lang p (firstChildInternal.go lang fuel it) := fun e => firstGo_vis lang p fuel it hp e

theorem lastGo_vis (lang : Lang) (p : Entry) : ∀ (fuel : Nat) (it : Iter) (best : Step × Option Entry), it.parent = p.t →
    StepOK lang p best → StepOK lang p (lastChildInternal.go lang fuel it best)
  | 0, it, best, _, hb => by simpa [lastChildInternal.go] using hb
  | fuel + 1, it, best, hp, hb => by
    unfold lastChildInternal.go
    cases hn : iterNext lang it with
    | none => simpa using hb
    | some r =>
      obtain ⟨e1, vis, it'⟩ := r
      obtain ⟨hvis, hpar⟩ := iterNext_vis lang it e1 vis it' p hp hn
      simp only
      by_cases hv : vis = true
      · simp only [hv, if_true]
        apply lastGo_vis lang p fuel it' _ (hpar.trans hp)
        intro e
        simp only [Prod.mk.injEq, Option.some.injEq, reduceCtorEq, false_and, false_implies, and_true, true_and]
        intro he; subst he; rw [← hvis]; exact hv
      · have hv' : vis = false := by simpa using hv
        simp only [hv', Bool.false_eq_true, if_false]
        by_cases hk : vcc e1.t > 0
        · simp only [hk, if_true]
          apply lastGo_vis lang p fuel it' _ (hpar.trans hp)
          intro e
          simp only [Prod.mk.injEq, Option.some.injEq, reduceCtorEq, false_and, false_implies, true_and]
          intro he; subst he; rw [← hvis]; exact hv'
        · simp only [hk, if_false]
          exact lastGo_vis lang p fuel it' best (hpar.trans hp) hb

theorem stepOK_child (lang : Lang) (last : Bool) (top : Entry) (p? : Option Entry) :
    StepOK lang top (if last then lastChildInternal lang top p? else firstChildInternal lang top p?) := by
  cases last with
  | false =>
    simp only [Bool.false_eq_true, if_false, firstChildInternal]
    exact stepOK_first lang top _ _ (iterateChildren_parent lang top p?)
  | true =>
    simp only [if_true, lastChildInternal]
    exact lastGo_vis lang top _ _ _ (iterateChildren_parent lang top p?) (by intro e; simp)

/-- **gotoChild_shape.**  A successful `goto_first_child` / `goto_last_child` leaves the old stack in place and
pushes a run of entries that are not visible nodes, then one that is. -/
theorem gotoChild_shape (lang : Lang) (last : Bool) : ∀ (fuel : Nat) (stack : List Entry),
    (gotoChild lang last fuel stack).1 = true →
    ∃ e hs, (gotoChild lang last fuel stack).2 = e :: (hs ++ stack) ∧ HiddenOver lang hs stack ∧
      isEntryVisible lang e (hs ++ stack).head? = true
  | 0, stack, h => by simp [gotoChild] at h
  | fuel + 1, [], h => by simp [gotoChild] at h
  | fuel + 1, top :: rest, h => by
    unfold gotoChild at h ⊢
    simp only at h ⊢
    have hok := stepOK_child lang last top rest.head?
    generalize (if last then lastChildInternal lang top rest.head? else firstChildInternal lang top rest.head?) = r at h hok ⊢
    obtain ⟨st, eo⟩ := r
    cases st with
    | none => simp at h
    | visible =>
      cases eo with
      | none => simp at h
      | some e =>
        refine ⟨e, [], by simp, trivial, ?_⟩
        simpa using (hok e).1 rfl
    | hidden =>
      cases eo with
      | none => simp at h
      | some e =>
        simp only at h ⊢
        obtain ⟨e', hs, h1, h2, h3⟩ := gotoChild_shape lang last fuel (e :: top :: rest) h
        refine ⟨e', hs ++ [e], by simpa using h1, ?_, by simpa using h3⟩
        apply hiddenOver_append
        · simpa using h2
        · simp only [HiddenOver, List.nil_append, List.head?_cons, and_true]
          exact (hok e).2 rfl

/-- `goto_parent` of a stack that consists of a visible entry pushed over a hidden run over `stack`. -/
theorem gotoParent_over (lang : Lang) (c : Cursor) (e : Entry) (hs stack : List Entry)
    (hh : HiddenOver lang hs stack) (hv : TopVisible lang stack) :
    gotoParent lang { c with stack := e :: (hs ++ stack) } = (true, { c with stack := stack }) := by
  unfold gotoParent
  simp only [parentGo_skip lang hs stack hh, parentGo_visible lang stack hv]

/-- **goto_parent_undoes_child.**  From a cursor that stands on a visible node (or its root), a successful
`goto_first_child` or `goto_last_child` followed by `goto_parent` restores the cursor exactly — the stack entry
for entry, so node, position, descendant index, field and depth are the old ones. -/
theorem goto_parent_undoes_child (lang : Lang) (last : Bool) (c : Cursor) (fuel : Nat) (hv : TopVisible lang c.stack)
    (h : (gotoChild lang last fuel c.stack).1 = true) :
    gotoParent lang { c with stack := (gotoChild lang last fuel c.stack).2 } = (true, c) ∧
    TopVisible lang (gotoChild lang last fuel c.stack).2 := by
  obtain ⟨e, hs, h1, h2, h3⟩ := gotoChild_shape lang last fuel c.stack h
  rw [h1]
  exact ⟨gotoParent_over lang c e hs c.stack h2 hv, by simpa [TopVisible] using h3⟩

/-- After a successful `goto_parent` the cursor stands on a visible node (or its root). -/
theorem gotoParent_topVisible (lang : Lang) (c : Cursor) (h : (gotoParent lang c).1 = true) :
    TopVisible lang (gotoParent lang c).2.stack := by
  cases hc : c.stack with
  | nil => simp [gotoParent, hc] at h
  | cons top rest =>
    cases rest with
    | nil => simp [gotoParent, hc, gotoParent.go] at h
    | cons p r =>
      obtain ⟨hs, st, _, _, h2, h3⟩ := (goto_parent_spec lang c).2 top (p :: r) hc (by simp)
      rw [h3]; exact h2

/-! ## Depth -/

/-- Number of entries above the cursor's root that are visible nodes. -/
def visibleAbove (lang : Lang) : List Entry → Nat
  | [] => 0
  | [_] => 0
  | e :: p :: rest => (if isEntryVisible lang e (some p) then 1 else 0) + visibleAbove lang (p :: rest)

/-- **depth_spec.**  `ts_tree_cursor_current_depth` = number of stack entries above the cursor's root that are
visible nodes of the tree (the node itself included, the root excluded). -/
theorem depth_spec (lang : Lang) (c : Cursor) : currentDepth lang c = visibleAbove lang c.stack := by
  unfold currentDepth
  generalize c.stack = st
  induction st with
  | nil => rfl
  | cons e rest ih =>
    cases rest with
    | nil => rfl
    | cons p r => simp only [currentDepth.go, visibleAbove, ih]

theorem visibleAbove_hidden (lang : Lang) : ∀ (hs stack : List Entry), stack ≠ [] → HiddenOver lang hs stack →
    visibleAbove lang (hs ++ stack) = visibleAbove lang stack
  | [], _, _, _ => rfl
  | h :: hs, stack, hne, hh => by
    simp only [HiddenOver] at hh
    have ih := visibleAbove_hidden lang hs stack hne hh.2
    cases hx : hs ++ stack with
    | nil => simp at hx; exact absurd hx.2 hne
    | cons p r =>
      rw [hx] at hh ih
      simp only [List.cons_append, hx, visibleAbove, List.head?_cons] at hh ⊢
      simp [hh.1, ih]

/-- **depth_child.**  A successful `goto_first_child` / `goto_last_child` increases the depth by exactly one,
however many hidden levels it passes. -/
theorem depth_child (lang : Lang) (last : Bool) (c : Cursor) (fuel : Nat)
    (h : (gotoChild lang last fuel c.stack).1 = true) :
    currentDepth lang { c with stack := (gotoChild lang last fuel c.stack).2 } = currentDepth lang c + 1 := by
  obtain ⟨e, hs, h1, h2, h3⟩ := gotoChild_shape lang last fuel c.stack h
  have hne : c.stack ≠ [] := by
    intro h0; rw [h0] at h; cases fuel <;> simp [gotoChild] at h
  rw [depth_spec, depth_spec, h1]
  cases hx : hs ++ c.stack with
  | nil => simp at hx; exact absurd hx.2 hne
  | cons p r =>
    rw [hx] at h3
    simp only [visibleAbove, List.head?_cons] at h3 ⊢
    rw [h3, ← hx, visibleAbove_hidden lang hs c.stack hne h2]
    simp; omega

/-- **depth_parent.**  From a visible node, a successful `goto_parent` decreases the depth by exactly one. -/
theorem depth_parent (lang : Lang) (c : Cursor) (hv : TopVisible lang c.stack) (h : (gotoParent lang c).1 = true) :
    currentDepth lang (gotoParent lang c).2 + 1 = currentDepth lang c := by
  cases hc : c.stack with
  | nil => simp [gotoParent, hc] at h
  | cons top rest =>
    cases rest with
    | nil => simp [gotoParent, hc, gotoParent.go] at h
    | cons p r =>
      obtain ⟨hs, st, e1, h1, h2, h3⟩ := (goto_parent_spec lang c).2 top (p :: r) hc (by simp)
      have hst : st ≠ [] := by intro h0; rw [h0] at h2; exact h2
      rw [h3, depth_spec, depth_spec, hc]
      simp only [TopVisible, hc, List.head?_cons] at hv
      simp only [visibleAbove, hv, if_true, e1, visibleAbove_hidden lang hs st hst h1]
      omega

/-! ## The invariant -/

theorem cursorInv_tail (lang : Lang) : ∀ (e : Entry) (rest : List Entry), rest ≠ [] → CursorInv lang (e :: rest) → CursorInv lang rest
  | _, [], h, _ => absurd rfl h
  | _, p :: r, _, hi => by unfold CursorInv at hi; exact hi.2

theorem cursorInv_suffix (lang : Lang) : ∀ (hs st : List Entry), st ≠ [] → CursorInv lang (hs ++ st) → CursorInv lang st
  | [], _, _, h => h
  | h :: hs, st, hne, hi => by
    have : hs ++ st ≠ [] := by simp [hne]
    exact cursorInv_suffix lang hs st hne (cursorInv_tail lang h (hs ++ st) this hi)

/-- **gotoParent_preserves_inv.** -/
theorem gotoParent_preserves_inv (lang : Lang) (c : Cursor) (hi : CursorInv lang c.stack) :
    CursorInv lang (gotoParent lang c).2.stack := by
  cases hc : c.stack with
  | nil => rw [hc] at hi; exact absurd hi (by simp [CursorInv])
  | cons top rest =>
    cases rest with
    | nil => rw [(goto_parent_spec lang c).1 (by simp [hc])]; exact hi
    | cons p r =>
      obtain ⟨hs, st, e1, h1, h2, h3⟩ := (goto_parent_spec lang c).2 top (p :: r) hc (by simp)
      have hst : st ≠ [] := by intro h0; rw [h0] at h2; exact h2
      rw [h3]
      rw [hc] at hi
      have := cursorInv_tail lang top (p :: r) (by simp) hi
      rw [e1] at this
      exact cursorInv_suffix lang hs st hst this

/-! ## The cursor's parent is `ts_node_parent`'s parent

The stack (top first) of a cursor, read from the bottom, is a path of raw child indices from the cursor's root
to the node shown.  `ts_node_parent` is specified on such paths (`parent_spec_partial`, `parent_spec_empty`:
its answer is `parentOnPath`).  Here: the node `goto_parent` shows is `parentOnPath` of the stack's path. -/

/-- The alias the entry `e` gets from its parent entry `p`. -/
def entryAlias (lang : Lang) (e p : Entry) : Nat := if e.t.data.extra then 0 else lang.aliasAt p.t.data.productionId e.si

/-- A root-first chain of entries below `p`: each is the raw child of the one before at its recorded index, with
the structural index the forward iterator gives it (`StackOK` linkage + `IdxOK`, read from the bottom). -/
def ChainOK : Entry → List Entry → Prop
  | _, [] => True
  | p, e :: rest => p.t.kids[e.childIndex]? = some e.t ∧ e.si = siAfter (p.t.kids.take e.childIndex) 0 ∧ ChainOK e rest

/-- (subtree, alias) of the LAST entry of the chain that is a visible node, `best` if there is none. -/
def lastVisAll (lang : Lang) (best : Tree × Nat) : Entry → List Entry → Tree × Nat
  | _, [] => best
  | p, e :: rest => lastVisAll lang (if visEntry lang e p then (e.t, entryAlias lang e p) else best) e rest

/-- the raw child of `n` at the index of the chain's entry IS that entry (same subtree, same alias, same relevance) -/
theorem rawChildAt_entry (lang : Lang) (n : NodeRef) (p e : Entry) (hn : n.t = p.t)
    (hk : p.t.kids[e.childIndex]? = some e.t) (hsi : e.si = siAfter (p.t.kids.take e.childIndex) 0) :
    ∃ c, rawChildAt lang n e.childIndex = some c ∧ c.t = e.t ∧ c.alias = entryAlias lang e p ∧
      c.relevant lang true = visEntry lang e p := by
  have hlen : e.childIndex < (rawChildren lang n).length := by
    rw [rawChildren_length, hn]; exact lt_of_getElem?_some _ _ _ hk
  obtain ⟨rc, hrc⟩ : ∃ rc, (rawChildren lang n)[e.childIndex]? = some rc := ⟨_, List.getElem?_eq_getElem hlen⟩
  have hrc2 := hrc
  simp only [rawChildren] at hrc2
  have he := go_elem lang _ _ _ _ _ _ _ e.childIndex rc hrc2
  have hs := go_si lang _ _ _ _ _ _ _ e.childIndex rc hrc2
  rw [hn] at he hs
  have ht : rc.node.t = e.t := by
    have := he.2.2; rw [hk] at this; exact (Option.some.inj this).symm
  have hsi' : rc.si = e.si := by rw [hs.1, hsi]
  have hal : rc.node.alias = entryAlias lang e p := by
    rw [hs.2, hsi', ht]; rfl
  refine ⟨rc.node, by simp [rawChildAt, hrc], ht, hal, ?_⟩
  simp only [NodeRef.relevant, isRelevant, if_true, hal, ht, visEntry, entryAlias]
  cases e.t.data.visible <;> cases e.t.data.extra <;> simp

/-- `parentOnPath` along the chain, root first: the last visible entry before the chain's final entry. -/
theorem parentOnPath_chain (lang : Lang) : ∀ (es : List Entry) (x : Entry) (p : Entry) (n best : NodeRef), n.t = p.t →
    ChainOK p (es ++ [x]) →
    ((parentOnPath lang best n ((es ++ [x]).map (·.childIndex))).t, (parentOnPath lang best n ((es ++ [x]).map (·.childIndex))).alias) =
      lastVisAll lang (best.t, best.alias) p es
  | [], x, p, n, best, _, _ => by simp [parentOnPath, lastVisAll]
  | e :: rest, x, p, n, best, hn, hc => by
    simp only [List.cons_append, ChainOK] at hc
    obtain ⟨c, h1, h2, h3, h4⟩ := rawChildAt_entry lang n p e hn hc.1 hc.2.1
    have hmap : ((e :: rest) ++ [x]).map (·.childIndex) = e.childIndex :: (rest ++ [x]).map (·.childIndex) := by simp
    rw [hmap]
    cases hr : (rest ++ [x]).map (·.childIndex) with
    | nil => simp at hr
    | cons k' tl =>
      simp only [parentOnPath, h1, lastVisAll]
      rw [← hr]
      have ih := parentOnPath_chain lang rest x e c (if c.relevant lang true then c else best) h2 hc.2.2
      rw [ih, h4]
      by_cases hv : visEntry lang e p = true
      · simp [hv, h2, h3]
      · have hv' : visEntry lang e p = false := by simpa using hv
        simp [hv']

theorem lastVisAll_snoc (lang : Lang) : ∀ (es : List Entry) (y : Entry) (best : Tree × Nat) (p : Entry),
    lastVisAll lang best p (es ++ [y]) =
      (if visEntry lang y ((p :: es).getLast (by simp)) then (y.t, entryAlias lang y ((p :: es).getLast (by simp)))
       else lastVisAll lang best p es)
  | [], y, best, p => by simp [lastVisAll]; rfl
  | e :: rest, y, best, p => by
    simp only [List.cons_append, lastVisAll]
    rw [lastVisAll_snoc lang rest y _ e]
    simp only [List.getLast_cons (List.cons_ne_nil e rest)]

/-- The node a stack shows: subtree of the top entry with the alias its parent entry (or the cursor, for the root) gives it. -/
def shown (lang : Lang) (rootAlias : Nat) : List Entry → Tree × Nat
  | [] => (default, 0)
  | [r] => (r.t, rootAlias)
  | e :: p :: _ => (e.t, entryAlias lang e p)

theorem head_rev_snoc (r : Entry) (es : List Entry) : (es.reverse ++ [r]).head? = some ((r :: es).getLast (by simp)) := by
  cases h : es.getLast? with
  | none =>
    have : es = [] := List.getLast?_eq_none_iff.mp h
    subst this; simp
  | some q =>
    have hne : es ≠ [] := by intro h0; subst h0; simp at h
    rw [List.head?_append, List.head?_reverse, h]
    simp only [Option.some_or, Option.some.injEq]
    rw [List.getLast_cons hne]
    exact (List.getLast_eq_iff_getLast?_eq_some hne).mpr h |>.symm

/-- The scan of `goto_parent` over a stack given root-first as `r :: es` (top-first: `es.reverse ++ [r]`) stops at
the last visible entry of the chain; the node shown there is `lastVisAll`. -/
theorem parentGo_chain (lang : Lang) (rootAlias : Nat) (r : Entry) : ∀ (n : Nat) (es : List Entry), es.length = n →
    ∃ st, gotoParent.go lang (es.reverse ++ [r]) = some st ∧ shown lang rootAlias st = lastVisAll lang (r.t, rootAlias) r es
  | 0, es, h => by
    have : es = [] := List.length_eq_zero_iff.mp h
    subst this
    exact ⟨[r], by simp [gotoParent.go, isEntryVisible], by simp [shown, lastVisAll]⟩
  | n + 1, es, h => by
    have hne : es ≠ [] := by intro h0; subst h0; simp at h
    obtain ⟨es', y, rfl⟩ : ∃ es' y, es = es' ++ [y] := ⟨es.dropLast, es.getLast hne, (List.dropLast_concat_getLast hne).symm⟩
    have hl : es'.length = n := by simpa using h
    obtain ⟨st, h1, h2⟩ := parentGo_chain lang rootAlias r n es' hl
    have hrev : (es' ++ [y]).reverse ++ [r] = y :: (es'.reverse ++ [r]) := by simp
    rw [hrev, lastVisAll_snoc]
    have hh := head_rev_snoc r es'
    obtain ⟨q, tl, hq⟩ : ∃ q tl, es'.reverse ++ [r] = q :: tl := by
      cases hx : es'.reverse ++ [r] with
      | nil => simp at hx
      | cons q tl => exact ⟨q, tl, rfl⟩
    have hqeq : q = (r :: es').getLast (by simp) := by
      rw [hq] at hh; simpa using hh
    simp only [gotoParent.go, hq, List.head?_cons, isEntryVisible_eq]
    rw [← hqeq]
    by_cases hv : visEntry lang y q = true
    · simp only [hv, if_true]
      exact ⟨_, rfl, by simp [shown]⟩
    · have hv' : visEntry lang y q = false := by simpa using hv
      simp only [hv', Bool.false_eq_true, if_false]
      rw [hq] at h1
      exact ⟨st, h1, h2⟩

/-- **cursor_parent_is_parentOnPath.**  Let the cursor's stack, read from the bottom, be the chain `r :: es ++ [x]`
(`x` = the entry shown, `es` the entries between it and the cursor's root `r`; `ChainOK` = linkage and structural
indices, which `CursorInv` provides) and let `root` be the cursor's root as a `TSNode` (same subtree, alias
`rootAlias`).  Then `ts_tree_cursor_goto_parent` succeeds and shows exactly the node that `parentOnPath` — the
specification of `ts_node_parent` (`parent_spec_partial`, `parent_spec_empty`) — designates for the path of child
indices from the root to `x`: same subtree, same alias. -/
theorem cursor_parent_is_parentOnPath (lang : Lang) (c : Cursor) (r x : Entry) (es : List Entry) (root : NodeRef)
    (hstack : c.stack = x :: (es.reverse ++ [r])) (hroot : root.t = r.t) (hal : root.alias = c.rootAlias)
    (hc : ChainOK r (es ++ [x])) :
    (gotoParent lang c).1 = true ∧
    shown lang c.rootAlias (gotoParent lang c).2.stack =
      ((parentOnPath lang root root ((es ++ [x]).map (·.childIndex))).t,
       (parentOnPath lang root root ((es ++ [x]).map (·.childIndex))).alias) := by
  obtain ⟨st, h1, h2⟩ := parentGo_chain lang c.rootAlias r es.length es rfl
  have hp := parentOnPath_chain lang es x r root root hroot hc
  unfold gotoParent
  simp only [hstack, h1, true_and]
  rw [h2, hp, hroot, hal]

/-- Linkage + structural indices of a stack, top first (what `CursorInv` says without the descendant indices). -/
def Linked : List Entry → Prop
  | e :: p :: rest => (p.t.kids[e.childIndex]? = some e.t ∧ e.si = siAfter (p.t.kids.take e.childIndex) 0) ∧ Linked (p :: rest)
  | _ => True

theorem linked_of_inv (lang : Lang) : ∀ (stack : List Entry), CursorInv lang stack → Linked stack
  | [], _ => trivial
  | [_], _ => trivial
  | e :: p :: rest, h => by
    unfold CursorInv at h
    exact ⟨⟨h.1.1, h.1.2.1⟩, linked_of_inv lang (p :: rest) h.2⟩

theorem linked_snoc : ∀ (l : List Entry) (q r : Entry), Linked (l ++ [q, r]) →
    Linked (l ++ [q]) ∧ r.t.kids[q.childIndex]? = some q.t ∧ q.si = siAfter (r.t.kids.take q.childIndex) 0
  | [], q, r, h => by simp only [List.nil_append, Linked] at h ⊢; exact ⟨trivial, h.1.1, h.1.2⟩
  | [e], q, r, h => by
    simp only [List.cons_append, List.nil_append, Linked] at h ⊢
    exact ⟨⟨h.1, trivial⟩, h.2.1.1, h.2.1.2⟩
  | e :: p :: l, q, r, h => by
    simp only [List.cons_append, Linked] at h ⊢
    have ih := linked_snoc (p :: l) q r (by simpa using h.2)
    exact ⟨⟨h.1, by simpa using ih.1⟩, ih.2⟩

theorem chainOK_of_linked : ∀ (es : List Entry) (r x : Entry), Linked (x :: (es.reverse ++ [r])) → ChainOK r (es ++ [x])
  | [], r, x, h => by
    simp only [List.reverse_nil, List.nil_append, Linked] at h
    simp only [List.nil_append, ChainOK]
    exact ⟨h.1.1, h.1.2, trivial⟩
  | e1 :: rest, r, x, h => by
    have hs : x :: ((e1 :: rest).reverse ++ [r]) = (x :: rest.reverse) ++ [e1, r] := by simp
    rw [hs] at h
    obtain ⟨h1, h2, h3⟩ := linked_snoc (x :: rest.reverse) e1 r h
    simp only [List.cons_append, ChainOK]
    exact ⟨h2, h3, chainOK_of_linked rest e1 x (by simpa using h1)⟩

/-- `cursor_parent_is_parentOnPath` from the cursor invariant. -/
theorem cursor_parent_is_parentOnPath_inv (lang : Lang) (c : Cursor) (r x : Entry) (es : List Entry) (root : NodeRef)
    (hstack : c.stack = x :: (es.reverse ++ [r])) (hroot : root.t = r.t) (hal : root.alias = c.rootAlias)
    (hi : CursorInv lang c.stack) :
    (gotoParent lang c).1 = true ∧
    shown lang c.rootAlias (gotoParent lang c).2.stack =
      ((parentOnPath lang root root ((es ++ [x]).map (·.childIndex))).t,
       (parentOnPath lang root root ((es ++ [x]).map (·.childIndex))).alias) :=
  cursor_parent_is_parentOnPath lang c r x es root hstack hroot hal
    (chainOK_of_linked es r x (by rw [← hstack]; exact linked_of_inv lang c.stack hi))

/-! ## Non-vacuity: `cwRoot` = rule[tok, _hidden[tok, tok], tok]; the cursor on the first token inside the hidden node -/

def cpRootE : Entry := { t := cwRoot, id := 1, pos := length_zero }
def cpHiddenE : Entry := { t := cwHidden, id := 2, pos := length_zero, childIndex := 1, si := 1, descIdx := 2 }
def cpLeafE : Entry := { t := cwLeaf, id := 3, pos := length_zero, childIndex := 0, si := 0, descIdx := 2 }
def cpCursor : Cursor := { stack := [cpLeafE, cpHiddenE, cpRootE] }

example : HiddenOver C02.demoLang [cpHiddenE] [cpRootE] ∧ TopVisible C02.demoLang [cpRootE] ∧ TopVisible C02.demoLang cpCursor.stack := by
  refine ⟨⟨by decide, trivial⟩, by simp [TopVisible, isEntryVisible], ?_⟩
  show isEntryVisible C02.demoLang cpLeafE (some cpHiddenE) = true
  decide
example : (gotoParent C02.demoLang cpCursor).1 = true ∧ ((gotoParent C02.demoLang cpCursor).2.stack.map (·.id)) = [1] ∧
    currentDepth C02.demoLang cpCursor = 1 ∧ currentDepth C02.demoLang (gotoParent C02.demoLang cpCursor).2 = 0 := by decide
example : ChainOK cpRootE ([cpHiddenE] ++ [cpLeafE]) := by
  simp only [List.cons_append, List.nil_append, ChainOK]
  exact ⟨rfl, by decide, rfl, by decide, trivial⟩

/-! ## `goto_next_sibling` keeps the parent and the depth -/

/-- Shape of what the forward `gotoSiblingInternal` returns: it pops the top entry and a run of hidden entries
(a visible one below the original top ends the search), then pushes one sibling entry. -/
theorem next_internal_shape (lang : Lang) (initialSize : Nat) : ∀ (stack : List Entry), Linked stack →
    stack.length ≤ initialSize →
    (gotoSiblingInternal lang (iterNext lang) initialSize stack).1 ≠ Step.none →
    ∃ t hs below e, stack = t :: (hs ++ below) ∧ below ≠ [] ∧ HiddenOver lang hs below ∧
      (stack.length < initialSize → isEntryVisible lang t (hs ++ below).head? = false) ∧
      (gotoSiblingInternal lang (iterNext lang) initialSize stack).2 = e :: below ∧
      ((gotoSiblingInternal lang (iterNext lang) initialSize stack).1 = Step.visible → isEntryVisible lang e below.head? = true) ∧
      ((gotoSiblingInternal lang (iterNext lang) initialSize stack).1 = Step.hidden → isEntryVisible lang e below.head? = false)
  | [], _, _, hne => by simp [gotoSiblingInternal] at hne
  | [e], _, _, hne => by simp [gotoSiblingInternal] at hne
  | entry :: parent :: rest, hl, hlen, hne => by
    obtain ⟨⟨hchild, hsi⟩, hlrest⟩ := hl
    have hkne : parent.t.kids.isEmpty = false := by
      cases hk : parent.t.kids with
      | nil => rw [hk] at hchild; simp at hchild
      | cons a b => rfl
    have hpar := iterateChildren_parent lang parent rest.head?
    have hval : (iterateChildren lang parent rest.head?).valid = true := by
      unfold iterateChildren; simp [hkne]
    have hc' : ({ valid := (iterateChildren lang parent rest.head?).valid, parent := (iterateChildren lang parent rest.head?).parent, pos := entry.pos, childIndex := entry.childIndex, si := entry.si, descIdx := entry.descIdx } : Iter).parent.kids[({ valid := (iterateChildren lang parent rest.head?).valid, parent := (iterateChildren lang parent rest.head?).parent, pos := entry.pos, childIndex := entry.childIndex, si := entry.si, descIdx := entry.descIdx } : Iter).childIndex]? = some entry.t := by
      simp only [hpar]; exact hchild
    have hpar' : ({ valid := (iterateChildren lang parent rest.head?).valid, parent := (iterateChildren lang parent rest.head?).parent, pos := entry.pos, childIndex := entry.childIndex, si := entry.si, descIdx := entry.descIdx } : Iter).parent = parent.t := hpar
    have hsi' : ({ valid := (iterateChildren lang parent rest.head?).valid, parent := (iterateChildren lang parent rest.head?).parent, pos := entry.pos, childIndex := entry.childIndex, si := entry.si, descIdx := entry.descIdx } : Iter).si = entry.si := rfl
    have hval' : ({ valid := (iterateChildren lang parent rest.head?).valid, parent := (iterateChildren lang parent rest.head?).parent, pos := entry.pos, childIndex := entry.childIndex, si := entry.si, descIdx := entry.descIdx } : Iter).valid = true := hval
    unfold gotoSiblingInternal at hne ⊢
    dsimp only at hne ⊢
    generalize ({ valid := (iterateChildren lang parent rest.head?).valid, parent := (iterateChildren lang parent rest.head?).parent, pos := entry.pos, childIndex := entry.childIndex, si := entry.si, descIdx := entry.descIdx } : Iter) = itx at hc' hpar' hsi' hval' hne ⊢
    rw [iterNext_some lang itx entry.t hval' hc'] at hne ⊢
    dsimp only at hne ⊢
    have hvis : visOf lang itx entry.t = isEntryVisible lang entry (some parent) := by
      rw [visOf_eq lang itx entry parent hpar' hsi', isEntryVisible_eq]
    by_cases hbr : (visOf lang itx entry.t && decide ((parent :: rest).length + 1 < initialSize)) = true
    · rw [if_pos hbr] at hne; exact absurd rfl hne
    · rw [if_neg hbr] at hne ⊢
      have hentryHidden : (entry :: parent :: rest).length < initialSize → isEntryVisible lang entry (some parent) = false := by
        intro hlt
        rw [← hvis]
        cases hv : visOf lang itx entry.t with
        | false => rfl
        | true =>
          exfalso; apply hbr
          simp only [hv, Bool.true_and, decide_eq_true_eq]
          simpa using hlt
      rw [scanSiblings_eq] at hne ⊢
      have hstep := stepOK_first lang parent (parent.t.kids.length + 2) (nextIter lang itx entry.t) (by rw [nextIter_parent]; exact hpar')
      generalize firstChildInternal.go lang (parent.t.kids.length + 2) (nextIter lang itx entry.t) = r at hstep hne ⊢
      obtain ⟨step, eo⟩ := r
      have hrec : (gotoSiblingInternal lang (iterNext lang) initialSize (parent :: rest)).1 ≠ Step.none →
          ∃ t hs below e, entry :: parent :: rest = t :: (hs ++ below) ∧ below ≠ [] ∧ HiddenOver lang hs below ∧
            ((entry :: parent :: rest).length < initialSize → isEntryVisible lang t (hs ++ below).head? = false) ∧
            (gotoSiblingInternal lang (iterNext lang) initialSize (parent :: rest)).2 = e :: below ∧
            ((gotoSiblingInternal lang (iterNext lang) initialSize (parent :: rest)).1 = Step.visible → isEntryVisible lang e below.head? = true) ∧
            ((gotoSiblingInternal lang (iterNext lang) initialSize (parent :: rest)).1 = Step.hidden → isEntryVisible lang e below.head? = false) := by
        intro hne'
        obtain ⟨t', hs', below, e, h1, h2, h3, h4, h5, h6, h7⟩ :=
          next_internal_shape lang initialSize (parent :: rest) hlrest (by simp at hlen ⊢; omega) hne'
        have hlt : (parent :: rest).length < initialSize := by simp at hlen ⊢; omega
        have ht' : t' = parent := by simp at h1; exact h1.1.symm
        refine ⟨entry, parent :: hs', below, e, ?_, h2, ?_, ?_, h5, h6, h7⟩
        · simp at h1 ⊢; exact h1.2
        · simp only [HiddenOver]
          refine ⟨?_, h3⟩
          have := h4 hlt
          rw [ht'] at this; exact this
        · intro hl2
          have := hentryHidden hl2
          simpa using this
      cases step <;> cases eo
      case visible.some e =>
        refine ⟨entry, [], parent :: rest, e, rfl, by simp, trivial, ?_, rfl, ?_, ?_⟩
        · intro hl2; simpa using hentryHidden hl2
        · intro _; simpa using (hstep e).1 rfl
        · intro h; simp at h
      case hidden.some e =>
        refine ⟨entry, [], parent :: rest, e, rfl, by simp, trivial, ?_, rfl, ?_, ?_⟩
        · intro hl2; simpa using hentryHidden hl2
        · intro h; simp at h
        · intro _; simpa using (hstep e).2 rfl
      all_goals exact hrec hne

/-- A failing descent leaves a run of hidden entries over the old stack (the C function is only called where it
cannot fail: after a hidden step with `visible_child_count > 0`). -/
theorem gotoChild_shape_fail (lang : Lang) (last : Bool) : ∀ (fuel : Nat) (stack : List Entry),
    (gotoChild lang last fuel stack).1 = false →
    ∃ hs, (gotoChild lang last fuel stack).2 = hs ++ stack ∧ HiddenOver lang hs stack
  | 0, stack, _ => ⟨[], by simp [gotoChild], trivial⟩
  | fuel + 1, [], _ => ⟨[], by simp [gotoChild], trivial⟩
  | fuel + 1, top :: rest, h => by
    unfold gotoChild at h ⊢
    simp only at h ⊢
    have hok := stepOK_child lang last top rest.head?
    generalize (if last then lastChildInternal lang top rest.head? else firstChildInternal lang top rest.head?) = r at h hok ⊢
    obtain ⟨st, eo⟩ := r
    cases st <;> cases eo
    case hidden.some e =>
      simp only at h ⊢
      obtain ⟨hs, h1, h2⟩ := gotoChild_shape_fail lang last fuel (e :: top :: rest) h
      refine ⟨hs ++ [e], by simpa using h1, ?_⟩
      apply hiddenOver_append
      · simpa using h2
      · simp only [HiddenOver, List.nil_append, List.head?_cons, and_true]
        exact (hok e).2 rfl
    case visible.some e => simp at h
    all_goals exact ⟨[], by simp, trivial⟩

theorem parentGo_hidden_cons (lang : Lang) (e : Entry) (below : List Entry) (h : isEntryVisible lang e below.head? = false) :
    gotoParent.go lang (e :: below) = gotoParent.go lang below := by
  simp [gotoParent.go, h]

/-- **next_sibling_keeps_parent.**  For every linked stack: after a successful `goto_next_sibling`, `goto_parent`
leads to the very same stack as `goto_parent` from the old position — the two nodes have the same parent — however
many hidden levels the move went up and down. -/
theorem next_sibling_keeps_parent (lang : Lang) (c : Cursor) (hl : Linked c.stack) (h : (gotoNextSibling lang c).1 = true) :
    gotoParent.go lang (gotoNextSibling lang c).2.stack.tail = gotoParent.go lang c.stack.tail := by
  unfold gotoNextSibling at h ⊢
  have hs := next_internal_shape lang c.stack.length c.stack hl (Nat.le_refl _)
  generalize hr : gotoSiblingInternal lang (iterNext lang) c.stack.length c.stack = r at hs h ⊢
  obtain ⟨step, st⟩ := r
  cases step with
  | none => simp at h
  | visible =>
    obtain ⟨t, hs', below, e, h1, _, h3, _, h5, _, _⟩ := hs (by simp)
    simp only at h5 ⊢
    rw [h5, h1]
    simp only [List.tail_cons]
    exact (parentGo_skip lang hs' below h3).symm
  | hidden =>
    obtain ⟨t, hs', below, e, h1, _, h3, _, h5, _, h7⟩ := hs (by simp)
    simp only at h5 h7 ⊢
    have he := h7 trivial
    rw [h5, h1]
    simp only [List.tail_cons]
    rw [parentGo_skip lang hs' below h3]
    cases hb : (gotoChild lang false (topSize (e :: below)) (e :: below)).1 with
    | true =>
      obtain ⟨e', hs2, g1, g2, _⟩ := gotoChild_shape lang false _ (e :: below) hb
      rw [g1]
      simp only [List.tail_cons]
      rw [parentGo_skip lang hs2 (e :: below) g2, parentGo_hidden_cons lang e below he]
    | false =>
      obtain ⟨hs2, g1, g2⟩ := gotoChild_shape_fail lang false _ (e :: below) hb
      rw [g1]
      cases hs2 with
      | nil => simp only [List.nil_append, List.tail_cons]
      | cons x xs =>
        simp only [List.cons_append, List.tail_cons]
        simp only [HiddenOver] at g2
        rw [parentGo_skip lang xs (e :: below) g2.2, parentGo_hidden_cons lang e below he]

theorem visibleAbove_push (lang : Lang) (e : Entry) (hs below : List Entry) (hne : below ≠ []) (hh : HiddenOver lang hs below)
    (he : isEntryVisible lang e (hs ++ below).head? = true) :
    visibleAbove lang (e :: (hs ++ below)) = 1 + visibleAbove lang below := by
  have hne2 : hs ++ below ≠ [] := by simp [hne]
  obtain ⟨q, qs, hq⟩ : ∃ q qs, hs ++ below = q :: qs := by
    cases hx : hs ++ below with
    | nil => exact absurd hx hne2
    | cons q qs => exact ⟨q, qs, rfl⟩
  rw [hq] at he
  simp only [List.head?_cons] at he
  rw [hq]
  simp only [visibleAbove, he, if_true]
  rw [← hq, visibleAbove_hidden lang hs below hne hh]

/-- **next_sibling_depth.**  Under `StackOK` (summaries: a hidden step is only taken into a node with visible
children, so the descent succeeds) a successful `goto_next_sibling` from a visible node ends on a visible node at
the same depth. -/
theorem next_sibling_depth (lang : Lang) (c : Cursor) (hok : StackOK lang c.stack) (hl : Linked c.stack)
    (hv : TopVisible lang c.stack) (h : (gotoNextSibling lang c).1 = true) :
    TopVisible lang (gotoNextSibling lang c).2.stack ∧ currentDepth lang (gotoNextSibling lang c).2 = currentDepth lang c := by
  have hspec := sibling_internal_spec lang c.stack.length c.stack true hok (fun _ => rfl) (fun h => by simp at h)
  unfold gotoNextSibling at h ⊢
  have hs := next_internal_shape lang c.stack.length c.stack hl (Nat.le_refl _)
  generalize hr : gotoSiblingInternal lang (iterNext lang) c.stack.length c.stack = r at hs h hspec ⊢
  obtain ⟨step, st⟩ := r
  cases step with
  | none => simp at h
  | visible =>
    obtain ⟨t, hs', below, e, h1, h2, h3, _, h5, h6, _⟩ := hs (by simp)
    simp only at h5 h6 ⊢
    have he := h6 trivial
    rw [h1] at hv
    simp only [TopVisible] at hv
    refine ⟨by rw [h5]; simpa [TopVisible] using he, ?_⟩
    rw [depth_spec, depth_spec, h5, h1, visibleAbove_push lang t hs' below h2 h3 hv]
    exact visibleAbove_push lang e [] below h2 trivial (by simpa using he)
  | hidden =>
    obtain ⟨t, hs', below, e, h1, h2, h3, _, h5, _, h7⟩ := hs (by simp)
    simp only at h5 h7 hspec ⊢
    have he := h7 trivial
    obtain ⟨e0, st', hst, hvcc, hsum, ⟨ps, hsh⟩, _⟩ := hspec.2.1 trivial
    rw [h5] at hst
    have hee : e0 = e := by simp at hst; exact hst.1.symm
    subst hee
    have hfc := cursor_first_child_spec lang (topSize (e0 :: below)) e0 below ps hsum hsh (by simp [topSize])
    have hne : enumChildren lang e0.t ≠ [] := by
      intro h0
      have hcnt := (summarize_counts lang e0.t ps hsum hsh).1
      rw [h0] at hcnt
      unfold vcc at hvcc
      split at hvcc
      · omega
      · simp at hcnt; omega
    have hok1 : (gotoChild lang false (topSize (e0 :: below)) (e0 :: below)).1 = true := by
      cases hb : (gotoChild lang false (topSize (e0 :: below)) (e0 :: below)).1 with
      | true => rfl
      | false => exact absurd (hfc.2 hb) hne
    obtain ⟨e', hs2, g1, g2, g3⟩ := gotoChild_shape lang false _ (e0 :: below) hok1
    rw [h5, g1]
    rw [h1] at hv
    simp only [TopVisible] at hv
    refine ⟨by simpa [TopVisible] using g3, ?_⟩
    rw [depth_spec, depth_spec, h1, visibleAbove_push lang t hs' below h2 h3 hv]
    have hh2 : HiddenOver lang (hs2 ++ [e0]) below := by
      apply hiddenOver_append
      · simpa using g2
      · simp only [HiddenOver, List.nil_append, and_true]; exact he
    have := visibleAbove_push lang e' (hs2 ++ [e0]) below h2 hh2 (by simpa using g3)
    simpa using this

end TsVerif.C06
