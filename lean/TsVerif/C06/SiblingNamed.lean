import TsVerif.C06.FieldProps
/-!
C06, node.c: `ts_node_prev_sibling` / `ts_node_prev_named_sibling` in ONE development, parametric in
`include_anonymous` (`anon`).  For `anon = false` the relevant nodes are the NAMED ones, the search
descends by `named_child_count`, and the hypothesis `anonLeafOK` (a visible or aliased node that is not
named has no children — as in `named_child_spec`; evaluated on every real tree) is needed because the C
code also descends into visible anonymous nodes.
-/
open TsVerif TsVerif.C02 TsGen

namespace TsVerif.C06

/-! ### Relevance, parametric -/

def alOf (lang : Lang) (pid si : Nat) (c : Tree) : Nat := if c.data.extra then 0 else lang.aliasAt pid si
/-- `ts_node__is_relevant(child, anon)` of a raw child in its parent's context. -/
def relA (lang : Lang) (anon : Bool) (pid si : Nat) (c : Tree) : Bool := isRelevant lang c (alOf lang pid si c) anon
def enumChildrenA (lang : Lang) (anon : Bool) (t : Tree) : List (Tree × Nat) := (enumChildren lang t).filter (keepA lang anon)

theorem filter_keep_true (lang : Lang) (l : List (Tree × Nat)) : l.filter (keepA lang true) = l := by
  simp [keepA]

theorem relA_of_vis (lang : Lang) (anon : Bool) (pid si : Nat) (c : Tree) (hv : (c.data.visible || alOf lang pid si c != 0) = true) :
    relA lang anon pid si c = keepA lang anon (c, alOf lang pid si c) := by
  unfold relA isRelevant keepA entryNamed
  cases anon with
  | true => simp [hv]
  | false =>
    simp only [Bool.false_eq_true, if_false, Bool.false_or]
    by_cases ha : alOf lang pid si c != 0
    · simp [ha]
    · simp only [ha, if_false, Bool.false_eq_true]
      have : c.data.visible = true := by simpa [ha] using hv
      simp [this]

theorem relA_of_hidden (lang : Lang) (anon : Bool) (pid si : Nat) (c : Tree) (hv : (c.data.visible || alOf lang pid si c != 0) = false) :
    relA lang anon pid si c = false := by
  unfold relA isRelevant
  simp only [Bool.or_eq_false_iff] at hv
  cases anon with
  | true => simp [hv.1, hv.2]
  | false => simp [hv.1, hv.2]

/-- The relevant-child count is positive exactly when the filtered enumeration is non-empty. -/
theorem rcc_pos_iff (lang : Lang) (anon : Bool) (c : Tree) (ps : Option Nat) (hs : Summarized lang c) (hsh : shapeOK ps c = true) :
    relevantChildCount c anon > 0 ↔ enumChildrenA lang anon c ≠ [] := by
  have hcnt := summarize_counts lang c ps hs hsh
  unfold relevantChildCount enumChildrenA
  by_cases hk : c.kids.length > 0
  · simp only [hk, if_true]
    cases anon with
    | true =>
      simp only [if_true, filter_keep_true]
      rw [hcnt.1]
      constructor
      · intro h h0; rw [h0] at h; simp at h
      · intro h; exact List.length_pos_iff.mpr h
    | false =>
      simp only [Bool.false_eq_true, if_false]
      have : (enumChildren lang c).filter (keepA lang false) = (enumChildren lang c).filter (entryNamed lang) := by
        congr 1
      rw [this, hcnt.2.1]
      constructor
      · intro h h0; rw [h0] at h; simp at h
      · intro h; exact List.length_pos_iff.mpr h
  · simp only [hk, if_false]
    obtain ⟨d, kids⟩ := c
    simp only [kids_mk] at hk
    have : kids = [] := List.eq_nil_of_length_eq_zero (by omega)
    subst this
    simp [enumChildren, enumKids]

/-- The LAST raw child the search would stop at, for either flag. -/
def lastRelA (lang : Lang) (anon : Bool) (pid : Nat) : List Tree → Nat → Option (Tree × Nat × Bool)
  | [], _ => none
  | c :: rest, si =>
    match lastRelA lang anon pid rest (if c.data.extra then si else si + 1) with
    | some r => some r
    | none =>
      if relA lang anon pid si c then some (c, si, true)
      else if relevantChildCount c anon > 0 then some (c, si, false)
      else none

theorem lastRelA_mem (lang : Lang) (anon : Bool) (pid : Nat) : ∀ (kids : List Tree) (si : Nat) (c : Tree) (si' : Nat) (b : Bool),
    lastRelA lang anon pid kids si = some (c, si', b) → c ∈ kids ∧ (b = false → relevantChildCount c anon > 0 ∧ relA lang anon pid si' c = false)
  | [], _, _, _, _, h => by simp [lastRelA] at h
  | x :: rest, si, c, si', b, h => by
    unfold lastRelA at h
    cases hr : lastRelA lang anon pid rest (if x.data.extra then si else si + 1) with
    | some r =>
      rw [hr] at h
      simp only [Option.some.injEq] at h
      subst h
      have := lastRelA_mem lang anon pid rest _ c si' b hr
      exact ⟨List.mem_cons_of_mem _ this.1, this.2⟩
    | none =>
      rw [hr] at h
      simp only at h
      by_cases h1 : relA lang anon pid si x = true
      · simp only [h1, if_true, Option.some.injEq, Prod.mk.injEq] at h
        obtain ⟨e1, _, e3⟩ := h
        subst e1
        exact ⟨by simp, by intro hb; rw [hb] at e3; cases e3⟩
      · simp only [h1, if_false, Bool.false_eq_true] at h
        by_cases h2 : relevantChildCount x anon > 0
        · simp only [h2, if_true, Option.some.injEq, Prod.mk.injEq] at h
          obtain ⟨e1, e2, _⟩ := h
          subst e1; subst e2
          exact ⟨by simp, fun _ => ⟨h2, by simpa using h1⟩⟩
        · simp [h2] at h

mutual
  theorem anonLeafOK_kids (lang : Lang) (d : NodeData) (kids : List Tree) (al : Nat) (h : anonLeafOK lang (.mk d kids) al = true) :
      anonLeafOKKids lang kids d.productionId 0 = true := by
    unfold anonLeafOK at h
    simp only [Bool.and_eq_true] at h
    exact h.2
end

/-- The premise for the NAMED flag: below these children, an unnamed visible/aliased node is a leaf. -/
def AOK (lang : Lang) (anon : Bool) (kids : List Tree) (pid si : Nat) : Prop := anon = true ∨ anonLeafOKKids lang kids pid si = true

theorem aok_cons (lang : Lang) (anon : Bool) (c : Tree) (rest : List Tree) (pid si : Nat) (h : AOK lang anon (c :: rest) pid si) :
    (anon = true ∨ anonLeafOK lang c (alOf lang pid si c) = true) ∧ AOK lang anon rest pid (if c.data.extra then si else si + 1) := by
  rcases h with h | h
  · exact ⟨Or.inl h, Or.inl h⟩
  · unfold anonLeafOKKids at h
    simp only [Bool.and_eq_true] at h
    exact ⟨Or.inr h.1, Or.inr h.2⟩

theorem aok_child (lang : Lang) (anon : Bool) (c : Tree) (al : Nat) (h : anon = true ∨ anonLeafOK lang c al = true) :
    AOK lang anon c.kids c.data.productionId 0 := by
  rcases h with h | h
  · exact Or.inl h
  · obtain ⟨d, kids⟩ := c
    exact Or.inr (anonLeafOK_kids lang d kids al h)

/-- A visible/aliased child that is not relevant (NAMED flag: an anonymous one) has no relevant children. -/
theorem rcc_zero_of_anon (lang : Lang) (anon : Bool) (pid si : Nat) (c : Tree)
    (hv : (c.data.visible || alOf lang pid si c != 0) = true) (hr : relA lang anon pid si c = false)
    (ha : anon = true ∨ anonLeafOK lang c (alOf lang pid si c) = true) : relevantChildCount c anon = 0 := by
  rcases ha with ha | ha
  · subst ha
    rw [relA_of_vis lang true pid si c hv] at hr
    simp [keepA] at hr
  · cases anon with
    | true =>
      rw [relA_of_vis lang true pid si c hv] at hr
      simp [keepA] at hr
    | false =>
      rw [relA_of_vis lang false pid si c hv] at hr
      obtain ⟨d, kids⟩ := c
      unfold anonLeafOK at ha
      simp only [Bool.and_eq_true] at ha
      have h1 := ha.1
      simp only [keepA, Bool.false_or, entryNamed, data_mk] at hr
      simp only [data_mk] at hv
      have : kids.isEmpty = true := by
        simp only [hv, Bool.true_and] at h1
        simp only [hr, Bool.not_false, if_true] at h1
        exact h1
      have hk : kids = [] := by
        cases kids with
        | nil => rfl
        | cons a b => simp at this
      rw [hk]
      rfl

theorem getLast?_append_none {α : Type} (a b : List α) (h : b.getLast? = none) : (a ++ b).getLast? = a.getLast? := by
  have : b = [] := List.getLast?_eq_none_iff.mp h
  subst this; simp

/-- Last element of the filtered enumeration of visible children in terms of `lastRelA`. -/
theorem enumKids_lastA (lang : Lang) (anon : Bool) : ∀ (kids : List Tree) (pid si : Nat) (ps : Option Nat),
    SummarizedL lang kids → shapeOKL ps kids = true → AOK lang anon kids pid si →
    ((enumKids lang pid kids si).filter (keepA lang anon)).getLast? =
      match lastRelA lang anon pid kids si with
      | none => none
      | some (c, si', true) => some (c, alOf lang pid si' c)
      | some (c, _, false) => (enumChildrenA lang anon c).getLast?
  | [], _, _, _, _, _, _ => by simp [enumKids, lastRelA]
  | c :: rest, pid, si, ps, hs, hsh, ha => by
    unfold SummarizedL at hs
    unfold shapeOKL at hsh
    simp only [Bool.and_eq_true] at hsh
    obtain ⟨hac, har⟩ := aok_cons lang anon c rest pid si ha
    have ih := enumKids_lastA lang anon rest pid (if c.data.extra then si else si + 1) ps hs.2 hsh.2 har
    unfold enumKids lastRelA
    simp only [List.filter_append]
    have hal : (if c.data.extra = true then 0 else lang.aliasAt pid si) = alOf lang pid si c := rfl
    simp only [hal]
    cases hr : lastRelA lang anon pid rest (if c.data.extra then si else si + 1) with
    | some r =>
      rw [hr] at ih
      obtain ⟨c', si', b⟩ := r
      simp only
      cases b with
      | true =>
        simp only at ih ⊢
        exact getLast?_append_of_some _ _ _ ih
      | false =>
        simp only at ih ⊢
        have hm := lastRelA_mem lang anon pid rest _ c' si' false hr
        have hne := (rcc_pos_iff lang anon c' ps (summarized_of_mem lang rest c' hs.2 hm.1) (shapeOK_of_mem rest ps c' hsh.2 hm.1)).mp (hm.2 rfl).1
        cases hl : (enumChildrenA lang anon c').getLast? with
        | none => exact absurd (List.getLast?_eq_none_iff.mp hl) hne
        | some x =>
          rw [hl] at ih
          exact getLast?_append_of_some _ _ _ ih
    | none =>
      rw [hr] at ih
      simp only at ih ⊢
      rw [getLast?_append_none _ _ ih]
      by_cases hvis : (c.data.visible || alOf lang pid si c != 0) = true
      · simp only [hvis, if_true]
        by_cases hrel : relA lang anon pid si c = true
        · have hk := relA_of_vis lang anon pid si c hvis
          rw [hrel] at hk
          simp [hrel, List.filter_cons, ← hk]
        · have hrel' : relA lang anon pid si c = false := by simpa using hrel
          have hk := relA_of_vis lang anon pid si c hvis
          rw [hrel'] at hk
          have hz := rcc_zero_of_anon lang anon pid si c hvis hrel' hac
          simp [hrel', List.filter_cons, ← hk, hz]
      · have hvis' : (c.data.visible || alOf lang pid si c != 0) = false := by simpa using hvis
        simp only [hvis', Bool.false_eq_true, if_false, relA_of_hidden lang anon pid si c hvis']
        have hiff := rcc_pos_iff lang anon c ps hs.1 hsh.1
        by_cases hk : relevantChildCount c anon > 0
        · simp only [hk, if_true]
          rfl
        · simp only [hk, if_false]
          have : enumChildrenA lang anon c = [] := by
            by_cases h0 : enumChildrenA lang anon c = []
            · exact h0
            · exact absurd (hiff.mpr h0) hk
          unfold enumChildrenA at this
          rw [this]
          rfl


theorem aok_mem (lang : Lang) (anon : Bool) : ∀ (kids : List Tree) (pid si : Nat) (c : Tree), AOK lang anon kids pid si → c ∈ kids →
    ∃ al, anon = true ∨ anonLeafOK lang c al = true
  | [], _, _, _, _, h => by simp at h
  | x :: rest, pid, si, c, ha, h => by
    obtain ⟨h1, h2⟩ := aok_cons lang anon x rest pid si ha
    simp only [List.mem_cons] at h
    rcases h with h | h
    · subst h; exact ⟨_, h1⟩
    · exact aok_mem lang anon rest pid _ c h2 h

theorem aok_take (lang : Lang) (anon : Bool) : ∀ (kids : List Tree) (pid si k : Nat), AOK lang anon kids pid si → AOK lang anon (kids.take k) pid si
  | _, _, _, 0, h => by
    rcases h with h | h
    · exact Or.inl h
    · exact Or.inr (by simp [anonLeafOKKids])
  | [], _, _, _ + 1, h => by simpa using h
  | x :: rest, pid, si, k + 1, ha => by
    obtain ⟨h1, h2⟩ := aok_cons lang anon x rest pid si ha
    have ih := aok_take lang anon rest pid _ k h2
    simp only [List.take_succ_cons]
    rcases h1 with h1 | h1
    · exact Or.inl h1
    · rcases ih with ih | ih
      · exact Or.inl ih
      · refine Or.inr ?_
        unfold anonLeafOKKids
        simp only [Bool.and_eq_true]
        exact ⟨h1, ih⟩

/-! ### The scan, parametric -/

abbrev psScanA (lang : Lang) (fuel : Nat) (self : NodeRef) (anon : Bool) :=
  prevSiblingPort.scan lang fuel self anon (self.t.totalBytes == 0) self.endByte
abbrev psGoA (lang : Lang) (fuel : Nat) (self : NodeRef) (anon : Bool) :=
  prevSiblingPort.go lang fuel self anon (self.t.totalBytes == 0) self.endByte

def earlierStepA (lang : Lang) (anon : Bool) (rc : RawChild) (e : Option (NodeRef × Bool)) : Option (NodeRef × Bool) :=
  if rc.node.relevant lang anon then some (rc.node, true)
  else if rc.node.relChildCount anon > 0 then some (rc.node, false)
  else e

theorem psScanA_nil (lang : Lang) (fuel : Nat) (self : NodeRef) (anon : Bool) (e : Option (NodeRef × Bool)) :
    psScanA lang fuel self anon [] e = (false, none, e) := rfl

theorem psScanA_cons (lang : Lang) (fuel : Nat) (self : NodeRef) (anon : Bool) (rc : RawChild) (rest : List RawChild) (e : Option (NodeRef × Bool)) :
    psScanA lang fuel self anon (rc :: rest) e =
      (if rc.node.id == self.id then (false, some rc.node, e)
       else if posStop fuel self rc.node.t rc.posAfter.bytes then (true, some rc.node, e)
       else psScanA lang fuel self anon rest (earlierStepA lang anon rc e)) := by
  simp only [psScanA, prevSiblingPort.scan, earlierStepA, posStop]
  split
  · rfl
  · by_cases h1 : rc.posAfter.bytes > self.endByte
    · simp [h1]
    · by_cases h2 : (rc.posAfter.bytes == self.endByte &&
          (!(self.t.totalBytes == 0) || hasTrailingEmptyDescendant fuel rc.node.t self.t)) = true
      · simp [h1, h2]
      · simp only [h1, h2, if_false, decide_false, Bool.false_or, Bool.false_eq_true]
        by_cases hr : rc.node.relevant lang anon = true <;> by_cases hc : rc.node.relChildCount anon > 0 <;> simp [hr, hc]

def lastEarlierRefA (lang : Lang) (anon : Bool) : List RawChild → Option (NodeRef × Bool)
  | [] => none
  | rc :: rest =>
    match lastEarlierRefA lang anon rest with
    | some r => some r
    | none =>
      if rc.node.relevant lang anon then some (rc.node, true)
      else if rc.node.relChildCount anon > 0 then some (rc.node, false)
      else none

theorem lastEarlierRefA_cons (lang : Lang) (anon : Bool) (rc : RawChild) (rest : List RawChild) :
    lastEarlierRefA lang anon (rc :: rest) = (lastEarlierRefA lang anon rest).or (earlierStepA lang anon rc none) := by
  rw [lastEarlierRefA]
  cases lastEarlierRefA lang anon rest <;> simp [earlierStepA]

theorem psScanA_before (lang : Lang) (fuel : Nat) (self : NodeRef) (anon : Bool) :
    ∀ (L M : List RawChild) (e : Option (NodeRef × Bool)),
    (∀ rc ∈ L, rc.node.id ≠ self.id ∧ posPass fuel self rc.node.t rc.posAfter.bytes = true) →
    psScanA lang fuel self anon (L ++ M) e = psScanA lang fuel self anon M ((lastEarlierRefA lang anon L).or e)
  | [], M, e, _ => by simp [lastEarlierRefA]
  | rc :: rest, M, e, h => by
    have h0 := h rc (by simp)
    rw [List.cons_append, psScanA_cons]
    have h1 : (rc.node.id == self.id) = false := by simpa using h0.1
    have h2 := posStop_of_pass fuel self _ _ h0.2
    simp only [h1, h2, Bool.false_eq_true, if_false]
    rw [psScanA_before lang fuel self anon rest M _ (fun r hr => h r (by simp [hr]))]
    congr 1
    rw [lastEarlierRefA_cons, Option.or_assoc]
    congr 1
    unfold earlierStepA
    split
    · simp
    · split <;> simp

theorem lastEarlierRefA_mem (lang : Lang) (anon : Bool) : ∀ (L : List RawChild) (r : NodeRef) (b : Bool),
    lastEarlierRefA lang anon L = some (r, b) → ∃ rc ∈ L, rc.node = r
  | [], _, _, h => by simp [lastEarlierRefA] at h
  | rc :: rest, r, b, h => by
    rw [lastEarlierRefA] at h
    cases hr : lastEarlierRefA lang anon rest with
    | some v =>
      rw [hr] at h
      simp only [Option.some.injEq] at h
      subst h
      obtain ⟨x, hx, hxr⟩ := lastEarlierRefA_mem lang anon rest r b hr
      exact ⟨x, by simp [hx], hxr⟩
    | none =>
      rw [hr] at h
      simp only at h
      split at h
      · simp only [Option.some.injEq, Prod.mk.injEq] at h; exact ⟨rc, by simp, h.1⟩
      · split at h
        · simp only [Option.some.injEq, Prod.mk.injEq] at h; exact ⟨rc, by simp, h.1⟩
        · simp at h

/-- `lastEarlierRefA` over the iterator's elements is `lastRelA` over the raw children. -/
theorem lastEarlierRefA_go (lang : Lang) (anon : Bool) (n : NodeRef) (nk : Nat) : ∀ (kids : List Tree) (pos : Length) (si k : Nat),
    (lastEarlierRefA lang anon (rawChildren.go lang n n.t.data.productionId nk kids pos si k)).map (fun r => (r.1.t, r.1.alias, r.2)) =
      (lastRelA lang anon n.t.data.productionId kids si).map (fun r => (r.1, alOf lang n.t.data.productionId r.2.1 r.1, r.2.2))
  | [], _, _, _ => by simp [rawChildren.go, lastEarlierRefA, lastRelA]
  | c :: rest, pos, si, k => by
    rw [go_getElem_zero, lastEarlierRefA, lastRelA]
    have ih := lastEarlierRefA_go lang anon n nk rest
      (length_add (if k > 0 then length_add pos c.data.padding else pos) c.data.size) (if c.data.extra then si else si + 1) (k + 1)
    cases hl : lastEarlierRefA lang anon (rawChildren.go lang n n.t.data.productionId nk rest
        (length_add (if k > 0 then length_add pos c.data.padding else pos) c.data.size) (if c.data.extra then si else si + 1) (k + 1)) with
    | some v =>
      rw [hl] at ih
      cases hr : lastRelA lang anon n.t.data.productionId rest (if c.data.extra then si else si + 1) with
      | none => rw [hr] at ih; simp at ih
      | some w => rw [hr] at ih; simpa using ih
    | none =>
      rw [hl] at ih
      cases hr : lastRelA lang anon n.t.data.productionId rest (if c.data.extra then si else si + 1) with
      | some w => rw [hr] at ih; simp at ih
      | none =>
        simp only [NodeRef.relevant, NodeRef.relChildCount]
        have e1 : isRelevant lang c (if c.data.extra = true then 0 else lang.aliasAt n.t.data.productionId si) anon =
            relA lang anon n.t.data.productionId si c := rfl
        simp only [e1]
        by_cases h1 : relA lang anon n.t.data.productionId si c = true
        · simp [h1, alOf]
        · simp only [h1, if_false, Bool.false_eq_true]
          by_cases h2 : relevantChildCount c anon > 0
          · simp [h2, alOf]
          · simp [h2]

def psNextA (lang : Lang) (fuel : Nat) (self : NodeRef) (anon : Bool) (f : Nat) (earlierNode : Option (NodeRef × Bool)) :
    Bool → Option NodeRef → Option (NodeRef × Bool) → Option NodeRef
  | true, stop, ech => psGoA lang fuel self anon f stop (match ech with | some e => some e | none => earlierNode)
  | false, _, some (ec, true) => some ec
  | false, _, some (ec, false) => psGoA lang fuel self anon f (some ec) earlierNode
  | false, _, none =>
    match earlierNode with
    | some (en, true) => some en
    | some (en, false) => psGoA lang fuel self anon f (some en) none
    | none => none

theorem psGoA_succ (lang : Lang) (fuel : Nat) (self : NodeRef) (anon : Bool) (f : Nat) (node : NodeRef) (en : Option (NodeRef × Bool))
    (found : Bool) (stop : Option NodeRef) (ech : Option (NodeRef × Bool))
    (h : psScanA lang fuel self anon (rawChildren lang node) none = (found, stop, ech)) :
    psGoA lang fuel self anon (f + 1) (some node) en = psNextA lang fuel self anon f en found stop ech := by
  simp only [psGoA, prevSiblingPort.go]
  simp only [psScanA] at h
  rw [h]
  cases found with
  | true => rfl
  | false =>
    cases ech with
    | none => rfl
    | some l => obtain ⟨lc, b⟩ := l; cases b <;> rfl


def resolveEarlierA (lang : Lang) (anon : Bool) : Option (NodeRef × Bool) → Option (Tree × Nat)
  | none => none
  | some (en, true) => some (en.t, en.alias)
  | some (en, false) => (enumChildrenA lang anon en.t).getLast?

def EarlierGoodA (lang : Lang) (fuel : Nat) (self : NodeRef) (anon : Bool) : Option (NodeRef × Bool) → Prop
  | some (en, false) => (∃ ps, shapeOK ps en.t = true) ∧ Summarized lang en.t ∧ noIdIn self.id en.t = true ∧
      passInL fuel self en.t.kids en.start.bytes true = true ∧ relevantChildCount en.t anon > 0 ∧
      AOK lang anon en.t.kids en.t.data.productionId 0
  | _ => True

theorem resolveEarlierA_ne_none (lang : Lang) (fuel : Nat) (self : NodeRef) (anon : Bool) (l : NodeRef × Bool)
    (hg : EarlierGoodA lang fuel self anon (some l)) : resolveEarlierA lang anon (some l) ≠ none := by
  obtain ⟨ln, b⟩ := l
  cases b with
  | true => simp [resolveEarlierA]
  | false =>
    obtain ⟨⟨ps, hsh⟩, hs, _, _, hv, _⟩ := hg
    have := (rcc_pos_iff lang anon ln.t ps hs hsh).mp hv
    simp only [resolveEarlierA, ne_eq, List.getLast?_eq_none_iff]
    exact this

theorem enumChildrenA_eq (lang : Lang) (anon : Bool) (t : Tree) :
    enumChildrenA lang anon t = (enumKids lang t.data.productionId t.kids 0).filter (keepA lang anon) := by
  unfold enumChildrenA; rw [enumChildren_eq]

/-- What `lastEarlierRefA` over (a prefix of) the children of `n` stands for, and that a remembered
hidden node can be descended into. -/
theorem psA_part (lang : Lang) (fuel : Nat) (self n : NodeRef) (anon : Bool) (kids : List Tree) (ps : Option Nat)
    (hsub : ∀ c ∈ kids, c ∈ n.t.kids) (hs : SummarizedL lang kids) (hsh : shapeOKL ps kids = true)
    (hid : noIdInL self.id n.t.data.addr n.t.kids.length kids 0 = true)
    (hpass : passInL fuel self kids n.start.bytes true = true) (ha : AOK lang anon kids n.t.data.productionId 0)
    (L : List RawChild) (hL : L = rawChildren.go lang n n.t.data.productionId n.t.kids.length kids n.start 0 0) :
    (∀ r ∈ L, (r.node.id ≠ self.id ∧ posPass fuel self r.node.t r.posAfter.bytes = true)) ∧
    resolveEarlierA lang anon (lastEarlierRefA lang anon L) = ((enumKids lang n.t.data.productionId kids 0).filter (keepA lang anon)).getLast? ∧
    EarlierGoodA lang fuel self anon (lastEarlierRefA lang anon L) ∧
    (∀ ec b, lastEarlierRefA lang anon L = some (ec, b) → ec.t ∈ kids) := by
  have hel : ∀ r ∈ L, (r.node.id ≠ self.id ∧ posPass fuel self r.node.t r.posAfter.bytes = true) ∧
      r.node.t ∈ kids ∧ noIdIn self.id r.node.t = true ∧ passInL fuel self r.node.t.kids r.node.start.bytes true = true := by
    intro r hr
    rw [hL] at hr
    obtain ⟨j, hj⟩ := List.mem_iff_getElem?.mp hr
    have hi := go_ids lang n _ _ self.id _ _ _ 0 hid j r hj
    have he := go_elem lang _ _ _ _ _ _ _ j r hj
    have hp := go_pass lang n _ _ fuel self _ _ _ 0 (by simpa using hpass) j r hj
    exact ⟨⟨hi.1, hp.1⟩, List.mem_of_getElem? he.2.2, hi.2, hp.2⟩
  have hlast := enumKids_lastA lang anon kids n.t.data.productionId 0 ps hs hsh ha
  have hmap := lastEarlierRefA_go lang anon n n.t.kids.length kids n.start 0 0
  rw [← hL] at hmap
  refine ⟨fun r hr => (hel r hr).1, ?_, ?_, ?_⟩
  · rw [hlast]
    cases hfl : lastEarlierRefA lang anon L with
    | none =>
      rw [hfl] at hmap
      cases hx : lastRelA lang anon n.t.data.productionId kids 0 with
      | none => rfl
      | some v => rw [hx] at hmap; simp at hmap
    | some rb =>
      obtain ⟨r, b⟩ := rb
      rw [hfl] at hmap
      cases hx : lastRelA lang anon n.t.data.productionId kids 0 with
      | none => rw [hx] at hmap; simp at hmap
      | some v =>
        obtain ⟨c, si', b'⟩ := v
        rw [hx] at hmap
        simp only [Option.map_some, Option.some.injEq, Prod.mk.injEq] at hmap
        obtain ⟨h1, h2, h3⟩ := hmap
        subst h3
        cases b <;> simp [resolveEarlierA, h1, h2]
  · cases hfl : lastEarlierRefA lang anon L with
    | none => trivial
    | some rb =>
      obtain ⟨r, b⟩ := rb
      cases b with
      | true => trivial
      | false =>
        obtain ⟨x, hx, hxr⟩ := lastEarlierRefA_mem lang anon _ r false hfl
        have hp := hel x hx
        rw [hxr] at hp
        rw [hfl] at hmap
        cases hfr : lastRelA lang anon n.t.data.productionId kids 0 with
        | none => rw [hfr] at hmap; simp at hmap
        | some v =>
          obtain ⟨c, si', b'⟩ := v
          rw [hfr] at hmap
          simp only [Option.map_some, Option.some.injEq, Prod.mk.injEq] at hmap
          obtain ⟨h1, _, h3⟩ := hmap
          subst h3
          have hm := lastRelA_mem lang anon _ kids 0 c si' false hfr
          obtain ⟨al, hal⟩ := aok_mem lang anon kids _ 0 c ha hm.1
          exact ⟨⟨_, by rw [h1]; exact shapeOK_of_mem _ _ c hsh hm.1⟩,
            by rw [h1]; exact summarized_of_mem lang _ c hs hm.1, hp.2.2.1, hp.2.2.2, by rw [h1]; exact (hm.2 rfl).1,
            by rw [h1]; exact aok_child lang anon c al hal⟩
  · intro ec b hfl
    obtain ⟨x, hx, hxr⟩ := lastEarlierRefA_mem lang anon _ ec b hfl
    have hp := hel x hx
    rw [hxr] at hp
    exact hp.2.1

/-- Descending into a remembered earlier node that is not relevant: the search returns the LAST
element of its filtered enumeration. -/
theorem psA_descend (lang : Lang) (fuel : Nat) (self : NodeRef) (anon : Bool) (en : Option (NodeRef × Bool)) :
    ∀ (f : Nat) (ec : NodeRef) (ps : Option Nat), ec.t.size ≤ f → Summarized lang ec.t → shapeOK ps ec.t = true →
    noIdIn self.id ec.t = true → passInL fuel self ec.t.kids ec.start.bytes true = true → relevantChildCount ec.t anon > 0 →
    AOK lang anon ec.t.kids ec.t.data.productionId 0 →
    (psGoA lang fuel self anon f (some ec) en).map (fun r => (r.t, r.alias)) = (enumChildrenA lang anon ec.t).getLast?
  | 0, ec, _, hf, _, _, _, _, _, _ => by have := tree_size_pos ec.t; omega
  | f + 1, ec, ps, hf, hs, hsh, hid, hpass, hv, ha => by
    have hidL := noIdInL_of_noIdIn self.id ec.t hid
    obtain ⟨hall, hres, hgood, hmem⟩ := psA_part lang fuel self ec anon ec.t.kids (some ec.t.data.symbol) (fun c hc => hc)
      (summarizedL_kids lang ec.t hs) (shapeOKL_kids ps ec.t hsh) hidL hpass ha (rawChildren lang ec) rfl
    have hsc : psScanA lang fuel self anon (rawChildren lang ec) none = (false, none, lastEarlierRefA lang anon (rawChildren lang ec)) := by
      have := psScanA_before lang fuel self anon (rawChildren lang ec) [] none hall
      simpa [psScanA_nil] using this
    rw [psGoA_succ lang fuel self anon f ec en false none _ hsc, enumChildrenA_eq, ← hres]
    have hne := (rcc_pos_iff lang anon ec.t ps hs hsh).mp hv
    cases hfl : lastEarlierRefA lang anon (rawChildren lang ec) with
    | none =>
      rw [hfl] at hres
      simp only [resolveEarlierA] at hres
      rw [enumChildrenA_eq] at hne
      exact absurd (List.getLast?_eq_none_iff.mp hres.symm) hne
    | some rb =>
      obtain ⟨r, b⟩ := rb
      cases b with
      | true => simp only [psNextA, resolveEarlierA, Option.map_some]
      | false =>
        rw [hfl] at hgood
        obtain ⟨⟨ps', hsh'⟩, hs', hid', hpass', hv', ha'⟩ := hgood
        simp only [psNextA, resolveEarlierA]
        have hm := sizeList_mem _ _ (hmem r false hfl)
        have hk := tree_size_kids ec.t
        exact psA_descend lang fuel self anon en f r ps' (by omega) hs' hsh' hid' hpass' hv' ha'

theorem aok_get (lang : Lang) (anon : Bool) (n : NodeRef) (k : Nat) (rc : RawChild) (hk : (rawChildren lang n)[k]? = some rc)
    (ha : AOK lang anon n.t.kids n.t.data.productionId 0) : AOK lang anon rc.node.t.kids rc.node.t.data.productionId 0 := by
  have hk2 := hk
  simp only [rawChildren] at hk2
  have hmem : rc.node.t ∈ n.t.kids := List.mem_of_getElem? (go_elem lang _ _ _ _ _ _ _ k rc hk2).2.2
  obtain ⟨al, hal⟩ := aok_mem lang anon _ _ 0 rc.node.t ha hmem
  exact aok_child lang anon rc.node.t al hal

/-- The outer loop of `ts_node__prev_sibling(self, anon)` along the path `n ⟶ self`. -/
theorem psA_levels (lang : Lang) (fuel : Nat) (self : NodeRef) (anon : Bool) :
    ∀ (q : List Nat) (f : Nat) (n : NodeRef) (en : Option (NodeRef × Bool)) (ps : Option Nat), q ≠ [] →
    n.t.size + laterNeed en ≤ f → Summarized lang n.t → shapeOK ps n.t = true → nodeAt lang n q = some self →
    psPathOK lang self n q = true → psZwOK lang fuel self n q = true → AOK lang anon n.t.kids n.t.data.productionId 0 →
    EarlierGoodA lang fuel self anon en →
    (psGoA lang fuel self anon f (some n) en).map (fun r => (r.t, r.alias)) =
      (((earlierOnPath lang n q).filter (keepA lang anon)).getLast?).or (resolveEarlierA lang anon en)
  | [], _, _, _, _, h, _, _, _, _, _, _, _, _ => absurd rfl h
  | k :: rest, 0, n, _, _, _, hf, _, _, _, _, _, _, _ => by have := tree_size_pos n.t; omega
  | k :: rest, f + 1, n, en, ps, _, hf, hs, hsh, hat, hok, hzw, ha, hg => by
    obtain ⟨rc, hk, hat'⟩ := nodeAt_cons lang n self k rest hat
    simp only [psPathOK, hk, Bool.and_eq_true] at hok
    simp only [psZwOK, hk, Bool.and_eq_true] at hzw
    have hLt : (rawChildren lang n).take k =
        rawChildren.go lang n n.t.data.productionId n.t.kids.length (n.t.kids.take k) n.start 0 0 := by
      simp only [rawChildren]; exact go_take lang n _ _ _ _ _ _ k
    obtain ⟨hall, hres, heg, hemem⟩ := psA_part lang fuel self n anon (n.t.kids.take k) (some n.t.data.symbol) (fun c hc => List.mem_of_mem_take hc)
      (summarizedL_take lang _ k (summarizedL_kids lang n.t hs)) (shapeOKL_take _ _ k (shapeOKL_kids ps n.t hsh)) hok.1 hzw.1
      (aok_take lang anon _ _ 0 k ha) _ hLt
    have hscan : ∀ M e, psScanA lang fuel self anon ((rawChildren lang n).take k ++ M) e =
        psScanA lang fuel self anon M ((lastEarlierRefA lang anon ((rawChildren lang n).take k)).or e) :=
      fun M e => psScanA_before lang fuel self anon _ M e hall
    have hk2 := hk
    simp only [rawChildren] at hk2
    have hkid := (go_elem lang _ _ _ _ _ _ _ k rc hk2).2.2
    have hcmem : rc.node.t ∈ n.t.kids := List.mem_of_getElem? hkid
    have hnsize := tree_size_kids n.t
    have hsplit : rawChildren lang n = (rawChildren lang n).take k ++ rc :: (rawChildren lang n).drop (k + 1) := by
      rw [← drop_eq_cons _ k rc hk, List.take_append_drop]
    have hsc0 : psScanA lang fuel self anon (rawChildren lang n) none =
        psScanA lang fuel self anon (rc :: (rawChildren lang n).drop (k + 1)) (lastEarlierRefA lang anon ((rawChildren lang n).take k)) := by
      have := hscan (rc :: (rawChildren lang n).drop (k + 1)) none
      rw [← hsplit] at this
      simpa using this
    simp only [earlierOnPath, hk, List.filter_append, List.getLast?_append, Option.or_assoc]
    cases rest with
    | nil =>
      simp only [nodeAt, Option.some.injEq] at hat'
      have hsc : psScanA lang fuel self anon (rawChildren lang n) none =
          (false, some rc.node, lastEarlierRefA lang anon ((rawChildren lang n).take k)) := by
        rw [hsc0, psScanA_cons]; simp [hat']
      rw [psGoA_succ lang fuel self anon f n en false _ _ hsc]
      simp only [earlierOnPath, List.filter_nil, List.getLast?_nil, Option.none_or]
      rw [← hres]
      cases hl : lastEarlierRefA lang anon ((rawChildren lang n).take k) with
      | none =>
        simp only [resolveEarlierA, Option.none_or, psNextA]
        cases en with
        | none => rfl
        | some l =>
          obtain ⟨ln, b⟩ := l
          cases b with
          | true => rfl
          | false =>
            simp only [resolveEarlierA]
            obtain ⟨⟨ps', hsh'⟩, hs', hid', hpass', hv', ha'⟩ := hg
            exact psA_descend lang fuel self anon none f ln ps' (by simp only [laterNeed] at hf; omega) hs' hsh' hid' hpass' hv' ha'
      | some l =>
        rw [hl] at heg
        have hnn := resolveEarlierA_ne_none lang fuel self anon l heg
        rw [or_of_ne_none _ _ hnn]
        obtain ⟨lc, b⟩ := l
        cases b with
        | true => rfl
        | false =>
          simp only [psNextA, resolveEarlierA]
          obtain ⟨⟨ps', hsh'⟩, hs', hid', hpass', hv', ha'⟩ := heg
          have hm := sizeList_mem _ _ (List.mem_of_mem_take (hemem lc false hl))
          exact psA_descend lang fuel self anon en f lc ps' (by omega) hs' hsh' hid' hpass' hv' ha'
    | cons k' rest' =>
      simp only [List.isEmpty_cons, Bool.false_or, Bool.and_eq_true, bne_iff_ne, ne_eq] at hok hzw
      have hsc : psScanA lang fuel self anon (rawChildren lang n) none =
          (true, some rc.node, lastEarlierRefA lang anon ((rawChildren lang n).take k)) := by
        rw [hsc0, psScanA_cons]
        have h1 : (rc.node.id == self.id) = false := by simpa using hok.2.1
        simp only [h1, Bool.false_eq_true, if_false, hzw.2.1, if_true]
      rw [psGoA_succ lang fuel self anon f n en true _ _ hsc]
      simp only [psNextA]
      have hsc' := summarized_of_mem lang _ rc.node.t (summarizedL_kids lang n.t hs) hcmem
      have hshc' := shapeOK_of_mem _ _ rc.node.t (shapeOKL_kids ps n.t hsh) hcmem
      have hcs := sizeList_mem _ _ hcmem
      have hac := aok_get lang anon n k rc hk ha
      cases hl : lastEarlierRefA lang anon ((rawChildren lang n).take k) with
      | none =>
        rw [hl] at hres
        simp only [resolveEarlierA] at hres
        rw [← hres]
        simp only [Option.none_or]
        exact psA_levels lang fuel self anon (k' :: rest') f rc.node en _ (by simp) (by omega) hsc' hshc' hat' hok.2.2 hzw.2.2 hac hg
      | some l =>
        rw [hl] at heg hres
        have hnn := resolveEarlierA_ne_none lang fuel self anon l heg
        rw [← hres, or_of_ne_none _ (resolveEarlierA lang anon en) hnn]
        have hfuel : rc.node.t.size + laterNeed (some l) ≤ f := by
          obtain ⟨lc, b⟩ := l
          cases b with
          | true => simp only [laterNeed]; omega
          | false =>
            simp only [laterNeed]
            have := sizeList_two_take n.t.kids k rc.node.t lc.t hkid (hemem lc false hl)
            omega
        exact psA_levels lang fuel self anon (k' :: rest') f rc.node (some l) _ (by simp) hfuel hsc' hshc' hat' hok.2.2 hzw.2.2 hac heg

/-- **prev_sibling_spec_anon.**  `ts_node_prev_sibling` (`anon = true`) and `ts_node_prev_named_sibling`
(`anon = false`), for ANY `self`: with `P` = what `ts_node_parent(self)` returns and `q` a raw path
`P ⟶ self`, under `psPathOK`, `psZwOK` and — for the named flag — `anonLeafOK` below `P`, the port
returns the LAST element of `earlierOnPath P q` that counts for the flag (all of them, or the named
ones), null iff there is none. -/
theorem prev_sibling_spec_anon (lang : Lang) (fuel : Nat) (root self P : NodeRef) (q : List Nat) (ps : Option Nat) (anon : Bool)
    (hpar : nodeParent lang fuel root self = some P) (hq : q ≠ []) (hf : P.t.size ≤ fuel + 1)
    (hs : Summarized lang P.t) (hsh : shapeOK ps P.t = true) (hat : nodeAt lang P q = some self)
    (hok : psPathOK lang self P q = true) (hzw : psZwOK lang fuel self P q = true)
    (ha : anon = true ∨ anonLeafOKKids lang P.t.kids P.t.data.productionId 0 = true) :
    (prevSiblingPort lang fuel root self anon).map (fun r => (r.t, r.alias)) =
      ((earlierOnPath lang P q).filter (keepA lang anon)).getLast? := by
  unfold prevSiblingPort
  simp only [hpar]
  have := psA_levels lang fuel self anon q (fuel + 1) P none ps hq (by simp only [laterNeed]; omega) hs hsh hat hok hzw ha trivial
  simpa [resolveEarlierA] using this

end TsVerif.C06
