import TsVerif.C02.Props
import TsVerif.C06.NodePort
import TsVerif.C06.Cursor
import TsVerif.C06.Sexp
/-!
# C06 — Node and cursor navigation agree with the tree's structure

Property text (properties.jsonl): *On any tree, every way of reaching a node gives the same node
and the same facts: child by index, named child, parent, next/previous (named) sibling, child by
field, field name of a child, first child for a byte, smallest descendant for a byte or point
range, child-containing-descendant, and the cursor moves (first/last child, next/previous
sibling, parent, goto-descendant, first-child-for-byte/point, depth, descendant index, field) are
all consistent with the single ordered tree obtained by a depth-first walk.  The node's
S-expression is the rendering of that same tree.*

Spec: `flatten lang root` (Model.lean) — the ordered tree of visible nodes; `enumChildren` (C02)
is its child list on raw subtrees.  Code-shaped models: `nodeChild` (port of `ts_node__child`),
`Cursor.lean` (port of tree_cursor.c with the three departures of the reverse iterator as
`Quirks`).  `Summarized`/`shapeOK` are C02's predicates (checked on every real tree).

Clause → theorem (index for all Props files of C06: Props, CursorProps, NodeProps, SiblingZw, NavVariants, FlatProps, FieldProps,
SiblingNamed, SiblingNamedNext, NamedFcb, CursorFcb, FieldWitness, CursorParent, CursorFcbFlat, FieldNamed, RangeFlat, RangeFlatP).  P = proved ∀-theorem over the code-shaped port (every port is tied to the real API
by correspondence on every answer); P(h) = proved under decidable hypotheses h that are EVALUATED together with the conclusion on every
real tree (nodes failing h are counted as outside and coincide with the known findings F1–F11 of notes/C06.md); J = decided by the Lean
judge against `flatten` on every node of every explored tree, not proved.  All P/P(h) about node.c assume `Summarized` + `shapeOK` of
C02 (evaluated on every tree by ./check C02).  "Same node" is stated as: same raw subtree and alias (and slot id / position where
`TSNode`s are compared exactly).

* "the single ordered tree obtained by a depth-first walk" .... the spec `flatten`; P: `flatten_hered` (at every node its children are
  `enumChildren` of the raw subtree), `flattenKids_refs` (they ARE the `TSNode`s `ts_node_child` hands out), `number_spec` / `flatOf_spec` /
  `flatOf_good` / `ft_child_spec` (the judge's preorder array is that tree).  That the CURSOR's depth-first walk visits exactly the
  preorder of `flatten` is J (`walk`), with P for each single move (below)
* child by index ............................... P(h=∅): `child_spec`; child count `child_count_spec`
* named child .................................. P(h): `named_child_spec`, h = `anonLeafOK`
* parent ....................................... P(h): `parent_spec_partial` (non-empty node, h = `pathOK`: slot id unique along the search),
  `parent_spec_empty` (zero-width node, h = `psPathOK`); every relevant node of every real tree is inside; on `FT`: `nav_ft_spec(_empty)`
* next / previous sibling ...................... P(h): `next_sibling_spec_anon`, `prev_sibling_spec_anon` with `anon = true` (earlier, narrower:
  `next_sibling_spec_partial`, `next_sibling_spec_empty`, `prev_sibling_spec_partial`, `prev_sibling_spec_general`); h next = `nsPathOK` (no
  zero-width raw node follows at the node's end — fails = F4) + for an empty node `nsZwOKA`; h prev = `psPathOK` + `psZwOK` (fails = F10);
  in list form `node_nav_flat_spec(_empty)`, on `FT` `nav_ft_spec(_empty)`
* next / previous NAMED sibling ................ P(h): the same two theorems with `anon = false`, h additionally `anonLeafOK`; the link to
  `FT.next/prevSibling … namedOnly` is evaluated (0 differences), not proved
* child by field ............................... P(h): `child_by_field_id_spec_partial`, `child_by_field_id_ft_spec`, h = `cbfOK` (+ language
  premise `fieldMapsSorted`); fails below ERROR nodes = F8 and for an inherited entry on a VISIBLE child = F11 (`child_by_field_id_full_false`:
  without `cbfOK` the statement is false).  `child_by_field_name` = id lookup + this: J
* field name of a child ........................ P(h): `field_name_for_child_spec`, h = `hiddenExtraOK`; `field_name_for_named_child_spec`, h additionally `anonLeafOK`
* first child for a byte ....................... P(h): `first_child_for_byte_spec_anon` (both flags), `…_flat_spec_anon`, `…_ft_spec_anon`,
  h = `ndeNodeA` (no dead-end descent; fails = F5) and for the named flag `anonLeafOK`
* smallest descendant for a byte or point range  P for NON-EMPTY ranges, no hypothesis on the tree: `descendant_for_byte_range_spec_anon`,
  `descendant_for_point_range_spec_partial` (both flags); on `FT`: `descendant_for_byte_range_ft_spec`, `named_descendant_for_byte_range_ft_spec`,
  `descendant_for_point_range_ft_spec` (all four functions).  EMPTY byte ranges: P(h = `emptyOK`, exact on the data; fails = F6): `descendant_for_empty_byte_range_port`,
  `descendant_for_empty_byte_range_ft_spec` (`EmptyRange.lean`).  EMPTY point ranges: port = plain raw search, no hypothesis:
  `descendant_for_empty_point_range_port`, boundary rule `dfrIdealEP_boundary_partial`; on `FT` only via the byte search under `agreeEP`:
  `descendant_for_empty_point_range_ft_spec_partial` (`Round11.lean`; = `FT.descendantForPoints` OPEN, J).  Receiver other than the root: the theorems hold for every receiver, the `FT` link is for the root
* child-containing-descendant .................. P(h): `child_with_descendant_spec_partial`, `child_with_descendant_spec_empty` (h as for parent)
* cursor first / last child .................... P: `cursor_first_child_spec`, `cursor_last_child_spec`; = node API `cursor_node_agree_first`
* cursor next sibling .......................... P(h): `cursor_next_sibling_spec`, `cursor_next_sibling_index_spec`, `cursor_node_agree_next`,
  h = `StackOK` / `IdxOK`, which `CursorInv` implies (`cursorInv_idx`, `cursorInv_linked`) and every move preserves
  (`gotoChild_preserves_inv`, `gotoNextSibling_preserves_inv`, `gotoPreviousSibling_preserves_inv`)
* cursor previous sibling ...................... P(h): `cursor_prev_sibling_spec` for the REPAIRED iterator (F1–F3 fixed in /repo;
  `iterPrev_undoes_iterNext`, `iterPrev_int8_stops`, `int8_witness` document the old defects), h = `CursorInv`, < 2³² children
* cursor parent ................................ P: `goto_parent_spec` (every stack), `goto_parent_undoes_child`, `next_sibling_keeps_parent`,
  `gotoParent_preserves_inv`; = `ts_node_parent`'s `parentOnPath`: P(h) `cursor_parent_is_parentOnPath_inv`, h = `CursorInv` (evaluated on every cursor)
* goto-descendant .............................. P(h): `goto_descendant_spec`, h = `CursorInv`
* cursor first-child-for-byte / -point ......... P(h): `cursor_first_child_for_spec` (file CursorFcb.lean), h = no dead end (`ndeCur`; fails = F9);
  `cfcIdeal_flat`, `cursor_first_child_for_ft_spec`: the plain search = first child of the ordered tree ending after the goal, with its index
* depth ........................................ P: `depth_spec`, `depth_child`, `depth_parent`; P(h = `StackOK`) `next_sibling_depth`
* descendant index ............................. P(h): `descendant_index_spec`, h = `CursorInv`
* field (cursor) ............................... P: `cursor_field_spec`
* "the node's S-expression is the rendering of that same tree" .. P(h): `sexp_spec`, h = `sexpOK` (fails with a hidden MISSING node = F7)
* positions / kind / flags of a node ........... J here; the geometry is C02's (`rowcol_by_newlines`, `spans_nested`)

Weak spots found on re-reading the statements against the English: (1) "same node" is (raw subtree, alias) in the sibling / parent /
field theorems, not the slot id — two structurally equal siblings are identified; the slot id is covered by correspondence and by
the exact-`TSNode` theorems (`flattenKids_refs`, `first_child_for_byte_ft_spec`, `descendant_for_byte_range_ft_spec`).  (2) The
node.c theorems quantify over raw paths below the receiver; that every node the API can return lies on such a path is by
construction of `flat_node_exists`, not a theorem about `TSNode` values coming from elsewhere (e.g. after `ts_node_edit`).  (3) Every
hypothesis h is about the particular tree, not derived from "the tree came out of the parser".  (4) "trees after edits and
re-parses", "cursors rooted at inner nodes" of the quantifier are covered by exploration (J), the theorems are per tree.
-/
namespace TsVerif.C06
open TsGen TsVerif TsVerif.C02

theorem getElem?_single_append {α : Type} (x : α) (l : List α) (i : Nat) :
    ([x] ++ l)[i]? = if i = 0 then some x else l[i - 1]? := by
  cases i with
  | zero => simp
  | succ j => simp

mutual
  /-- `child_spec`: for every language, every summarized parser-shaped tree, every start position
  and every index, the port of `ts_node__child(self, i, include_anonymous = true)` returns the
  i-th entry (subtree and alias) of the enumeration of visible children, and null exactly beyond
  its end. -/
  theorem child_spec (lang : Lang) : ∀ (t : Tree) (ps : Option Nat) (start : Length) (i : Nat),
      Summarized lang t → shapeOK ps t = true →
      (nodeChild lang true t start i).map (fun r => (r.t, r.alias)) = (enumChildren lang t)[i]?
    | .mk d kids, ps, start, i, hs, hsh => by
      unfold Summarized at hs
      unfold shapeOK at hsh
      simp only [Bool.and_eq_true] at hsh
      unfold nodeChild enumChildren
      exact child_kids_spec lang kids d.productionId d.addr kids.length start 0 0 i (some d.symbol) hs.2.2 hsh.2
  theorem child_kids_spec (lang : Lang) : ∀ (kids : List Tree) (pid addr n : Nat) (pos : Length) (si k i : Nat)
      (ps : Option Nat), SummarizedL lang kids → shapeOKL ps kids = true →
      (nodeChildKids lang true pid addr n kids pos si k i).map (fun r => (r.t, r.alias)) = (enumKids lang pid kids si)[i]?
    | [], _, _, _, _, _, _, _, _, _, _ => by simp [nodeChildKids, enumKids]
    | c :: rest, pid, addr, n, pos, si, k, i, ps, hs, hsh => by
      unfold SummarizedL at hs
      unfold shapeOKL at hsh
      simp only [Bool.and_eq_true] at hsh
      unfold nodeChildKids enumKids
      simp only [isRelevant, if_true]
      by_cases hrel : (c.data.visible || (if c.data.extra then 0 else lang.aliasAt pid si) != 0) = true
      · simp only [hrel, if_true]
        rw [getElem?_single_append]
        by_cases hi : i = 0
        · simp [hi]
        · simp only [hi, if_false]
          exact child_kids_spec lang rest pid addr n _ _ (k + 1) (i - 1) ps hs.2 hsh.2
      · simp only [hrel, if_false, Bool.false_eq_true]
        have hcnt := summarize_counts lang c ps hs.1 hsh.1
        have hgc : relevantChildCount c true = (enumChildren lang c).length := by
          obtain ⟨cd, ck⟩ := c
          cases ck with
          | nil => simp [relevantChildCount, Tree.kids, enumChildren, enumKids]
          | cons x xs =>
            have := hcnt.1
            simp only [Tree.data] at this
            simp [relevantChildCount, Tree.kids, Tree.data, this]
        by_cases hi : i < relevantChildCount c true
        · simp only [hi, if_true]
          rw [List.getElem?_append_left (by rw [← hgc]; exact hi)]
          exact child_spec lang c ps _ i hs.1 hsh.1
        · simp only [hi, if_false]
          rw [List.getElem?_append_right (by rw [← hgc]; omega), ← hgc]
          exact child_kids_spec lang rest pid addr n _ _ (k + 1) (i - relevantChildCount c true) ps hs.2 hsh.2
end

mutual
  /-- `named_child_spec`: the port of `ts_node__child(self, i, include_anonymous = false)` returns the
  i-th NAMED entry of the enumeration of visible children, for all summarized parser-shaped trees
  in which unnamed visible nodes are leaves (`anonLeafOK`, evaluated on every real tree). -/
  theorem named_child_spec (lang : Lang) : ∀ (t : Tree) (ps : Option Nat) (start : Length) (i : Nat),
      Summarized lang t → shapeOK ps t = true → anonLeafOKKids lang t.kids t.data.productionId 0 = true →
      (nodeChild lang false t start i).map (fun r => (r.t, r.alias)) =
        ((enumChildren lang t).filter (entryNamed lang))[i]?
    | .mk d kids, ps, start, i, hs, hsh, hok => by
      unfold Summarized at hs
      unfold shapeOK at hsh
      simp only [Bool.and_eq_true] at hsh
      unfold nodeChild enumChildren
      exact named_kids_spec lang kids d.productionId d.addr kids.length start 0 0 i (some d.symbol) hs.2.2 hsh.2 hok
  theorem named_kids_spec (lang : Lang) : ∀ (kids : List Tree) (pid addr n : Nat) (pos : Length) (si k i : Nat)
      (ps : Option Nat), SummarizedL lang kids → shapeOKL ps kids = true → anonLeafOKKids lang kids pid si = true →
      (nodeChildKids lang false pid addr n kids pos si k i).map (fun r => (r.t, r.alias)) =
        ((enumKids lang pid kids si).filter (entryNamed lang))[i]?
    | [], _, _, _, _, _, _, _, _, _, _, _ => by simp [nodeChildKids, enumKids]
    | c :: rest, pid, addr, n, pos, si, k, i, ps, hs, hsh, hok => by
      unfold SummarizedL at hs
      unfold shapeOKL at hsh
      unfold anonLeafOKKids at hok
      simp only [Bool.and_eq_true] at hsh hok
      unfold nodeChildKids enumKids
      simp only [List.filter_append]
      have ihr := fun i' => named_kids_spec lang rest pid addr n
        (length_add (if k > 0 then length_add pos c.data.padding else pos) c.data.size)
        (if c.data.extra then si else si + 1) (k + 1) i' ps hs.2 hsh.2 hok.2
      by_cases hva : (c.data.visible || (if c.data.extra then 0 else lang.aliasAt pid si) != 0) = true
      · -- the child is itself an entry of the enumeration
        simp only [hva, if_true]
        have hrel : isRelevant lang c (if c.data.extra then 0 else lang.aliasAt pid si) false =
            entryNamed lang (c, (if c.data.extra then 0 else lang.aliasAt pid si)) := by
          simp only [isRelevant, entryNamed, Bool.false_eq_true, if_false]
          by_cases ha : ((if c.data.extra then 0 else lang.aliasAt pid si) != 0) = true
          · simp [ha]
          · have hv : c.data.visible = true := by
              simp only [Bool.or_eq_true] at hva
              rcases hva with h | h
              · exact h
              · exact absurd h ha
            simp [ha, hv]
        by_cases hn : entryNamed lang (c, (if c.data.extra then 0 else lang.aliasAt pid si)) = true
        · simp only [hrel, hn, if_true, List.filter_cons_of_pos, List.filter_nil]
          rw [getElem?_single_append]
          by_cases hi : i = 0
          · simp [hi]
          · simp only [hi, if_false]
            exact ihr (i - 1)
        · have hn' : entryNamed lang (c, (if c.data.extra then 0 else lang.aliasAt pid si)) = false := by simpa using hn
          -- not named: by `anonLeafOK` it has no children, so nothing is skipped into
          have hleaf : c.kids = [] := by
            obtain ⟨cd, ck⟩ := c
            have h := hok.1
            unfold anonLeafOK at h
            simp only [Tree.data, entryNamed] at hva hn' h
            generalize (if cd.extra = true then 0 else lang.aliasAt pid si) = al at hva hn' h
            simp only [Bool.and_eq_true] at h
            have h1 := h.1
            simp only [hva, hn', Bool.not_false, Bool.and_self, if_true] at h1
            simpa [Tree.kids] using h1
          simp only [hrel, hn', Bool.false_eq_true, if_false]
          have hgc : relevantChildCount c false = 0 := by simp [relevantChildCount, hleaf]
          simp only [hgc, Nat.not_lt_zero, if_false, Nat.sub_zero]
          have hf : List.filter (entryNamed lang) [(c, if c.data.extra = true then 0 else lang.aliasAt pid si)] = [] := by
            simp [List.filter, hn']
          rw [hf, List.nil_append]
          exact ihr i
      · -- a hidden child: replaced by its own named children, counted by the cached named_child_count
        have hva' : (c.data.visible || (if c.data.extra then 0 else lang.aliasAt pid si) != 0) = false := by simpa using hva
        simp only [hva', Bool.false_eq_true, if_false]
        have hnotrel : isRelevant lang c (if c.data.extra then 0 else lang.aliasAt pid si) false = false := by
          simp only [Bool.or_eq_false_iff] at hva'
          have ha : ((if c.data.extra then 0 else lang.aliasAt pid si) != 0) = false := hva'.2
          simp [isRelevant, ha, hva'.1]
        simp only [hnotrel, Bool.false_eq_true, if_false]
        have hcnt := summarize_counts lang c ps hs.1 hsh.1
        have hgc : relevantChildCount c false = ((enumChildren lang c).filter (entryNamed lang)).length := by
          obtain ⟨cd, ck⟩ := c
          cases ck with
          | nil => simp [relevantChildCount, Tree.kids, enumChildren, enumKids]
          | cons x xs =>
            have := hcnt.2.1
            simp only [Tree.data] at this
            simp [relevantChildCount, Tree.kids, Tree.data, this]
        have hokc : anonLeafOKKids lang c.kids c.data.productionId 0 = true := by
          obtain ⟨cd, ck⟩ := c
          have h := hok.1
          unfold anonLeafOK at h
          simp only [Bool.and_eq_true] at h
          simpa [Tree.kids, Tree.data] using h.2
        by_cases hi : i < relevantChildCount c false
        · simp only [hi, if_true]
          rw [List.getElem?_append_left (by rw [← hgc]; exact hi)]
          exact named_child_spec lang c ps _ i hs.1 hsh.1 hokc
        · simp only [hi, if_false]
          rw [List.getElem?_append_right (by rw [← hgc]; omega), ← hgc]
          exact ihr (i - relevantChildCount c false)
end

mutual
  /-- The children of a node of `flatten` are the enumeration of visible children, one for one. -/
  theorem flattenAt_length (lang : Lang) : ∀ (t : Tree) (pos : Length) (al id : Nat) (chain : List (List Nat)),
      (flattenAt lang t pos al id chain).length = if t.data.visible || al != 0 then 1 else (enumChildren lang t).length
    | .mk d kids, pos, al, id, chain => by
      unfold flattenAt enumChildren
      simp only [Tree.data]
      by_cases h : (d.visible || al != 0) = true
      · simp [h]
      · simp only [h, if_false, Bool.false_eq_true]
        exact flattenKids_length lang kids pos d.productionId 0 0 d.addr kids.length chain
  theorem flattenKids_length (lang : Lang) : ∀ (kids : List Tree) (cur : Length) (pid si i addr n : Nat)
      (outer : List (List Nat)),
      (flattenKids lang kids cur pid si i addr n outer).length = (enumKids lang pid kids si).length
    | [], _, _, _, _, _, _, _ => by simp [flattenKids, enumKids]
    | c :: rest, cur, pid, si, i, addr, n, outer => by
      unfold flattenKids enumKids
      simp only [List.length_append]
      rw [flattenAt_length lang c, flattenKids_length lang rest]
      by_cases h : (c.data.visible || (if c.data.extra then 0 else lang.aliasAt pid si) != 0) = true
      · simp [h]
      · simp [h]
end

/-- `child_count_spec`: in a summarized parser-shaped tree the advertised child count of the root
node (`ts_node_child_count`) is the number of children of the node in the ordered tree. -/
theorem child_count_spec (lang : Lang) (t : Tree) (rootId : Nat)
    (hs : Summarized lang t) (hsh : shapeOK none t = true) :
    t.data.visibleChildCount = (flatten lang t rootId).kids.length := by
  have h := (summarize_counts lang t none hs hsh).1
  obtain ⟨d, kids⟩ := t
  unfold flatten
  simp only [VTree.kids]
  rw [flattenKids_length]
  simpa [enumChildren, Tree.data] using h

/-- `iterPrev_int8_stops`: the reverse iterator of the unchanged code returns "no more siblings"
at EVERY child index ≡ 255 (mod 256), whatever the parent and however many children precede. -/
theorem iterPrev_int8_stops (lang : Lang) (it : Iter) (h : it.childIndex % 256 = 255) :
    iterPrev lang Quirks.current it = none := by
  simp [iterPrev, Quirks.current, h]

/-- `iterPrev_fixed_steps`: the repaired iterator yields the child at every valid index. -/
theorem iterPrev_fixed_steps (lang : Lang) (it : Iter) (hv : it.valid = true)
    (hi : it.childIndex < it.parent.kids.length) (hn : it.parent.kids.length ≤ u32max) :
    (iterPrev lang Quirks.none it).map (fun r => r.1.t) = it.parent.kids[it.childIndex]? := by
  have hne : (it.childIndex == u32max) = false := by
    simp only [beq_eq_false_iff_ne, ne_eq]; omega
  have hget : it.parent.kids[it.childIndex]? = some (it.parent.kids[it.childIndex]) := by simp [hi]
  unfold iterPrev
  simp only [Quirks.none, hv, hne, hget, Bool.not_true, Bool.or_self, Bool.false_eq_true, if_false]
  split <;> simp

/-- `iterPrev_undoes_iterNext`: stepping the REPAIRED reverse iterator from the state the forward
iterator reached brings back the child index, the structural index and the descendant index the
forward iterator had — i.e. it is a reverse of `ts_tree_cursor_child_iterator_next`.
(Positions are restored too when the skipped paddings/sizes have no rows; otherwise the caller
recomputes them — `recomputePosition`.) -/
theorem iterPrev_undoes_iterNext (lang : Lang) (it it' : Iter) (e : Entry) (vis : Bool)
    (hnext : iterNext lang it = some (e, vis, it'))
    (hmore : it'.childIndex < it.parent.kids.length) (hn : it.parent.kids.length ≤ u32max) :
    (iterPrev lang Quirks.none it').map (fun r => (r.2.2.childIndex, r.2.2.si, r.2.2.descIdx, r.2.2.parent)) =
      some (it.childIndex, it.si, it.descIdx, it.parent) := by
  unfold iterNext at hnext
  by_cases hv : (!it.valid || it.childIndex == it.parent.kids.length) = true
  · simp [hv] at hnext
  · simp only [hv, if_false, Bool.false_eq_true] at hnext
    cases hc : it.parent.kids[it.childIndex]? with
    | none => simp [hc] at hnext
    | some child =>
      simp only [hc, Option.some.injEq, Prod.mk.injEq] at hnext
      obtain ⟨he, hvis, hit⟩ := hnext
      subst hit
      simp only at hmore ⊢
      have hvalid : it.valid = true := by
        cases h : it.valid <;> simp [h] at hv ⊢
      have hne : (it.childIndex + 1 == u32max) = false := by
        simp only [beq_eq_false_iff_ne, ne_eq]; omega
      have hget : it.parent.kids[it.childIndex + 1]? = some (it.parent.kids[it.childIndex + 1]) := by simp [hmore]
      have hlt : it.childIndex < it.parent.kids.length := by omega
      have h10 : (it.childIndex + 1 == 0) = false := by simp
      unfold iterPrev
      simp only [Quirks.none, hvalid, hne, hget, Bool.not_true, Bool.or_self, Bool.false_eq_true, if_false,
        Nat.add_sub_cancel, h10]
      rw [if_pos hlt, hc]
      simp only [Option.map_some, Option.some.injEq, Prod.mk.injEq, true_and, and_true]
      by_cases hx : child.data.extra = true
      · simp [hx]
        omega
      · simp [hx]
        omega

theorem renderList_append (lang : Lang) : ∀ (a b : List VTree), renderList lang (a ++ b) = renderList lang a ++ renderList lang b
  | [], b => by simp [renderList]
  | x :: a, b => by
    simp only [List.cons_append, renderList]
    rw [renderList_append lang a b, String.append_assoc]

theorem chainField_cons (l : List Nat) (outer : List (List Nat)) :
    chainField (l :: outer) = firstSome l.head? (chainField outer) := by
  cases l with
  | nil => simp [chainField, List.find?, firstSome]
  | cons x xs => simp [chainField, List.find?, firstSome]

mutual
  /-- `write_spec` / `writeKids_spec`: for every subtree in every context (alias, field chain,
  position), the port of the S-expression writer prints exactly the rendering of the visible
  nodes `flatten` finds in that subtree. -/
  theorem write_spec (lang : Lang) : ∀ (t : Tree) (pos : Length) (al id : Nat) (chain : List (List Nat)),
      sexpOK lang t al = true →
      writeNode lang t al (al != 0 && (lang.symMeta al).named) (chainField chain) false =
        renderList lang (flattenAt lang t pos al id chain)
    | .mk d kids, pos, al, id, chain, hok => by
      unfold sexpOK at hok
      simp only [Bool.and_eq_true] at hok
      unfold writeNode flattenAt
      by_cases hv : (d.visible || al != 0) = true
      · simp only [hv, if_true] at hok ⊢
        have hk := writeKids_spec lang kids pos d.productionId 0 0 d.addr kids.length [] hok.2
        simp only [renderList, renderInner, String.append_empty]
        have hnone : chainField ([] : List (List Nat)) = none := by simp [chainField]
        rw [hnone] at hk
        have hvis : (d.isMissing || if (al != 0) = true then al != 0 && (lang.symMeta al).named else d.visible && d.named)
            = (d.isMissing || if (al != 0) = true then (lang.symMeta al).named else d.named) := by
          by_cases ha : (al != 0) = true
          · simp [ha]
          · have hdv : d.visible = true := by
              simp only [Bool.or_eq_true] at hv
              rcases hv with h | h
              · exact h
              · exact absurd h ha
            simp [ha, hdv]
        rw [hvis]
        by_cases hp : (d.isMissing || if (al != 0) = true then (lang.symMeta al).named else d.named) = true
        · simp only [hp, if_true, Bool.not_false]
          rw [hk]
          simp only [renderOpen, Tree.data, Tree.kids]
          by_cases ha : (al != 0) = true <;> simp [ha, String.append_assoc]
        · simp only [hp, if_false, Bool.false_eq_true]
          have hke : kids = [] := by
            have := hok.1
            simp only [Bool.or_eq_true, hp, false_or] at this
            simpa using this
          subst hke
          simp [writeKids, flattenKids, renderList]
      · simp only [hv, if_false, Bool.false_eq_true] at hok ⊢
        have hk := writeKids_spec lang kids pos d.productionId 0 0 d.addr kids.length chain hok.2
        simp only [Bool.or_eq_true, not_or, Bool.not_eq_true] at hv
        have hm : d.isMissing = false := by simpa using hok.1
        have ha : (al != 0) = false := hv.2
        simp only [hm, ha, hv.1, Bool.false_or, Bool.false_and, if_false, Bool.false_eq_true, String.append_empty]
        simpa using hk
  theorem writeKids_spec (lang : Lang) : ∀ (kids : List Tree) (cur : Length) (pid si i addr n : Nat)
      (outer : List (List Nat)), sexpOKKids lang kids pid si = true →
      writeKids lang kids pid si (chainField outer) = renderList lang (flattenKids lang kids cur pid si i addr n outer)
    | [], _, _, _, _, _, _, _, _ => by simp [writeKids, flattenKids, renderList]
    | c :: rest, cur, pid, si, i, addr, n, outer, hok => by
      unfold sexpOKKids at hok
      simp only [Bool.and_eq_true] at hok
      unfold writeKids flattenKids
      rw [renderList_append]
      by_cases hx : c.data.extra = true
      · simp only [hx, if_true] at hok ⊢
        have h1 := write_spec lang c cur 0 (slotId addr n i) [] hok.1
        have h2 := writeKids_spec lang rest (length_add cur c.totalSize) pid si (i + 1) addr n outer hok.2
        simp only [chainField, List.find?, Option.bind] at h1
        rw [← h1, ← h2]; rfl
      · simp only [hx, if_false, Bool.false_eq_true] at hok ⊢
        have h1 := write_spec lang c cur (lang.aliasAt pid si) (slotId addr n i) (directFields lang pid si :: outer) hok.1
        have h2 := writeKids_spec lang rest (length_add cur c.totalSize) pid (si + 1) (i + 1) addr n outer hok.2
        rw [chainField_cons] at h1
        simp only [directField]
        rw [h1, h2]
end

/-- `sexp_spec`: "the node's S-expression is the rendering of that same tree" — for every
language whose symbol 0 (`end`) is hidden, and every tree in which hidden nodes are not MISSING and
unprinted visible nodes are leaves (`sexpOKKids`, evaluated on every explored real tree), the port
of `ts_node_string(root)` equals `render (flatten root)`. -/
theorem sexp_spec (lang : Lang) (root : Tree) (rootId : Nat) (hend : (lang.symMeta 0).visible = false)
    (hok : sexpOKKids lang root.kids root.data.productionId 0 = true) :
    nodeString lang root 0 =
      render lang (flatten lang root rootId) (root.data.isMissing || (root.data.visible && root.data.named)) := by
  obtain ⟨d, kids⟩ := root
  simp only [Tree.kids, Tree.data] at hok
  have hk := writeKids_spec lang kids length_zero d.productionId 0 0 d.addr kids.length [] hok
  have hnone : chainField ([] : List (List Nat)) = none := by simp [chainField]
  rw [hnone] at hk
  unfold nodeString writeNode flatten render
  simp only [hend, Tree.data, bne_self_eq_false, Bool.false_eq_true, if_false, ite_self, Bool.not_true]
  rw [hk]
  by_cases hp : (d.isMissing || (d.visible && d.named)) = true
  · simp only [hp, if_true]
    simp [renderOpen, Tree.data, Tree.kids, String.append_assoc]
  · simp only [hp, if_false, Bool.false_eq_true, String.append_empty]
    by_cases hkk : kids.length > 0
    · simp [hkk]
    · have : kids = [] := by
        cases kids with
        | nil => rfl
        | cons a b => simp at hkk
      subst this
      simp [flattenKids, renderList]

/-! ## Witnesses (tests on literals): the current code departs from the reverse of `next` -/

def wLeaf (extra : Bool) : Tree :=
  .mk { (default : NodeData) with symbol := 1, visible := true, named := true, extra := extra
                                  size := ⟨1, ⟨0, 1⟩⟩, ext := "-" } []

/-- A parent with 300 visible leaf children. -/
def wideParent : Tree := .mk { (default : NodeData) with symbol := 2, visible := true, named := true, ext := "-" }
  (List.replicate 300 (wLeaf false))

/-- `int8_witness`: child 255 of 300 has 255 earlier siblings, yet the current reverse iterator
reports none; the repaired one steps.  (This is `goto_previous_sibling` returning false at once on
`(` + 254 comments + `)`.) -/
def wideIter : Iter := { valid := true, parent := wideParent, pos := length_zero, childIndex := 255, si := 255, descIdx := 256 }

theorem int8_witness :
    (iterPrev {} Quirks.current wideIter).isNone = true ∧ (iterPrev {} Quirks.none wideIter).isSome = true := by
  constructor
  · rw [iterPrev_int8_stops _ _ (by decide)]; rfl
  · have hk : wideIter.parent.kids = List.replicate 300 (wLeaf false) := rfl
    have hlen : wideIter.parent.kids.length = 300 := by rw [hk]; exact List.length_replicate
    have h := iterPrev_fixed_steps {} wideIter rfl (by rw [hlen]; decide) (by rw [hlen]; decide)
    have hs : (wideIter.parent.kids[wideIter.childIndex]?).isSome = true := by
      rw [hk]
      show ((List.replicate 300 (wLeaf false))[255]?).isSome = true
      rw [List.getElem?_replicate]
      decide
    rw [← h] at hs
    simpa using hs

/-- `iterPrev_current_stale_si_witness`: children [a, b, extra]; stepping back from the extra
(structural index 2 = "next structural child") the current code arrives at `b` still with index 2
(should be 1), the repaired code with 1. -/
example :
    let p : Tree := .mk { (default : NodeData) with symbol := 2, visible := true, productionId := 1, ext := "-" }
                      [wLeaf false, wLeaf false, wLeaf true]
    let it : Iter := { valid := true, parent := p, pos := length_zero, childIndex := 2, si := 2, descIdx := 3 }
    ((iterPrev {} Quirks.current it).map fun r => r.2.2.si) = some 2 ∧
    ((iterPrev {} Quirks.none it).map fun r => r.2.2.si) = some 1 ∧
    ((iterPrev {} Quirks.none it).map fun r => r.2.2.descIdx) = some 2 := by
  decide

end TsVerif.C06
