import TsVerif.C06.CursorProps
/-!
C06, node.c navigation by search: `ts_node_child_with_descendant` and `ts_node_parent`.

Both functions find a node again by its BYTE RANGE and its id, scanning the raw children with the
positions `ts_node_child_iterator_next` computes.  The theorems here say what that search returns
for a NON-EMPTY target: the zero-width case is exactly where the search can take a wrong turn
(findings `C06-next-sibling-zero-width`, `C06-prev-sibling-zero-width`), so non-emptiness is an
explicit hypothesis, and `parentHyp` (NodeNav.lean) evaluates every hypothesis on every real tree.
-/
open TsVerif TsVerif.C02 TsGen

namespace TsVerif.C06

theorem cwd_unfold (lang : Lang) (fuel : Nat) (self : NodeRef) (dId dStart dEnd : Nat) :
    childWithDescendant lang (fuel + 1) self dId dStart dEnd =
      (match childWithDescendant.inner lang dId dStart dEnd fuel (dStart == dEnd) (rawChildren lang self) with
       | some (some r, _) => some r
       | some (none, some s) => if s.relevant lang true then some s else childWithDescendant lang fuel s dId dStart dEnd
       | _ => none) := by
  rw [childWithDescendant]; rfl

theorem inner_nil (lang : Lang) (fuel dId dStart dEnd : Nat) (e : Bool) :
    childWithDescendant.inner lang dId dStart dEnd fuel e [] = some (none, none) := by
  rw [childWithDescendant.inner]; try rfl

theorem inner_cons (lang : Lang) (fuel dId dStart dEnd : Nat) (e : Bool) (rc : RawChild) (rest : List RawChild) :
    childWithDescendant.inner lang dId dStart dEnd fuel e (rc :: rest) =
      (if rc.node.startByte > dStart then some (none, none)
       else if rc.node.id == dId then some (some rc.node, none)
       else
         match (if e && decide (rc.posAfter.bytes ≥ dEnd) && decide (rc.node.childCount > 0) then
                  (match childWithDescendant lang fuel rc.node dId dStart dEnd with
                   | some child => some (if rc.node.relevant lang true then rc.node else child)
                   | none => none)
                else none) with
         | some r => some (some r, none)
         | none =>
           if (if e then decide (rc.posAfter.bytes ≤ dEnd) else decide (rc.posAfter.bytes < dEnd)) || rc.node.childCount == 0
           then childWithDescendant.inner lang dId dStart dEnd fuel e rest else some (none, some rc.node)) := by
  rw [childWithDescendant.inner]; try rfl

/-- The loop body for a NON-EMPTY descendant (`is_empty = false`). -/
theorem inner_cons_ne (lang : Lang) (fuel dId dStart dEnd : Nat) (rc : RawChild) (rest : List RawChild) :
    childWithDescendant.inner lang dId dStart dEnd fuel false (rc :: rest) =
      (if rc.node.startByte > dStart then some (none, none)
       else if rc.node.id == dId then some (some rc.node, none)
       else if decide (rc.posAfter.bytes < dEnd) || rc.node.childCount == 0
       then childWithDescendant.inner lang dId dStart dEnd fuel false rest else some (none, some rc.node)) := by
  rw [inner_cons]
  simp

/-! ### Geometry of `rawChildren` (the positions `ts_node_child_iterator_next` computes) -/

theorem go_getElem_zero (lang : Lang) (n : NodeRef) (pid nk : Nat) (c : Tree) (rest : List Tree) (pos : Length) (si k : Nat) :
    rawChildren.go lang n pid nk (c :: rest) pos si k =
      { node := { t := c, alias := (if c.data.extra then 0 else lang.aliasAt pid si), id := slotId n.t.data.addr nk k,
                  start := (if k > 0 then length_add pos c.data.padding else pos) },
        posAfter := length_add (if k > 0 then length_add pos c.data.padding else pos) c.data.size, si := si, k := k } ::
      rawChildren.go lang n pid nk rest (length_add (if k > 0 then length_add pos c.data.padding else pos) c.data.size)
        (if c.data.extra then si else si + 1) (k + 1) := by
  rw [rawChildren.go]

/-- Every element starts at or after the running position, ends at start + size, and carries the
raw child at its index. -/
theorem go_elem (lang : Lang) (n : NodeRef) (pid nk : Nat) : ∀ (kids : List Tree) (pos : Length) (si k j : Nat) (rc : RawChild),
    (rawChildren.go lang n pid nk kids pos si k)[j]? = some rc →
    pos.bytes ≤ rc.node.start.bytes ∧ rc.posAfter.bytes = rc.node.start.bytes + rc.node.t.data.size.bytes ∧
    kids[j]? = some rc.node.t
  | [], _, _, _, _, _, h => by simp [rawChildren.go] at h
  | c :: rest, pos, si, k, j, rc, h => by
    rw [go_getElem_zero] at h
    cases j with
    | zero =>
      simp only [List.getElem?_cons_zero, Option.some.injEq] at h
      subst h
      refine ⟨?_, by simp [length_add_bytes], by simp⟩
      simp only
      split <;> simp [length_add_bytes]
    | succ j' =>
      simp only [List.getElem?_cons_succ] at h
      have ih := go_elem lang n pid nk rest _ _ _ j' rc h
      refine ⟨?_, ih.2.1, by simpa using ih.2.2⟩
      have := ih.1
      by_cases hk : k > 0 <;> simp only [hk, if_true, if_false, length_add_bytes] at this <;> omega

/-- Earlier elements end at or before the start of later ones. -/
theorem go_ordered (lang : Lang) (n : NodeRef) (pid nk : Nat) : ∀ (kids : List Tree) (pos : Length) (si k i j : Nat) (ri rj : RawChild),
    i < j → (rawChildren.go lang n pid nk kids pos si k)[i]? = some ri →
    (rawChildren.go lang n pid nk kids pos si k)[j]? = some rj → ri.posAfter.bytes ≤ rj.node.start.bytes
  | [], _, _, _, _, _, _, _, _, h, _ => by simp [rawChildren.go] at h
  | c :: rest, pos, si, k, i, j, ri, rj, hij, hi, hj => by
    rw [go_getElem_zero] at hi hj
    cases j with
    | zero => omega
    | succ j' =>
      simp only [List.getElem?_cons_succ] at hj
      cases i with
      | zero =>
        simp only [List.getElem?_cons_zero, Option.some.injEq] at hi
        subst hi
        exact (go_elem lang n pid nk rest _ _ _ j' rj hj).1
      | succ i' =>
        simp only [List.getElem?_cons_succ] at hi
        exact go_ordered lang n pid nk rest _ _ _ i' j' ri rj (by omega) hi hj

/-- End of the layout of `kids` started at byte `p` (child index `k`). -/
def layEnd : List Tree → Nat → Nat → Nat
  | [], p, _ => p
  | c :: rest, p, k => layEnd rest ((if k > 0 then p + c.data.padding.bytes else p) + c.data.size.bytes) (k + 1)

theorem layEnd_ge : ∀ (kids : List Tree) (p k : Nat), p ≤ layEnd kids p k
  | [], _, _ => Nat.le_refl _
  | c :: rest, p, k => by
    unfold layEnd
    have := layEnd_ge rest ((if k > 0 then p + c.data.padding.bytes else p) + c.data.size.bytes) (k + 1)
    by_cases hk : k > 0 <;> simp only [hk, if_true, if_false] at this ⊢ <;> omega

theorem layEnd_pos : ∀ (kids : List Tree) (p k : Nat), k > 0 → layEnd kids p k = p + sumBytes kids
  | [], _, _, _ => by simp [layEnd, sumBytes]
  | c :: rest, p, k, hk => by
    unfold layEnd
    simp only [hk, if_true]
    rw [layEnd_pos rest _ (k + 1) (by omega)]
    simp only [sumBytes, Tree.totalBytes]; omega

theorem go_below_end (lang : Lang) (n : NodeRef) (pid nk : Nat) : ∀ (kids : List Tree) (pos : Length) (si k j : Nat) (rc : RawChild),
    (rawChildren.go lang n pid nk kids pos si k)[j]? = some rc → rc.posAfter.bytes ≤ layEnd kids pos.bytes k
  | [], _, _, _, _, _, h => by simp [rawChildren.go] at h
  | c :: rest, pos, si, k, j, rc, h => by
    rw [go_getElem_zero] at h
    unfold layEnd
    cases j with
    | zero =>
      simp only [List.getElem?_cons_zero, Option.some.injEq] at h
      subst h
      have := layEnd_ge rest ((if k > 0 then pos.bytes + c.data.padding.bytes else pos.bytes) + c.data.size.bytes) (k + 1)
      simp only [length_add_bytes]
      split <;> simp_all [length_add_bytes]
    | succ j' =>
      simp only [List.getElem?_cons_succ] at h
      have := go_below_end lang n pid nk rest _ _ _ j' rc h
      simp only [length_add_bytes] at this
      split at this <;> simp_all [length_add_bytes]


theorem sizedL_getElem : ∀ (kids : List Tree) (j : Nat) (c : Tree), SizedL kids → kids[j]? = some c → Sized c
  | [], _, _, _, h => by simp at h
  | k :: rest, j, c, hs, h => by
    unfold SizedL at hs
    cases j with
    | zero => simp at h; subst h; exact hs.1
    | succ j' => exact sizedL_getElem rest j' c hs.2 (by simpa using h)

/-- A raw child lies inside its parent's byte range (by the summarised sizes), and is itself `Sized`. -/
theorem raw_child_nested (lang : Lang) (n : NodeRef) (hs : Sized n.t) (j : Nat) (rc : RawChild)
    (h : (rawChildren lang n)[j]? = some rc) :
    n.startByte ≤ rc.node.startByte ∧ rc.node.endByte ≤ n.endByte ∧ rc.posAfter.bytes = rc.node.endByte ∧ Sized rc.node.t := by
  obtain ⟨t, al, id, st⟩ := n
  obtain ⟨d, kids⟩ := t
  simp only [rawChildren, kids_mk, data_mk] at h
  have he := go_elem lang _ _ _ kids st 0 0 j rc h
  have hb := go_below_end lang _ _ _ kids st 0 0 j rc h
  unfold Sized at hs
  simp only [NodeRef.startByte, NodeRef.endByte, data_mk]
  refine ⟨he.1, ?_, he.2.1, sizedL_getElem kids j _ hs.2 he.2.2⟩
  cases kids with
  | nil => simp at he
  | cons c rest =>
    have hsz := (hs.1 (by simp)).2
    rw [hsz, kidsSize, restSize_bytes]
    unfold layEnd at hb
    simp only [Nat.lt_irrefl, if_false, gt_iff_lt] at hb
    rw [layEnd_pos _ _ _ (by omega)] at hb
    omega

theorem nodeAt_nested (lang : Lang) : ∀ (path : List Nat) (n d : NodeRef), Sized n.t → nodeAt lang n path = some d →
    n.startByte ≤ d.startByte ∧ d.endByte ≤ n.endByte ∧ Sized d.t
  | [], n, d, hs, h => by simp [nodeAt] at h; subst h; exact ⟨Nat.le_refl _, Nat.le_refl _, hs⟩
  | k :: rest, n, d, hs, h => by
    simp only [nodeAt, rawChildAt] at h
    cases hk : (rawChildren lang n)[k]? with
    | none => simp [hk] at h
    | some rc =>
      simp only [hk, Option.map_some] at h
      have hn := raw_child_nested lang n hs k rc hk
      have ih := nodeAt_nested lang rest rc.node d hn.2.2.2 h
      exact ⟨by omega, by omega, ih.2.2⟩

/-- Scanning the children of a node for a NON-EMPTY descendant that lies under child `k`:
everything before `k` is passed over. -/
theorem inner_skip (lang : Lang) (fuel dId dStart dEnd : Nat) (hne : dStart < dEnd) :
    ∀ (k : Nat) (L : List RawChild) (rc : RawChild), L[k]? = some rc → rc.node.startByte ≤ dStart →
    (∀ i ri, i < k → L[i]? = some ri → ri.posAfter.bytes ≤ rc.node.startByte ∧ ri.node.startByte ≤ ri.posAfter.bytes) →
    ((L.take k).all (fun r => r.node.id != dId)) = true →
    childWithDescendant.inner lang dId dStart dEnd fuel false L =
      childWithDescendant.inner lang dId dStart dEnd fuel false (L.drop k)
  | 0, _, _, _, _, _, _ => by simp
  | k + 1, [], _, h, _, _, _ => by simp at h
  | k + 1, r0 :: rest, rc, h, hst, hord, hid => by
    have h0 := hord 0 r0 (by omega) (by simp)
    simp only [List.take_succ_cons, List.all_cons, Bool.and_eq_true, bne_iff_ne, ne_eq] at hid
    rw [inner_cons_ne]
    have h1 : ¬ (r0.node.startByte > dStart) := by omega
    have h2 : (r0.node.id == dId) = false := by simpa using hid.1
    have h3 : decide (r0.posAfter.bytes < dEnd) = true := by simp; omega
    simp only [h1, if_false, h2, h3, Bool.true_or, if_true, List.drop_succ_cons, Bool.false_eq_true]
    exact inner_skip lang fuel dId dStart dEnd hne k rest rc (by simpa using h) hst
      (fun i ri hi hri => hord (i + 1) ri (by omega) (by simpa using hri)) hid.2


theorem raw_ordered (lang : Lang) (n : NodeRef) (i j : Nat) (ri rj : RawChild) (hij : i < j)
    (hi : (rawChildren lang n)[i]? = some ri) (hj : (rawChildren lang n)[j]? = some rj) :
    ri.posAfter.bytes ≤ rj.node.startByte ∧ ri.node.startByte ≤ ri.posAfter.bytes := by
  simp only [rawChildren] at hi hj
  have h1 := go_ordered lang _ _ _ _ _ _ _ i j ri rj hij hi hj
  have h2 := (go_elem lang _ _ _ _ _ _ _ i ri hi).2.1
  simp only [NodeRef.startByte]
  omega

/-- **child_with_descendant_spec_partial.**  For a NON-EMPTY descendant `d` reached from `self`
by a path of raw child indices, `ts_node_child_with_descendant(self, d)` returns the first
relevant node on that path below `self` (or `d` itself at the end of the path). -/
theorem child_with_descendant_spec_partial (lang : Lang) :
    ∀ (path : List Nat) (fuel : Nat) (self d : NodeRef), path ≠ [] → path.length ≤ fuel → Sized self.t →
    nodeAt lang self path = some d → d.startByte < d.endByte → pathOK lang d.id self path = true →
    childWithDescendant lang fuel self d.id d.startByte d.endByte = firstRelevantOnPath lang self path
  | [], _, _, _, h, _, _, _, _, _ => absurd rfl h
  | k :: rest, 0, _, _, _, hf, _, _, _, _ => by simp at hf
  | k :: rest, f + 1, self, d, _, hf, hs, hat, hne, hok => by
    simp only [nodeAt, rawChildAt] at hat
    simp only [pathOK, rawChildAt, Bool.and_eq_true] at hok
    simp only [firstRelevantOnPath, rawChildAt]
    cases hk : (rawChildren lang self)[k]? with
    | none => simp [hk] at hat
    | some rc =>
      simp only [hk, Option.map_some] at hat hok ⊢
      have hn := raw_child_nested lang self hs k rc hk
      have hd := nodeAt_nested lang rest rc.node d hn.2.2.2 hat
      rw [cwd_unfold]
      have he : (d.startByte == d.endByte) = false := by simp; omega
      rw [he]
      rw [inner_skip lang f d.id d.startByte d.endByte hne k _ rc hk hd.1
        (fun i ri hi hri => raw_ordered lang self i k ri rc hi hri hk) hok.1]
      have hdrop : (rawChildren lang self).drop k = rc :: (rawChildren lang self).drop (k + 1) := by
        rw [List.drop_eq_getElem?_toList_append, hk]; rfl
      rw [hdrop, inner_cons_ne]
      have h1 : ¬ (rc.node.startByte > d.startByte) := by omega
      simp only [h1, if_false]
      cases rest with
      | nil =>
        simp only [nodeAt, Option.some.injEq] at hat
        subst hat
        simp
      | cons k' rest' =>
        simp only [List.isEmpty_cons, Bool.false_or, Bool.and_eq_true, bne_iff_ne, ne_eq] at hok ⊢
        have h2 : (rc.node.id == d.id) = false := by simpa using hok.2.1.1
        have h3 : decide (rc.posAfter.bytes < d.endByte) = false := by simp; omega
        have h4 : (rc.node.childCount == 0) = false := by simpa using hok.2.1.2
        simp only [h2, h3, h4, Bool.or_false, Bool.false_eq_true, if_false]
        cases hrel : rc.node.relevant lang true with
        | true => simp
        | false =>
          simp only [Bool.false_eq_true, if_false]
          exact child_with_descendant_spec_partial lang (k' :: rest') f rc.node d (by simp)
            (by simp at hf ⊢; omega) hn.2.2.2 hat hne hok.2.2


/-! ### `ts_node_parent` -/

theorem firstRelevant_eq_split (lang : Lang) : ∀ (p : List Nat) (n : NodeRef),
    firstRelevantOnPath lang n p = (relSplit lang n p).map (·.1)
  | [], _ => rfl
  | k :: rest, n => by
    simp only [firstRelevantOnPath, relSplit]
    cases rawChildAt lang n k with
    | none => rfl
    | some c =>
      simp only
      split
      · rfl
      · exact firstRelevant_eq_split lang rest c

theorem parentOnPath_split (lang : Lang) : ∀ (p : List Nat) (n best : NodeRef),
    parentOnPath lang best n p =
      (match relSplit lang n p with
       | none => best
       | some (c, rest) => if rest.isEmpty then best else parentOnPath lang c c rest)
  | [], _, _ => rfl
  | [k], n, best => by
    simp only [parentOnPath, relSplit]
    cases rawChildAt lang n k <;> simp
  | k :: k' :: rest, n, best => by
    simp only [parentOnPath, relSplit]
    cases rawChildAt lang n k with
    | none => rfl
    | some c =>
      simp only [List.isEmpty_cons, Bool.false_or]
      cases hr : c.relevant lang true with
      | true => simp
      | false =>
        simp only [Bool.false_eq_true, if_false]
        exact parentOnPath_split lang (k' :: rest) c best

theorem relSplit_inv (lang : Lang) (d : NodeRef) : ∀ (p : List Nat) (n c : NodeRef) (rest : List Nat),
    relSplit lang n p = some (c, rest) → nodeAt lang n p = some d → pathOK lang d.id n p = true → Sized n.t →
    nodeAt lang c rest = some d ∧ (rest ≠ [] → c.id ≠ d.id ∧ pathOK lang d.id c rest = true) ∧ Sized c.t ∧
      rest.length < p.length
  | [], _, _, _, h, _, _, _ => by simp [relSplit] at h
  | k :: tl, n, c, rest, h, hat, hok, hs => by
    simp only [relSplit] at h
    simp only [nodeAt] at hat
    simp only [pathOK, Bool.and_eq_true] at hok
    cases hk : rawChildAt lang n k with
    | none => simp [hk] at h
    | some c0 =>
      simp only [hk] at h hat hok
      have hsz : Sized c0.t := by
        simp only [rawChildAt] at hk
        cases hr : (rawChildren lang n)[k]? with
        | none => simp [hr] at hk
        | some rc =>
          simp only [hr, Option.map_some, Option.some.injEq] at hk
          subst hk
          exact (raw_child_nested lang n hs k rc hr).2.2.2
      by_cases hc : (tl.isEmpty || c0.relevant lang true) = true
      · simp only [hc, if_true, Option.some.injEq, Prod.mk.injEq] at h
        obtain ⟨h1, h2⟩ := h
        subst h1; subst h2
        refine ⟨hat, ?_, hsz, by simp⟩
        intro hne
        have : tl.isEmpty = false := by cases tl <;> simp_all
        simp only [this, Bool.false_or, Bool.and_eq_true, bne_iff_ne, ne_eq] at hok
        exact ⟨hok.2.1.1, hok.2.2⟩
      · simp only [hc, if_false, Bool.false_eq_true] at h
        have : tl.isEmpty = false := by cases tl <;> simp_all
        simp only [this, Bool.false_or, Bool.and_eq_true, bne_iff_ne, ne_eq] at hok
        have ih := relSplit_inv lang d tl c0 c rest h hat hok.2.2 hsz
        exact ⟨ih.1, ih.2.1, ih.2.2.1, by simp; omega⟩

/-- **parent_spec_partial.**  For a NON-EMPTY node `d` at `path` below `root` (`path ≠ []`),
`ts_node_parent(d)` is the nearest relevant proper ancestor on the path (`root` if none). -/
theorem parent_spec_partial (lang : Lang) (fuel : Nat) (root d : NodeRef) (path : List Nat)
    (hp : path ≠ []) (hf : path.length ≤ fuel) (hs : Sized root.t) (hat : nodeAt lang root path = some d)
    (hne : d.startByte < d.endByte) (hroot : root.id ≠ d.id) (hok : pathOK lang d.id root path = true) :
    nodeParent lang fuel root d = some (parentOnPath lang root root path) := by
  have key : ∀ (f : Nat) (p : List Nat) (n : NodeRef), p ≠ [] → p.length ≤ f → p.length ≤ fuel → Sized n.t →
      nodeAt lang n p = some d → pathOK lang d.id n p = true →
      nodeParent.go lang fuel d f n = parentOnPath lang n n p := by
    intro f
    induction f with
    | zero => intro p n hp hf; cases p <;> simp_all
    | succ f ih =>
      intro p n hp hf hfu hs hat hok
      rw [nodeParent.go, child_with_descendant_spec_partial lang p fuel n d hp hfu hs hat hne hok,
        firstRelevant_eq_split, parentOnPath_split]
      cases hsp : relSplit lang n p with
      | none => rfl
      | some cr =>
        obtain ⟨c, rest⟩ := cr
        have hi := relSplit_inv lang d p n c rest hsp hat hok hs
        simp only [Option.map_some]
        cases rest with
        | nil =>
          have : c = d := by simpa [nodeAt] using hi.1
          subst this
          simp
        | cons k' rest' =>
          have h2 := hi.2.1 (by simp)
          have : (c.id == d.id) = false := by simpa using h2.1
          simp only [this, Bool.false_eq_true, if_false, List.isEmpty_cons]
          exact ih (k' :: rest') c (by simp) (by have := hi.2.2.2; omega) (by have := hi.2.2.2; omega)
            hi.2.2.1 hi.1 h2.2
  unfold nodeParent
  have : (root.id == d.id) = false := by simpa using hroot
  simp only [this, Bool.false_eq_true, if_false]
  rw [key fuel path root hp hf hf hs hat hok]

/-! ## Non-vacuity -/

def atAddr (t : Tree) (a : Nat) : Tree := match t with | .mk d k => .mk { d with addr := a } k

/-- root(visible, @1000) → [leaf a, hidden h(@2000) → [rule v(@3000) → [leaf b], leaf c], leaf d] -/
def pvV : Tree := atAddr (C02.newNode C02.demoLang 2 [cwLeaf] 0) 3000
def pvH : Tree := atAddr (C02.newNode C02.demoLang 3 [pvV, cwLeaf] 0) 2000
def pvRoot : NodeRef := { t := atAddr (C02.newNode C02.demoLang 2 [cwLeaf, pvH, cwLeaf] 0) 1000, alias := 0, id := 1, start := length_zero }

theorem pvRoot_sized : Sized pvRoot.t := by
  simp [pvRoot, atAddr, pvH, pvV, cwLeaf, C02.demoLeaf, C02.newNode, C02.newLeaf, Sized, SizedL]
  decide


/-- the leaf `b` below the visible rule `v` below the hidden `h` -/
def pvB : NodeRef := { t := cwLeaf, alias := 0, id := 2992, start := ⟨1, ⟨0, 1⟩⟩ }
/-- the leaf `c` directly below the hidden `h` -/
def pvC : NodeRef := { t := cwLeaf, alias := 0, id := 1992, start := ⟨2, ⟨0, 2⟩⟩ }

/-- The hypotheses of `parent_spec_partial` are satisfiable, and the theorem computes: the parent
of `b` is `v` (id 1984 = slot 0 of `h`), the parent of `c` — whose raw parent `h` is hidden — is
the root. -/
example : (nodeParent C02.demoLang 3 pvRoot pvB).map (·.id) = some 1984 := by
  rw [parent_spec_partial C02.demoLang 3 pvRoot pvB [1, 0, 0] (by simp) (by simp) pvRoot_sized rfl (by decide)
    (by decide) (by decide)]
  decide
example : (nodeParent C02.demoLang 2 pvRoot pvC).map (·.id) = some 1 := by
  rw [parent_spec_partial C02.demoLang 2 pvRoot pvC [1, 1] (by simp) (by simp) pvRoot_sized rfl (by decide)
    (by decide) (by decide)]
  decide
example : (childWithDescendant C02.demoLang 3 pvRoot pvB.id pvB.startByte pvB.endByte).map (·.id) = some 1984 := by
  rw [child_with_descendant_spec_partial C02.demoLang [1, 0, 0] 3 pvRoot pvB (by simp) (by simp) pvRoot_sized rfl
    (by decide) (by decide)]
  decide


end TsVerif.C06
