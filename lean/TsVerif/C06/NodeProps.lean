import TsVerif.C06.CursorProps
/-!
C06, node.c navigation by search: `ts_node_child_with_descendant` and `ts_node_parent`.

Both functions find a node again by its BYTE RANGE and its id, scanning the raw children with the
positions `ts_node_child_iterator_next` computes.  The theorems here say what that search returns
for a NON-EMPTY target: the zero-width case is exactly where the search can take a wrong turn
(findings `C06-next-sibling-zero-width`, `C06-prev-sibling-zero-width`), so non-emptiness is an
explicit hypothesis, and `parentHyp` (NodeNav.lean) evaluates every hypothesis on every real tree.
-/
open TsVerif TsVerif.C02 TsGen

namespace TsVerif.C06

theorem cwd_unfold (lang : Lang) (fuel : Nat) (self : NodeRef) (dId dStart dEnd : Nat) :
    childWithDescendant lang (fuel + 1) self dId dStart dEnd =
      (match childWithDescendant.inner lang dId dStart dEnd fuel (dStart == dEnd) (rawChildren lang self) with
       | some (some r, _) => some r
       | some (none, some s) => if s.relevant lang true then some s else childWithDescendant lang fuel s dId dStart dEnd
       | _ => none) := by
  rw [childWithDescendant]; rfl

theorem inner_nil (lang : Lang) (fuel dId dStart dEnd : Nat) (e : Bool) :
    childWithDescendant.inner lang dId dStart dEnd fuel e [] = some (none, none) := by
  rw [childWithDescendant.inner]; try rfl

theorem inner_cons (lang : Lang) (fuel dId dStart dEnd : Nat) (e : Bool) (rc : RawChild) (rest : List RawChild) :
    childWithDescendant.inner lang dId dStart dEnd fuel e (rc :: rest) =
      (if rc.node.startByte > dStart then some (none, none)
       else if rc.node.id == dId then some (some rc.node, none)
       else
         match (if e && decide (rc.posAfter.bytes ≥ dEnd) && decide (rc.node.childCount > 0) then
                  (match childWithDescendant lang fuel rc.node dId dStart dEnd with
                   | some child => some (if rc.node.relevant lang true then rc.node else child)
                   | none => none)
                else none) with
         | some r => some (some r, none)
         | none =>
           if (if e then decide (rc.posAfter.bytes ≤ dEnd) else decide (rc.posAfter.bytes < dEnd)) || rc.node.childCount == 0
           then childWithDescendant.inner lang dId dStart dEnd fuel e rest else some (none, some rc.node)) := by
  rw [childWithDescendant.inner]; try rfl

/-- The loop body for a NON-EMPTY descendant (`is_empty = false`). -/
theorem inner_cons_ne (lang : Lang) (fuel dId dStart dEnd : Nat) (rc : RawChild) (rest : List RawChild) :
    childWithDescendant.inner lang dId dStart dEnd fuel false (rc :: rest) =
      (if rc.node.startByte > dStart then some (none, none)
       else if rc.node.id == dId then some (some rc.node, none)
       else if decide (rc.posAfter.bytes < dEnd) || rc.node.childCount == 0
       then childWithDescendant.inner lang dId dStart dEnd fuel false rest else some (none, some rc.node)) := by
  rw [inner_cons]
  simp

/-! ### Geometry of `rawChildren` (the positions `ts_node_child_iterator_next` computes) -/

theorem go_getElem_zero (lang : Lang) (n : NodeRef) (pid nk : Nat) (c : Tree) (rest : List Tree) (pos : Length) (si k : Nat) :
    rawChildren.go lang n pid nk (c :: rest) pos si k =
      { node := { t := c, alias := (if c.data.extra then 0 else lang.aliasAt pid si), id := slotId n.t.data.addr nk k,
                  start := (if k > 0 then length_add pos c.data.padding else pos) },
        posAfter := length_add (if k > 0 then length_add pos c.data.padding else pos) c.data.size, si := si, k := k } ::
      rawChildren.go lang n pid nk rest (length_add (if k > 0 then length_add pos c.data.padding else pos) c.data.size)
        (if c.data.extra then si else si + 1) (k + 1) := by
  rw [rawChildren.go]

/-- Every element starts at or after the running position, ends at start + size, and carries the
raw child at its index. -/
theorem go_elem (lang : Lang) (n : NodeRef) (pid nk : Nat) : ∀ (kids : List Tree) (pos : Length) (si k j : Nat) (rc : RawChild),
    (rawChildren.go lang n pid nk kids pos si k)[j]? = some rc →
    pos.bytes ≤ rc.node.start.bytes ∧ rc.posAfter.bytes = rc.node.start.bytes + rc.node.t.data.size.bytes ∧
    kids[j]? = some rc.node.t
  | [], _, _, _, _, _, h => by simp [rawChildren.go] at h
  | c :: rest, pos, si, k, j, rc, h => by
    rw [go_getElem_zero] at h
    cases j with
    | zero =>
      simp only [List.getElem?_cons_zero, Option.some.injEq] at h
      subst h
      refine ⟨?_, by simp [length_add_bytes], by simp⟩
      simp only
      split <;> simp [length_add_bytes]
    | succ j' =>
      simp only [List.getElem?_cons_succ] at h
      have ih := go_elem lang n pid nk rest _ _ _ j' rc h
      refine ⟨?_, ih.2.1, by simpa using ih.2.2⟩
      have := ih.1
      by_cases hk : k > 0 <;> simp only [hk, if_true, if_false, length_add_bytes] at this <;> omega

/-- Earlier elements end at or before the start of later ones. -/
theorem go_ordered (lang : Lang) (n : NodeRef) (pid nk : Nat) : ∀ (kids : List Tree) (pos : Length) (si k i j : Nat) (ri rj : RawChild),
    i < j → (rawChildren.go lang n pid nk kids pos si k)[i]? = some ri →
    (rawChildren.go lang n pid nk kids pos si k)[j]? = some rj → ri.posAfter.bytes ≤ rj.node.start.bytes
  | [], _, _, _, _, _, _, _, _, h, _ => by simp [rawChildren.go] at h
  | c :: rest, pos, si, k, i, j, ri, rj, hij, hi, hj => by
    rw [go_getElem_zero] at hi hj
    cases j with
    | zero => omega
    | succ j' =>
      simp only [List.getElem?_cons_succ] at hj
      cases i with
      | zero =>
        simp only [List.getElem?_cons_zero, Option.some.injEq] at hi
        subst hi
        exact (go_elem lang n pid nk rest _ _ _ j' rj hj).1
      | succ i' =>
        simp only [List.getElem?_cons_succ] at hi
        exact go_ordered lang n pid nk rest _ _ _ i' j' ri rj (by omega) hi hj

/-- End of the layout of `kids` started at byte `p` (child index `k`). -/
def layEnd : List Tree → Nat → Nat → Nat
  | [], p, _ => p
  | c :: rest, p, k => layEnd rest ((if k > 0 then p + c.data.padding.bytes else p) + c.data.size.bytes) (k + 1)

theorem layEnd_ge : ∀ (kids : List Tree) (p k : Nat), p ≤ layEnd kids p k
  | [], _, _ => Nat.le_refl _
  | c :: rest, p, k => by
    unfold layEnd
    have := layEnd_ge rest ((if k > 0 then p + c.data.padding.bytes else p) + c.data.size.bytes) (k + 1)
    by_cases hk : k > 0 <;> simp only [hk, if_true, if_false] at this ⊢ <;> omega

theorem layEnd_pos : ∀ (kids : List Tree) (p k : Nat), k > 0 → layEnd kids p k = p + sumBytes kids
  | [], _, _, _ => by simp [layEnd, sumBytes]
  | c :: rest, p, k, hk => by
    unfold layEnd
    simp only [hk, if_true]
    rw [layEnd_pos rest _ (k + 1) (by omega)]
    simp only [sumBytes, Tree.totalBytes]; omega

theorem go_below_end (lang : Lang) (n : NodeRef) (pid nk : Nat) : ∀ (kids : List Tree) (pos : Length) (si k j : Nat) (rc : RawChild),
    (rawChildren.go lang n pid nk kids pos si k)[j]? = some rc → rc.posAfter.bytes ≤ layEnd kids pos.bytes k
  | [], _, _, _, _, _, h => by simp [rawChildren.go] at h
  | c :: rest, pos, si, k, j, rc, h => by
    rw [go_getElem_zero] at h
    unfold layEnd
    cases j with
    | zero =>
      simp only [List.getElem?_cons_zero, Option.some.injEq] at h
      subst h
      have := layEnd_ge rest ((if k > 0 then pos.bytes + c.data.padding.bytes else pos.bytes) + c.data.size.bytes) (k + 1)
      simp only [length_add_bytes]
      split <;> simp_all [length_add_bytes]
    | succ j' =>
      simp only [List.getElem?_cons_succ] at h
      have := go_below_end lang n pid nk rest _ _ _ j' rc h
      simp only [length_add_bytes] at this
      split at this <;> simp_all [length_add_bytes]


theorem sizedL_getElem : ∀ (kids : List Tree) (j : Nat) (c : Tree), SizedL kids → kids[j]? = some c → Sized c
  | [], _, _, _, h => by simp at h
  | k :: rest, j, c, hs, h => by
    unfold SizedL at hs
    cases j with
    | zero => simp at h; subst h; exact hs.1
    | succ j' => exact sizedL_getElem rest j' c hs.2 (by simpa using h)

/-- A raw child lies inside its parent's byte range (by the summarised sizes), and is itself `Sized`. -/
theorem raw_child_nested (lang : Lang) (n : NodeRef) (hs : Sized n.t) (j : Nat) (rc : RawChild)
    (h : (rawChildren lang n)[j]? = some rc) :
    n.startByte ≤ rc.node.startByte ∧ rc.node.endByte ≤ n.endByte ∧ rc.posAfter.bytes = rc.node.endByte ∧ Sized rc.node.t := by
  obtain ⟨t, al, id, st⟩ := n
  obtain ⟨d, kids⟩ := t
  simp only [rawChildren, kids_mk, data_mk] at h
  have he := go_elem lang _ _ _ kids st 0 0 j rc h
  have hb := go_below_end lang _ _ _ kids st 0 0 j rc h
  unfold Sized at hs
  simp only [NodeRef.startByte, NodeRef.endByte, data_mk]
  refine ⟨he.1, ?_, he.2.1, sizedL_getElem kids j _ hs.2 he.2.2⟩
  cases kids with
  | nil => simp at he
  | cons c rest =>
    have hsz := (hs.1 (by simp)).2
    rw [hsz, kidsSize, restSize_bytes]
    unfold layEnd at hb
    simp only [Nat.lt_irrefl, if_false, gt_iff_lt] at hb
    rw [layEnd_pos _ _ _ (by omega)] at hb
    omega

theorem nodeAt_nested (lang : Lang) : ∀ (path : List Nat) (n d : NodeRef), Sized n.t → nodeAt lang n path = some d →
    n.startByte ≤ d.startByte ∧ d.endByte ≤ n.endByte ∧ Sized d.t
  | [], n, d, hs, h => by simp [nodeAt] at h; subst h; exact ⟨Nat.le_refl _, Nat.le_refl _, hs⟩
  | k :: rest, n, d, hs, h => by
    simp only [nodeAt, rawChildAt] at h
    cases hk : (rawChildren lang n)[k]? with
    | none => simp [hk] at h
    | some rc =>
      simp only [hk, Option.map_some] at h
      have hn := raw_child_nested lang n hs k rc hk
      have ih := nodeAt_nested lang rest rc.node d hn.2.2.2 h
      exact ⟨by omega, by omega, ih.2.2⟩

theorem summarizedL_kids (lang : Lang) (t : Tree) (h : Summarized lang t) : SummarizedL lang t.kids := by
  obtain ⟨d, k⟩ := t
  unfold Summarized at h
  exact h.2.2

theorem shapeOKL_kids (ps : Option Nat) (t : Tree) (h : shapeOK ps t = true) : shapeOKL (some t.data.symbol) t.kids = true := by
  obtain ⟨d, k⟩ := t
  unfold shapeOK at h
  simp only [Bool.and_eq_true] at h
  exact h.2

theorem go_length (lang : Lang) (n : NodeRef) (pid nk : Nat) : ∀ (kids : List Tree) (pos : Length) (si k : Nat),
    (rawChildren.go lang n pid nk kids pos si k).length = kids.length
  | [], _, _, _ => by simp [rawChildren.go]
  | c :: rest, pos, si, k => by rw [go_getElem_zero]; simp [go_length lang n pid nk rest]

theorem rawChildren_length (lang : Lang) (n : NodeRef) : (rawChildren lang n).length = n.t.kids.length := by
  simp only [rawChildren]; exact go_length lang n _ _ _ _ _ _

theorem nodeAt_cons (lang : Lang) (n d : NodeRef) (k : Nat) (rest : List Nat) (h : nodeAt lang n (k :: rest) = some d) :
    ∃ rc, (rawChildren lang n)[k]? = some rc ∧ nodeAt lang rc.node rest = some d := by
  simp only [nodeAt, rawChildAt] at h
  cases hk : (rawChildren lang n)[k]? with
  | none => simp [hk] at h
  | some rc => exact ⟨rc, rfl, by simpa [hk] using h⟩

/-- Structural index and alias of the iterator's elements. -/
theorem go_si (lang : Lang) (n : NodeRef) (pid nk : Nat) : ∀ (kids : List Tree) (pos : Length) (si k j : Nat) (r : RawChild),
    (rawChildren.go lang n pid nk kids pos si k)[j]? = some r →
    r.si = siAfter (kids.take j) si ∧ r.node.alias = (if r.node.t.data.extra then 0 else lang.aliasAt pid r.si)
  | [], _, _, _, _, _, h => by simp [rawChildren.go] at h
  | c :: rest, pos, si, k, j, r, h => by
    rw [go_getElem_zero] at h
    cases j with
    | zero =>
      simp only [List.getElem?_cons_zero, Option.some.injEq] at h
      subst h
      simp [siAfter]
    | succ j' =>
      simp only [List.getElem?_cons_succ] at h
      have := go_si lang n pid nk rest _ _ _ j' r h
      simpa [siAfter] using this

/-- A node with a relevant node strictly below it (along raw child indices) has a visible child. -/
theorem enum_nonempty_of_path (lang : Lang) (d : NodeRef) (hrel : d.relevant lang true = true) :
    ∀ (rest : List Nat) (c : NodeRef), rest ≠ [] → nodeAt lang c rest = some d → enumChildren lang c.t ≠ []
  | [], _, h, _ => absurd rfl h
  | k :: rest', c, _, hat => by
    obtain ⟨rc, hk, hat'⟩ := nodeAt_cons lang c d k rest' hat
    have hk2 := hk
    simp only [rawChildren] at hk2
    have he := go_elem lang _ _ _ _ _ _ _ k rc hk2
    have hsi := go_si lang _ _ _ _ _ _ _ k rc hk2
    have hsplit : c.t.kids = c.t.kids.take k ++ rc.node.t :: c.t.kids.drop (k + 1) := by
      rw [← drop_eq_cons _ k _ he.2.2, List.take_append_drop]
    have henum : enumChildren lang c.t = enumKids lang c.t.data.productionId c.t.kids 0 := by
      obtain ⟨t, al, id, st⟩ := c
      obtain ⟨dd, kids⟩ := t
      simp [enumChildren, data_mk, kids_mk]
    rw [henum, hsplit, enumKids_append]
    intro h0
    have h1 := (List.append_eq_nil_iff.mp h0).2
    unfold enumKids at h1
    have h2 := (List.append_eq_nil_iff.mp h1).1
    rw [← hsi.1] at h2
    have halias : (if rc.node.t.data.extra = true then 0 else lang.aliasAt c.t.data.productionId rc.si) = rc.node.alias := hsi.2.symm
    simp only [halias] at h2
    cases rest' with
    | nil =>
      simp only [nodeAt, Option.some.injEq] at hat'
      subst hat'
      simp only [NodeRef.relevant, isRelevant, if_true] at hrel
      simp [hrel] at h2
    | cons k'' r'' =>
      by_cases hv : (rc.node.t.data.visible || rc.node.alias != 0) = true
      · simp [hv] at h2
      · simp only [hv, if_false, Bool.false_eq_true] at h2
        exact enum_nonempty_of_path lang d hrel (k'' :: r'') rc.node (by simp) hat' h2

/-- … hence `ts_node_child_count` of every proper ancestor of a relevant node is positive (what the
loop of `ts_node_child_with_descendant` tests before descending). -/
theorem ancestor_child_count_pos (lang : Lang) (d c : NodeRef) (rest : List Nat) (ps : Option Nat)
    (hrel : d.relevant lang true = true) (hr : rest ≠ []) (hat : nodeAt lang c rest = some d)
    (hs : Summarized lang c.t) (hsh : shapeOK ps c.t = true) : c.childCount > 0 := by
  have hne := enum_nonempty_of_path lang d hrel rest c hr hat
  have hcnt := (summarize_counts lang c.t ps hs hsh).1
  have hk : c.t.kids.length > 0 := by
    cases rest with
    | nil => exact absurd rfl hr
    | cons k r =>
      obtain ⟨rc, hk, _⟩ := nodeAt_cons lang c d k r hat
      have := rawChildren_length lang c
      have := lt_of_getElem?_some _ k rc hk
      omega
  simp only [NodeRef.childCount, hk, if_true]
  cases hl : enumChildren lang c.t with
  | nil => exact absurd hl hne
  | cons a b => rw [hl] at hcnt; simp at hcnt; omega

/-- Scanning the children of a node for a NON-EMPTY descendant that lies under child `k`:
everything before `k` is passed over. -/
theorem inner_skip (lang : Lang) (fuel dId dStart dEnd : Nat) (hne : dStart < dEnd) :
    ∀ (k : Nat) (L : List RawChild) (rc : RawChild), L[k]? = some rc → rc.node.startByte ≤ dStart →
    (∀ i ri, i < k → L[i]? = some ri → ri.posAfter.bytes ≤ rc.node.startByte ∧ ri.node.startByte ≤ ri.posAfter.bytes) →
    ((L.take k).all (fun r => r.node.id != dId)) = true →
    childWithDescendant.inner lang dId dStart dEnd fuel false L =
      childWithDescendant.inner lang dId dStart dEnd fuel false (L.drop k)
  | 0, _, _, _, _, _, _ => by simp
  | k + 1, [], _, h, _, _, _ => by simp at h
  | k + 1, r0 :: rest, rc, h, hst, hord, hid => by
    have h0 := hord 0 r0 (by omega) (by simp)
    simp only [List.take_succ_cons, List.all_cons, Bool.and_eq_true, bne_iff_ne, ne_eq] at hid
    rw [inner_cons_ne]
    have h1 : ¬ (r0.node.startByte > dStart) := by omega
    have h2 : (r0.node.id == dId) = false := by simpa using hid.1
    have h3 : decide (r0.posAfter.bytes < dEnd) = true := by simp; omega
    simp only [h1, if_false, h2, h3, Bool.true_or, if_true, List.drop_succ_cons, Bool.false_eq_true]
    exact inner_skip lang fuel dId dStart dEnd hne k rest rc (by simpa using h) hst
      (fun i ri hi hri => hord (i + 1) ri (by omega) (by simpa using hri)) hid.2


theorem raw_ordered (lang : Lang) (n : NodeRef) (i j : Nat) (ri rj : RawChild) (hij : i < j)
    (hi : (rawChildren lang n)[i]? = some ri) (hj : (rawChildren lang n)[j]? = some rj) :
    ri.posAfter.bytes ≤ rj.node.startByte ∧ ri.node.startByte ≤ ri.posAfter.bytes := by
  simp only [rawChildren] at hi hj
  have h1 := go_ordered lang _ _ _ _ _ _ _ i j ri rj hij hi hj
  have h2 := (go_elem lang _ _ _ _ _ _ _ i ri hi).2.1
  simp only [NodeRef.startByte]
  omega

/-- **child_with_descendant_spec_partial.**  For a NON-EMPTY descendant `d` reached from `self`
by a path of raw child indices, `ts_node_child_with_descendant(self, d)` returns the first
relevant node on that path below `self` (or `d` itself at the end of the path). -/
theorem child_with_descendant_spec_partial (lang : Lang) :
    ∀ (path : List Nat) (fuel : Nat) (self d : NodeRef) (ps : Option Nat), path ≠ [] → path.length ≤ fuel →
    Summarized lang self.t → shapeOK ps self.t = true → nodeAt lang self path = some d → d.relevant lang true = true →
    d.startByte < d.endByte → pathOK lang d.id self path = true →
    childWithDescendant lang fuel self d.id d.startByte d.endByte = firstRelevantOnPath lang self path
  | [], _, _, _, _, h, _, _, _, _, _, _, _ => absurd rfl h
  | k :: rest, 0, _, _, _, _, hf, _, _, _, _, _, _ => by simp at hf
  | k :: rest, f + 1, self, d, ps, _, hf, hsum, hsh, hat, hdrel, hne, hok => by
    have hs := sized_of_summarized lang self.t hsum
    simp only [nodeAt, rawChildAt] at hat
    simp only [pathOK, rawChildAt, Bool.and_eq_true] at hok
    simp only [firstRelevantOnPath, rawChildAt]
    cases hk : (rawChildren lang self)[k]? with
    | none => simp [hk] at hat
    | some rc =>
      simp only [hk, Option.map_some] at hat hok ⊢
      have hn := raw_child_nested lang self hs k rc hk
      have hd := nodeAt_nested lang rest rc.node d hn.2.2.2 hat
      rw [cwd_unfold]
      have he : (d.startByte == d.endByte) = false := by simp; omega
      rw [he]
      rw [inner_skip lang f d.id d.startByte d.endByte hne k _ rc hk hd.1
        (fun i ri hi hri => raw_ordered lang self i k ri rc hi hri hk) hok.1]
      have hdrop : (rawChildren lang self).drop k = rc :: (rawChildren lang self).drop (k + 1) := by
        rw [List.drop_eq_getElem?_toList_append, hk]; rfl
      rw [hdrop, inner_cons_ne]
      have h1 : ¬ (rc.node.startByte > d.startByte) := by omega
      simp only [h1, if_false]
      cases rest with
      | nil =>
        simp only [nodeAt, Option.some.injEq] at hat
        subst hat
        simp
      | cons k' rest' =>
        simp only [List.isEmpty_cons, Bool.false_or, Bool.and_eq_true, bne_iff_ne, ne_eq] at hok ⊢
        have h2 : (rc.node.id == d.id) = false := by simpa using hok.2.1
        have h3 : decide (rc.posAfter.bytes < d.endByte) = false := by simp; omega
        have hk2 := hk
        simp only [rawChildren] at hk2
        have hcmem : rc.node.t ∈ self.t.kids := List.mem_of_getElem? (go_elem lang _ _ _ _ _ _ _ k rc hk2).2.2
        have hsc := summarized_of_mem lang _ rc.node.t (summarizedL_kids lang self.t hsum) hcmem
        have hshc := shapeOK_of_mem _ _ rc.node.t (shapeOKL_kids ps self.t hsh) hcmem
        have h4 : (rc.node.childCount == 0) = false := by
          have := ancestor_child_count_pos lang d rc.node (k' :: rest') _ hdrel (by simp) hat hsc hshc
          simp; omega
        simp only [h2, h3, h4, Bool.or_false, Bool.false_eq_true, if_false]
        cases hrel : rc.node.relevant lang true with
        | true => simp
        | false =>
          simp only [Bool.false_eq_true, if_false]
          exact child_with_descendant_spec_partial lang (k' :: rest') f rc.node d _ (by simp)
            (by simp at hf ⊢; omega) hsc hshc hat hdrel hne hok.2.2


/-! ### `ts_node_parent` -/

theorem firstRelevant_eq_split (lang : Lang) : ∀ (p : List Nat) (n : NodeRef),
    firstRelevantOnPath lang n p = (relSplit lang n p).map (·.1)
  | [], _ => rfl
  | k :: rest, n => by
    simp only [firstRelevantOnPath, relSplit]
    cases rawChildAt lang n k with
    | none => rfl
    | some c =>
      simp only
      split
      · rfl
      · exact firstRelevant_eq_split lang rest c

theorem parentOnPath_split (lang : Lang) : ∀ (p : List Nat) (n best : NodeRef),
    parentOnPath lang best n p =
      (match relSplit lang n p with
       | none => best
       | some (c, rest) => if rest.isEmpty then best else parentOnPath lang c c rest)
  | [], _, _ => rfl
  | [k], n, best => by
    simp only [parentOnPath, relSplit]
    cases rawChildAt lang n k <;> simp
  | k :: k' :: rest, n, best => by
    simp only [parentOnPath, relSplit]
    cases rawChildAt lang n k with
    | none => rfl
    | some c =>
      simp only [List.isEmpty_cons, Bool.false_or]
      cases hr : c.relevant lang true with
      | true => simp
      | false =>
        simp only [Bool.false_eq_true, if_false]
        exact parentOnPath_split lang (k' :: rest) c best

theorem relSplit_inv (lang : Lang) (d : NodeRef) : ∀ (p : List Nat) (n c : NodeRef) (rest : List Nat) (ps : Option Nat),
    relSplit lang n p = some (c, rest) → nodeAt lang n p = some d → pathOK lang d.id n p = true →
    Summarized lang n.t → shapeOK ps n.t = true →
    nodeAt lang c rest = some d ∧ (rest ≠ [] → c.id ≠ d.id ∧ pathOK lang d.id c rest = true) ∧
      (Summarized lang c.t ∧ ∃ ps', shapeOK ps' c.t = true) ∧ rest.length < p.length
  | [], _, _, _, _, h, _, _, _, _ => by simp [relSplit] at h
  | k :: tl, n, c, rest, ps, h, hat, hok, hs, hsh => by
    simp only [relSplit] at h
    simp only [nodeAt] at hat
    simp only [pathOK, Bool.and_eq_true] at hok
    cases hk : rawChildAt lang n k with
    | none => simp [hk] at h
    | some c0 =>
      simp only [hk] at h hat hok
      have hsz : Summarized lang c0.t ∧ shapeOK (some n.t.data.symbol) c0.t = true := by
        simp only [rawChildAt] at hk
        cases hr : (rawChildren lang n)[k]? with
        | none => simp [hr] at hk
        | some rc =>
          simp only [hr, Option.map_some, Option.some.injEq] at hk
          subst hk
          have hr2 := hr
          simp only [rawChildren] at hr2
          have hmem : rc.node.t ∈ n.t.kids := List.mem_of_getElem? (go_elem lang _ _ _ _ _ _ _ k rc hr2).2.2
          exact ⟨summarized_of_mem lang _ _ (summarizedL_kids lang n.t hs) hmem,
            shapeOK_of_mem _ _ _ (shapeOKL_kids ps n.t hsh) hmem⟩
      by_cases hc : (tl.isEmpty || c0.relevant lang true) = true
      · simp only [hc, if_true, Option.some.injEq, Prod.mk.injEq] at h
        obtain ⟨h1, h2⟩ := h
        subst h1; subst h2
        refine ⟨hat, ?_, ⟨hsz.1, _, hsz.2⟩, by simp⟩
        intro hne
        have : tl.isEmpty = false := by cases tl <;> simp_all
        simp only [this, Bool.false_or, Bool.and_eq_true, bne_iff_ne, ne_eq] at hok
        exact ⟨hok.2.1, hok.2.2⟩
      · simp only [hc, if_false, Bool.false_eq_true] at h
        have : tl.isEmpty = false := by cases tl <;> simp_all
        simp only [this, Bool.false_or, Bool.and_eq_true, bne_iff_ne, ne_eq] at hok
        have ih := relSplit_inv lang d tl c0 c rest _ h hat hok.2.2 hsz.1 hsz.2
        exact ⟨ih.1, ih.2.1, ih.2.2.1, by simp; omega⟩

/-- **parent_spec_partial.**  For a relevant NON-EMPTY node `d` at `path` below `root` (`path ≠ []`)
in a summarized parser-shaped tree, `ts_node_parent(d)` is the nearest relevant proper ancestor on the
path (`root` if none). -/
theorem parent_spec_partial (lang : Lang) (fuel : Nat) (root d : NodeRef) (path : List Nat) (ps : Option Nat)
    (hp : path ≠ []) (hf : path.length ≤ fuel) (hs : Summarized lang root.t) (hsh : shapeOK ps root.t = true)
    (hat : nodeAt lang root path = some d) (hrel : d.relevant lang true = true)
    (hne : d.startByte < d.endByte) (hroot : root.id ≠ d.id) (hok : pathOK lang d.id root path = true) :
    nodeParent lang fuel root d = some (parentOnPath lang root root path) := by
  have key : ∀ (f : Nat) (p : List Nat) (n : NodeRef) (ps : Option Nat), p ≠ [] → p.length ≤ f → p.length ≤ fuel →
      Summarized lang n.t → shapeOK ps n.t = true → nodeAt lang n p = some d → pathOK lang d.id n p = true →
      nodeParent.go lang fuel d f n = parentOnPath lang n n p := by
    intro f
    induction f with
    | zero => intro p n _ hp hf; cases p <;> simp_all
    | succ f ih =>
      intro p n ps hp hf hfu hs hsh hat hok
      rw [nodeParent.go, child_with_descendant_spec_partial lang p fuel n d ps hp hfu hs hsh hat hrel hne hok,
        firstRelevant_eq_split, parentOnPath_split]
      cases hsp : relSplit lang n p with
      | none => rfl
      | some cr =>
        obtain ⟨c, rest⟩ := cr
        have hi := relSplit_inv lang d p n c rest ps hsp hat hok hs hsh
        simp only [Option.map_some]
        cases rest with
        | nil =>
          have : c = d := by simpa [nodeAt] using hi.1
          subst this
          simp
        | cons k' rest' =>
          have h2 := hi.2.1 (by simp)
          have : (c.id == d.id) = false := by simpa using h2.1
          simp only [this, Bool.false_eq_true, if_false, List.isEmpty_cons]
          obtain ⟨hsc, ps', hshc⟩ := hi.2.2.1
          exact ih (k' :: rest') c ps' (by simp) (by have := hi.2.2.2; omega) (by have := hi.2.2.2; omega)
            hsc hshc hi.1 h2.2
  unfold nodeParent
  have : (root.id == d.id) = false := by simpa using hroot
  simp only [this, Bool.false_eq_true, if_false]
  rw [key fuel path root ps hp hf hf hs hsh hat hok]

/-! ## Non-vacuity -/

def atAddr (t : Tree) (a : Nat) : Tree := match t with | .mk d k => .mk { d with addr := a } k

/-- root(visible, @1000) → [leaf a, hidden h(@2000) → [rule v(@3000) → [leaf b], leaf c], leaf d] -/
def pvV : Tree := atAddr (C02.newNode C02.demoLang 2 [cwLeaf] 0) 3000
def pvH : Tree := atAddr (C02.newNode C02.demoLang 3 [pvV, cwLeaf] 0) 2000
def pvRoot : NodeRef := { t := atAddr (C02.newNode C02.demoLang 2 [cwLeaf, pvH, cwLeaf] 0) 1000, alias := 0, id := 1, start := length_zero }

theorem pvRoot_sized : Sized pvRoot.t := by
  simp [pvRoot, atAddr, pvH, pvV, cwLeaf, C02.demoLeaf, C02.newNode, C02.newLeaf, Sized, SizedL]
  decide


theorem leaf_summarized (lang : Lang) (d : NodeData) (h : LeafOK d) : Summarized lang (.mk d []) := by
  unfold Summarized SummarizedL; exact ⟨fun _ => h, fun h => absurd rfl h, trivial⟩
theorem node_summarized (lang : Lang) (d : NodeData) (c : Tree) (rest : List Tree) (h : NodeOK lang d (c :: rest))
    (hk : SummarizedL lang (c :: rest)) : Summarized lang (.mk d (c :: rest)) := by
  unfold Summarized; exact ⟨fun h => by simp at h, fun _ => h, hk⟩
theorem cwLeaf_summarized : Summarized C02.demoLang cwLeaf := leaf_summarized _ _ (by unfold LeafOK; decide)
theorem pvRoot_summarized : Summarized C02.demoLang pvRoot.t := by
  have hl := cwLeaf_summarized
  have hv : Summarized C02.demoLang pvV := node_summarized _ _ _ _ (by unfold NodeOK; decide) (by unfold SummarizedL SummarizedL; exact ⟨hl, trivial⟩)
  have hh : Summarized C02.demoLang pvH := node_summarized _ _ _ _ (by unfold NodeOK; decide) (by unfold SummarizedL SummarizedL SummarizedL; exact ⟨hv, hl, trivial⟩)
  exact node_summarized _ _ _ _ (by unfold NodeOK; decide) (by unfold SummarizedL SummarizedL SummarizedL SummarizedL; exact ⟨hl, hh, hl, trivial⟩)
theorem pvRoot_shape : shapeOK none pvRoot.t = true := by decide

/-- the leaf `b` below the visible rule `v` below the hidden `h` -/
def pvB : NodeRef := { t := cwLeaf, alias := 0, id := 2992, start := ⟨1, ⟨0, 1⟩⟩ }
/-- the leaf `c` directly below the hidden `h` -/
def pvC : NodeRef := { t := cwLeaf, alias := 0, id := 1992, start := ⟨2, ⟨0, 2⟩⟩ }

/-- The hypotheses of `parent_spec_partial` are satisfiable, and the theorem computes: the parent
of `b` is `v` (id 1984 = slot 0 of `h`), the parent of `c` — whose raw parent `h` is hidden — is
the root. -/
example : (nodeParent C02.demoLang 3 pvRoot pvB).map (·.id) = some 1984 := by
  rw [parent_spec_partial C02.demoLang 3 pvRoot pvB [1, 0, 0] none (by simp) (by simp) pvRoot_summarized pvRoot_shape rfl
    (by decide) (by decide) (by decide) (by decide)]
  decide
example : (nodeParent C02.demoLang 2 pvRoot pvC).map (·.id) = some 1 := by
  rw [parent_spec_partial C02.demoLang 2 pvRoot pvC [1, 1] none (by simp) (by simp) pvRoot_summarized pvRoot_shape rfl
    (by decide) (by decide) (by decide) (by decide)]
  decide
example : (childWithDescendant C02.demoLang 3 pvRoot pvB.id pvB.startByte pvB.endByte).map (·.id) = some 1984 := by
  rw [child_with_descendant_spec_partial C02.demoLang [1, 0, 0] 3 pvRoot pvB none (by simp) (by simp) pvRoot_summarized
    pvRoot_shape rfl (by decide) (by decide) (by decide)]
  decide


/-! ### `ts_node__next_sibling` -/

/-- The child scan of `ts_node__next_sibling(self, true)` for a non-empty `self`. -/
abbrev nsScan (lang : Lang) (self : NodeRef) := nextSiblingPort.scan lang self true self.endByte self.startByte false
abbrev nsGo (lang : Lang) (self : NodeRef) := nextSiblingPort.go lang self true self.endByte self.startByte false

theorem nsScan_nil (lang : Lang) (self : NodeRef) (cct : Option NodeRef) : nsScan lang self [] cct = (cct, none) := rfl

theorem nsScan_cons (lang : Lang) (self : NodeRef) (rc : RawChild) (rest : List RawChild) (cct : Option NodeRef) :
    nsScan lang self (rc :: rest) cct =
      (if rc.posAfter.bytes ≤ self.endByte then nsScan lang self rest cct
       else if rc.node.startByte ≤ self.startByte then nsScan lang self rest (if samePtr rc.node self then cct else some rc.node)
       else if rc.node.relevant lang true then (cct, some (rc.node, true))
       else if rc.node.childCount > 0 then (cct, some (rc.node, false))
       else nsScan lang self rest cct) := by
  simp only [nsScan, nextSiblingPort.scan, samePtr, NodeRef.relChildCount, relevantChildCount, NodeRef.childCount,
    Bool.false_eq_true, if_false, decide_eq_true_eq, if_true]
  rfl

/-- Children that end at or before the end of `self` are passed over. -/
theorem nsScan_skip (lang : Lang) (self : NodeRef) (cct : Option NodeRef) :
    ∀ (k : Nat) (L : List RawChild), (∀ i ri, i < k → L[i]? = some ri → ri.posAfter.bytes ≤ self.endByte) →
    nsScan lang self L cct = nsScan lang self (L.drop k) cct
  | 0, _, _ => by simp
  | k + 1, [], _ => by simp
  | k + 1, r0 :: rest, h => by
    have h0 := h 0 r0 (by omega) (by simp)
    rw [nsScan_cons]
    simp only [h0, if_true, List.drop_succ_cons]
    exact nsScan_skip lang self cct k rest (fun i ri hi hri => h (i + 1) ri (by omega) (by simpa using hri))

/-- First child that is relevant (`true`) or hidden with visible children (`false`). -/
def firstLaterRef (lang : Lang) : List RawChild → Option (NodeRef × Bool)
  | [] => none
  | rc :: rest =>
    if rc.node.relevant lang true then some (rc.node, true)
    else if rc.node.childCount > 0 then some (rc.node, false)
    else firstLaterRef lang rest

/-- Over children that all lie after `self` (and are not skipped), the scan is `firstLaterRef`. -/
theorem nsScan_later (lang : Lang) (self : NodeRef) (cct : Option NodeRef) :
    ∀ (L : List RawChild), (∀ rc ∈ L, self.endByte < rc.posAfter.bytes ∧ self.startByte < rc.node.startByte) →
    nsScan lang self L cct = (cct, firstLaterRef lang L)
  | [], _ => rfl
  | rc :: rest, h => by
    have h0 := h rc (by simp)
    rw [nsScan_cons, firstLaterRef]
    have h1 : ¬ (rc.posAfter.bytes ≤ self.endByte) := by omega
    have h2 : ¬ (rc.node.startByte ≤ self.startByte) := by omega
    simp only [h1, h2, if_false]
    split
    · rfl
    · split
      · rfl
      · exact nsScan_later lang self cct rest (fun r hr => h r (by simp [hr]))

/-- The rest of the iteration after element `j`. -/
theorem go_drop (lang : Lang) (n : NodeRef) (pid nk : Nat) : ∀ (kids : List Tree) (pos : Length) (si k j : Nat) (rc : RawChild),
    (rawChildren.go lang n pid nk kids pos si k)[j]? = some rc →
    (rawChildren.go lang n pid nk kids pos si k).drop (j + 1) =
      rawChildren.go lang n pid nk (kids.drop (j + 1)) rc.posAfter (if rc.node.t.data.extra then rc.si else rc.si + 1) (rc.k + 1)
  | [], _, _, _, _, _, h => by simp [rawChildren.go] at h
  | c :: rest, pos, si, k, j, rc, h => by
    rw [go_getElem_zero] at h ⊢
    cases j with
    | zero =>
      simp only [List.getElem?_cons_zero, Option.some.injEq] at h
      subst h
      simp
    | succ j' =>
      simp only [List.getElem?_cons_succ] at h
      simpa using go_drop lang n pid nk rest _ _ _ j' rc h

/-- `firstLaterRef` over the iterator's elements is `firstRel` over the raw children. -/
theorem firstLaterRef_go (lang : Lang) (n : NodeRef) (nk : Nat) : ∀ (kids : List Tree) (pos : Length) (si k : Nat),
    (firstLaterRef lang (rawChildren.go lang n n.t.data.productionId nk kids pos si k)).map (fun r => (r.1.t, r.1.alias, r.2)) =
      (firstRel lang n.t.data.productionId kids si).map
        (fun r => (r.1, (if r.1.data.extra then 0 else lang.aliasAt n.t.data.productionId r.2.1), r.2.2))
  | [], _, _, _ => by simp [rawChildren.go, firstLaterRef, firstRel]
  | c :: rest, pos, si, k => by
    rw [go_getElem_zero, firstLaterRef, firstRel]
    simp only [NodeRef.relevant, isRelevant, if_true, NodeRef.childCount]
    have hcond : (c.data.visible || (if c.data.extra then 0 else lang.aliasAt n.t.data.productionId si) != 0) =
        (c.data.visible || (!c.data.extra && lang.aliasAt n.t.data.productionId si != 0)) := by
      by_cases hx : c.data.extra = true <;> simp [hx]
    simp only [hcond]
    by_cases hvis : (c.data.visible || (!c.data.extra && lang.aliasAt n.t.data.productionId si != 0)) = true
    · simp [hvis]
    · have hvis' : (c.data.visible || (!c.data.extra && lang.aliasAt n.t.data.productionId si != 0)) = false := by simpa using hvis
      simp only [hvis', Bool.false_eq_true, if_false]
      have hv : (if c.kids.length > 0 then c.data.visibleChildCount else 0) = vcc c := by
        unfold vcc
        cases hk : c.kids <;> simp
      rw [hv]
      by_cases hk : vcc c > 0
      · simp [hk]
      · simp only [hk, if_false]
        exact firstLaterRef_go lang n nk rest _ _ _


/-- What one round of the outer loop does with the result of the child scan. -/
def nsNext (lang : Lang) (self : NodeRef) (f : Nat) (later : Option (NodeRef × Bool)) :
    Option NodeRef → Option (NodeRef × Bool) → Option NodeRef
  | some c, laterChild => nsGo lang self f (some c) (match laterChild with | some l => some l | none => later)
  | none, some (lc, true) => some lc
  | none, some (lc, false) => nsGo lang self f (some lc) later
  | none, none =>
    match later with
    | some (ln, true) => some ln
    | some (ln, false) => nsGo lang self f (some ln) later
    | none => none

theorem nsGo_succ (lang : Lang) (self : NodeRef) (f : Nat) (node : NodeRef) (later : Option (NodeRef × Bool))
    (cct : Option NodeRef) (lch : Option (NodeRef × Bool)) (h : nsScan lang self (rawChildren lang node) none = (cct, lch)) :
    nsGo lang self (f + 1) (some node) later = nsNext lang self f later cct lch := by
  simp only [nsGo, nextSiblingPort.go]
  simp only [nsScan] at h
  rw [h]
  cases cct with
  | some c => rfl
  | none =>
    cases lch with
    | none => rfl
    | some l => obtain ⟨lc, b⟩ := l; cases b <;> rfl

/-- `endsAfterL` read on the iterator's elements: each ends after `tgt`, and so does everything
inside it. -/
theorem go_after (lang : Lang) (n : NodeRef) (pid nk tgt : Nat) : ∀ (kids : List Tree) (pos : Length) (si k : Nat),
    endsAfterL tgt kids pos.bytes (decide (k = 0)) = true → ∀ (j : Nat) (r : RawChild),
    (rawChildren.go lang n pid nk kids pos si k)[j]? = some r →
    tgt < r.posAfter.bytes ∧ endsAfterL tgt r.node.t.kids r.node.start.bytes true = true
  | [], _, _, _, _, _, _, h => by simp [rawChildren.go] at h
  | c :: rest, pos, si, k, ha, j, r, h => by
    rw [go_getElem_zero] at h
    unfold endsAfterL at ha
    simp only [Bool.and_eq_true] at ha
    cases j with
    | zero =>
      simp only [List.getElem?_cons_zero, Option.some.injEq] at h
      subst h
      obtain ⟨d, ck⟩ := c
      have h1 := ha.1
      unfold endsAfter at h1
      simp only [Bool.and_eq_true, decide_eq_true_eq, data_mk] at h1
      simp only [kids_mk, data_mk, length_add_bytes]
      by_cases hk : k = 0
      · subst hk; simpa using h1
      · have hk' : k > 0 := by omega
        simpa [hk, hk', length_add_bytes] using h1
    | succ j' =>
      simp only [List.getElem?_cons_succ] at h
      refine go_after lang n pid nk tgt rest _ _ (k + 1) ?_ j' r h
      have h2 := ha.2
      by_cases hk : k = 0
      · subst hk; simpa [length_add_bytes] using h2
      · have hk' : k > 0 := by omega
        simpa [hk, hk', length_add_bytes] using h2

theorem firstLaterRef_mem (lang : Lang) : ∀ (L : List RawChild) (r : NodeRef) (b : Bool),
    firstLaterRef lang L = some (r, b) → ∃ rc ∈ L, rc.node = r
  | [], _, _, h => by simp [firstLaterRef] at h
  | rc :: rest, r, b, h => by
    unfold firstLaterRef at h
    split at h
    · simp only [Option.some.injEq, Prod.mk.injEq] at h; exact ⟨rc, by simp, h.1⟩
    · split at h
      · simp only [Option.some.injEq, Prod.mk.injEq] at h; exact ⟨rc, by simp, h.1⟩
      · obtain ⟨x, hx, hxr⟩ := firstLaterRef_mem lang rest r b h
        exact ⟨x, by simp [hx], hxr⟩

/-- Elements of `rawChildren` of a node all of whose raw descendants end after `tgt`. -/
theorem raw_mem_props (lang : Lang) (n : NodeRef) (tgt : Nat) (rc : RawChild) (h : rc ∈ rawChildren lang n)
    (hne : endsAfterL tgt n.t.kids n.start.bytes true = true) :
    n.startByte ≤ rc.node.startByte ∧ tgt < rc.posAfter.bytes ∧ rc.node.t ∈ n.t.kids ∧
      endsAfterL tgt rc.node.t.kids rc.node.start.bytes true = true := by
  obtain ⟨j, hj⟩ := List.mem_iff_getElem?.mp h
  simp only [rawChildren] at hj
  have he := go_elem lang _ _ _ _ _ _ _ j rc hj
  have hm : rc.node.t ∈ n.t.kids := List.mem_of_getElem? he.2.2
  have ha := go_after lang n _ _ tgt _ _ _ 0 (by simpa using hne) j rc hj
  simp only [NodeRef.startByte]
  exact ⟨he.1, ha.1, hm, ha.2⟩

/-- Descending into a hidden later node: the search returns its first visible child. -/
theorem ns_descend (lang : Lang) (self : NodeRef) (later : Option (NodeRef × Bool)) (hself : self.startByte < self.endByte) :
    ∀ (fuel : Nat) (lc : NodeRef) (ps : Option Nat), lc.t.size ≤ fuel → Summarized lang lc.t → shapeOK ps lc.t = true →
    endsAfterL self.endByte lc.t.kids lc.start.bytes true = true → self.endByte ≤ lc.startByte → vcc lc.t > 0 →
    (nsGo lang self fuel (some lc) later).map (fun r => (r.t, r.alias)) = (enumChildren lang lc.t).head?
  | 0, lc, _, hf, _, _, _, _, _ => by have := tree_size_pos lc.t; omega
  | f + 1, lc, ps, hf, hs, hsh, hne, hpos, hv => by
    rw [nsGo_succ lang self f lc later none _ (nsScan_later lang self none (rawChildren lang lc) (by
      intro rc hrc
      have := raw_mem_props lang lc self.endByte rc hrc hne
      simp only [NodeRef.startByte] at this hpos hself ⊢
      omega))]
    obtain ⟨t, al, id, st⟩ := lc
    obtain ⟨d, kids⟩ := t
    simp only [kids_mk, data_mk, NodeRef.startByte] at *
    have hmap := firstLaterRef_go lang ⟨.mk d kids, al, id, st⟩ kids.length kids st 0 0
    simp only [data_mk] at hmap
    have hraw : rawChildren lang ⟨.mk d kids, al, id, st⟩ = rawChildren.go lang ⟨.mk d kids, al, id, st⟩ d.productionId kids.length kids st 0 0 := by
      rfl
    have hcnt := (summarize_counts lang (.mk d kids) ps hs hsh).1
    unfold Summarized at hs
    unfold shapeOK at hsh
    simp only [Bool.and_eq_true] at hsh
    have hhead := enumKids_head lang kids d.productionId 0 (some d.symbol) hs.2.2 hsh.2
    have hne' : enumChildren lang (.mk d kids) ≠ [] := by
      intro h0
      rw [h0] at hcnt
      simp only [data_mk, List.length_nil] at hcnt
      unfold vcc at hv
      simp only [data_mk, kids_mk] at hv
      by_cases hke : kids.isEmpty = true <;> simp [hke] at hv <;> omega
    simp only [enumChildren] at hne' ⊢
    rw [hhead]
    cases hfl : firstLaterRef lang (rawChildren lang ⟨.mk d kids, al, id, st⟩) with
    | none =>
      rw [hraw] at hfl
      rw [hfl] at hmap
      simp only [Option.map_none] at hmap
      have : firstRel lang d.productionId kids 0 = none := by
        cases hx : firstRel lang d.productionId kids 0 with
        | none => rfl
        | some v => rw [hx] at hmap; simp at hmap
      rw [this] at hhead
      simp only at hhead
      exact absurd (List.head?_eq_none_iff.mp hhead) hne'
    | some rb =>
      obtain ⟨r, b⟩ := rb
      obtain ⟨rc, hrc, hrcn⟩ := firstLaterRef_mem lang _ r b hfl
      have hp := raw_mem_props lang ⟨.mk d kids, al, id, st⟩ self.endByte rc hrc hne
      rw [hraw] at hfl
      rw [hfl] at hmap
      simp only [Option.map_some] at hmap
      cases hx : firstRel lang d.productionId kids 0 with
      | none => rw [hx] at hmap; simp at hmap
      | some v =>
        obtain ⟨c, si', b'⟩ := v
        rw [hx] at hmap
        simp only [Option.map_some, Option.some.injEq, Prod.mk.injEq] at hmap
        obtain ⟨h1, h2, h3⟩ := hmap
        subst h3
        cases b with
        | true =>
          simp only [nsNext, Option.map_some, h1, h2]
        | false =>
          simp only [nsNext]
          have hmem := firstRel_mem lang d.productionId kids 0 c si' false hx
          have hvc := firstRel_false_vcc lang d.productionId kids 0 c si' hx
          have := ns_descend lang self later hself f r (some d.symbol)
            (by rw [h1]; have := sizeList_mem kids c hmem; simp only [Tree.size] at hf; omega)
            (by rw [h1]; exact summarized_of_mem lang kids c hs.2.2 hmem)
            (by rw [h1]; exact shapeOK_of_mem kids _ c hsh.2 hmem)
            (by rw [← hrcn]; exact hp.2.2.2)
            (by rw [← hrcn]; simp only [NodeRef.startByte] at hp ⊢; omega)
            (by rw [h1]; exact hvc)
          rw [this, h1]


theorem enum_ne_nil_of_vcc (lang : Lang) (t : Tree) (ps : Option Nat) (hs : Summarized lang t) (hsh : shapeOK ps t = true)
    (hv : vcc t > 0) : enumChildren lang t ≠ [] := by
  have hcnt := (summarize_counts lang t ps hs hsh).1
  intro h0
  rw [h0] at hcnt
  simp only [List.length_nil] at hcnt
  unfold vcc at hv
  by_cases hke : t.kids.isEmpty = true <;> simp [hke] at hv <;> omega

/-- What a remembered later node stands for: itself if relevant, its first visible child if hidden. -/
def resolveLater (lang : Lang) : Option (NodeRef × Bool) → Option (Tree × Nat)
  | none => none
  | some (ln, true) => some (ln.t, ln.alias)
  | some (ln, false) => (enumChildren lang ln.t).head?

/-- A remembered hidden later node can be descended into by `ns_descend`. -/
def LaterGood (lang : Lang) (self : NodeRef) : Option (NodeRef × Bool) → Prop
  | some (ln, false) => (∃ ps, shapeOK ps ln.t = true) ∧ Summarized lang ln.t ∧ endsAfterL self.endByte ln.t.kids ln.start.bytes true = true ∧
      self.endByte ≤ ln.startByte ∧ vcc ln.t > 0
  | _ => True

def laterNeed : Option (NodeRef × Bool) → Nat
  | some (ln, false) => ln.t.size
  | _ => 0

theorem resolve_ne_none (lang : Lang) (self : NodeRef) (l : NodeRef × Bool) (hg : LaterGood lang self (some l)) :
    resolveLater lang (some l) ≠ none := by
  obtain ⟨ln, b⟩ := l
  cases b with
  | true => simp [resolveLater]
  | false =>
    obtain ⟨⟨ps, hsh⟩, hs, _, _, hv⟩ := hg
    have := enum_ne_nil_of_vcc lang ln.t ps hs hsh hv
    simp only [resolveLater, ne_eq, List.head?_eq_none_iff]
    exact this

/-- The part of the scan after the path's child `rc` (index `k`), when no later raw node is empty. -/
theorem ns_later_part (lang : Lang) (self n : NodeRef) (k : Nat) (rc : RawChild) (ps : Option Nat)
    (hk : (rawChildren lang n)[k]? = some rc) (hs : Summarized lang n.t) (hsh : shapeOK ps n.t = true)
    (hne : endsAfterL self.endByte (n.t.kids.drop (k + 1)) rc.posAfter.bytes false = true) (hend : self.endByte ≤ rc.posAfter.bytes)
    (hself : self.startByte < self.endByte) :
    (∀ cct, nsScan lang self ((rawChildren lang n).drop (k + 1)) cct = (cct, firstLaterRef lang ((rawChildren lang n).drop (k + 1)))) ∧
    resolveLater lang (firstLaterRef lang ((rawChildren lang n).drop (k + 1))) =
      (enumKids lang n.t.data.productionId (n.t.kids.drop (k + 1)) (if rc.node.t.data.extra then rc.si else rc.si + 1)).head? ∧
    LaterGood lang self (firstLaterRef lang ((rawChildren lang n).drop (k + 1))) ∧
    (∀ lc b, firstLaterRef lang ((rawChildren lang n).drop (k + 1)) = some (lc, b) → lc.t ∈ n.t.kids.drop (k + 1)) := by
  have hk' := hk
  simp only [rawChildren] at hk'
  have hdrop := go_drop lang n _ _ _ _ _ _ k rc hk'
  have hL : (rawChildren lang n).drop (k + 1) =
      rawChildren.go lang n n.t.data.productionId n.t.kids.length (n.t.kids.drop (k + 1)) rc.posAfter
        (if rc.node.t.data.extra then rc.si else rc.si + 1) (rc.k + 1) := by
    simp only [rawChildren]; exact hdrop
  -- every later element lies after self and is not empty
  have hel : ∀ r ∈ (rawChildren lang n).drop (k + 1), self.endByte ≤ r.node.startByte ∧ self.endByte < r.posAfter.bytes ∧
      r.node.t ∈ n.t.kids.drop (k + 1) ∧ endsAfterL self.endByte r.node.t.kids r.node.start.bytes true = true := by
    intro r hr
    rw [hL] at hr
    obtain ⟨j, hj⟩ := List.mem_iff_getElem?.mp hr
    have he := go_elem lang _ _ _ _ _ _ _ j r hj
    have hm : r.node.t ∈ n.t.kids.drop (k + 1) := List.mem_of_getElem? he.2.2
    have ha := go_after lang n _ _ self.endByte _ _ _ (rc.k + 1) (by simpa using hne) j r hj
    simp only [NodeRef.startByte]
    exact ⟨by omega, ha.1, hm, ha.2⟩
  have hscan : ∀ cct, nsScan lang self ((rawChildren lang n).drop (k + 1)) cct =
      (cct, firstLaterRef lang ((rawChildren lang n).drop (k + 1))) := by
    intro cct
    exact nsScan_later lang self cct _ (fun r hr => by have := hel r hr; omega)
  have hsk := summarizedL_drop lang _ (k + 1) (summarizedL_kids lang n.t hs)
  have hshk := shapeOKL_drop _ _ (k + 1) (shapeOKL_kids ps n.t hsh)
  have hhead := enumKids_head lang (n.t.kids.drop (k + 1)) n.t.data.productionId
    (if rc.node.t.data.extra then rc.si else rc.si + 1) (some n.t.data.symbol) hsk hshk
  have hmap := firstLaterRef_go lang n n.t.kids.length (n.t.kids.drop (k + 1)) rc.posAfter
    (if rc.node.t.data.extra then rc.si else rc.si + 1) (rc.k + 1)
  rw [← hL] at hmap
  refine ⟨hscan, ?_, ?_, ?_⟩
  · rw [hhead]
    cases hfl : firstLaterRef lang ((rawChildren lang n).drop (k + 1)) with
    | none =>
      rw [hfl] at hmap
      cases hx : firstRel lang n.t.data.productionId (n.t.kids.drop (k + 1)) (if rc.node.t.data.extra then rc.si else rc.si + 1) with
      | none => rfl
      | some v => rw [hx] at hmap; simp at hmap
    | some rb =>
      obtain ⟨r, b⟩ := rb
      rw [hfl] at hmap
      cases hx : firstRel lang n.t.data.productionId (n.t.kids.drop (k + 1)) (if rc.node.t.data.extra then rc.si else rc.si + 1) with
      | none => rw [hx] at hmap; simp at hmap
      | some v =>
        obtain ⟨c, si', b'⟩ := v
        rw [hx] at hmap
        simp only [Option.map_some, Option.some.injEq, Prod.mk.injEq] at hmap
        obtain ⟨h1, h2, h3⟩ := hmap
        subst h3
        cases b <;> simp [resolveLater, h1, h2]
  · cases hfl : firstLaterRef lang ((rawChildren lang n).drop (k + 1)) with
    | none => trivial
    | some rb =>
      obtain ⟨r, b⟩ := rb
      cases b with
      | true => trivial
      | false =>
        obtain ⟨x, hx, hxr⟩ := firstLaterRef_mem lang _ r false hfl
        have hp := hel x hx
        rw [hxr] at hp
        have hmem : r.t ∈ n.t.kids := List.mem_of_mem_drop hp.2.2.1
        rw [hfl] at hmap
        cases hfr : firstRel lang n.t.data.productionId (n.t.kids.drop (k + 1)) (if rc.node.t.data.extra then rc.si else rc.si + 1) with
        | none => rw [hfr] at hmap; simp at hmap
        | some v =>
          obtain ⟨c, si', b'⟩ := v
          rw [hfr] at hmap
          simp only [Option.map_some, Option.some.injEq, Prod.mk.injEq] at hmap
          obtain ⟨h1, _, h3⟩ := hmap
          subst h3
          have hvc := firstRel_false_vcc lang _ _ _ c si' hfr
          exact ⟨⟨_, shapeOK_of_mem _ _ r.t (shapeOKL_kids ps n.t hsh) hmem⟩,
            summarized_of_mem lang _ r.t (summarizedL_kids lang n.t hs) hmem, hp.2.2.2, hp.1, by rw [h1]; exact hvc⟩
  · intro lc b hfl
    obtain ⟨x, hx, hxr⟩ := firstLaterRef_mem lang _ lc b hfl
    have hp := hel x hx
    rw [hxr] at hp
    exact hp.2.2.1


/-- Below a child that ends where `self` ends there is nothing after `self`. -/
theorem laterOnPath_tight (lang : Lang) (self : NodeRef) : ∀ (q : List Nat) (c : NodeRef), Sized c.t →
    nodeAt lang c q = some self → c.endByte ≤ self.endByte → nsPathOK lang self c q = true → laterOnPath lang c q = []
  | [], _, _, _, _, _ => rfl
  | k :: rest, c, hs, hat, hend, hok => by
    obtain ⟨rc, hk, hat'⟩ := nodeAt_cons lang c self k rest hat
    simp only [nsPathOK, hk, Bool.and_eq_true] at hok
    simp only [laterOnPath, hk]
    have hn := raw_child_nested lang c hs k rc hk
    have hd := nodeAt_nested lang rest rc.node self hn.2.2.2 hat'
    have hnil : c.t.kids.drop (k + 1) = [] := by
      cases Nat.lt_or_ge (k + 1) c.t.kids.length with
      | inr h => exact List.drop_eq_nil_of_le h
      | inl h =>
        have hlen := rawChildren_length lang c
        cases hrx : (rawChildren lang c)[k + 1]? with
        | none => have := List.getElem?_eq_none_iff.mp hrx; omega
        | some rx =>
          have hnx := raw_child_nested lang c hs (k + 1) rx hrx
          have hk2 := hk
          simp only [rawChildren] at hk2
          have hdrop := go_drop lang c _ _ _ _ _ _ k rc hk2
          have hrx0 : ((rawChildren lang c).drop (k + 1))[0]? = some rx := by rw [List.getElem?_drop]; simpa using hrx
          simp only [rawChildren] at hrx0
          rw [hdrop] at hrx0
          have ha := go_after lang c _ _ self.endByte _ _ _ (rc.k + 1) (by simpa using hok.1) 0 rx hrx0
          simp only [NodeRef.startByte, NodeRef.endByte] at *
          omega
    rw [hnil]
    simp only [enumKids, List.append_nil]
    cases rest with
    | nil => rfl
    | cons k' rest' =>
      simp only [List.isEmpty_cons, Bool.false_or, Bool.and_eq_true] at hok
      exact laterOnPath_tight lang self (k' :: rest') rc.node hn.2.2.2 hat' (by omega) hok.2.2

theorem sizeList_two (kids : List Tree) (k : Nat) (c x : Tree) (hk : kids[k]? = some c) (hx : x ∈ kids.drop (k + 1)) :
    c.size + x.size ≤ Tree.sizeList kids := by
  induction kids generalizing k with
  | nil => simp at hk
  | cons y rest ih =>
    cases k with
    | zero =>
      simp at hk; subst hk
      simp only [List.drop_succ_cons, List.drop_zero] at hx
      have := sizeList_mem rest x hx
      simp only [Tree.sizeList]; omega
    | succ k' =>
      have := ih k' (by simpa using hk) (by simpa using hx)
      simp only [Tree.sizeList]; omega


theorem tree_size_kids (t : Tree) : t.size = 1 + Tree.sizeList t.kids := by
  obtain ⟨d, k⟩ := t; simp [Tree.size, kids_mk]

theorem or_of_ne_none {α : Type} (a b : Option α) (h : a ≠ none) : a.or b = a := by
  cases a <;> simp_all

/-- The outer loop of `ts_node__next_sibling` along the path `n ⟶ self`. -/
theorem ns_levels (lang : Lang) (self : NodeRef) (hself : self.startByte < self.endByte) :
    ∀ (q : List Nat) (f : Nat) (n : NodeRef) (later : Option (NodeRef × Bool)) (ps : Option Nat), q ≠ [] →
    n.t.size + laterNeed later ≤ f → Summarized lang n.t → shapeOK ps n.t = true → nodeAt lang n q = some self →
    nsPathOK lang self n q = true → LaterGood lang self later →
    (nsGo lang self f (some n) later).map (fun r => (r.t, r.alias)) =
      ((laterOnPath lang n q).head?).or (resolveLater lang later)
  | [], _, _, _, _, h, _, _, _, _, _, _ => absurd rfl h
  | k :: rest, 0, n, _, _, _, hf, _, _, _, _, _ => by have := tree_size_pos n.t; omega
  | k :: rest, f + 1, n, later, ps, _, hf, hs, hsh, hat, hok, hg => by
    obtain ⟨rc, hk, hat'⟩ := nodeAt_cons lang n self k rest hat
    have hsz := sized_of_summarized lang n.t hs
    have hn := raw_child_nested lang n hsz k rc hk
    have hd := nodeAt_nested lang rest rc.node self hn.2.2.2 hat'
    simp only [nsPathOK, hk, Bool.and_eq_true] at hok
    have hlp := ns_later_part lang self n k rc ps hk hs hsh hok.1 (by omega) hself
    obtain ⟨hscan, hres, hlg, hlmem⟩ := hlp
    have hk2 := hk
    simp only [rawChildren] at hk2
    have hkid := (go_elem lang _ _ _ _ _ _ _ k rc hk2).2.2
    have hcmem : rc.node.t ∈ n.t.kids := List.mem_of_getElem? hkid
    have hnsize := tree_size_kids n.t
    -- the scan: children before k are passed over
    have hskip : nsScan lang self (rawChildren lang n) none = nsScan lang self (rc :: (rawChildren lang n).drop (k + 1)) none := by
      rw [nsScan_skip lang self none k (rawChildren lang n) (fun i ri hi hri => by
        have := raw_ordered lang n i k ri rc hi hri hk; omega), drop_eq_cons _ k rc hk]
    simp only [laterOnPath, hk, List.head?_append, Option.or_assoc]
    by_cases htight : rc.posAfter.bytes ≤ self.endByte
    · -- the path's child ends where self ends: it is passed over, nothing follows self below it
      have hsc : nsScan lang self (rawChildren lang n) none = (none, firstLaterRef lang ((rawChildren lang n).drop (k + 1))) := by
        rw [hskip, nsScan_cons]; simp only [htight, if_true]; exact hscan none
      rw [nsGo_succ lang self f n later none _ hsc]
      have hA : laterOnPath lang rc.node rest = [] := by
        cases rest with
        | nil => rfl
        | cons k' rest' =>
          simp only [List.isEmpty_cons, Bool.false_or, Bool.and_eq_true] at hok
          exact laterOnPath_tight lang self (k' :: rest') rc.node hn.2.2.2 hat' (by omega) hok.2.2
      rw [hA]
      simp only [List.head?_nil, Option.none_or]
      rw [← hres]
      cases hl : firstLaterRef lang ((rawChildren lang n).drop (k + 1)) with
      | none =>
        simp only [resolveLater, Option.none_or, nsNext]
        cases later with
        | none => rfl
        | some l =>
          obtain ⟨ln, b⟩ := l
          cases b with
          | true => rfl
          | false =>
            simp only [resolveLater]
            obtain ⟨⟨ps', hsh'⟩, hs', hne', hpos', hv'⟩ := hg
            exact ns_descend lang self _ hself f ln ps' (by simp only [laterNeed] at hf; omega) hs' hsh' hne' hpos' hv'
      | some l =>
        rw [hl] at hlg
        have hnn := resolve_ne_none lang self l hlg
        rw [or_of_ne_none _ _ hnn]
        obtain ⟨lc, b⟩ := l
        cases b with
        | true => rfl
        | false =>
          simp only [nsNext, resolveLater]
          obtain ⟨⟨ps', hsh'⟩, hs', hne', hpos', hv'⟩ := hlg
          have hm := sizeList_mem _ _ (List.mem_of_mem_drop (hlmem lc false hl))
          exact ns_descend lang self _ hself f lc ps' (by omega) hs' hsh' hne' hpos' hv'
    · -- the path's child extends beyond self: it contains the target, the search descends
      have hrest : rest ≠ [] := by
        intro h0
        subst h0
        simp only [nodeAt, Option.some.injEq] at hat'
        rw [hat'] at hn
        omega
      cases rest with
      | nil => exact absurd rfl hrest
      | cons k' rest' =>
        simp only [List.isEmpty_cons, Bool.false_or, Bool.and_eq_true, Bool.not_eq_true'] at hok
        have hsc : nsScan lang self (rawChildren lang n) none =
            (some rc.node, firstLaterRef lang ((rawChildren lang n).drop (k + 1))) := by
          rw [hskip, nsScan_cons]
          have h2 : rc.node.startByte ≤ self.startByte := hd.1
          simp only [htight, if_false, h2, if_true, hok.2.1, Bool.false_eq_true]
          exact hscan (some rc.node)
        rw [nsGo_succ lang self f n later (some rc.node) _ hsc]
        simp only [nsNext]
        have hsc' := summarized_of_mem lang _ rc.node.t (summarizedL_kids lang n.t hs) hcmem
        have hshc' := shapeOK_of_mem _ _ rc.node.t (shapeOKL_kids ps n.t hsh) hcmem
        have hcs := sizeList_mem _ _ hcmem
        cases hl : firstLaterRef lang ((rawChildren lang n).drop (k + 1)) with
        | none =>
          rw [hl] at hres
          simp only [resolveLater] at hres
          rw [← hres]
          simp only [Option.none_or]
          exact ns_levels lang self hself (k' :: rest') f rc.node later _ (by simp) (by omega) hsc' hshc' hat' hok.2.2 hg
        | some l =>
          rw [hl] at hlg hres
          have hnn := resolve_ne_none lang self l hlg
          rw [← hres, or_of_ne_none _ (resolveLater lang later) hnn]
          have hfuel : rc.node.t.size + laterNeed (some l) ≤ f := by
            obtain ⟨lc, b⟩ := l
            cases b with
            | true => simp only [laterNeed]; omega
            | false =>
              simp only [laterNeed]
              have := sizeList_two n.t.kids k rc.node.t lc.t hkid (hlmem lc false hl)
              omega
          exact ns_levels lang self hself (k' :: rest') f rc.node (some l) _ (by simp) hfuel hsc' hshc' hat' hok.2.2 hlg


/-- **next_sibling_spec_partial.**  Let `P` be what `ts_node_parent(self)` returns (see
`parent_spec_partial`) and `q ≠ []` a path of raw child indices `P ⟶ self`.  If `self` is NON-EMPTY,
the subtree of `P` is summarized and parser-shaped, and `nsPathOK` holds (no zero-width raw node
among the later siblings of `self` and of its ancestors below `P`, nor inside them; no ancestor on the
path is the same subtree as `self`), then the port of `ts_node_next_sibling(self)` returns the first
element of `laterOnPath P q` — the visible nodes after `self` among its raw siblings (hidden ones
replaced by their visible children), then after each ancestor below `P` — and null iff that list is
empty. -/
theorem next_sibling_spec_partial (lang : Lang) (fuel : Nat) (root self P : NodeRef) (q : List Nat) (ps : Option Nat)
    (hpar : nodeParent lang fuel root self = some P) (hq : q ≠ []) (hf : P.t.size ≤ fuel + 1)
    (hs : Summarized lang P.t) (hsh : shapeOK ps P.t = true) (hat : nodeAt lang P q = some self)
    (hself : self.startByte < self.endByte) (hok : nsPathOK lang self P q = true) :
    (nextSiblingPort lang fuel root self true).map (fun r => (r.t, r.alias)) = (laterOnPath lang P q).head? := by
  unfold nextSiblingPort
  have he : (self.startByte == self.endByte) = false := by simp; omega
  simp only [he, hpar]
  have := ns_levels lang self hself q (fuel + 1) P none ps hq (by simp only [laterNeed]; omega) hs hsh hat hok trivial
  simpa [resolveLater] using this


/-- The same with the parent given by `parent_spec_partial`: everything in terms of paths from the root. -/
theorem next_sibling_spec_from_root (lang : Lang) (fuel : Nat) (root self : NodeRef) (path q : List Nat) (psr ps : Option Nat)
    (hp : path ≠ []) (hfp : path.length ≤ fuel) (hsr : Summarized lang root.t) (hshr : shapeOK psr root.t = true)
    (hatr : nodeAt lang root path = some self) (hrel : self.relevant lang true = true)
    (hself : self.startByte < self.endByte) (hroot : root.id ≠ self.id) (hokp : pathOK lang self.id root path = true)
    (hq : q ≠ []) (hf : (parentOnPath lang root root path).t.size ≤ fuel + 1)
    (hs : Summarized lang (parentOnPath lang root root path).t) (hsh : shapeOK ps (parentOnPath lang root root path).t = true)
    (hat : nodeAt lang (parentOnPath lang root root path) q = some self)
    (hok : nsPathOK lang self (parentOnPath lang root root path) q = true) :
    (nextSiblingPort lang fuel root self true).map (fun r => (r.t, r.alias)) =
      (laterOnPath lang (parentOnPath lang root root path) q).head? :=
  next_sibling_spec_partial lang fuel root self _ q ps
    (parent_spec_partial lang fuel root self path psr hp hfp hsr hshr hatr hrel hself hroot hokp) hq hf hs hsh hat hself hok

/-! ## Non-vacuity for the sibling theorem -/

/-- the visible rule `v` (first child of the hidden `h`) -/
def pvVRef : NodeRef := { t := pvV, alias := 0, id := 1984, start := ⟨1, ⟨0, 1⟩⟩ }

/-- All hypotheses hold on the demo tree and the theorem computes: the next sibling of `v` (child
of the hidden `h`) is the leaf `c` that follows it inside `h`; the next sibling of `c` — the LAST
child of `h`, which therefore ends where `h` ends — is the leaf `d` that follows `h` in the root. -/
example : (nextSiblingPort C02.demoLang 8 pvRoot pvVRef true).map (fun r => (r.t, r.alias)) = some (cwLeaf, 0) := by
  rw [next_sibling_spec_from_root C02.demoLang 8 pvRoot pvVRef [1, 0] [1, 0] none none (by simp) (by simp) pvRoot_summarized pvRoot_shape rfl (by decide)
    (by decide) (by decide) (by decide) (by simp) (by decide) pvRoot_summarized pvRoot_shape rfl (by decide)]
  rfl
example : (nextSiblingPort C02.demoLang 8 pvRoot pvC true).map (fun r => (r.t, r.alias)) = some (cwLeaf, 0) := by
  rw [next_sibling_spec_from_root C02.demoLang 8 pvRoot pvC [1, 1] [1, 1] none none (by simp) (by simp) pvRoot_summarized pvRoot_shape rfl (by decide)
    (by decide) (by decide) (by decide) (by simp) (by decide) pvRoot_summarized pvRoot_shape rfl (by decide)]
  rfl
example : laterOnPath C02.demoLang pvRoot [1, 0] = [(cwLeaf, 0), (cwLeaf, 0)] := rfl


/-! ### `ts_node__prev_sibling` -/

/-- The child scan / outer loop of `ts_node__prev_sibling(self, true)` for a non-empty `self`. -/
abbrev psScan (lang : Lang) (fuel : Nat) (self : NodeRef) := prevSiblingPort.scan lang fuel self true false self.endByte
abbrev psGo (lang : Lang) (fuel : Nat) (self : NodeRef) := prevSiblingPort.go lang fuel self true false self.endByte

theorem psScan_nil (lang : Lang) (fuel : Nat) (self : NodeRef) (e : Option (NodeRef × Bool)) :
    psScan lang fuel self [] e = (false, none, e) := rfl

/-- What a child that is passed over leaves in `earlier_child`. -/
def earlierStep (lang : Lang) (rc : RawChild) (e : Option (NodeRef × Bool)) : Option (NodeRef × Bool) :=
  if rc.node.relevant lang true then some (rc.node, true)
  else if rc.node.childCount > 0 then some (rc.node, false)
  else e

theorem psScan_cons (lang : Lang) (fuel : Nat) (self : NodeRef) (rc : RawChild) (rest : List RawChild) (e : Option (NodeRef × Bool)) :
    psScan lang fuel self (rc :: rest) e =
      (if rc.node.id == self.id then (false, some rc.node, e)
       else if rc.posAfter.bytes > self.endByte then (true, some rc.node, e)
       else if rc.posAfter.bytes == self.endByte then (true, some rc.node, e)
       else psScan lang fuel self rest (earlierStep lang rc e)) := by
  simp only [psScan, prevSiblingPort.scan, earlierStep, NodeRef.relChildCount, relevantChildCount, NodeRef.childCount,
    Bool.not_false, Bool.true_or, Bool.and_true]
  split
  · rfl
  · split
    · rfl
    · split
      · rfl
      · by_cases hr : rc.node.relevant lang true = true <;> by_cases hc : rc.node.t.kids.length > 0 <;>
          by_cases hv : rc.node.t.data.visibleChildCount > 0 <;> simp [hr, hc, hv]

/-- The last child that is relevant (`true`) or hidden with visible children (`false`). -/
def lastEarlierRef (lang : Lang) : List RawChild → Option (NodeRef × Bool)
  | [] => none
  | rc :: rest =>
    match lastEarlierRef lang rest with
    | some r => some r
    | none =>
      if rc.node.relevant lang true then some (rc.node, true)
      else if rc.node.childCount > 0 then some (rc.node, false)
      else none

theorem lastEarlierRef_cons (lang : Lang) (rc : RawChild) (rest : List RawChild) :
    lastEarlierRef lang (rc :: rest) = (lastEarlierRef lang rest).or (earlierStep lang rc none) := by
  rw [lastEarlierRef]
  cases lastEarlierRef lang rest <;> simp [earlierStep]

/-- Children that are not `self` and end before the end of `self` are passed over, the last
relevant-or-populated one being remembered. -/
theorem psScan_before (lang : Lang) (fuel : Nat) (self : NodeRef) :
    ∀ (L M : List RawChild) (e : Option (NodeRef × Bool)),
    (∀ rc ∈ L, rc.node.id ≠ self.id ∧ rc.posAfter.bytes < self.endByte) →
    psScan lang fuel self (L ++ M) e = psScan lang fuel self M ((lastEarlierRef lang L).or e)
  | [], M, e, _ => by simp [lastEarlierRef]
  | rc :: rest, M, e, h => by
    have h0 := h rc (by simp)
    rw [List.cons_append, psScan_cons]
    have h1 : (rc.node.id == self.id) = false := by simpa using h0.1
    have h2 : ¬ (rc.posAfter.bytes > self.endByte) := by omega
    have h3 : (rc.posAfter.bytes == self.endByte) = false := by simp; omega
    simp only [h1, h2, h3, Bool.false_eq_true, if_false]
    rw [psScan_before lang fuel self rest M _ (fun r hr => h r (by simp [hr]))]
    congr 1
    rw [lastEarlierRef_cons, Option.or_assoc]
    congr 1
    unfold earlierStep
    split
    · simp
    · split <;> simp


theorem lastEarlierRef_mem (lang : Lang) : ∀ (L : List RawChild) (r : NodeRef) (b : Bool),
    lastEarlierRef lang L = some (r, b) → ∃ rc ∈ L, rc.node = r
  | [], _, _, h => by simp [lastEarlierRef] at h
  | rc :: rest, r, b, h => by
    rw [lastEarlierRef] at h
    cases hr : lastEarlierRef lang rest with
    | some v =>
      rw [hr] at h
      simp only [Option.some.injEq] at h
      subst h
      obtain ⟨x, hx, hxr⟩ := lastEarlierRef_mem lang rest r b hr
      exact ⟨x, by simp [hx], hxr⟩
    | none =>
      rw [hr] at h
      simp only at h
      split at h
      · simp only [Option.some.injEq, Prod.mk.injEq] at h; exact ⟨rc, by simp, h.1⟩
      · split at h
        · simp only [Option.some.injEq, Prod.mk.injEq] at h; exact ⟨rc, by simp, h.1⟩
        · simp at h

/-- `lastEarlierRef` over the iterator's elements is `lastRel` over the raw children. -/
theorem lastEarlierRef_go (lang : Lang) (n : NodeRef) (nk : Nat) : ∀ (kids : List Tree) (pos : Length) (si k : Nat),
    (lastEarlierRef lang (rawChildren.go lang n n.t.data.productionId nk kids pos si k)).map (fun r => (r.1.t, r.1.alias, r.2)) =
      (lastRel lang n.t.data.productionId kids si).map
        (fun r => (r.1, (if r.1.data.extra then 0 else lang.aliasAt n.t.data.productionId r.2.1), r.2.2))
  | [], _, _, _ => by simp [rawChildren.go, lastEarlierRef, lastRel]
  | c :: rest, pos, si, k => by
    rw [go_getElem_zero, lastEarlierRef, lastRel]
    have ih := lastEarlierRef_go lang n nk rest
      (length_add (if k > 0 then length_add pos c.data.padding else pos) c.data.size) (if c.data.extra then si else si + 1) (k + 1)
    cases hl : lastEarlierRef lang (rawChildren.go lang n n.t.data.productionId nk rest
        (length_add (if k > 0 then length_add pos c.data.padding else pos) c.data.size) (if c.data.extra then si else si + 1) (k + 1)) with
    | some v =>
      rw [hl] at ih
      cases hr : lastRel lang n.t.data.productionId rest (if c.data.extra then si else si + 1) with
      | none => rw [hr] at ih; simp at ih
      | some w => rw [hr] at ih; simpa using ih
    | none =>
      rw [hl] at ih
      cases hr : lastRel lang n.t.data.productionId rest (if c.data.extra then si else si + 1) with
      | some w => rw [hr] at ih; simp at ih
      | none =>
        simp only [NodeRef.relevant, isRelevant, if_true, NodeRef.childCount]
        have hcond : (c.data.visible || (if c.data.extra then 0 else lang.aliasAt n.t.data.productionId si) != 0) =
            (c.data.visible || (!c.data.extra && lang.aliasAt n.t.data.productionId si != 0)) := by
          by_cases hx : c.data.extra = true <;> simp [hx]
        simp only [hcond]
        have hv : (if c.kids.length > 0 then c.data.visibleChildCount else 0) = vcc c := by
          unfold vcc
          cases hk : c.kids <;> simp
        rw [hv]
        by_cases hvis : (c.data.visible || (!c.data.extra && lang.aliasAt n.t.data.productionId si != 0)) = true
        · simp [hvis]
        · have hvis' : (c.data.visible || (!c.data.extra && lang.aliasAt n.t.data.productionId si != 0)) = false := by simpa using hvis
          simp only [hvis', Bool.false_eq_true, if_false]
          by_cases hk : vcc c > 0 <;> simp [hk]

theorem go_take (lang : Lang) (n : NodeRef) (pid nk : Nat) : ∀ (kids : List Tree) (pos : Length) (si k j : Nat),
    (rawChildren.go lang n pid nk kids pos si k).take j = rawChildren.go lang n pid nk (kids.take j) pos si k
  | _, _, _, _, 0 => by simp [rawChildren.go]
  | [], _, _, _, _ + 1 => by simp [rawChildren.go]
  | c :: rest, pos, si, k, j + 1 => by
    rw [go_getElem_zero, List.take_succ_cons, List.take_succ_cons, go_getElem_zero, go_take lang n pid nk rest]

theorem go_ids (lang : Lang) (n : NodeRef) (pid nk sid : Nat) : ∀ (kids : List Tree) (pos : Length) (si k : Nat),
    noIdInL sid n.t.data.addr nk kids k = true → ∀ (j : Nat) (r : RawChild),
    (rawChildren.go lang n pid nk kids pos si k)[j]? = some r → r.node.id ≠ sid ∧ noIdIn sid r.node.t = true
  | [], _, _, _, _, _, _, h => by simp [rawChildren.go] at h
  | c :: rest, pos, si, k, ha, j, r, h => by
    rw [go_getElem_zero] at h
    unfold noIdInL at ha
    simp only [Bool.and_eq_true, bne_iff_ne, ne_eq] at ha
    cases j with
    | zero =>
      simp only [List.getElem?_cons_zero, Option.some.injEq] at h
      subst h
      exact ⟨ha.1.1, ha.1.2⟩
    | succ j' =>
      simp only [List.getElem?_cons_succ] at h
      exact go_ids lang n pid nk sid rest _ _ (k + 1) ha.2 j' r h


/-- What one round of the outer loop of `ts_node__prev_sibling` does with the result of the scan. -/
def psNext (lang : Lang) (fuel : Nat) (self : NodeRef) (f : Nat) (earlierNode : Option (NodeRef × Bool)) :
    Bool → Option NodeRef → Option (NodeRef × Bool) → Option NodeRef
  | true, stop, ech => psGo lang fuel self f stop (match ech with | some e => some e | none => earlierNode)
  | false, _, some (ec, true) => some ec
  | false, _, some (ec, false) => psGo lang fuel self f (some ec) earlierNode
  | false, _, none =>
    match earlierNode with
    | some (en, true) => some en
    | some (en, false) => psGo lang fuel self f (some en) none
    | none => none

theorem psGo_succ (lang : Lang) (fuel : Nat) (self : NodeRef) (f : Nat) (node : NodeRef) (en : Option (NodeRef × Bool))
    (found : Bool) (stop : Option NodeRef) (ech : Option (NodeRef × Bool))
    (h : psScan lang fuel self (rawChildren lang node) none = (found, stop, ech)) :
    psGo lang fuel self (f + 1) (some node) en = psNext lang fuel self f en found stop ech := by
  simp only [psGo, prevSiblingPort.go]
  simp only [psScan] at h
  rw [h]
  cases found with
  | true => rfl
  | false =>
    cases ech with
    | none => rfl
    | some l => obtain ⟨lc, b⟩ := l; cases b <;> rfl

theorem raw_mem_index (lang : Lang) (n : NodeRef) (rc : RawChild) (h : rc ∈ rawChildren lang n) :
    ∃ j : Nat, (rawChildren lang n)[j]? = some rc := List.mem_iff_getElem?.mp h

/-- Descending into a hidden earlier node: the search returns its LAST visible child. -/
theorem ps_descend (lang : Lang) (fuel : Nat) (self : NodeRef) (en : Option (NodeRef × Bool)) :
    ∀ (f : Nat) (ec : NodeRef) (ps : Option Nat), ec.t.size ≤ f → Summarized lang ec.t → shapeOK ps ec.t = true →
    noIdIn self.id ec.t = true → ec.endByte < self.endByte → vcc ec.t > 0 →
    (psGo lang fuel self f (some ec) en).map (fun r => (r.t, r.alias)) = (enumChildren lang ec.t).getLast?
  | 0, ec, _, hf, _, _, _, _, _ => by have := tree_size_pos ec.t; omega
  | f + 1, ec, ps, hf, hs, hsh, hid, hend, hv => by
    have hsz := sized_of_summarized lang ec.t hs
    have hidL : noIdInL self.id ec.t.data.addr ec.t.kids.length ec.t.kids 0 = true := by
      obtain ⟨t, al, id, st⟩ := ec
      obtain ⟨d, kids⟩ := t
      unfold noIdIn at hid
      simpa [data_mk, kids_mk] using hid
    have hall : ∀ rc ∈ rawChildren lang ec, (rc.node.id ≠ self.id ∧ rc.posAfter.bytes < self.endByte) ∧
        rc.node.t ∈ ec.t.kids ∧ noIdIn self.id rc.node.t = true ∧ rc.node.endByte < self.endByte := by
      intro rc hrc
      obtain ⟨j, hj⟩ := raw_mem_index lang ec rc hrc
      have hn := raw_child_nested lang ec hsz j rc hj
      have hj2 := hj
      simp only [rawChildren] at hj2
      have hi := go_ids lang ec _ _ self.id _ _ _ 0 hidL j rc hj2
      have he := go_elem lang _ _ _ _ _ _ _ j rc hj2
      exact ⟨⟨hi.1, by omega⟩, List.mem_of_getElem? he.2.2, hi.2, by omega⟩
    have hsc : psScan lang fuel self (rawChildren lang ec) none = (false, none, lastEarlierRef lang (rawChildren lang ec)) := by
      have := psScan_before lang fuel self (rawChildren lang ec) [] none (fun rc hrc => (hall rc hrc).1)
      simpa [psScan_nil] using this
    rw [psGo_succ lang fuel self f ec en false none _ hsc]
    have hmap := lastEarlierRef_go lang ec ec.t.kids.length ec.t.kids ec.start 0 0
    have hraw : rawChildren lang ec = rawChildren.go lang ec ec.t.data.productionId ec.t.kids.length ec.t.kids ec.start 0 0 := rfl
    rw [← hraw] at hmap
    have hlast := enumKids_last lang ec.t.kids ec.t.data.productionId 0 (some ec.t.data.symbol)
      (summarizedL_kids lang ec.t hs) (shapeOKL_kids ps ec.t hsh)
    have hne' := enum_ne_nil_of_vcc lang ec.t ps hs hsh hv
    have henum : enumChildren lang ec.t = enumKids lang ec.t.data.productionId ec.t.kids 0 := by
      obtain ⟨t, al, id, st⟩ := ec
      obtain ⟨d, kids⟩ := t
      simp [enumChildren, data_mk, kids_mk]
    rw [henum] at hne' ⊢
    rw [hlast]
    cases hfl : lastEarlierRef lang (rawChildren lang ec) with
    | none =>
      rw [hfl] at hmap
      simp only [Option.map_none] at hmap
      have : lastRel lang ec.t.data.productionId ec.t.kids 0 = none := by
        cases hx : lastRel lang ec.t.data.productionId ec.t.kids 0 with
        | none => rfl
        | some v => rw [hx] at hmap; simp at hmap
      rw [this] at hlast
      simp only at hlast
      exact absurd (List.getLast?_eq_none_iff.mp hlast) hne'
    | some rb =>
      obtain ⟨r, b⟩ := rb
      obtain ⟨rc, hrc, hrcn⟩ := lastEarlierRef_mem lang _ r b hfl
      have hp := hall rc hrc
      rw [hfl] at hmap
      simp only [Option.map_some] at hmap
      cases hx : lastRel lang ec.t.data.productionId ec.t.kids 0 with
      | none => rw [hx] at hmap; simp at hmap
      | some v =>
        obtain ⟨c, si', b'⟩ := v
        rw [hx] at hmap
        simp only [Option.map_some, Option.some.injEq, Prod.mk.injEq] at hmap
        obtain ⟨h1, h2, h3⟩ := hmap
        subst h3
        cases b with
        | true => simp only [psNext, Option.map_some, h1, h2]
        | false =>
          simp only [psNext]
          have hmem := lastRel_mem lang _ _ 0 c si' false hx
          have hvc := lastRel_false_vcc lang _ _ 0 c si' hx
          have hk := tree_size_kids ec.t
          have := ps_descend lang fuel self en f r (some ec.t.data.symbol)
            (by rw [h1]; have := sizeList_mem _ c hmem; omega)
            (by rw [h1]; exact summarized_of_mem lang _ c (summarizedL_kids lang ec.t hs) hmem)
            (by rw [h1]; exact shapeOK_of_mem _ _ c (shapeOKL_kids ps ec.t hsh) hmem)
            (by rw [← hrcn]; exact hp.2.2.1)
            (by rw [← hrcn]; exact hp.2.2.2)
            (by rw [h1]; exact hvc)
          rw [this, h1]


def resolveEarlier (lang : Lang) : Option (NodeRef × Bool) → Option (Tree × Nat)
  | none => none
  | some (en, true) => some (en.t, en.alias)
  | some (en, false) => (enumChildren lang en.t).getLast?

def EarlierGood (lang : Lang) (self : NodeRef) : Option (NodeRef × Bool) → Prop
  | some (en, false) => (∃ ps, shapeOK ps en.t = true) ∧ Summarized lang en.t ∧ noIdIn self.id en.t = true ∧
      en.endByte < self.endByte ∧ vcc en.t > 0
  | _ => True

theorem resolveEarlier_ne_none (lang : Lang) (self : NodeRef) (l : NodeRef × Bool) (hg : EarlierGood lang self (some l)) :
    resolveEarlier lang (some l) ≠ none := by
  obtain ⟨ln, b⟩ := l
  cases b with
  | true => simp [resolveEarlier]
  | false =>
    obtain ⟨⟨ps, hsh⟩, hs, _, _, hv⟩ := hg
    have := enum_ne_nil_of_vcc lang ln.t ps hs hsh hv
    simp only [resolveEarlier, ne_eq, List.getLast?_eq_none_iff]
    exact this

theorem sizeList_two_take (kids : List Tree) (k : Nat) (c x : Tree) (hk : kids[k]? = some c) (hx : x ∈ kids.take k) :
    c.size + x.size ≤ Tree.sizeList kids := by
  induction kids generalizing k with
  | nil => simp at hk
  | cons y rest ih =>
    cases k with
    | zero => simp at hx
    | succ k' =>
      simp only [List.take_succ_cons, List.mem_cons] at hx
      simp only [Tree.sizeList]
      rcases hx with hx | hx
      · subst hx
        have := sizeList_mem rest c (List.mem_of_getElem? (by simpa using hk))
        omega
      · have := ih k' (by simpa using hk) hx
        omega

/-- The part of the scan before the path's child `rc` (index `k`). -/
theorem ps_earlier_part (lang : Lang) (fuel : Nat) (self n : NodeRef) (k : Nat) (rc : RawChild) (ps : Option Nat)
    (hk : (rawChildren lang n)[k]? = some rc) (hs : Summarized lang n.t) (hsh : shapeOK ps n.t = true)
    (hid : noIdInL self.id n.t.data.addr n.t.kids.length (n.t.kids.take k) 0 = true)
    (hstart : rc.node.startByte < self.endByte) :
    (∀ M e, psScan lang fuel self ((rawChildren lang n).take k ++ M) e =
        psScan lang fuel self M ((lastEarlierRef lang ((rawChildren lang n).take k)).or e)) ∧
    resolveEarlier lang (lastEarlierRef lang ((rawChildren lang n).take k)) =
      (enumKids lang n.t.data.productionId (n.t.kids.take k) 0).getLast? ∧
    EarlierGood lang self (lastEarlierRef lang ((rawChildren lang n).take k)) ∧
    (∀ ec b, lastEarlierRef lang ((rawChildren lang n).take k) = some (ec, b) → ec.t ∈ n.t.kids.take k) := by
  have hsz := sized_of_summarized lang n.t hs
  have hL : (rawChildren lang n).take k =
      rawChildren.go lang n n.t.data.productionId n.t.kids.length (n.t.kids.take k) n.start 0 0 := by
    simp only [rawChildren]; exact go_take lang n _ _ _ _ _ _ k
  have hel : ∀ r ∈ (rawChildren lang n).take k, (r.node.id ≠ self.id ∧ r.posAfter.bytes < self.endByte) ∧
      r.node.t ∈ n.t.kids.take k ∧ noIdIn self.id r.node.t = true ∧ r.node.endByte < self.endByte := by
    intro r hr
    obtain ⟨j, hj⟩ := List.mem_iff_getElem?.mp hr
    have hj' := hj
    rw [List.getElem?_take] at hj'
    have hjk : j < k := by
      cases Nat.lt_or_ge j k with
      | inl h => exact h
      | inr h => simp [Nat.not_lt.mpr h] at hj'
    simp only [hjk, if_true] at hj'
    have ho := raw_ordered lang n j k r rc hjk hj' hk
    have hn := raw_child_nested lang n hsz j r hj'
    rw [hL] at hj
    have hi := go_ids lang n _ _ self.id _ _ _ 0 hid j r hj
    have he := go_elem lang _ _ _ _ _ _ _ j r hj
    exact ⟨⟨hi.1, by omega⟩, List.mem_of_getElem? he.2.2, hi.2, by omega⟩
  have hsk := summarizedL_take lang _ k (summarizedL_kids lang n.t hs)
  have hshk := shapeOKL_take _ _ k (shapeOKL_kids ps n.t hsh)
  have hlast := enumKids_last lang (n.t.kids.take k) n.t.data.productionId 0 (some n.t.data.symbol) hsk hshk
  have hmap := lastEarlierRef_go lang n n.t.kids.length (n.t.kids.take k) n.start 0 0
  rw [← hL] at hmap
  refine ⟨fun M e => psScan_before lang fuel self _ M e (fun r hr => (hel r hr).1), ?_, ?_, ?_⟩
  · rw [hlast]
    cases hfl : lastEarlierRef lang ((rawChildren lang n).take k) with
    | none =>
      rw [hfl] at hmap
      cases hx : lastRel lang n.t.data.productionId (n.t.kids.take k) 0 with
      | none => rfl
      | some v => rw [hx] at hmap; simp at hmap
    | some rb =>
      obtain ⟨r, b⟩ := rb
      rw [hfl] at hmap
      cases hx : lastRel lang n.t.data.productionId (n.t.kids.take k) 0 with
      | none => rw [hx] at hmap; simp at hmap
      | some v =>
        obtain ⟨c, si', b'⟩ := v
        rw [hx] at hmap
        simp only [Option.map_some, Option.some.injEq, Prod.mk.injEq] at hmap
        obtain ⟨h1, h2, h3⟩ := hmap
        subst h3
        cases b <;> simp [resolveEarlier, h1, h2]
  · cases hfl : lastEarlierRef lang ((rawChildren lang n).take k) with
    | none => trivial
    | some rb =>
      obtain ⟨r, b⟩ := rb
      cases b with
      | true => trivial
      | false =>
        obtain ⟨x, hx, hxr⟩ := lastEarlierRef_mem lang _ r false hfl
        have hp := hel x hx
        rw [hxr] at hp
        have hmem : r.t ∈ n.t.kids := List.mem_of_mem_take hp.2.1
        rw [hfl] at hmap
        cases hfr : lastRel lang n.t.data.productionId (n.t.kids.take k) 0 with
        | none => rw [hfr] at hmap; simp at hmap
        | some v =>
          obtain ⟨c, si', b'⟩ := v
          rw [hfr] at hmap
          simp only [Option.map_some, Option.some.injEq, Prod.mk.injEq] at hmap
          obtain ⟨h1, _, h3⟩ := hmap
          subst h3
          have hvc := lastRel_false_vcc lang _ _ _ c si' hfr
          exact ⟨⟨_, shapeOK_of_mem _ _ r.t (shapeOKL_kids ps n.t hsh) hmem⟩,
            summarized_of_mem lang _ r.t (summarizedL_kids lang n.t hs) hmem, hp.2.2.1, hp.2.2.2, by rw [h1]; exact hvc⟩
  · intro ec b hfl
    obtain ⟨x, hx, hxr⟩ := lastEarlierRef_mem lang _ ec b hfl
    have hp := hel x hx
    rw [hxr] at hp
    exact hp.2.1


/-- The outer loop of `ts_node__prev_sibling` along the path `n ⟶ self`. -/
theorem ps_levels (lang : Lang) (fuel : Nat) (self : NodeRef) (hself : self.startByte < self.endByte) :
    ∀ (q : List Nat) (f : Nat) (n : NodeRef) (en : Option (NodeRef × Bool)) (ps : Option Nat), q ≠ [] →
    n.t.size + laterNeed en ≤ f → Summarized lang n.t → shapeOK ps n.t = true → nodeAt lang n q = some self →
    psPathOK lang self n q = true → EarlierGood lang self en →
    (psGo lang fuel self f (some n) en).map (fun r => (r.t, r.alias)) =
      ((earlierOnPath lang n q).getLast?).or (resolveEarlier lang en)
  | [], _, _, _, _, h, _, _, _, _, _, _ => absurd rfl h
  | k :: rest, 0, n, _, _, _, hf, _, _, _, _, _ => by have := tree_size_pos n.t; omega
  | k :: rest, f + 1, n, en, ps, _, hf, hs, hsh, hat, hok, hg => by
    obtain ⟨rc, hk, hat'⟩ := nodeAt_cons lang n self k rest hat
    have hsz := sized_of_summarized lang n.t hs
    have hn := raw_child_nested lang n hsz k rc hk
    have hd := nodeAt_nested lang rest rc.node self hn.2.2.2 hat'
    simp only [psPathOK, hk, Bool.and_eq_true] at hok
    obtain ⟨hscan, hres, heg, hemem⟩ := ps_earlier_part lang fuel self n k rc ps hk hs hsh hok.1 (by omega)
    have hk2 := hk
    simp only [rawChildren] at hk2
    have hkid := (go_elem lang _ _ _ _ _ _ _ k rc hk2).2.2
    have hcmem : rc.node.t ∈ n.t.kids := List.mem_of_getElem? hkid
    have hnsize := tree_size_kids n.t
    have hsplit : rawChildren lang n = (rawChildren lang n).take k ++ rc :: (rawChildren lang n).drop (k + 1) := by
      rw [← drop_eq_cons _ k rc hk, List.take_append_drop]
    have hsc0 : psScan lang fuel self (rawChildren lang n) none =
        psScan lang fuel self (rc :: (rawChildren lang n).drop (k + 1)) (lastEarlierRef lang ((rawChildren lang n).take k)) := by
      have := hscan (rc :: (rawChildren lang n).drop (k + 1)) none
      rw [← hsplit] at this
      simpa using this
    simp only [earlierOnPath, hk, List.getLast?_append, Option.or_assoc]
    cases rest with
    | nil =>
      -- last level: the path's child is self, the loop breaks without "found"
      simp only [nodeAt, Option.some.injEq] at hat'
      have hsc : psScan lang fuel self (rawChildren lang n) none =
          (false, some rc.node, lastEarlierRef lang ((rawChildren lang n).take k)) := by
        rw [hsc0, psScan_cons]; simp [hat']
      rw [psGo_succ lang fuel self f n en false _ _ hsc]
      simp only [earlierOnPath, List.getLast?_nil, Option.none_or]
      rw [← hres]
      cases hl : lastEarlierRef lang ((rawChildren lang n).take k) with
      | none =>
        simp only [resolveEarlier, Option.none_or, psNext]
        cases en with
        | none => rfl
        | some l =>
          obtain ⟨ln, b⟩ := l
          cases b with
          | true => rfl
          | false =>
            simp only [resolveEarlier]
            obtain ⟨⟨ps', hsh'⟩, hs', hid', hend', hv'⟩ := hg
            exact ps_descend lang fuel self none f ln ps' (by simp only [laterNeed] at hf; omega) hs' hsh' hid' hend' hv'
      | some l =>
        rw [hl] at heg
        have hnn := resolveEarlier_ne_none lang self l heg
        rw [or_of_ne_none _ _ hnn]
        obtain ⟨lc, b⟩ := l
        cases b with
        | true => rfl
        | false =>
          simp only [psNext, resolveEarlier]
          obtain ⟨⟨ps', hsh'⟩, hs', hid', hend', hv'⟩ := heg
          have hm := sizeList_mem _ _ (List.mem_of_mem_take (hemem lc false hl))
          exact ps_descend lang fuel self en f lc ps' (by omega) hs' hsh' hid' hend' hv'
    | cons k' rest' =>
      simp only [List.isEmpty_cons, Bool.false_or, Bool.and_eq_true, bne_iff_ne, ne_eq] at hok
      have hsc : psScan lang fuel self (rawChildren lang n) none =
          (true, some rc.node, lastEarlierRef lang ((rawChildren lang n).take k)) := by
        rw [hsc0, psScan_cons]
        have h1 : (rc.node.id == self.id) = false := by simpa using hok.2.1
        simp only [h1, Bool.false_eq_true, if_false]
        by_cases hgt : rc.posAfter.bytes > self.endByte
        · simp [hgt]
        · have : (rc.posAfter.bytes == self.endByte) = true := by simp; omega
          simp [hgt, this]
      rw [psGo_succ lang fuel self f n en true _ _ hsc]
      simp only [psNext]
      have hsc' := summarized_of_mem lang _ rc.node.t (summarizedL_kids lang n.t hs) hcmem
      have hshc' := shapeOK_of_mem _ _ rc.node.t (shapeOKL_kids ps n.t hsh) hcmem
      have hcs := sizeList_mem _ _ hcmem
      cases hl : lastEarlierRef lang ((rawChildren lang n).take k) with
      | none =>
        rw [hl] at hres
        simp only [resolveEarlier] at hres
        rw [← hres]
        simp only [Option.none_or]
        exact ps_levels lang fuel self hself (k' :: rest') f rc.node en _ (by simp) (by omega) hsc' hshc' hat' hok.2.2 hg
      | some l =>
        rw [hl] at heg hres
        have hnn := resolveEarlier_ne_none lang self l heg
        rw [← hres, or_of_ne_none _ (resolveEarlier lang en) hnn]
        have hfuel : rc.node.t.size + laterNeed (some l) ≤ f := by
          obtain ⟨lc, b⟩ := l
          cases b with
          | true => simp only [laterNeed]; omega
          | false =>
            simp only [laterNeed]
            have := sizeList_two_take n.t.kids k rc.node.t lc.t hkid (hemem lc false hl)
            omega
        exact ps_levels lang fuel self hself (k' :: rest') f rc.node (some l) _ (by simp) hfuel hsc' hshc' hat' hok.2.2 heg

/-- **prev_sibling_spec_partial.**  Let `P` be what `ts_node_parent(self)` returns and `q ≠ []` a path
of raw child indices `P ⟶ self`.  If `self` is NON-EMPTY, the subtree of `P` is summarized and
parser-shaped, and `psPathOK` holds (the slot id of `self` does not occur among the earlier siblings
along the path, inside them, or on the path itself), then the port of `ts_node_prev_sibling(self)`
returns the LAST element of `earlierOnPath P q` — the visible nodes before `self` in `P`, hidden
nodes replaced by their visible children — and null iff that list is empty.  No zero-width
hypothesis about OTHER nodes is needed: only `self` must be non-empty (finding
`C06-prev-sibling-zero-width` is about an empty `self`). -/
theorem prev_sibling_spec_partial (lang : Lang) (fuel : Nat) (root self P : NodeRef) (q : List Nat) (ps : Option Nat)
    (hpar : nodeParent lang fuel root self = some P) (hq : q ≠ []) (hf : P.t.size ≤ fuel + 1)
    (hs : Summarized lang P.t) (hsh : shapeOK ps P.t = true) (hat : nodeAt lang P q = some self)
    (hself : self.startByte < self.endByte) (hok : psPathOK lang self P q = true) :
    (prevSiblingPort lang fuel root self true).map (fun r => (r.t, r.alias)) = (earlierOnPath lang P q).getLast? := by
  unfold prevSiblingPort
  have he : (self.t.totalBytes == 0) = false := by
    simp only [NodeRef.startByte, NodeRef.endByte] at hself
    simp [Tree.totalBytes]; omega
  simp only [he, hpar]
  have := ps_levels lang fuel self hself q (fuel + 1) P none ps hq (by simp only [laterNeed]; omega) hs hsh hat hok trivial
  simpa [resolveEarlier] using this

theorem prev_sibling_spec_from_root (lang : Lang) (fuel : Nat) (root self : NodeRef) (path q : List Nat) (psr ps : Option Nat)
    (hp : path ≠ []) (hfp : path.length ≤ fuel) (hsr : Summarized lang root.t) (hshr : shapeOK psr root.t = true)
    (hatr : nodeAt lang root path = some self) (hrel : self.relevant lang true = true)
    (hself : self.startByte < self.endByte) (hroot : root.id ≠ self.id) (hokp : pathOK lang self.id root path = true)
    (hq : q ≠ []) (hf : (parentOnPath lang root root path).t.size ≤ fuel + 1)
    (hs : Summarized lang (parentOnPath lang root root path).t) (hsh : shapeOK ps (parentOnPath lang root root path).t = true)
    (hat : nodeAt lang (parentOnPath lang root root path) q = some self)
    (hok : psPathOK lang self (parentOnPath lang root root path) q = true) :
    (prevSiblingPort lang fuel root self true).map (fun r => (r.t, r.alias)) =
      (earlierOnPath lang (parentOnPath lang root root path) q).getLast? :=
  prev_sibling_spec_partial lang fuel root self _ q ps
    (parent_spec_partial lang fuel root self path psr hp hfp hsr hshr hatr hrel hself hroot hokp) hq hf hs hsh hat hself hok

/-- On the demo tree: the previous sibling of `c` (second child of the hidden `h`) is `v`; the
previous sibling of `v` (FIRST child of `h`) is the leaf `a` that precedes `h` in the root. -/
example : (prevSiblingPort C02.demoLang 8 pvRoot pvC true).map (fun r => (r.t, r.alias)) = some (pvV, 0) := by
  rw [prev_sibling_spec_from_root C02.demoLang 8 pvRoot pvC [1, 1] [1, 1] none none (by simp) (by simp) pvRoot_summarized pvRoot_shape rfl (by decide)
    (by decide) (by decide) (by decide) (by simp) (by decide) pvRoot_summarized pvRoot_shape rfl (by decide)]
  rfl
example : (prevSiblingPort C02.demoLang 8 pvRoot pvVRef true).map (fun r => (r.t, r.alias)) = some (cwLeaf, 0) := by
  rw [prev_sibling_spec_from_root C02.demoLang 8 pvRoot pvVRef [1, 0] [1, 0] none none (by simp) (by simp) pvRoot_summarized pvRoot_shape rfl (by decide)
    (by decide) (by decide) (by decide) (by simp) (by decide) pvRoot_summarized pvRoot_shape rfl (by decide)]
  rfl


/-! ### `ts_node__first_child_for_byte` -/

abbrev fcbLoop (lang : Lang) (goal : Nat) := firstChildForBytePort.loop lang goal true

theorem fcbNode_eq (lang : Lang) (goal : Nat) (t : Tree) (start : Length) :
    fcbNode lang goal t start = fcbKids lang goal t.data.productionId t.data.addr t.kids.length t.kids start 0 0 := by
  obtain ⟨d, k⟩ := t; simp [fcbNode, data_mk, kids_mk]
theorem ndeNode_eq (lang : Lang) (goal : Nat) (t : Tree) (start : Length) :
    ndeNode lang goal t start = ndeKids lang goal t.data.productionId t.data.addr t.kids.length t.kids start 0 0 := by
  obtain ⟨d, k⟩ := t; simp [ndeNode, data_mk, kids_mk]

theorem fcbLoop_cons (lang : Lang) (goal f : Nat) (rc : RawChild) (rest : List RawChild) (saved : Option (List RawChild)) :
    fcbLoop lang goal (f + 1) (rc :: rest) saved =
      (if rc.node.endByte > goal then
        (if rc.node.relevant lang true then some rc.node
         else if rc.node.childCount > 0 then
           fcbLoop lang goal f (rawChildren lang rc.node) (if rc.k + 1 < rc.node.t.kids.length then some rest else saved)
         else fcbLoop lang goal f rest saved)
       else fcbLoop lang goal f rest saved) := rfl

/-- Without dead ends the loop of the C function finds what the plain recursion finds. -/
theorem fcb_loop_some (lang : Lang) (goal : Nat) : ∀ (f : Nat) (n : NodeRef) (kids : List Tree) (pos : Length) (si k : Nat)
    (saved : Option (List RawChild)) (r : NodeRef), Tree.sizeList kids < f →
    ndeKids lang goal n.t.data.productionId n.t.data.addr n.t.kids.length kids pos si k = true →
    fcbKids lang goal n.t.data.productionId n.t.data.addr n.t.kids.length kids pos si k = some r →
    fcbLoop lang goal f (rawChildren.go lang n n.t.data.productionId n.t.kids.length kids pos si k) saved = some r
  | 0, _, _, _, _, _, _, _, hf, _, _ => by omega
  | f + 1, n, [], _, _, _, _, _, _, _, h => by simp [fcbKids] at h
  | f + 1, n, c :: rest, pos, si, k, saved, r, hf, hnde, h => by
    rw [go_getElem_zero, fcbLoop_cons]
    unfold fcbKids at h
    unfold ndeKids at hnde
    simp only at h hnde ⊢
    simp only [Tree.sizeList] at hf
    have hcs := tree_size_kids c
    have hpos := tree_size_pos c
    generalize (if k > 0 then length_add pos c.data.padding else pos) = cstart at h hnde ⊢
    generalize (if c.data.extra = true then 0 else lang.aliasAt n.t.data.productionId si) = al at h hnde ⊢
    generalize (if c.data.extra = true then si else si + 1) = si' at h hnde ⊢
    by_cases hend : ({ t := c, alias := al, id := slotId n.t.data.addr n.t.kids.length k, start := cstart } : NodeRef).endByte > goal
    · simp only [hend, if_true] at h hnde ⊢
      by_cases hrel : ({ t := c, alias := al, id := slotId n.t.data.addr n.t.kids.length k, start := cstart } : NodeRef).relevant lang true = true
      · simp only [hrel, if_true] at h ⊢
        exact h
      · simp only [hrel, if_false, Bool.false_eq_true] at h hnde ⊢
        by_cases hcc : ({ t := c, alias := al, id := slotId n.t.data.addr n.t.kids.length k, start := cstart } : NodeRef).childCount > 0
        · simp only [hcc, if_true, Bool.and_eq_true] at h hnde ⊢
          obtain ⟨r', hr'⟩ := Option.isSome_iff_exists.mp hnde.1
          rw [hr'] at h
          simp only [Option.some.injEq] at h
          subst h
          rw [fcbNode_eq] at hr'
          have hn2 := hnde.2
          rw [ndeNode_eq] at hn2
          exact fcb_loop_some lang goal f ⟨c, al, slotId n.t.data.addr n.t.kids.length k, cstart⟩ c.kids cstart 0 0 _ r' (by omega) hn2 hr'
        · simp only [hcc, if_false] at h hnde ⊢
          exact fcb_loop_some lang goal f n rest _ _ _ saved r (by omega) hnde h
    · simp only [hend, if_false] at h hnde ⊢
      exact fcb_loop_some lang goal f n rest _ _ _ saved r (by omega) hnde h

/-- … and returns null when the plain recursion finds nothing. -/
theorem fcb_loop_none (lang : Lang) (goal : Nat) : ∀ (f : Nat) (n : NodeRef) (kids : List Tree) (pos : Length) (si k : Nat),
    ndeKids lang goal n.t.data.productionId n.t.data.addr n.t.kids.length kids pos si k = true →
    fcbKids lang goal n.t.data.productionId n.t.data.addr n.t.kids.length kids pos si k = none →
    fcbLoop lang goal f (rawChildren.go lang n n.t.data.productionId n.t.kids.length kids pos si k) none = none
  | 0, _, _, _, _, _, _, _ => rfl
  | f + 1, n, [], _, _, _, _, _ => by simp [rawChildren.go, fcbLoop, firstChildForBytePort.loop]
  | f + 1, n, c :: rest, pos, si, k, hnde, h => by
    rw [go_getElem_zero, fcbLoop_cons]
    unfold fcbKids at h
    unfold ndeKids at hnde
    simp only at h hnde ⊢
    generalize (if k > 0 then length_add pos c.data.padding else pos) = cstart at h hnde ⊢
    generalize (if c.data.extra = true then 0 else lang.aliasAt n.t.data.productionId si) = al at h hnde ⊢
    generalize (if c.data.extra = true then si else si + 1) = si' at h hnde ⊢
    by_cases hend : ({ t := c, alias := al, id := slotId n.t.data.addr n.t.kids.length k, start := cstart } : NodeRef).endByte > goal
    · simp only [hend, if_true] at h hnde ⊢
      by_cases hrel : ({ t := c, alias := al, id := slotId n.t.data.addr n.t.kids.length k, start := cstart } : NodeRef).relevant lang true = true
      · simp [hrel] at h
      · simp only [hrel, if_false, Bool.false_eq_true] at h hnde ⊢
        by_cases hcc : ({ t := c, alias := al, id := slotId n.t.data.addr n.t.kids.length k, start := cstart } : NodeRef).childCount > 0
        · simp only [hcc, if_true, Bool.and_eq_true] at h hnde
          obtain ⟨r', hr'⟩ := Option.isSome_iff_exists.mp hnde.1
          rw [hr'] at h
          simp at h
        · simp only [hcc, if_false] at h hnde ⊢
          exact fcb_loop_none lang goal f n rest _ _ _ hnde h
    · simp only [hend, if_false] at h hnde ⊢
      exact fcb_loop_none lang goal f n rest _ _ _ hnde h

/-- **first_child_for_byte_spec_partial.**  If the search never runs into a dead end (`ndeNode`:
every hidden child it enters contains a visible child ending after `goal`), the port of
`ts_node_first_child_for_byte(self, goal)` returns what the plain recursive search `fcbNode` returns:
the first visible child, in order, that ends after `goal`. -/
theorem first_child_for_byte_spec_partial (lang : Lang) (fuel : Nat) (self : NodeRef) (goal : Nat)
    (hf : self.t.size ≤ 2 * fuel + 4) (hnde : ndeNode lang goal self.t self.start = true) :
    firstChildForBytePort lang fuel self goal true = fcbNode lang goal self.t self.start := by
  unfold firstChildForBytePort
  rw [ndeNode_eq] at hnde
  rw [fcbNode_eq]
  have hk := tree_size_kids self.t
  cases h : fcbKids lang goal self.t.data.productionId self.t.data.addr self.t.kids.length self.t.kids self.start 0 0 with
  | none => exact fcb_loop_none lang goal _ self _ _ 0 0 hnde h
  | some r => exact fcb_loop_some lang goal _ self _ _ 0 0 none r (by omega) hnde h


/-- On the demo tree, goal byte 1: the leaf `a` ends at 1, the hidden `h` ends after it and is
entered, its first child `v` (slot id 1984) ends at 2 — no dead end, and the theorem computes. -/
example : (firstChildForBytePort C02.demoLang 8 pvRoot 1 true).map (·.id) = some 1984 := by
  rw [first_child_for_byte_spec_partial C02.demoLang 8 pvRoot 1 (by decide) (by decide)]
  decide

/-! ### `ts_node__descendant_for_byte_range` -/

abbrev dfrScan (rs re : Nat) := descendantForByteRangePort.scan rs re

theorem dfrScan_cons (rs re : Nat) (rc : RawChild) (rest : List RawChild) :
    dfrScan rs re (rc :: rest) =
      (if rc.posAfter.bytes < re then dfrScan rs re rest
       else if (if (rc.node.startByte == rc.posAfter.bytes) = true then rc.posAfter.bytes < rs else rc.posAfter.bytes ≤ rs) then dfrScan rs re rest
       else if rs < rc.node.startByte then none
       else some rc.node) := by
  simp only [dfrScan, descendantForByteRangePort.scan]

/-- The iterator's positions: every element starts at or after the running position and ends at
or after its start; the next one continues from its end. -/
def StartsFrom : Nat → List RawChild → Prop
  | _, [] => True
  | p, rc :: rest => p ≤ rc.node.startByte ∧ rc.node.startByte ≤ rc.posAfter.bytes ∧ StartsFrom rc.posAfter.bytes rest

theorem go_startsFrom (lang : Lang) (n : NodeRef) (pid nk : Nat) : ∀ (kids : List Tree) (pos : Length) (si k : Nat),
    StartsFrom pos.bytes (rawChildren.go lang n pid nk kids pos si k)
  | [], _, _, _ => by simp [rawChildren.go, StartsFrom]
  | c :: rest, pos, si, k => by
    rw [go_getElem_zero]
    unfold StartsFrom
    refine ⟨?_, ?_, go_startsFrom lang n pid nk rest _ _ _⟩
    · simp only [NodeRef.startByte]; split <;> simp [length_add_bytes]
    · simp only [NodeRef.startByte, length_add_bytes]; omega

theorem startsFrom_ge : ∀ (L : List RawChild) (p : Nat), StartsFrom p L → ∀ x ∈ L, p ≤ x.node.startByte
  | [], _, _, _, hx => by simp at hx
  | rc :: rest, p, h, x, hx => by
    unfold StartsFrom at h
    simp only [List.mem_cons] at hx
    rcases hx with hx | hx
    · subst hx; exact h.1
    · have := startsFrom_ge rest _ h.2.2 x hx; omega

theorem find_none_of_all {α : Type} (p : α → Bool) (l : List α) (h : ∀ x ∈ l, p x = false) : l.find? p = none := by
  simp only [List.find?_eq_none]
  intro x hx
  simp [h x hx]

/-- For a NON-EMPTY range the child scan of the C function (three tests, two `continue`s and a
`break`) selects the first raw child that spans the range. -/
theorem dfr_scan_eq (rs re : Nat) (hr : rs < re) : ∀ (L : List RawChild) (p : Nat), StartsFrom p L →
    dfrScan rs re L = (L.find? (spans rs re)).map (·.node)
  | [], _, _ => by simp [dfrScan, descendantForByteRangePort.scan]
  | rc :: rest, p, h => by
    unfold StartsFrom at h
    rw [dfrScan_cons, List.find?_cons]
    by_cases h1 : rc.posAfter.bytes < re
    · have : spans rs re rc = false := by simp [spans]; intro _; omega
      simp only [h1, if_true, this]
      exact dfr_scan_eq rs re hr rest _ h.2.2
    · simp only [h1, if_false]
      have h2 : ¬ (if (rc.node.startByte == rc.posAfter.bytes) = true then rc.posAfter.bytes < rs else rc.posAfter.bytes ≤ rs) := by
        split <;> omega
      simp only [h2, if_false]
      by_cases h3 : rs < rc.node.startByte
      · have hsp : spans rs re rc = false := by simp [spans]; omega
        simp only [h3, if_true, hsp]
        rw [find_none_of_all]
        · rfl
        · intro x hx
          have := startsFrom_ge rest _ h.2.2 x hx
          simp only [spans, Bool.and_eq_false_iff, decide_eq_false_iff_not]
          left; omega
      · have hsp : spans rs re rc = true := by simp [spans]; omega
        simp [h3, hsp]

theorem dfrGo_eq (lang : Lang) (rs re : Nat) (hr : rs < re) : ∀ (f : Nat) (node last : NodeRef),
    descendantForByteRangePort.go lang rs re true f node last = dfrIdeal lang rs re f node last
  | 0, _, _ => rfl
  | f + 1, node, last => by
    simp only [descendantForByteRangePort.go, dfrIdeal]
    have hraw : rawChildren lang node = rawChildren.go lang node node.t.data.productionId node.t.kids.length node.t.kids node.start 0 0 := rfl
    have := dfr_scan_eq rs re hr (rawChildren lang node) node.start.bytes (by rw [hraw]; exact go_startsFrom lang node _ _ _ _ _ _)
    simp only [dfrScan] at this
    rw [this]
    cases (rawChildren lang node).find? (spans rs re) with
    | none => rfl
    | some rc => simp only [Option.map_some]; exact dfrGo_eq lang rs re hr f rc.node _

/-- **descendant_for_byte_range_spec_partial.**  For a NON-EMPTY byte range the port of
`ts_node_descendant_for_byte_range(self, rs, re)` is the plain search `dfrIdeal`: follow the first
raw child that spans the range (start ≤ rs and re ≤ end) as long as there is one, and answer the last
relevant node on the way (`self` if none).  For every tree — no hypothesis on the tree is needed,
the order of the iterator's positions is enough; the empty-range case is where finding
`C06-descendant-range-zero-width` lives. -/
theorem descendant_for_byte_range_spec_partial (lang : Lang) (fuel : Nat) (self : NodeRef) (rs re : Nat) (hr : rs < re) :
    descendantForByteRangePort lang fuel self rs re true = some (dfrIdeal lang rs re fuel self self) := by
  unfold descendantForByteRangePort
  have : ¬ (rs > re) := by omega
  simp only [this, if_false]
  rw [dfrGo_eq lang rs re hr]


/-- On the demo tree, range [1,2]: root ⟶ hidden `h` [1,3] ⟶ `v` [1,2] ⟶ leaf `b` [1,2]; the
deepest relevant node spanning the range is `b` (slot id 2992). -/
example : (descendantForByteRangePort C02.demoLang 8 pvRoot 1 2 true).map (·.id) = some 2992 := by
  rw [descendant_for_byte_range_spec_partial C02.demoLang 8 pvRoot 1 2 (by decide)]
  decide

/-! ### The node.c searches in the semantics of the flattened tree -/

theorem enumChildren_eq (lang : Lang) (t : Tree) : enumChildren lang t = enumKids lang t.data.productionId t.kids 0 := by
  obtain ⟨d, k⟩ := t; simp [enumChildren, data_mk, kids_mk]

/-- **path_siblings_split.**  If `self` is relevant and reached from `n` through hidden nodes only,
the visible children of `n` (the children `flatten` gives it, `flattenKids_length`/`child_spec`)
are `earlierOnPath ++ self :: laterOnPath`: `self` IS a child of `n` in the flattened tree, preceded
and followed by exactly the lists the sibling theorems speak about. -/
theorem path_siblings_split (lang : Lang) (self : NodeRef) (hrel : self.relevant lang true = true) :
    ∀ (q : List Nat) (n : NodeRef), q ≠ [] → nodeAt lang n q = some self → hiddenPath lang n q = true →
    enumChildren lang n.t = earlierOnPath lang n q ++ (self.t, self.alias) :: laterOnPath lang n q
  | [], _, h, _, _ => absurd rfl h
  | k :: rest, n, _, hat, hh => by
    obtain ⟨rc, hk, hat'⟩ := nodeAt_cons lang n self k rest hat
    have hk2 := hk
    simp only [rawChildren] at hk2
    have he := go_elem lang _ _ _ _ _ _ _ k rc hk2
    have hsi := go_si lang _ _ _ _ _ _ _ k rc hk2
    have hsplit : n.t.kids = n.t.kids.take k ++ rc.node.t :: n.t.kids.drop (k + 1) := by
      rw [← drop_eq_cons _ k _ he.2.2, List.take_append_drop]
    simp only [hiddenPath, rawChildAt, hk, Option.map_some] at hh
    simp only [earlierOnPath, laterOnPath, hk]
    rw [enumChildren_eq]
    conv => lhs; rw [hsplit]
    rw [enumKids_append, ← hsi.1]
    conv => lhs; rhs; unfold enumKids
    have halias : (if rc.node.t.data.extra = true then 0 else lang.aliasAt n.t.data.productionId rc.si) = rc.node.alias := hsi.2.symm
    simp only [halias]
    cases rest with
    | nil =>
      simp only [nodeAt, Option.some.injEq] at hat'
      subst hat'
      simp only [NodeRef.relevant, isRelevant, if_true] at hrel
      simp [hrel, earlierOnPath, laterOnPath]
    | cons k' rest' =>
      simp only [List.isEmpty_cons, Bool.false_or, Bool.and_eq_true, Bool.not_eq_true'] at hh
      have hv : (rc.node.t.data.visible || rc.node.alias != 0) = false := by
        have := hh.1; simpa [NodeRef.relevant, isRelevant] using this
      simp only [hv, Bool.false_eq_true, if_false]
      rw [path_siblings_split lang self hrel (k' :: rest') rc.node (by simp) hat' hh.2]
      simp [List.append_assoc]


theorem nodeAt_append (lang : Lang) : ∀ (a b : List Nat) (n m : NodeRef), nodeAt lang n a = some m →
    nodeAt lang n (a ++ b) = nodeAt lang m b
  | [], _, _, _, h => by simp [nodeAt] at h; subst h; rfl
  | k :: a, b, n, m, h => by
    simp only [nodeAt, List.cons_append] at h ⊢
    cases hk : rawChildAt lang n k with
    | none => simp [hk] at h
    | some c => simp only [hk] at h ⊢; exact nodeAt_append lang a b c m h

/-- `relSplit` stops at the first relevant node: everything before it is hidden. -/
theorem relSplit_hidden (lang : Lang) : ∀ (p : List Nat) (n c : NodeRef) (rest : List Nat),
    relSplit lang n p = some (c, rest) →
    ∃ pre, p = pre ++ rest ∧ pre ≠ [] ∧ nodeAt lang n pre = some c ∧ hiddenPath lang n pre = true ∧
      (rest ≠ [] → c.relevant lang true = true)
  | [], _, _, _, h => by simp [relSplit] at h
  | k :: tl, n, c, rest, h => by
    simp only [relSplit] at h
    cases hk : rawChildAt lang n k with
    | none => simp [hk] at h
    | some c0 =>
      simp only [hk] at h
      by_cases hc : (tl.isEmpty || c0.relevant lang true) = true
      · simp only [hc, if_true, Option.some.injEq, Prod.mk.injEq] at h
        obtain ⟨h1, h2⟩ := h
        subst h1; subst h2
        refine ⟨[k], by simp, by simp, by simp [nodeAt, hk], by simp [hiddenPath, hk], ?_⟩
        intro hne
        have : tl.isEmpty = false := by cases tl <;> simp_all
        simpa [this] using hc
      · simp only [hc, if_false, Bool.false_eq_true] at h
        have hte : tl.isEmpty = false := by cases tl <;> simp_all
        have hnr : c0.relevant lang true = false := by
          cases hr : c0.relevant lang true <;> simp_all
        obtain ⟨pre, hp, hpne, hat, hhid, hrl⟩ := relSplit_hidden lang tl c0 c rest h
        refine ⟨k :: pre, by simp [hp], by simp, by simp [nodeAt, hk, hat], ?_, hrl⟩
        have hpe : pre.isEmpty = false := by cases pre <;> simp_all
        simp [hiddenPath, hk, hpe, hnr, hhid]

theorem relSplit_some (lang : Lang) (d : NodeRef) : ∀ (p : List Nat) (n : NodeRef), p ≠ [] → nodeAt lang n p = some d →
    ∃ c rest, relSplit lang n p = some (c, rest)
  | [], _, h, _ => absurd rfl h
  | k :: tl, n, _, hat => by
    simp only [nodeAt] at hat
    simp only [relSplit]
    cases hk : rawChildAt lang n k with
    | none => simp [hk] at hat
    | some c0 =>
      simp only [hk] at hat ⊢
      by_cases hc : (tl.isEmpty || c0.relevant lang true) = true
      · exact ⟨c0, tl, by simp [hc]⟩
      · simp only [hc, if_false, Bool.false_eq_true]
        have hte : tl ≠ [] := by intro h0; subst h0; simp at hc
        exact relSplit_some lang d tl c0 hte hat

/-- **parent_path_spec.**  `parentOnPath` (what `parent_spec_partial` shows `ts_node_parent` returns)
is a node `P` on the path, relevant or the start node itself, from which `d` is reached through
hidden nodes only — so by `path_siblings_split` `d` is one of the children of `P` in the flattened
tree: `P` is the parent of `d` there. -/
theorem parent_path_spec (lang : Lang) (d : NodeRef) : ∀ (m : Nat) (p : List Nat) (n : NodeRef), p.length ≤ m → p ≠ [] →
    nodeAt lang n p = some d →
    ∃ pre q, p = pre ++ q ∧ q ≠ [] ∧ nodeAt lang n pre = some (parentOnPath lang n n p) ∧
      nodeAt lang (parentOnPath lang n n p) q = some d ∧ hiddenPath lang (parentOnPath lang n n p) q = true ∧
      (pre = [] ∨ (parentOnPath lang n n p).relevant lang true = true)
  | 0, p, _, hm, hp, _ => by cases p <;> simp_all
  | m + 1, p, n, hm, hp, hat => by
    obtain ⟨c, rest, hsp⟩ := relSplit_some lang d p n hp hat
    obtain ⟨pre, hpp, hpne, hatc, hhid, hrl⟩ := relSplit_hidden lang p n c rest hsp
    rw [parentOnPath_split, hsp]
    simp only
    have hatd : nodeAt lang c rest = some d := by
      rw [hpp, nodeAt_append lang pre rest n c hatc] at hat; exact hat
    cases rest with
    | nil =>
      simp only [List.isEmpty_nil, if_true]
      simp only [nodeAt, Option.some.injEq] at hatd
      subst hatd
      refine ⟨[], p, by simp, hp, by simp [nodeAt], hat, ?_, Or.inl rfl⟩
      rw [hpp]; simpa using hhid
    | cons k' rest' =>
      simp only [List.isEmpty_cons, Bool.false_eq_true, if_false]
      have hlen : (k' :: rest').length ≤ m := by
        have : p.length = pre.length + (k' :: rest').length := by rw [hpp]; simp
        have : pre.length > 0 := List.length_pos_iff.mpr hpne
        omega
      obtain ⟨pre2, q, hp2, hq, hat2, hatq, hhq, hor⟩ := parent_path_spec lang d m (k' :: rest') c hlen (by simp) hatd
      refine ⟨pre ++ pre2, q, by rw [hpp, hp2]; simp, hq, ?_, hatq, hhq, Or.inr ?_⟩
      · rw [nodeAt_append lang pre pre2 n c hatc]; exact hat2
      · rcases hor with h0 | h1
        · subst h0
          simp only [nodeAt, Option.some.injEq] at hat2
          rw [← hat2]; exact hrl (by simp)
        · exact h1


theorem nodeAt_summarized (lang : Lang) : ∀ (pre : List Nat) (n P : NodeRef) (ps : Option Nat), nodeAt lang n pre = some P →
    Summarized lang n.t → shapeOK ps n.t = true →
    Summarized lang P.t ∧ (∃ ps', shapeOK ps' P.t = true) ∧ P.t.size ≤ n.t.size
  | [], n, P, ps, h, hs, hsh => by
    simp only [nodeAt, Option.some.injEq] at h; subst h; exact ⟨hs, ⟨ps, hsh⟩, Nat.le_refl _⟩
  | k :: pre, n, P, ps, h, hs, hsh => by
    obtain ⟨rc, hk, hat'⟩ := nodeAt_cons lang n P k pre h
    have hk2 := hk
    simp only [rawChildren] at hk2
    have hmem : rc.node.t ∈ n.t.kids := List.mem_of_getElem? (go_elem lang _ _ _ _ _ _ _ k rc hk2).2.2
    have ih := nodeAt_summarized lang pre rc.node P _ hat'
      (summarized_of_mem lang _ _ (summarizedL_kids lang n.t hs) hmem) (shapeOK_of_mem _ _ _ (shapeOKL_kids ps n.t hsh) hmem)
    have := sizeList_mem _ _ hmem
    have := tree_size_kids n.t
    exact ⟨ih.1, ih.2.1, by omega⟩

/-- Neighbours in a split list: the element after `x` is the head of `b`, the one before it the
last of `a`. -/
theorem split_neighbours {α : Type} (a b : List α) (x : α) :
    (a ++ x :: b)[a.length]? = some x ∧ (a ++ x :: b)[a.length + 1]? = b.head? ∧
    (a.getLast? = if a.length = 0 then none else (a ++ x :: b)[a.length - 1]?) := by
  refine ⟨by simp, ?_, ?_⟩
  · rw [List.getElem?_append_right (by omega)]
    cases b <;> simp
  · cases hl : a.length with
    | zero => have : a = [] := List.eq_nil_of_length_eq_zero hl; subst this; simp
    | succ m =>
      simp only [Nat.add_one_ne_zero, if_false, Nat.add_sub_cancel]
      rw [List.getElem?_append_left (by omega), List.getLast?_eq_getElem?, hl]
      simp

/-- **node_nav_flat_spec.**  The position-based searches of node.c in the semantics of the flattened
tree.  For a relevant NON-EMPTY node `d` at a raw path `p` below the root of a summarized
parser-shaped tree (`pathOK`: its slot id is unique along the search), let `P` be `parentOnPath`.
Then there is a path `q` from `P` to `d` through hidden nodes only such that
* `ts_node_parent(d)` returns `P`;
* the visible children of `P` — the children `flatten` gives `P` — are
  `earlierOnPath P q ++ d :: laterOnPath P q`, i.e. `d` is child number `(earlierOnPath P q).length`
  of `P` in the flattened tree (so `P` is its parent there);
* if no zero-width raw node sits where `d` ends (`nsPathOK`), `ts_node_next_sibling(d)` is the NEXT
  element of that children list (`split_neighbours`), null if `d` is the last;
* if `d`'s slot id does not occur in the earlier siblings (`psPathOK`), `ts_node_prev_sibling(d)` is
  the PREVIOUS element, null if `d` is the first. -/
theorem node_nav_flat_spec (lang : Lang) (fuel : Nat) (root d : NodeRef) (p : List Nat) (ps : Option Nat)
    (hp : p ≠ []) (hfp : p.length ≤ fuel) (hsz : root.t.size ≤ fuel + 1)
    (hs : Summarized lang root.t) (hsh : shapeOK ps root.t = true) (hat : nodeAt lang root p = some d)
    (hrel : d.relevant lang true = true) (hne : d.startByte < d.endByte) (hroot : root.id ≠ d.id)
    (hok : pathOK lang d.id root p = true) :
    ∃ q, q ≠ [] ∧ nodeAt lang (parentOnPath lang root root p) q = some d ∧
      hiddenPath lang (parentOnPath lang root root p) q = true ∧
      nodeParent lang fuel root d = some (parentOnPath lang root root p) ∧
      enumChildren lang (parentOnPath lang root root p).t =
        earlierOnPath lang (parentOnPath lang root root p) q ++ (d.t, d.alias) :: laterOnPath lang (parentOnPath lang root root p) q ∧
      (nsPathOK lang d (parentOnPath lang root root p) q = true →
        (nextSiblingPort lang fuel root d true).map (fun r => (r.t, r.alias)) =
          (laterOnPath lang (parentOnPath lang root root p) q).head?) ∧
      (psPathOK lang d (parentOnPath lang root root p) q = true →
        (prevSiblingPort lang fuel root d true).map (fun r => (r.t, r.alias)) =
          (earlierOnPath lang (parentOnPath lang root root p) q).getLast?) := by
  obtain ⟨pre, q, hpq, hq, hatP, hatq, hhid, _⟩ := parent_path_spec lang d p.length p root (Nat.le_refl _) hp hat
  have hpar := parent_spec_partial lang fuel root d p ps hp hfp hs hsh hat hrel hne hroot hok
  obtain ⟨hsP, ⟨psP, hshP⟩, hszP⟩ := nodeAt_summarized lang pre root _ ps hatP hs hsh
  refine ⟨q, hq, hatq, hhid, hpar, path_siblings_split lang d hrel q _ hq hatq hhid, ?_, ?_⟩
  · intro hns
    exact next_sibling_spec_partial lang fuel root d _ q psP hpar hq (by omega) hsP hshP hatq hne hns
  · intro hps
    exact prev_sibling_spec_partial lang fuel root d _ q psP hpar hq (by omega) hsP hshP hatq hne hps


/-- The children `flatten` gives a visible node built from the raw subtree `t` (second component of
`flattenAt`: `flattenKids t.kids pos pid 0 0 addr n []`) are, as (raw subtree, alias) pairs, exactly
`enumChildren t` — the list `node_nav_flat_spec` splits. -/
theorem flat_children_are_enum (lang : Lang) (t : Tree) (pos : Length) (outer : List (List Nat)) :
    (flattenKids lang t.kids pos t.data.productionId 0 0 t.data.addr t.kids.length outer).map
        (fun v => (v.info.raw, v.info.alias)) = enumChildren lang t := by
  have h1 := flattenKids_fields lang t.kids pos t.data.productionId 0 0 t.data.addr t.kids.length outer
  have h2 := enumKidsF_proj lang t.data.productionId t.kids 0 outer
  rw [enumChildren_eq, ← h2, ← h1, List.map_map]
  rfl


/-- On the demo tree all hypotheses of `node_nav_flat_spec` hold for `c` (second child of the hidden
`h`): its parent is the root, and the root's flattened children are `[a, v, c, d]` with `c` third. -/
example : ∃ q, q ≠ [] ∧ nodeAt C02.demoLang (parentOnPath C02.demoLang pvRoot pvRoot [1, 1]) q = some pvC ∧
    enumChildren C02.demoLang (parentOnPath C02.demoLang pvRoot pvRoot [1, 1]).t =
      earlierOnPath C02.demoLang (parentOnPath C02.demoLang pvRoot pvRoot [1, 1]) q ++ (pvC.t, pvC.alias) ::
        laterOnPath C02.demoLang (parentOnPath C02.demoLang pvRoot pvRoot [1, 1]) q := by
  obtain ⟨q, h1, h2, _, _, h5, _, _⟩ := node_nav_flat_spec C02.demoLang 8 pvRoot pvC [1, 1] none (by simp) (by simp) (by decide)
    pvRoot_summarized pvRoot_shape rfl (by decide) (by decide) (by decide) (by decide)
  exact ⟨q, h1, h2, h5⟩
example : earlierOnPath C02.demoLang pvRoot [1, 1] = [(cwLeaf, 0), (pvV, 0)] ∧
    laterOnPath C02.demoLang pvRoot [1, 1] = [(cwLeaf, 0)] ∧ hiddenPath C02.demoLang pvRoot [1, 1] = true := ⟨rfl, rfl, rfl⟩

/-! ### `first_child_for_byte` in the semantics of the flattened tree -/

mutual
  /-- The visible children of a raw subtree placed at `start`, as the nodes `ts_node_child` hands
  out (slot id, alias, position in node.c's system): a relevant child is listed itself, a hidden one
  is replaced by its own visible children. -/
  def enumRefs (lang : Lang) : Tree → Length → List NodeRef
    | .mk d kids, start => enumRefsKids lang d.productionId d.addr kids.length kids start 0 0
  def enumRefsKids (lang : Lang) (pid addr nk : Nat) : List Tree → Length → Nat → Nat → List NodeRef
    | [], _, _, _ => []
    | c :: rest, pos, si, k =>
      let cstart := if k > 0 then length_add pos c.data.padding else pos
      let node : NodeRef := { t := c, alias := (if c.data.extra then 0 else lang.aliasAt pid si), id := slotId addr nk k, start := cstart }
      (if node.relevant lang true then [node] else enumRefs lang c cstart) ++
        enumRefsKids lang pid addr nk rest (length_add cstart c.data.size) (if c.data.extra then si else si + 1) (k + 1)
end

mutual
  /-- `enumRefs` is `enumChildren` with identities and positions attached. -/
  theorem enumRefs_proj (lang : Lang) : ∀ (t : Tree) (start : Length),
      (enumRefs lang t start).map (fun r => (r.t, r.alias)) = enumChildren lang t
    | .mk d kids, start => by
      unfold enumRefs enumChildren
      exact enumRefsKids_proj lang d.productionId d.addr kids.length kids start 0 0
  theorem enumRefsKids_proj (lang : Lang) (pid addr nk : Nat) : ∀ (kids : List Tree) (pos : Length) (si k : Nat),
      (enumRefsKids lang pid addr nk kids pos si k).map (fun r => (r.t, r.alias)) = enumKids lang pid kids si
    | [], _, _, _ => by simp [enumRefsKids, enumKids]
    | c :: rest, pos, si, k => by
      unfold enumRefsKids enumKids
      simp only [List.map_append]
      rw [enumRefsKids_proj lang pid addr nk rest]
      simp only [NodeRef.relevant, isRelevant, if_true]
      by_cases h : (c.data.visible || (if c.data.extra then 0 else lang.aliasAt pid si) != 0) = true
      · simp [h]
      · simp only [h, Bool.false_eq_true, if_false]
        rw [enumRefs_proj lang c]
end

mutual
  /-- Every listed node ends inside the layout of the children it comes from. -/
  theorem enumRefs_within (lang : Lang) : ∀ (t : Tree) (start : Length), Sized t → ∀ r ∈ enumRefs lang t start,
      r.endByte ≤ start.bytes + t.data.size.bytes
    | .mk d kids, start, hs, r, hr => by
      unfold enumRefs at hr
      unfold Sized at hs
      have := enumRefsKids_within lang d.productionId d.addr kids.length kids start 0 0 hs.2 r hr
      cases kids with
      | nil => simp [enumRefsKids] at hr
      | cons c rest =>
        have hsz := (hs.1 (by simp)).2
        simp only [data_mk]
        rw [hsz, kidsSize, restSize_bytes]
        unfold layEnd at this
        simp only [Nat.lt_irrefl, if_false, gt_iff_lt] at this
        rw [layEnd_pos _ _ _ (by omega)] at this
        omega
  theorem enumRefsKids_within (lang : Lang) (pid addr nk : Nat) : ∀ (kids : List Tree) (pos : Length) (si k : Nat),
      SizedL kids → ∀ r ∈ enumRefsKids lang pid addr nk kids pos si k, r.endByte ≤ layEnd kids pos.bytes k
    | [], _, _, _, _, r, hr => by simp [enumRefsKids] at hr
    | c :: rest, pos, si, k, hs, r, hr => by
      unfold enumRefsKids at hr
      unfold SizedL at hs
      unfold layEnd
      simp only [List.mem_append] at hr
      have hmono := layEnd_ge rest ((if k > 0 then pos.bytes + c.data.padding.bytes else pos.bytes) + c.data.size.bytes) (k + 1)
      have hcs : (if k > 0 then length_add pos c.data.padding else pos).bytes = (if k > 0 then pos.bytes + c.data.padding.bytes else pos.bytes) := by
        split <;> simp [length_add_bytes]
      generalize (if k > 0 then length_add pos c.data.padding else pos) = cstart at hr hcs
      generalize (if c.data.extra = true then 0 else lang.aliasAt pid si) = al at hr
      rcases hr with hr | hr
      · by_cases hrel : ({ t := c, alias := al, id := slotId addr nk k, start := cstart } : NodeRef).relevant lang true = true
        · simp only [hrel, if_true, List.mem_singleton] at hr
          subst hr
          simp only [NodeRef.endByte]
          omega
        · simp only [hrel, if_false, Bool.false_eq_true] at hr
          have := enumRefs_within lang c cstart hs.1 r hr
          omega
      · have := enumRefsKids_within lang pid addr nk rest _ _ _ hs.2 r hr
        simp only [length_add_bytes, hcs] at this
        exact this
end


theorem find_append_or {α : Type} (p : α → Bool) (a b : List α) : (a ++ b).find? p = (a.find? p).or (b.find? p) := by
  induction a with
  | nil => simp
  | cons x xs ih => simp only [List.cons_append, List.find?_cons]; cases p x <;> simp [ih]

mutual
  /-- **fcb_is_first_ending_after.**  On a summarized parser-shaped tree the plain search `fcbNode`
  (= `ts_node_first_child_for_byte` when there is no dead end, `first_child_for_byte_spec_partial`)
  is the FIRST of the visible children — `enumRefs`, i.e. `enumChildren` with positions — whose end
  byte is after `goal`: skipping a hidden child that ends at or before `goal` loses nothing because
  its children end inside it, and one whose cached `visible_child_count` is 0 has no visible child. -/
  theorem fcbNode_eq_find (lang : Lang) (goal : Nat) : ∀ (t : Tree) (start : Length) (ps : Option Nat),
      Summarized lang t → shapeOK ps t = true →
      fcbNode lang goal t start = (enumRefs lang t start).find? (fun r => decide (r.endByte > goal))
    | .mk d kids, start, ps, hs, hsh => by
      unfold fcbNode enumRefs
      unfold Summarized at hs
      unfold shapeOK at hsh
      simp only [Bool.and_eq_true] at hsh
      exact fcbKids_eq_find lang goal d.productionId d.addr kids.length kids start 0 0 (some d.symbol) hs.2.2 hsh.2
  theorem fcbKids_eq_find (lang : Lang) (goal pid addr nk : Nat) : ∀ (kids : List Tree) (pos : Length) (si k : Nat)
      (ps : Option Nat), SummarizedL lang kids → shapeOKL ps kids = true →
      fcbKids lang goal pid addr nk kids pos si k =
        (enumRefsKids lang pid addr nk kids pos si k).find? (fun r => decide (r.endByte > goal))
    | [], _, _, _, _, _, _ => by simp [fcbKids, enumRefsKids]
    | c :: rest, pos, si, k, ps, hs, hsh => by
      unfold SummarizedL at hs
      unfold shapeOKL at hsh
      simp only [Bool.and_eq_true] at hsh
      unfold fcbKids enumRefsKids
      simp only
      rw [find_append_or]
      have ih := fcbKids_eq_find lang goal pid addr nk rest
        (length_add (if k > 0 then length_add pos c.data.padding else pos) c.data.size) (if c.data.extra then si else si + 1) (k + 1) ps hs.2 hsh.2
      rw [← ih]
      generalize (if k > 0 then length_add pos c.data.padding else pos) = cstart
      generalize (if c.data.extra = true then 0 else lang.aliasAt pid si) = al
      generalize fcbKids lang goal pid addr nk rest (length_add cstart c.data.size) (if c.data.extra = true then si else si + 1) (k + 1) = nxt
      have hsz := sized_of_summarized lang c hs.1
      by_cases hrel : ({ t := c, alias := al, id := slotId addr nk k, start := cstart } : NodeRef).relevant lang true = true
      · simp only [hrel, if_true, List.find?_cons, List.find?_nil]
        by_cases hend : ({ t := c, alias := al, id := slotId addr nk k, start := cstart } : NodeRef).endByte > goal
        · simp [hend]
        · simp [hend]
      · simp only [hrel, if_false, Bool.false_eq_true]
        by_cases hend : ({ t := c, alias := al, id := slotId addr nk k, start := cstart } : NodeRef).endByte > goal
        · simp only [hend, if_true]
          by_cases hcc : ({ t := c, alias := al, id := slotId addr nk k, start := cstart } : NodeRef).childCount > 0
          · simp only [hcc, if_true]
            rw [fcbNode_eq_find lang goal c cstart ps hs.1 hsh.1]
            cases (enumRefs lang c cstart).find? (fun r => decide (r.endByte > goal)) <;> simp
          · simp only [hcc, if_false]
            -- cached visible_child_count = 0: no visible child
            have hcnt := (summarize_counts lang c ps hs.1 hsh.1).1
            have hnil : enumRefs lang c cstart = [] := by
              have hp := enumRefs_proj lang c cstart
              have : enumChildren lang c = [] := by
                simp only [NodeRef.childCount] at hcc
                by_cases hk : c.kids.length > 0
                · simp only [hk, if_true] at hcc
                  have : c.data.visibleChildCount = 0 := by omega
                  rw [this] at hcnt
                  exact List.eq_nil_of_length_eq_zero hcnt.symm
                · obtain ⟨cd, ck⟩ := c
                  simp only [kids_mk] at hk
                  have : ck = [] := List.eq_nil_of_length_eq_zero (by omega)
                  subst this
                  simp [enumChildren, enumKids]
              rw [this] at hp
              exact List.map_eq_nil_iff.mp hp
            rw [hnil]
            simp
        · simp only [hend, if_false]
          have hnone : (enumRefs lang c cstart).find? (fun r => decide (r.endByte > goal)) = none := by
            apply find_none_of_all
            intro r hr
            have := enumRefs_within lang c cstart hsz r hr
            simp only [NodeRef.endByte] at hend this ⊢
            simp; omega
          rw [hnone]
          simp
end


/-- **first_child_for_byte_flat_spec.**  Summarized parser-shaped subtree, no dead end: the port of
`ts_node_first_child_for_byte(self, goal)` is the first visible child of `self` (in the order of
`ts_node_child`, `enumRefs_proj`) whose end byte lies after `goal`. -/
theorem first_child_for_byte_flat_spec (lang : Lang) (fuel : Nat) (self : NodeRef) (goal : Nat) (ps : Option Nat)
    (hf : self.t.size ≤ 2 * fuel + 4) (hs : Summarized lang self.t) (hsh : shapeOK ps self.t = true)
    (hnde : ndeNode lang goal self.t self.start = true) :
    firstChildForBytePort lang fuel self goal true =
      (enumRefs lang self.t self.start).find? (fun r => decide (r.endByte > goal)) := by
  rw [first_child_for_byte_spec_partial lang fuel self goal hf hnde, fcbNode_eq_find lang goal self.t self.start ps hs hsh]

example : (enumRefs C02.demoLang pvRoot.t pvRoot.start).map (·.id) = [976, 1984, 1992, 992] := by decide

/-! ### Zero-width targets: `ts_node_child_with_descendant` / `ts_node_parent` of an EMPTY node -/

/-- The loop body for an EMPTY descendant at byte `x` (`is_empty = true`, `start = end = x`). -/
theorem inner_cons_empty (lang : Lang) (fuel dId x : Nat) (rc : RawChild) (rest : List RawChild) :
    childWithDescendant.inner lang dId x x fuel true (rc :: rest) =
      (if rc.node.startByte > x then some (none, none)
       else if rc.node.id == dId then some (some rc.node, none)
       else
         match (if decide (rc.posAfter.bytes ≥ x) && decide (rc.node.childCount > 0) then
                  (match childWithDescendant lang fuel rc.node dId x x with
                   | some child => some (if rc.node.relevant lang true then rc.node else child)
                   | none => none)
                else none) with
         | some r => some (some r, none)
         | none =>
           if decide (rc.posAfter.bytes ≤ x) || rc.node.childCount == 0
           then childWithDescendant.inner lang dId x x fuel true rest else some (none, some rc.node)) := by
  rw [inner_cons]
  rfl

theorem cwd_unfold_empty (lang : Lang) (fuel : Nat) (self : NodeRef) (dId x : Nat) :
    childWithDescendant lang (fuel + 1) self dId x x =
      (match childWithDescendant.inner lang dId x x fuel true (rawChildren lang self) with
       | some (some r, _) => some r
       | some (none, some s) => if s.relevant lang true then some s else childWithDescendant lang fuel s dId x x
       | _ => none) := by
  rw [cwd_unfold, beq_self_eq_true]
  try rfl

/-- Inside a subtree that ends at or before `x` and does not contain the slot id, the search for an
empty node at `x` finds nothing (every child ends at or before `x`, so the scan runs to the end). -/
theorem cwd_empty_none (lang : Lang) (dId x : Nat) : ∀ (fuel : Nat) (self : NodeRef), Sized self.t → self.endByte ≤ x →
    noIdIn dId self.t = true → childWithDescendant lang fuel self dId x x = none
  | 0, _, _, _, _ => by rw [childWithDescendant]
  | f + 1, self, hs, hend, hid => by
    rw [cwd_unfold_empty]
    have hidL : noIdInL dId self.t.data.addr self.t.kids.length self.t.kids 0 = true := by
      obtain ⟨t, al, id, st⟩ := self
      obtain ⟨d, kids⟩ := t
      unfold noIdIn at hid
      simpa [data_mk, kids_mk] using hid
    have key : ∀ (L : List RawChild), (∀ rc ∈ L, rc ∈ rawChildren lang self) →
        childWithDescendant.inner lang dId x x f true L = some (none, none) := by
      intro L
      induction L with
      | nil => intro _; exact inner_nil lang f dId x x true
      | cons rc rest ih =>
        intro hmem
        have hrc := hmem rc (by simp)
        obtain ⟨j, hj⟩ := List.mem_iff_getElem?.mp hrc
        have hn := raw_child_nested lang self hs j rc hj
        have hj2 := hj
        simp only [rawChildren] at hj2
        have hi := go_ids lang self _ _ dId _ _ _ 0 hidL j rc hj2
        rw [inner_cons_empty]
        by_cases h1 : rc.node.startByte > x
        · simp [h1]
        · have h2 : (rc.node.id == dId) = false := by simpa using hi.1
          have hrec := cwd_empty_none lang dId x f rc.node hn.2.2.2 (by omega) hi.2
          have h3 : decide (rc.posAfter.bytes ≤ x) = true := by simp; omega
          simp only [h1, if_false, h2, hrec, h3, Bool.true_or, if_true, Bool.false_eq_true]
          have : (if (decide (rc.posAfter.bytes ≥ x) && decide (rc.node.childCount > 0)) = true then (none : Option NodeRef) else none) = none := by
            split <;> rfl
          simp only [this]
          exact ih (fun r hr => hmem r (by simp [hr]))
    rw [key _ (fun _ h => h)]


theorem firstRelevantOnPath_some (lang : Lang) (d : NodeRef) : ∀ (p : List Nat) (n : NodeRef), p ≠ [] →
    nodeAt lang n p = some d → ∃ r, firstRelevantOnPath lang n p = some r
  | [], _, h, _ => absurd rfl h
  | k :: rest, n, _, hat => by
    simp only [nodeAt] at hat
    simp only [firstRelevantOnPath]
    cases hk : rawChildAt lang n k with
    | none => simp [hk] at hat
    | some c =>
      simp only [hk] at hat ⊢
      by_cases hc : (rest.isEmpty || c.relevant lang true) = true
      · exact ⟨c, by simp [hc]⟩
      · simp only [hc, if_false, Bool.false_eq_true]
        have : rest ≠ [] := by intro h0; subst h0; simp at hc
        exact firstRelevantOnPath_some lang d rest c this hat

/-- Children before the path's child are passed over when the target is empty, provided the
searches inside them find nothing. -/
theorem inner_skip_empty (lang : Lang) (fuel dId x : Nat) :
    ∀ (k : Nat) (L : List RawChild), (∀ i ri, i < k → L[i]? = some ri →
      ri.node.id ≠ dId ∧ ri.posAfter.bytes ≤ x ∧ ri.node.startByte ≤ x ∧
      childWithDescendant lang fuel ri.node dId x x = none) →
    childWithDescendant.inner lang dId x x fuel true L = childWithDescendant.inner lang dId x x fuel true (L.drop k)
  | 0, _, _ => by simp
  | k + 1, [], _ => by simp
  | k + 1, r0 :: rest, h => by
    have h0 := h 0 r0 (by omega) (by simp)
    rw [inner_cons_empty]
    have h1 : ¬ (r0.node.startByte > x) := by omega
    have h2 : (r0.node.id == dId) = false := by simpa using h0.1
    have h3 : decide (r0.posAfter.bytes ≤ x) = true := by simp; omega
    simp only [h1, if_false, h2, h0.2.2.2, h3, Bool.true_or, if_true, Bool.false_eq_true, List.drop_succ_cons]
    have : (if (decide (r0.posAfter.bytes ≥ x) && decide (r0.node.childCount > 0)) = true then (none : Option NodeRef) else none) = none := by
      split <;> rfl
    simp only [this]
    exact inner_skip_empty lang fuel dId x k rest (fun i ri hi hri => h (i + 1) ri (by omega) (by simpa using hri))

/-- **child_with_descendant_spec_empty.**  The zero-width case of `child_with_descendant_spec_partial`:
for a relevant EMPTY node `d` the same conclusion holds under the stronger id hypothesis `psPathOK`
(the slot id of `d` occurs neither on the path nor anywhere INSIDE the earlier siblings along it):
the C code also searches the subtrees of earlier siblings that end where `d` lies, and the only thing
that can stop it there is an id match. -/
theorem child_with_descendant_spec_empty (lang : Lang) :
    ∀ (path : List Nat) (fuel : Nat) (self d : NodeRef) (ps : Option Nat), path ≠ [] → path.length ≤ fuel →
    Summarized lang self.t → shapeOK ps self.t = true → nodeAt lang self path = some d → d.relevant lang true = true →
    d.startByte = d.endByte → psPathOK lang d self path = true →
    childWithDescendant lang fuel self d.id d.startByte d.endByte = firstRelevantOnPath lang self path
  | [], _, _, _, _, h, _, _, _, _, _, _, _ => absurd rfl h
  | k :: rest, 0, _, _, _, _, hf, _, _, _, _, _, _ => by simp at hf
  | k :: rest, f + 1, self, d, ps, _, hf, hsum, hsh, hat, hdrel, hemp, hok => by
    have hs := sized_of_summarized lang self.t hsum
    obtain ⟨rc, hk, hat'⟩ := nodeAt_cons lang self d k rest hat
    simp only [psPathOK, hk, Bool.and_eq_true] at hok
    simp only [firstRelevantOnPath, rawChildAt, hk, Option.map_some]
    have hn := raw_child_nested lang self hs k rc hk
    have hd := nodeAt_nested lang rest rc.node d hn.2.2.2 hat'
    rw [← hemp, cwd_unfold_empty]
    -- the earlier siblings
    have hL : (rawChildren lang self).take k =
        rawChildren.go lang self self.t.data.productionId self.t.kids.length (self.t.kids.take k) self.start 0 0 := by
      simp only [rawChildren]; exact go_take lang self _ _ _ _ _ _ k
    have hearly : ∀ i ri, i < k → (rawChildren lang self)[i]? = some ri →
        ri.node.id ≠ d.id ∧ ri.posAfter.bytes ≤ d.startByte ∧ ri.node.startByte ≤ d.startByte ∧
        childWithDescendant lang f ri.node d.id d.startByte d.startByte = none := by
      intro i ri hi hri
      have ho := raw_ordered lang self i k ri rc hi hri hk
      have hni := raw_child_nested lang self hs i ri hri
      have hti : ((rawChildren lang self).take k)[i]? = some ri := by rw [List.getElem?_take]; simp [hi, hri]
      rw [hL] at hti
      have hids := go_ids lang self _ _ d.id _ _ _ 0 hok.1 i ri hti
      exact ⟨hids.1, by omega, by omega, cwd_empty_none lang d.id d.startByte f ri.node hni.2.2.2 (by omega) hids.2⟩
    rw [inner_skip_empty lang f d.id d.startByte k _ hearly, drop_eq_cons _ k rc hk, inner_cons_empty]
    have h1 : ¬ (rc.node.startByte > d.startByte) := by omega
    simp only [h1, if_false]
    cases rest with
    | nil =>
      simp only [nodeAt, Option.some.injEq] at hat'
      subst hat'
      simp
    | cons k' rest' =>
      simp only [List.isEmpty_cons, Bool.false_or, Bool.and_eq_true, bne_iff_ne, ne_eq] at hok ⊢
      have h2 : (rc.node.id == d.id) = false := by simpa using hok.2.1
      have hk2 := hk
      simp only [rawChildren] at hk2
      have hcmem : rc.node.t ∈ self.t.kids := List.mem_of_getElem? (go_elem lang _ _ _ _ _ _ _ k rc hk2).2.2
      have hsc := summarized_of_mem lang _ rc.node.t (summarizedL_kids lang self.t hsum) hcmem
      have hshc := shapeOK_of_mem _ _ rc.node.t (shapeOKL_kids ps self.t hsh) hcmem
      have hcc := ancestor_child_count_pos lang d rc.node (k' :: rest') _ hdrel (by simp) hat' hsc hshc
      have ih := child_with_descendant_spec_empty lang (k' :: rest') f rc.node d _ (by simp)
        (by simp at hf ⊢; omega) hsc hshc hat' hdrel hemp hok.2.2
      rw [← hemp] at ih
      obtain ⟨r, hr⟩ := firstRelevantOnPath_some lang d (k' :: rest') rc.node (by simp) hat'
      have h3 : (decide (rc.posAfter.bytes ≥ d.startByte) && decide (rc.node.childCount > 0)) = true := by
        simp; omega
      simp only [h2, Bool.false_eq_true, if_false, h3, if_true, ih, hr]
      have h3' : d.startByte ≤ rc.posAfter.bytes ∧ 0 < rc.node.childCount := ⟨by omega, hcc⟩
      cases hrel : rc.node.relevant lang true <;> simp [h3']


theorem relSplit_inv_ps (lang : Lang) (d : NodeRef) : ∀ (p : List Nat) (n c : NodeRef) (rest : List Nat) (ps : Option Nat),
    relSplit lang n p = some (c, rest) → nodeAt lang n p = some d → psPathOK lang d n p = true →
    Summarized lang n.t → shapeOK ps n.t = true →
    nodeAt lang c rest = some d ∧ (rest ≠ [] → c.id ≠ d.id ∧ psPathOK lang d c rest = true) ∧
      (Summarized lang c.t ∧ ∃ ps', shapeOK ps' c.t = true) ∧ rest.length < p.length
  | [], _, _, _, _, h, _, _, _, _ => by simp [relSplit] at h
  | k :: tl, n, c, rest, ps, h, hat, hok, hs, hsh => by
    obtain ⟨rc, hk, hat'⟩ := nodeAt_cons lang n d k tl hat
    simp only [relSplit, rawChildAt, hk, Option.map_some] at h
    simp only [psPathOK, hk, Bool.and_eq_true] at hok
    have hk2 := hk
    simp only [rawChildren] at hk2
    have hmem : rc.node.t ∈ n.t.kids := List.mem_of_getElem? (go_elem lang _ _ _ _ _ _ _ k rc hk2).2.2
    have hsz : Summarized lang rc.node.t ∧ shapeOK (some n.t.data.symbol) rc.node.t = true :=
      ⟨summarized_of_mem lang _ _ (summarizedL_kids lang n.t hs) hmem, shapeOK_of_mem _ _ _ (shapeOKL_kids ps n.t hsh) hmem⟩
    by_cases hc : (tl.isEmpty || rc.node.relevant lang true) = true
    · simp only [hc, if_true, Option.some.injEq, Prod.mk.injEq] at h
      obtain ⟨h1, h2⟩ := h
      subst h1; subst h2
      refine ⟨hat', ?_, ⟨hsz.1, _, hsz.2⟩, by simp⟩
      intro hne
      have : tl.isEmpty = false := by cases tl <;> simp_all
      simp only [this, Bool.false_or, Bool.and_eq_true, bne_iff_ne, ne_eq] at hok
      exact ⟨hok.2.1, hok.2.2⟩
    · simp only [hc, if_false, Bool.false_eq_true] at h
      have : tl.isEmpty = false := by cases tl <;> simp_all
      simp only [this, Bool.false_or, Bool.and_eq_true, bne_iff_ne, ne_eq] at hok
      have ih := relSplit_inv_ps lang d tl rc.node c rest _ h hat' hok.2.2 hsz.1 hsz.2
      exact ⟨ih.1, ih.2.1, ih.2.2.1, by simp; omega⟩

/-- **parent_spec_empty.**  `ts_node_parent` of a relevant EMPTY node: the nearest relevant proper
ancestor on the path, under `psPathOK` (slot id of `d` unique on the path and inside the earlier
siblings along it).  With `parent_spec_partial` this covers every relevant node. -/
theorem parent_spec_empty (lang : Lang) (fuel : Nat) (root d : NodeRef) (path : List Nat) (ps : Option Nat)
    (hp : path ≠ []) (hf : path.length ≤ fuel) (hs : Summarized lang root.t) (hsh : shapeOK ps root.t = true)
    (hat : nodeAt lang root path = some d) (hrel : d.relevant lang true = true)
    (hemp : d.startByte = d.endByte) (hroot : root.id ≠ d.id) (hok : psPathOK lang d root path = true) :
    nodeParent lang fuel root d = some (parentOnPath lang root root path) := by
  have key : ∀ (f : Nat) (p : List Nat) (n : NodeRef) (ps : Option Nat), p ≠ [] → p.length ≤ f → p.length ≤ fuel →
      Summarized lang n.t → shapeOK ps n.t = true → nodeAt lang n p = some d → psPathOK lang d n p = true →
      nodeParent.go lang fuel d f n = parentOnPath lang n n p := by
    intro f
    induction f with
    | zero => intro p n _ hp hf; cases p <;> simp_all
    | succ f ih =>
      intro p n ps hp hf hfu hs hsh hat hok
      rw [nodeParent.go, child_with_descendant_spec_empty lang p fuel n d ps hp hfu hs hsh hat hrel hemp hok,
        firstRelevant_eq_split, parentOnPath_split]
      cases hsp : relSplit lang n p with
      | none => rfl
      | some cr =>
        obtain ⟨c, rest⟩ := cr
        have hi := relSplit_inv_ps lang d p n c rest ps hsp hat hok hs hsh
        simp only [Option.map_some]
        cases rest with
        | nil =>
          have : c = d := by simpa [nodeAt] using hi.1
          subst this
          simp
        | cons k' rest' =>
          have h2 := hi.2.1 (by simp)
          have : (c.id == d.id) = false := by simpa using h2.1
          simp only [this, Bool.false_eq_true, if_false, List.isEmpty_cons]
          obtain ⟨hsc, ps', hshc⟩ := hi.2.2.1
          exact ih (k' :: rest') c ps' (by simp) (by have := hi.2.2.2; omega) (by have := hi.2.2.2; omega)
            hsc hshc hi.1 h2.2
  unfold nodeParent
  have : (root.id == d.id) = false := by simpa using hroot
  simp only [this, Bool.false_eq_true, if_false]
  rw [key fuel path root ps hp hf hf hs hsh hat hok]


end TsVerif.C06
