import TsVerif.C06.SiblingZw
/-!
C06, node.c: the NAMED and POINT variants that are corollaries of (or proved exactly like) the
byte / all-children theorems of `NodeProps.lean`.

* `descendant_for_byte_range_spec_anon` — `ts_node_descendant_for_byte_range` and
  `ts_node_named_descendant_for_byte_range` (any `include_anonymous`): non-empty byte range ⇒ the port is
  the plain search `dfrIdealA` (first spanning raw child, last RELEVANT node on the chain).  The scan is
  the same function for both; only the bookkeeping of the last relevant node differs.
* `descendant_for_point_range_spec_partial` — the POINT variants (named or not): the same statement in
  row/column order (`dfrIdealP`), for `rs < re` as points.  The proof is the byte proof with the order
  replaced: the iterator's positions are monotone in row/column order too (`ple_add`: `a ≤ a + b`), for
  every tree.
* `first_child_for_byte_spec_anon` — `ts_node_first_child_for_byte` and `ts_node_first_named_child_for_byte`:
  without a dead end (`ndeNodeA`) the port is the plain recursion `fcbNodeA`.

NOT obtained this way (see notes/C06.md): `next_named_sibling` / `prev_named_sibling` (the whole
sibling development is about `relevant = visible`; the named version needs the named analogues of
`firstRel`/`lastRel`/`enumKids_head`/`enumKids_last` under `anonLeafOK`), the flat link of
`first_named_child_for_byte`, and `goto_first_child_for_point` (there is no byte theorem for the cursor
function to carry over).
-/
open TsVerif TsVerif.C02 TsGen

namespace TsVerif.C06

theorem dfrGoA_eq (lang : Lang) (anon : Bool) (rs re : Nat) (hr : rs < re) : ∀ (f : Nat) (node last : NodeRef),
    descendantForByteRangePort.go lang rs re anon f node last = dfrIdealA lang anon rs re f node last
  | 0, _, _ => rfl
  | f + 1, node, last => by
    simp only [descendantForByteRangePort.go, dfrIdealA]
    have hraw : rawChildren lang node = rawChildren.go lang node node.t.data.productionId node.t.kids.length node.t.kids node.start 0 0 := rfl
    have := dfr_scan_eq rs re hr (rawChildren lang node) node.start.bytes (by rw [hraw]; exact go_startsFrom lang node _ _ _ _ _ _)
    simp only [dfrScan] at this
    rw [this]
    cases (rawChildren lang node).find? (spans rs re) with
    | none => rfl
    | some rc => simp only [Option.map_some]; exact dfrGoA_eq lang anon rs re hr f rc.node _

theorem descendant_for_byte_range_spec_anon (lang : Lang) (fuel : Nat) (self : NodeRef) (rs re : Nat) (anon : Bool) (hr : rs < re) :
    descendantForByteRangePort lang fuel self rs re anon = some (dfrIdealA lang anon rs re fuel self self) := by
  unfold descendantForByteRangePort
  have : ¬ (rs > re) := by omega
  simp only [this, if_false]
  rw [dfrGoA_eq lang anon rs re hr]

/-! point variant -/
theorem ple_add (a b : TSPoint) : point_lte a (point_add a b) = true := by
  simp only [point_lte, point_add, point__new]
  split <;> simp <;> omega

def StartsFromP : TSPoint → List RawChild → Prop
  | _, [] => True
  | p, rc :: rest => point_lte p rc.node.start.extent = true ∧ point_lte rc.node.start.extent rc.posAfter.extent = true ∧ StartsFromP rc.posAfter.extent rest

theorem ple_trans (a b c : TSPoint) (h1 : point_lte a b = true) (h2 : point_lte b c = true) : point_lte a c = true := by
  simp only [point_lte, decide_eq_true_eq] at *
  omega

theorem ple_refl (a : TSPoint) : point_lte a a = true := by simp [point_lte]

theorem length_add_extent (a b : Length) : (length_add a b).extent = point_add a.extent b.extent := rfl

theorem go_startsFromP (lang : Lang) (n : NodeRef) (pid nk : Nat) : ∀ (kids : List Tree) (pos : Length) (si k : Nat),
    StartsFromP pos.extent (rawChildren.go lang n pid nk kids pos si k)
  | [], _, _, _ => by simp [rawChildren.go, StartsFromP]
  | c :: rest, pos, si, k => by
    rw [go_getElem_zero]
    unfold StartsFromP
    refine ⟨?_, ?_, go_startsFromP lang n pid nk rest _ _ _⟩
    · show point_lte pos.extent (if k > 0 then length_add pos c.data.padding else pos).extent = true
      by_cases hk : k > 0
      · simp only [hk, if_true, length_add_extent]; exact ple_add _ _
      · simp only [hk, if_false]; exact ple_refl _
    · show point_lte (if k > 0 then length_add pos c.data.padding else pos).extent
        (length_add (if k > 0 then length_add pos c.data.padding else pos) c.data.size).extent = true
      rw [length_add_extent]; exact ple_add _ _

theorem startsFromP_ge : ∀ (L : List RawChild) (p : TSPoint), StartsFromP p L → ∀ x ∈ L, point_lte p x.node.start.extent = true
  | [], _, _, _, hx => by simp at hx
  | rc :: rest, p, h, x, hx => by
    unfold StartsFromP at h
    simp only [List.mem_cons] at hx
    rcases hx with hx | hx
    · subst hx; exact h.1
    · exact ple_trans _ _ _ (ple_trans _ _ _ h.1 h.2.1) (startsFromP_ge rest _ h.2.2 x hx)

abbrev dfrPScan (rs re : TSPoint) := descendantForPointRangePort.scan rs re

theorem dfrPScan_cons (rs re : TSPoint) (rc : RawChild) (rest : List RawChild) :
    dfrPScan rs re (rc :: rest) =
      (if point_lt rc.posAfter.extent re then dfrPScan rs re rest
       else if (if point_eq rc.node.start.extent rc.posAfter.extent then point_lt rc.posAfter.extent rs else point_lte rc.posAfter.extent rs) then dfrPScan rs re rest
       else if point_lt rs rc.node.start.extent then none
       else some rc.node) := by
  simp only [dfrPScan, descendantForPointRangePort.scan]

theorem dfrP_scan_eq (rs re : TSPoint) (hr : point_lt rs re = true) : ∀ (L : List RawChild) (p : TSPoint), StartsFromP p L →
    dfrPScan rs re L = (L.find? (spansP rs re)).map (·.node)
  | [], _, _ => by simp [dfrPScan, descendantForPointRangePort.scan]
  | rc :: rest, p, h => by
    unfold StartsFromP at h
    rw [dfrPScan_cons, List.find?_cons]
    have h21 := h.2.1
    have hr0 := hr
    simp only [point_lt, point_lte, decide_eq_true_eq] at hr h21
    by_cases h1 : point_lt rc.posAfter.extent re = true
    · have : spansP rs re rc = false := by
        simp only [point_lt, decide_eq_true_eq] at h1
        simp only [spansP, point_lte, Bool.and_eq_false_iff, decide_eq_false_iff_not]
        right; omega
      simp only [h1, if_true, this]
      exact dfrP_scan_eq rs re hr0 rest _ h.2.2
    · simp only [h1, if_false, Bool.false_eq_true]
      have h1' := h1
      simp only [point_lt, decide_eq_true_eq] at h1'
      have h2 : ¬ ((if point_eq rc.node.start.extent rc.posAfter.extent = true then point_lt rc.posAfter.extent rs else point_lte rc.posAfter.extent rs) = true) := by
        split <;> simp only [point_lt, point_lte, decide_eq_true_eq] <;> omega
      simp only [h2, if_false]
      by_cases h3 : point_lt rs rc.node.start.extent = true
      · have hsp : spansP rs re rc = false := by
          simp only [point_lt, decide_eq_true_eq] at h3
          simp only [spansP, point_lte, Bool.and_eq_false_iff, decide_eq_false_iff_not]
          left; omega
        simp only [h3, if_true, hsp]
        rw [find_none_of_all]
        · rfl
        · intro x hx
          have hge := startsFromP_ge rest _ h.2.2 x hx
          simp only [point_lt, point_lte, decide_eq_true_eq] at h3 hge
          simp only [spansP, point_lte, Bool.and_eq_false_iff, decide_eq_false_iff_not]
          left; omega
      · have hsp : spansP rs re rc = true := by
          simp only [point_lt, decide_eq_true_eq] at h3
          simp only [spansP, point_lte, Bool.and_eq_true, decide_eq_true_eq]
          omega
        simp [h3, hsp]

theorem dfrGoP_eq (lang : Lang) (anon : Bool) (rs re : TSPoint) (hr : point_lt rs re = true) : ∀ (f : Nat) (node last : NodeRef),
    descendantForPointRangePort.go lang rs re anon f node last = dfrIdealP lang anon rs re f node last
  | 0, _, _ => rfl
  | f + 1, node, last => by
    simp only [descendantForPointRangePort.go, dfrIdealP]
    have hraw : rawChildren lang node = rawChildren.go lang node node.t.data.productionId node.t.kids.length node.t.kids node.start 0 0 := rfl
    have := dfrP_scan_eq rs re hr (rawChildren lang node) node.start.extent (by rw [hraw]; exact go_startsFromP lang node _ _ _ _ _ _)
    simp only [dfrPScan] at this
    rw [this]
    cases (rawChildren lang node).find? (spansP rs re) with
    | none => rfl
    | some rc => simp only [Option.map_some]; exact dfrGoP_eq lang anon rs re hr f rc.node _

theorem descendant_for_point_range_spec_partial (lang : Lang) (fuel : Nat) (self : NodeRef) (rs re : TSPoint) (anon : Bool)
    (hr : point_lt rs re = true) :
    descendantForPointRangePort lang fuel self rs re anon = some (dfrIdealP lang anon rs re fuel self self) := by
  unfold descendantForPointRangePort
  have : point_gt rs re = false := by
    simp only [point_lt, decide_eq_true_eq] at hr
    simp only [point_gt, decide_eq_false_iff_not]; omega
  simp only [this, Bool.false_eq_true, if_false]
  rw [dfrGoP_eq lang anon rs re hr]


/-! ### `ts_node__first_child_for_byte(self, goal, include_anonymous)` for either flag -/

abbrev fcbLoopA (lang : Lang) (anon : Bool) (goal : Nat) := firstChildForBytePort.loop lang goal anon

theorem fcbNodeA_eq (lang : Lang) (anon : Bool) (goal : Nat) (t : Tree) (start : Length) :
    fcbNodeA lang anon goal t start = fcbKidsA lang anon goal t.data.productionId t.data.addr t.kids.length t.kids start 0 0 := by
  obtain ⟨d, k⟩ := t; simp [fcbNodeA, data_mk, kids_mk]
theorem ndeNodeA_eq (lang : Lang) (anon : Bool) (goal : Nat) (t : Tree) (start : Length) :
    ndeNodeA lang anon goal t start = ndeKidsA lang anon goal t.data.productionId t.data.addr t.kids.length t.kids start 0 0 := by
  obtain ⟨d, k⟩ := t; simp [ndeNodeA, data_mk, kids_mk]

theorem fcbLoopA_cons (lang : Lang) (anon : Bool) (goal f : Nat) (rc : RawChild) (rest : List RawChild) (saved : Option (List RawChild)) :
    fcbLoopA lang anon goal (f + 1) (rc :: rest) saved =
      (if rc.node.endByte > goal then
        (if rc.node.relevant lang anon then some rc.node
         else if rc.node.childCount > 0 then
           fcbLoopA lang anon goal f (rawChildren lang rc.node) (if rc.k + 1 < rc.node.t.kids.length then some rest else saved)
         else fcbLoopA lang anon goal f rest saved)
       else fcbLoopA lang anon goal f rest saved) := rfl

theorem fcbA_loop_some (lang : Lang) (anon : Bool) (goal : Nat) : ∀ (f : Nat) (n : NodeRef) (kids : List Tree) (pos : Length) (si k : Nat)
    (saved : Option (List RawChild)) (r : NodeRef), Tree.sizeList kids < f →
    ndeKidsA lang anon goal n.t.data.productionId n.t.data.addr n.t.kids.length kids pos si k = true →
    fcbKidsA lang anon goal n.t.data.productionId n.t.data.addr n.t.kids.length kids pos si k = some r →
    fcbLoopA lang anon goal f (rawChildren.go lang n n.t.data.productionId n.t.kids.length kids pos si k) saved = some r
  | 0, _, _, _, _, _, _, _, hf, _, _ => by omega
  | f + 1, n, [], _, _, _, _, _, _, _, h => by simp [fcbKidsA] at h
  | f + 1, n, c :: rest, pos, si, k, saved, r, hf, hnde, h => by
    rw [go_getElem_zero, fcbLoopA_cons]
    unfold fcbKidsA at h
    unfold ndeKidsA at hnde
    simp only at h hnde ⊢
    simp only [Tree.sizeList] at hf
    have hcs := tree_size_kids c
    have hpos := tree_size_pos c
    generalize (if k > 0 then length_add pos c.data.padding else pos) = cstart at h hnde ⊢
    generalize (if c.data.extra = true then 0 else lang.aliasAt n.t.data.productionId si) = al at h hnde ⊢
    generalize (if c.data.extra = true then si else si + 1) = si' at h hnde ⊢
    by_cases hend : ({ t := c, alias := al, id := slotId n.t.data.addr n.t.kids.length k, start := cstart } : NodeRef).endByte > goal
    · simp only [hend, if_true] at h hnde ⊢
      by_cases hrel : ({ t := c, alias := al, id := slotId n.t.data.addr n.t.kids.length k, start := cstart } : NodeRef).relevant lang anon = true
      · simp only [hrel, if_true] at h ⊢
        exact h
      · simp only [hrel, if_false, Bool.false_eq_true] at h hnde ⊢
        by_cases hcc : ({ t := c, alias := al, id := slotId n.t.data.addr n.t.kids.length k, start := cstart } : NodeRef).childCount > 0
        · simp only [hcc, if_true, Bool.and_eq_true] at h hnde ⊢
          obtain ⟨r', hr'⟩ := Option.isSome_iff_exists.mp hnde.1
          rw [hr'] at h
          simp only [Option.some.injEq] at h
          subst h
          rw [fcbNodeA_eq] at hr'
          have hn2 := hnde.2
          rw [ndeNodeA_eq] at hn2
          exact fcbA_loop_some lang anon goal f ⟨c, al, slotId n.t.data.addr n.t.kids.length k, cstart⟩ c.kids cstart 0 0 _ r' (by omega) hn2 hr'
        · simp only [hcc, if_false] at h hnde ⊢
          exact fcbA_loop_some lang anon goal f n rest _ _ _ saved r (by omega) hnde h
    · simp only [hend, if_false] at h hnde ⊢
      exact fcbA_loop_some lang anon goal f n rest _ _ _ saved r (by omega) hnde h

theorem fcbA_loop_none (lang : Lang) (anon : Bool) (goal : Nat) : ∀ (f : Nat) (n : NodeRef) (kids : List Tree) (pos : Length) (si k : Nat),
    ndeKidsA lang anon goal n.t.data.productionId n.t.data.addr n.t.kids.length kids pos si k = true →
    fcbKidsA lang anon goal n.t.data.productionId n.t.data.addr n.t.kids.length kids pos si k = none →
    fcbLoopA lang anon goal f (rawChildren.go lang n n.t.data.productionId n.t.kids.length kids pos si k) none = none
  | 0, _, _, _, _, _, _, _ => rfl
  | f + 1, n, [], _, _, _, _, _ => by simp [rawChildren.go, fcbLoopA, firstChildForBytePort.loop]
  | f + 1, n, c :: rest, pos, si, k, hnde, h => by
    rw [go_getElem_zero, fcbLoopA_cons]
    unfold fcbKidsA at h
    unfold ndeKidsA at hnde
    simp only at h hnde ⊢
    generalize (if k > 0 then length_add pos c.data.padding else pos) = cstart at h hnde ⊢
    generalize (if c.data.extra = true then 0 else lang.aliasAt n.t.data.productionId si) = al at h hnde ⊢
    generalize (if c.data.extra = true then si else si + 1) = si' at h hnde ⊢
    by_cases hend : ({ t := c, alias := al, id := slotId n.t.data.addr n.t.kids.length k, start := cstart } : NodeRef).endByte > goal
    · simp only [hend, if_true] at h hnde ⊢
      by_cases hrel : ({ t := c, alias := al, id := slotId n.t.data.addr n.t.kids.length k, start := cstart } : NodeRef).relevant lang anon = true
      · simp [hrel] at h
      · simp only [hrel, if_false, Bool.false_eq_true] at h hnde ⊢
        by_cases hcc : ({ t := c, alias := al, id := slotId n.t.data.addr n.t.kids.length k, start := cstart } : NodeRef).childCount > 0
        · simp only [hcc, if_true, Bool.and_eq_true] at h hnde
          obtain ⟨r', hr'⟩ := Option.isSome_iff_exists.mp hnde.1
          rw [hr'] at h
          simp at h
        · simp only [hcc, if_false] at h hnde ⊢
          exact fcbA_loop_none lang anon goal f n rest _ _ _ hnde h
    · simp only [hend, if_false] at h hnde ⊢
      exact fcbA_loop_none lang anon goal f n rest _ _ _ hnde h

/-- **first_child_for_byte_spec_anon.**  `ts_node_first_child_for_byte` (`anon = true`) and
`ts_node_first_named_child_for_byte` (`anon = false`): if the search meets no dead end (`ndeNodeA`), the
port returns what the plain recursion `fcbNodeA` returns — the first RELEVANT child in order (hidden
children, and for the named variant also visible anonymous ones with children, replaced by theirs)
that ends after `goal`. -/
theorem first_child_for_byte_spec_anon (lang : Lang) (anon : Bool) (fuel : Nat) (self : NodeRef) (goal : Nat)
    (hf : self.t.size ≤ 2 * fuel + 4) (hnde : ndeNodeA lang anon goal self.t self.start = true) :
    firstChildForBytePort lang fuel self goal anon = fcbNodeA lang anon goal self.t self.start := by
  unfold firstChildForBytePort
  rw [ndeNodeA_eq] at hnde
  rw [fcbNodeA_eq]
  have hk := tree_size_kids self.t
  cases h : fcbKidsA lang anon goal self.t.data.productionId self.t.data.addr self.t.kids.length self.t.kids self.start 0 0 with
  | none => exact fcbA_loop_none lang anon goal _ self _ _ 0 0 hnde h
  | some r => exact fcbA_loop_some lang anon goal _ self _ _ 0 0 none r (by omega) hnde h

/-! ## Non-vacuity (demo tree of `NodeProps.lean`: root → [a, hidden h → [v → [b], c], d]) -/

example : (descendantForByteRangePort C02.demoLang 8 pvRoot 1 2 false).map (·.id) = some 2992 := by
  rw [descendant_for_byte_range_spec_anon C02.demoLang 8 pvRoot 1 2 false (by decide)]
  decide
example : (descendantForPointRangePort C02.demoLang 8 pvRoot ⟨0, 1⟩ ⟨0, 2⟩ true).map (·.id) = some 2992 := by
  rw [descendant_for_point_range_spec_partial C02.demoLang 8 pvRoot ⟨0, 1⟩ ⟨0, 2⟩ true (by decide)]
  decide
example : (firstChildForBytePort C02.demoLang 8 pvRoot 1 false).map (·.id) = some 1984 := by
  rw [first_child_for_byte_spec_anon C02.demoLang false 8 pvRoot 1 (by decide) (by decide)]
  decide

end TsVerif.C06
