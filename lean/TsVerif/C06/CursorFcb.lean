import TsVerif.C06.NamedFcb
/-!
C06, tree_cursor.c: `ts_tree_cursor_goto_first_child_for_byte` / `_for_point`
(`ts_tree_cursor_goto_first_child_for_byte_and_point`).

`cursor_first_child_for_spec`: if the search meets no dead end (`ndeCur`: every hidden child it enters —
it ends after the goal and has visible children — contains a visible child ending after the goal), the
port returns what the plain search `cfcIdeal` returns: the first visible child, in order, hidden
children replaced by theirs, whose end lies after the goal (in bytes and in row/column order), together
with its index among the visible children, the new stack being that child on top of the hidden entries
passed through.  Without the hypothesis the C code returns -1 after the first unsuccessful descent
(finding 9: cursor-first-child-for-byte-dead-end); the plain search continues with the next sibling.
-/
open TsVerif TsVerif.C02 TsGen

namespace TsVerif.C06

abbrev cfcScan (lang : Lang) (gb : Nat) (gp : TSPoint) := gotoFirstChildFor.scan lang gb gp
abbrev cfcGo (lang : Lang) (gb : Nat) (gp : TSPoint) := gotoFirstChildFor.go lang gb gp

/-- What `go` does with the result of the scan. -/
def cfcAfter (lang : Lang) (gb : Nat) (gp : TSPoint) (f : Nat) (st : List Entry) : Nat × Option (Entry × Bool) → Option (Nat × List Entry)
  | (idx, some (e, true)) => some (idx, e :: st)
  | (idx, some (e, false)) => cfcGo lang gb gp f (e :: st) idx
  | (_, none) => none

theorem cfcGo_succ (lang : Lang) (gb : Nat) (gp : TSPoint) (f : Nat) (top : Entry) (rest : List Entry) (idx : Nat) :
    cfcGo lang gb gp (f + 1) (top :: rest) idx =
      cfcAfter lang gb gp f (top :: rest) (cfcScan lang gb gp (top.t.kids.length + 1) (iterateChildren lang top rest.head?) idx) := by
  simp only [cfcGo, gotoFirstChildFor.go, cfcAfter, cfcScan]
  split <;> simp_all

/-- One level: without a dead end the scan of the port followed by `go` is the plain scan. -/
theorem cfc_scan_spec (lang : Lang) (gb : Nat) (gp : TSPoint) (f : Nat) (st : List Entry)
    (ih : ∀ st' idx, ndeCur lang gb gp f st' idx = true → cfcGo lang gb gp f st' idx = cfcIdeal lang gb gp f st' idx) :
    ∀ (g : Nat) (it : Iter) (idx : Nat),
    cfcScanNde lang gb gp (cfcIdeal lang gb gp f) (ndeCur lang gb gp f) st g it idx = true →
    cfcAfter lang gb gp f st (cfcScan lang gb gp g it idx) = cfcScanIdeal lang gb gp (cfcIdeal lang gb gp f) st g it idx
  | 0, _, _, _ => by simp [cfcScan, gotoFirstChildFor.scan, cfcScanIdeal, cfcAfter]
  | g + 1, it, idx, h => by
    unfold cfcScanNde at h
    unfold cfcScanIdeal
    simp only [cfcScan, gotoFirstChildFor.scan]
    cases hn : iterNext lang it with
    | none => simp [cfcAfter]
    | some r =>
      obtain ⟨e, vis, it'⟩ := r
      rw [hn] at h
      simp only at h ⊢
      by_cases hg : ((length_add e.pos e.t.data.size).bytes > gb && point_gt (length_add e.pos e.t.data.size).extent gp) = true
      · simp only [hg, if_true] at h ⊢
        by_cases hv : vis = true
        · simp [hv, cfcAfter]
        · simp only [hv, if_false, Bool.false_eq_true] at h ⊢
          by_cases hc : vcc e.t > 0
          · simp only [hc, if_true, Bool.and_eq_true] at h ⊢
            simp only [cfcAfter]
            rw [ih (e :: st) idx h.2]
            obtain ⟨r, hr⟩ := Option.isSome_iff_exists.mp h.1
            rw [hr]
          · simp only [hc, if_false] at h ⊢
            exact cfc_scan_spec lang gb gp f st ih g it' idx h
      · simp only [hg, if_false, Bool.false_eq_true] at h ⊢
        by_cases hv : vis = true
        · simp only [hv, if_true] at h ⊢
          exact cfc_scan_spec lang gb gp f st ih g it' (idx + 1) h
        · simp only [hv, if_false, Bool.false_eq_true] at h ⊢
          exact cfc_scan_spec lang gb gp f st ih g it' (idx + vcc e.t) h

theorem cfc_go_spec (lang : Lang) (gb : Nat) (gp : TSPoint) : ∀ (f : Nat) (st : List Entry) (idx : Nat),
    ndeCur lang gb gp f st idx = true → cfcGo lang gb gp f st idx = cfcIdeal lang gb gp f st idx
  | 0, _, _, _ => by simp [cfcGo, gotoFirstChildFor.go, cfcIdeal]
  | f + 1, [], _, _ => by simp [cfcGo, gotoFirstChildFor.go, cfcIdeal]
  | f + 1, top :: rest, idx, h => by
    rw [cfcGo_succ]
    unfold ndeCur at h
    unfold cfcIdeal
    exact cfc_scan_spec lang gb gp f (top :: rest) (cfc_go_spec lang gb gp f) _ _ idx h

/-- **cursor_first_child_for_spec.**  For every language, every cursor (any stack) and every goal (byte
and point): without a dead end (`ndeCur`) the port of `ts_tree_cursor_goto_first_child_for_byte_and_point`
returns the index and the stack the plain search `cfcIdeal` finds, and -1 with the cursor unchanged
exactly when the plain search finds nothing. -/
theorem cursor_first_child_for_spec (lang : Lang) (gb : Nat) (gp : TSPoint) (c : Cursor)
    (h : ndeCur lang gb gp (topSize c.stack) c.stack 0 = true) :
    gotoFirstChildFor lang gb gp c =
      (match cfcIdeal lang gb gp (topSize c.stack) c.stack 0 with
       | some (idx, st) => ((idx : Int), { c with stack := st })
       | none => (-1, c)) := by
  unfold gotoFirstChildFor
  have := cfc_go_spec lang gb gp (topSize c.stack) c.stack 0 h
  simp only [cfcGo] at this
  rw [this]
  cases cfcIdeal lang gb gp (topSize c.stack) c.stack 0 with
  | none => rfl
  | some r => rfl

end TsVerif.C06
