import TsVerif.C06.SiblingNamedNext
/-!
C06, node.c: `ts_node_first_named_child_for_byte` in the semantics of the flattened tree and of the
judge's array (`first_child_for_byte_flat_spec_anon`, `first_child_for_byte_ft_spec_anon`): for either
flag, without a dead end (named flag: `anonLeafOK`), the port returns the first visible child that counts
for the flag and ends after the goal byte = the `TSNode` of `FT.firstChildForByte k goal namedOnly`.
-/
open TsVerif TsVerif.C02 TsGen

namespace TsVerif.C06

/-- Does the `TSNode` count for the flag? -/
def keepR (lang : Lang) (anon : Bool) (r : NodeRef) : Bool := keepA lang anon (r.t, r.alias)

/-- A visible/aliased child that does not count for the flag is a leaf (named flag, `anonLeafOK`). -/
theorem kids_nil_of_anon (lang : Lang) (anon : Bool) (pid si : Nat) (c : Tree)
    (hv : (c.data.visible || alOf lang pid si c != 0) = true) (hr : relA lang anon pid si c = false)
    (ha : anon = true ∨ anonLeafOK lang c (alOf lang pid si c) = true) : c.kids = [] := by
  rcases ha with ha | ha
  · subst ha
    rw [relA_of_vis lang true pid si c hv] at hr
    simp [keepA] at hr
  · cases anon with
    | true =>
      rw [relA_of_vis lang true pid si c hv] at hr
      simp [keepA] at hr
    | false =>
      rw [relA_of_vis lang false pid si c hv] at hr
      obtain ⟨d, kids⟩ := c
      unfold anonLeafOK at ha
      simp only [Bool.and_eq_true] at ha
      have h1 := ha.1
      simp only [keepA, Bool.false_or, entryNamed, data_mk] at hr
      simp only [data_mk] at hv
      have : kids.isEmpty = true := by
        simp only [hv, Bool.true_and] at h1
        simp only [hr, Bool.not_false, if_true] at h1
        exact h1
      cases kids with
      | nil => rfl
      | cons a b => simp at this

mutual
  /-- **fcbNodeA_eq_find.**  On a summarized parser-shaped tree (for the named flag: with `anonLeafOK`) the
  plain search `fcbNodeA` is the FIRST of the visible children that count for the flag (`enumRefs`
  filtered by `keepR`) whose end byte is after `goal`. -/
  theorem fcbNodeA_eq_find (lang : Lang) (anon : Bool) (goal : Nat) : ∀ (t : Tree) (start : Length) (ps : Option Nat),
      Summarized lang t → shapeOK ps t = true → AOK lang anon t.kids t.data.productionId 0 →
      fcbNodeA lang anon goal t start = ((enumRefs lang t start).filter (keepR lang anon)).find? (fun r => decide (r.endByte > goal))
    | .mk d kids, start, ps, hs, hsh, ha => by
      unfold fcbNodeA enumRefs
      unfold Summarized at hs
      unfold shapeOK at hsh
      simp only [Bool.and_eq_true] at hsh
      exact fcbKidsA_eq_find lang anon goal d.productionId d.addr kids.length kids start 0 0 (some d.symbol) hs.2.2 hsh.2 ha
  theorem fcbKidsA_eq_find (lang : Lang) (anon : Bool) (goal pid addr nk : Nat) : ∀ (kids : List Tree) (pos : Length) (si k : Nat)
      (ps : Option Nat), SummarizedL lang kids → shapeOKL ps kids = true → AOK lang anon kids pid si →
      fcbKidsA lang anon goal pid addr nk kids pos si k =
        ((enumRefsKids lang pid addr nk kids pos si k).filter (keepR lang anon)).find? (fun r => decide (r.endByte > goal))
    | [], _, _, _, _, _, _, _ => by simp [fcbKidsA, enumRefsKids]
    | c :: rest, pos, si, k, ps, hs, hsh, ha => by
      unfold SummarizedL at hs
      unfold shapeOKL at hsh
      simp only [Bool.and_eq_true] at hsh
      obtain ⟨hac, har⟩ := aok_cons lang anon c rest pid si ha
      unfold fcbKidsA enumRefsKids
      simp only
      rw [List.filter_append, find_append_or]
      have ih := fcbKidsA_eq_find lang anon goal pid addr nk rest
        (length_add (if k > 0 then length_add pos c.data.padding else pos) c.data.size) (if c.data.extra then si else si + 1) (k + 1) ps hs.2 hsh.2 har
      rw [← ih]
      have hal : (if c.data.extra = true then 0 else lang.aliasAt pid si) = alOf lang pid si c := rfl
      simp only [hal] at hac ⊢
      generalize (if k > 0 then length_add pos c.data.padding else pos) = cstart
      generalize fcbKidsA lang anon goal pid addr nk rest (length_add cstart c.data.size) (if c.data.extra = true then si else si + 1) (k + 1) = nxt
      have hsz := sized_of_summarized lang c hs.1
      have hrelA : ({ t := c, alias := alOf lang pid si c, id := slotId addr nk k, start := cstart } : NodeRef).relevant lang anon = relA lang anon pid si c := rfl
      have hrelT : ({ t := c, alias := alOf lang pid si c, id := slotId addr nk k, start := cstart } : NodeRef).relevant lang true =
          (c.data.visible || alOf lang pid si c != 0) := by simp [NodeRef.relevant, isRelevant]
      rw [hrelA, hrelT]
      by_cases hvis : (c.data.visible || alOf lang pid si c != 0) = true
      · simp only [hvis, if_true]
        have hk := relA_of_vis lang anon pid si c hvis
        by_cases hrel : relA lang anon pid si c = true
        · rw [hrel] at hk
          simp only [hrel, if_true, List.filter_cons, keepR, ← hk, List.filter_nil, List.find?_cons, List.find?_nil]
          by_cases hend : ({ t := c, alias := alOf lang pid si c, id := slotId addr nk k, start := cstart } : NodeRef).endByte > goal
          · simp [hend]
          · simp [hend]
        · have hrel' : relA lang anon pid si c = false := by simpa using hrel
          rw [hrel'] at hk
          have hz := rcc_zero_of_anon lang anon pid si c hvis hrel' hac
          -- an unnamed visible node is a leaf: its visible child count is 0 as well
          have hcc : ({ t := c, alias := alOf lang pid si c, id := slotId addr nk k, start := cstart } : NodeRef).childCount = 0 := by
            have := kids_nil_of_anon lang anon pid si c hvis hrel' hac
            simp [NodeRef.childCount, this]
          simp only [hrel', Bool.false_eq_true, if_false, hcc, Nat.lt_irrefl, List.filter_cons, keepR, ← hk, List.filter_nil, List.find?_nil, Option.none_or]
          split <;> rfl
      · have hvis' : (c.data.visible || alOf lang pid si c != 0) = false := by simpa using hvis
        simp only [hvis', Bool.false_eq_true, if_false, relA_of_hidden lang anon pid si c hvis']
        by_cases hend : ({ t := c, alias := alOf lang pid si c, id := slotId addr nk k, start := cstart } : NodeRef).endByte > goal
        · simp only [hend, if_true]
          by_cases hcc : ({ t := c, alias := alOf lang pid si c, id := slotId addr nk k, start := cstart } : NodeRef).childCount > 0
          · simp only [hcc, if_true]
            rw [fcbNodeA_eq_find lang anon goal c cstart ps hs.1 hsh.1 (aok_child lang anon c _ hac)]
            cases ((enumRefs lang c cstart).filter (keepR lang anon)).find? (fun r => decide (r.endByte > goal)) <;> simp
          · simp only [hcc, if_false]
            have hnil := enumChildren_nil_of_childCount lang ⟨c, alOf lang pid si c, slotId addr nk k, cstart⟩ ps hs.1 hsh.1 hcc
            have hrn : enumRefs lang c cstart = [] := by
              have hp := enumRefs_proj lang c cstart
              rw [hnil] at hp
              exact List.map_eq_nil_iff.mp hp
            rw [hrn]
            simp
        · simp only [hend, if_false]
          have hnone : ((enumRefs lang c cstart).filter (keepR lang anon)).find? (fun r => decide (r.endByte > goal)) = none := by
            apply find_none_of_all
            intro r hr
            have := enumRefs_within lang c cstart hsz r (List.mem_filter.mp hr).1
            simp only [NodeRef.endByte] at hend this ⊢
            simp; omega
          rw [hnone]
          simp
end


/-- **first_child_for_byte_flat_spec_anon.**  Summarized parser-shaped subtree, no dead end (for the
named flag: `anonLeafOK`): the port of `ts_node_first_(named_)child_for_byte(self, goal)` is the first of
the visible children of `self` that count for the flag and end after `goal`. -/
theorem first_child_for_byte_flat_spec_anon (lang : Lang) (anon : Bool) (fuel : Nat) (self : NodeRef) (goal : Nat) (ps : Option Nat)
    (hf : self.t.size ≤ 2 * fuel + 4) (hs : Summarized lang self.t) (hsh : shapeOK ps self.t = true)
    (ha : AOK lang anon self.t.kids self.t.data.productionId 0)
    (hnde : ndeNodeA lang anon goal self.t self.start = true) :
    firstChildForBytePort lang fuel self goal anon =
      ((enumRefs lang self.t self.start).filter (keepR lang anon)).find? (fun r => decide (r.endByte > goal)) := by
  rw [first_child_for_byte_spec_anon lang anon fuel self goal hf hnde, fcbNodeA_eq_find lang anon goal self.t self.start ps hs hsh ha]

mutual
  /-- `flatten` records the named-ness `ts_node_is_named` reports: alias metadata first. -/
  theorem flattenAt_named (lang : Lang) : ∀ (t : Tree) (pos : Length) (al id : Nat) (chain : List (List Nat)),
      ∀ v ∈ flattenAt lang t pos al id chain, v.info.named = entryNamed lang (v.info.raw, v.info.alias)
    | .mk d kids, pos, al, id, chain, v, hv => by
      unfold flattenAt at hv
      simp only at hv
      split at hv
      · simp only [List.mem_singleton] at hv
        subst hv
        simp [VTree.info, entryNamed, data_mk]
      · exact flattenKids_named lang kids pos d.productionId 0 0 d.addr kids.length chain v hv
  theorem flattenKids_named (lang : Lang) : ∀ (kids : List Tree) (cur : Length) (pid si i addr n : Nat) (outer : List (List Nat)),
      ∀ v ∈ flattenKids lang kids cur pid si i addr n outer, v.info.named = entryNamed lang (v.info.raw, v.info.alias)
    | [], _, _, _, _, _, _, _, v, hv => by simp [flattenKids] at hv
    | c :: rest, cur, pid, si, i, addr, n, outer, v, hv => by
      unfold flattenKids at hv
      simp only [List.mem_append] at hv
      rcases hv with hv | hv
      · exact flattenAt_named lang c _ _ _ _ v hv
      · exact flattenKids_named lang rest _ _ _ _ _ _ _ v hv
end

theorem find_filter_and {α : Type} (p q : α → Bool) : ∀ (l : List α), (l.filter q).find? p = l.find? (fun x => p x && q x)
  | [] => rfl
  | a :: l => by
    simp only [List.filter_cons, List.find?_cons]
    by_cases hq : q a = true
    · simp only [hq, if_true, List.find?_cons, Bool.and_true]
      split
      · rfl
      · exact find_filter_and p q l
    · simp only [hq, if_false, Bool.false_eq_true, Bool.and_false]
      exact find_filter_and p q l

theorem find_map_refs2 (g : Nat → NodeRef) (P : Nat → Bool) (Q : NodeRef → Bool) : ∀ (A : List Nat),
    (∀ j ∈ A, P j = Q (g j)) → (A.find? P).map g = (A.map g).find? Q
  | [], _ => rfl
  | a :: A, h => by
    simp only [List.find?_cons, List.map_cons, h a (by simp)]
    split
    · rfl
    · exact find_map_refs2 g P Q A (fun j hj => h j (by simp [hj]))

/-- **first_child_for_byte_ft_spec_anon.**  For EVERY entry `k` of the preorder array of `flatten`, either
flag: port of `ts_node_first_(named_)child_for_byte(self_k, goal)` = `TSNode` of the entry
`FT.firstChildForByte k goal namedOnly` designates (no dead end; named flag: `anonLeafOK` below the entry). -/
theorem first_child_for_byte_ft_spec_anon (lang : Lang) (anon : Bool) (root : Tree) (rootId : Nat) (ps : Option Nat) (fuel k goal : Nat)
    (hs : Summarized lang root) (hsh : shapeOK ps root = true) :
    let ft : FT := flatOf (flatten lang root rootId)
    k < ft.size → (refOf (ft.node k).info).t.size ≤ 2 * fuel + 4 →
    AOK lang anon (refOf (ft.node k).info).t.kids (refOf (ft.node k).info).t.data.productionId 0 →
    ndeNodeA lang anon goal (refOf (ft.node k).info).t (refOf (ft.node k).info).start = true →
    firstChildForBytePort lang fuel (refOf (ft.node k).info) goal anon =
      (ft.firstChildForByte k goal (!anon)).map (fun j => refOf (ft.node j).info) := by
  intro ft hk hf ha hnde
  obtain ⟨info, kids, par, dep, hg, hq⟩ := ft_all_good lang root rootId ps hs hsh k hk
  have hnode := good_node ft info kids k par dep hg
  have hinfo : (ft.node k).info = info := by rw [hnode]
  rw [hinfo] at hf hnde ha ⊢
  simp only [refOf] at hf hnde ha
  obtain ⟨hrefs, hpos⟩ := ft_kids_refs lang ft info kids k par dep hg hq
  have hK := ft_kid_info ft info kids k par dep hg
  have hqq := hq
  obtain ⟨⟨pos, _, _, hkids⟩, hsv, psv, hshv⟩ := hq
  simp only [VTree.info, VTree.kids] at hsv hshv hkids
  rw [first_child_for_byte_flat_spec_anon lang anon fuel (refOf info) goal psv hf hsv hshv ha hnde]
  have hnamed : ∀ j ∈ ft.kidsOf k, ft.named j = entryNamed lang ((ft.node j).info.raw, (ft.node j).info.alias) := by
    intro j hj
    obtain ⟨m, hm⟩ := List.mem_iff_getElem?.mp hj
    have h1 := hK m
    rw [hm] at h1
    cases hc : kids[m]? with
    | none => rw [hc] at h1; simp at h1
    | some c =>
      rw [hc] at h1
      simp only [Option.map_some, Option.some.injEq] at h1
      have hcm : c ∈ kids := List.mem_of_getElem? hc
      rw [hkids] at hcm
      have := flattenKids_named lang _ _ _ _ _ _ _ _ c hcm
      simp only [FT.named, h1, this]
  have hfc : ft.firstChildForByte k goal (!anon) =
      (ft.kidsOf k).find? (fun j => decide (ft.eb j > goal) && (anon || ft.named j)) := by
    simp [FT.firstChildForByte]
  rw [hfc, find_map_refs2 (fun j => refOf (ft.node j).info)
    (fun j => decide (ft.eb j > goal) && (anon || ft.named j))
    (fun r => decide (r.endByte > goal) && keepR lang anon r) (ft.kidsOf k) (by
      intro j hj
      simp [keepR, keepA, refOf, hnamed j hj, (hpos j hj).1])]
  rw [hrefs]
  rw [find_filter_and]
  rfl

end TsVerif.C06
