import TsVerif.C06.NodeProps
/-!
C06, node.c sibling search for ZERO-WIDTH nodes.

`NodeProps.lean` proves what `ts_node__next_sibling` / `ts_node__prev_sibling` return for a NON-EMPTY
`self`.  This file closes the zero-width case with the exact extra hypothesis each function needs:

* `prev_sibling_spec_general` — for ANY `self` (empty or not): under `psPathOK` (slot ids) and
  `psZwOK` (positions: the scan passes over everything before `self` and stops at every ancestor;
  for a `self` without bytes this is a statement about `ts_subtree_has_trailing_empty_descendant`)
  the port returns the last element of `earlierOnPath`.  `psZwOK_of_nonempty`: for a non-empty
  `self` the position hypothesis is a consequence of the layout, so the theorem contains
  `prev_sibling_spec_partial`.
* `next_sibling_spec_empty` — for an EMPTY `self`: under `nsPathOK` (no zero-width raw node follows
  at the same byte — finding 4) and `nsZwOK` (an ancestor that starts where `self` lies and extends
  beyond it is hidden and either has something visible after `self` inside or nothing visible after
  itself) the port returns the head of `laterOnPath`.
* `node_nav_flat_spec_empty` — both, with `parent_spec_empty`, in the semantics of the flattened tree.

All hypotheses and conclusions are evaluated on every zero-width relevant node of every real tree
(`siblingHyp`, counters `zchecked/zoutside/zbad`, `zpchecked/zpoutside/zpbad`).
-/
open TsVerif TsVerif.C02 TsGen

namespace TsVerif.C06

/-! ### `ts_node__prev_sibling`, any `self` -/

/-- The child scan / outer loop of `ts_node__prev_sibling(self, true)` as the port runs them. -/
abbrev psScanZ (lang : Lang) (fuel : Nat) (self : NodeRef) :=
  prevSiblingPort.scan lang fuel self true (self.t.totalBytes == 0) self.endByte
abbrev psGoZ (lang : Lang) (fuel : Nat) (self : NodeRef) :=
  prevSiblingPort.go lang fuel self true (self.t.totalBytes == 0) self.endByte

theorem psScanZ_nil (lang : Lang) (fuel : Nat) (self : NodeRef) (e : Option (NodeRef × Bool)) :
    psScanZ lang fuel self [] e = (false, none, e) := rfl

theorem psScanZ_cons (lang : Lang) (fuel : Nat) (self : NodeRef) (rc : RawChild) (rest : List RawChild) (e : Option (NodeRef × Bool)) :
    psScanZ lang fuel self (rc :: rest) e =
      (if rc.node.id == self.id then (false, some rc.node, e)
       else if posStop fuel self rc.node.t rc.posAfter.bytes then (true, some rc.node, e)
       else psScanZ lang fuel self rest (earlierStep lang rc e)) := by
  simp only [psScanZ, prevSiblingPort.scan, earlierStep, posStop, NodeRef.relChildCount, relevantChildCount, NodeRef.childCount]
  split
  · rfl
  · by_cases h1 : rc.posAfter.bytes > self.endByte
    · simp [h1]
    · by_cases h2 : (rc.posAfter.bytes == self.endByte &&
          (!(self.t.totalBytes == 0) || hasTrailingEmptyDescendant fuel rc.node.t self.t)) = true
      · simp [h1, h2]
      · simp only [h1, h2, if_false, decide_false, Bool.false_or, Bool.false_eq_true]
        by_cases hr : rc.node.relevant lang true = true <;> by_cases hc : rc.node.t.kids.length > 0 <;>
          by_cases hv : rc.node.t.data.visibleChildCount > 0 <;> simp [hr, hc, hv]

theorem posStop_of_pass (fuel : Nat) (self : NodeRef) (t : Tree) (e : Nat) (h : posPass fuel self t e = true) :
    posStop fuel self t e = false := by
  simp only [posPass, posStop, Bool.or_eq_true, Bool.and_eq_true, decide_eq_true_eq, beq_iff_eq, Bool.not_eq_true'] at h
  simp only [posStop, Bool.or_eq_false_iff, decide_eq_false_iff_not, Bool.and_eq_false_iff, beq_eq_false_iff_ne, ne_eq]
  rcases h with h | ⟨⟨h1, h2⟩, h3⟩
  · exact ⟨by omega, Or.inl (by omega)⟩
  · refine ⟨by omega, Or.inr ?_⟩
    simp [h2, h3]

/-- Children that are not `self` and that the scan passes over: the last relevant-or-populated one
is remembered. -/
theorem psScanZ_before (lang : Lang) (fuel : Nat) (self : NodeRef) :
    ∀ (L M : List RawChild) (e : Option (NodeRef × Bool)),
    (∀ rc ∈ L, rc.node.id ≠ self.id ∧ posPass fuel self rc.node.t rc.posAfter.bytes = true) →
    psScanZ lang fuel self (L ++ M) e = psScanZ lang fuel self M ((lastEarlierRef lang L).or e)
  | [], M, e, _ => by simp [lastEarlierRef]
  | rc :: rest, M, e, h => by
    have h0 := h rc (by simp)
    rw [List.cons_append, psScanZ_cons]
    have h1 : (rc.node.id == self.id) = false := by simpa using h0.1
    have h2 := posStop_of_pass fuel self _ _ h0.2
    simp only [h1, h2, Bool.false_eq_true, if_false]
    rw [psScanZ_before lang fuel self rest M _ (fun r hr => h r (by simp [hr]))]
    congr 1
    rw [lastEarlierRef_cons, Option.or_assoc]
    congr 1
    unfold earlierStep
    split
    · simp
    · split <;> simp

/-- `passInL` read on the iterator's elements: each is passed over, and so is everything inside it. -/
theorem go_pass (lang : Lang) (n : NodeRef) (pid nk fuel : Nat) (self : NodeRef) : ∀ (kids : List Tree) (pos : Length) (si k : Nat),
    passInL fuel self kids pos.bytes (decide (k = 0)) = true → ∀ (j : Nat) (r : RawChild),
    (rawChildren.go lang n pid nk kids pos si k)[j]? = some r →
    posPass fuel self r.node.t r.posAfter.bytes = true ∧ passInL fuel self r.node.t.kids r.node.start.bytes true = true
  | [], _, _, _, _, _, _, h => by simp [rawChildren.go] at h
  | c :: rest, pos, si, k, ha, j, r, h => by
    rw [go_getElem_zero] at h
    unfold passInL at ha
    simp only [Bool.and_eq_true] at ha
    cases j with
    | zero =>
      simp only [List.getElem?_cons_zero, Option.some.injEq] at h
      subst h
      obtain ⟨d, ck⟩ := c
      have h1 := ha.1
      unfold passIn at h1
      simp only [Bool.and_eq_true, data_mk] at h1
      simp only [kids_mk, data_mk, length_add_bytes]
      by_cases hk : k = 0
      · subst hk; simpa using h1
      · have hk' : k > 0 := by omega
        simpa [hk, hk', length_add_bytes] using h1
    | succ j' =>
      simp only [List.getElem?_cons_succ] at h
      refine go_pass lang n pid nk fuel self rest _ _ (k + 1) ?_ j' r h
      have h2 := ha.2
      by_cases hk : k = 0
      · subst hk; simpa [length_add_bytes] using h2
      · have hk' : k > 0 := by omega
        simpa [hk, hk', length_add_bytes] using h2

/-- What one round of the outer loop does with the result of the scan. -/
def psNextZ (lang : Lang) (fuel : Nat) (self : NodeRef) (f : Nat) (earlierNode : Option (NodeRef × Bool)) :
    Bool → Option NodeRef → Option (NodeRef × Bool) → Option NodeRef
  | true, stop, ech => psGoZ lang fuel self f stop (match ech with | some e => some e | none => earlierNode)
  | false, _, some (ec, true) => some ec
  | false, _, some (ec, false) => psGoZ lang fuel self f (some ec) earlierNode
  | false, _, none =>
    match earlierNode with
    | some (en, true) => some en
    | some (en, false) => psGoZ lang fuel self f (some en) none
    | none => none

theorem psGoZ_succ (lang : Lang) (fuel : Nat) (self : NodeRef) (f : Nat) (node : NodeRef) (en : Option (NodeRef × Bool))
    (found : Bool) (stop : Option NodeRef) (ech : Option (NodeRef × Bool))
    (h : psScanZ lang fuel self (rawChildren lang node) none = (found, stop, ech)) :
    psGoZ lang fuel self (f + 1) (some node) en = psNextZ lang fuel self f en found stop ech := by
  simp only [psGoZ, prevSiblingPort.go]
  simp only [psScanZ] at h
  rw [h]
  cases found with
  | true => rfl
  | false =>
    cases ech with
    | none => rfl
    | some l => obtain ⟨lc, b⟩ := l; cases b <;> rfl

theorem noIdInL_of_noIdIn (sid : Nat) (t : Tree) (h : noIdIn sid t = true) :
    noIdInL sid t.data.addr t.kids.length t.kids 0 = true := by
  obtain ⟨d, kids⟩ := t
  unfold noIdIn at h
  simpa [data_mk, kids_mk] using h

/-- Descending into a hidden earlier node all of whose raw nodes are passed over: the search returns
its LAST visible child. -/
theorem psZ_descend (lang : Lang) (fuel : Nat) (self : NodeRef) (en : Option (NodeRef × Bool)) :
    ∀ (f : Nat) (ec : NodeRef) (ps : Option Nat), ec.t.size ≤ f → Summarized lang ec.t → shapeOK ps ec.t = true →
    noIdIn self.id ec.t = true → passInL fuel self ec.t.kids ec.start.bytes true = true → vcc ec.t > 0 →
    (psGoZ lang fuel self f (some ec) en).map (fun r => (r.t, r.alias)) = (enumChildren lang ec.t).getLast?
  | 0, ec, _, hf, _, _, _, _, _ => by have := tree_size_pos ec.t; omega
  | f + 1, ec, ps, hf, hs, hsh, hid, hpass, hv => by
    have hidL := noIdInL_of_noIdIn self.id ec.t hid
    have hall : ∀ rc ∈ rawChildren lang ec, (rc.node.id ≠ self.id ∧ posPass fuel self rc.node.t rc.posAfter.bytes = true) ∧
        rc.node.t ∈ ec.t.kids ∧ noIdIn self.id rc.node.t = true ∧ passInL fuel self rc.node.t.kids rc.node.start.bytes true = true := by
      intro rc hrc
      obtain ⟨j, hj⟩ := raw_mem_index lang ec rc hrc
      have hj2 := hj
      simp only [rawChildren] at hj2
      have hi := go_ids lang ec _ _ self.id _ _ _ 0 hidL j rc hj2
      have he := go_elem lang _ _ _ _ _ _ _ j rc hj2
      have hp := go_pass lang ec _ _ fuel self _ _ _ 0 (by simpa using hpass) j rc hj2
      exact ⟨⟨hi.1, hp.1⟩, List.mem_of_getElem? he.2.2, hi.2, hp.2⟩
    have hsc : psScanZ lang fuel self (rawChildren lang ec) none = (false, none, lastEarlierRef lang (rawChildren lang ec)) := by
      have := psScanZ_before lang fuel self (rawChildren lang ec) [] none (fun rc hrc => (hall rc hrc).1)
      simpa [psScanZ_nil] using this
    rw [psGoZ_succ lang fuel self f ec en false none _ hsc]
    have hmap := lastEarlierRef_go lang ec ec.t.kids.length ec.t.kids ec.start 0 0
    have hraw : rawChildren lang ec = rawChildren.go lang ec ec.t.data.productionId ec.t.kids.length ec.t.kids ec.start 0 0 := rfl
    rw [← hraw] at hmap
    have hlast := enumKids_last lang ec.t.kids ec.t.data.productionId 0 (some ec.t.data.symbol)
      (summarizedL_kids lang ec.t hs) (shapeOKL_kids ps ec.t hsh)
    have hne' := enum_ne_nil_of_vcc lang ec.t ps hs hsh hv
    rw [enumChildren_eq] at hne' ⊢
    rw [hlast]
    cases hfl : lastEarlierRef lang (rawChildren lang ec) with
    | none =>
      rw [hfl] at hmap
      simp only [Option.map_none] at hmap
      have : lastRel lang ec.t.data.productionId ec.t.kids 0 = none := by
        cases hx : lastRel lang ec.t.data.productionId ec.t.kids 0 with
        | none => rfl
        | some v => rw [hx] at hmap; simp at hmap
      rw [this] at hlast
      simp only at hlast
      exact absurd (List.getLast?_eq_none_iff.mp hlast) hne'
    | some rb =>
      obtain ⟨r, b⟩ := rb
      obtain ⟨rc, hrc, hrcn⟩ := lastEarlierRef_mem lang _ r b hfl
      have hp := hall rc hrc
      rw [hfl] at hmap
      simp only [Option.map_some] at hmap
      cases hx : lastRel lang ec.t.data.productionId ec.t.kids 0 with
      | none => rw [hx] at hmap; simp at hmap
      | some v =>
        obtain ⟨c, si', b'⟩ := v
        rw [hx] at hmap
        simp only [Option.map_some, Option.some.injEq, Prod.mk.injEq] at hmap
        obtain ⟨h1, h2, h3⟩ := hmap
        subst h3
        cases b with
        | true => simp only [psNextZ, Option.map_some, h1, h2]
        | false =>
          simp only [psNextZ]
          have hmem := lastRel_mem lang _ _ 0 c si' false hx
          have hvc := lastRel_false_vcc lang _ _ 0 c si' hx
          have hk := tree_size_kids ec.t
          have := psZ_descend lang fuel self en f r (some ec.t.data.symbol)
            (by rw [h1]; have := sizeList_mem _ c hmem; omega)
            (by rw [h1]; exact summarized_of_mem lang _ c (summarizedL_kids lang ec.t hs) hmem)
            (by rw [h1]; exact shapeOK_of_mem _ _ c (shapeOKL_kids ps ec.t hsh) hmem)
            (by rw [← hrcn]; exact hp.2.2.1)
            (by rw [← hrcn]; exact hp.2.2.2)
            (by rw [h1]; exact hvc)
          rw [this, h1]

/-- A remembered hidden earlier node can be descended into by `psZ_descend`. -/
def EarlierGoodZ (lang : Lang) (fuel : Nat) (self : NodeRef) : Option (NodeRef × Bool) → Prop
  | some (en, false) => (∃ ps, shapeOK ps en.t = true) ∧ Summarized lang en.t ∧ noIdIn self.id en.t = true ∧
      passInL fuel self en.t.kids en.start.bytes true = true ∧ vcc en.t > 0
  | _ => True

theorem resolveEarlier_ne_noneZ (lang : Lang) (fuel : Nat) (self : NodeRef) (l : NodeRef × Bool) (hg : EarlierGoodZ lang fuel self (some l)) :
    resolveEarlier lang (some l) ≠ none := by
  obtain ⟨ln, b⟩ := l
  cases b with
  | true => simp [resolveEarlier]
  | false =>
    obtain ⟨⟨ps, hsh⟩, hs, _, _, hv⟩ := hg
    have := enum_ne_nil_of_vcc lang ln.t ps hs hsh hv
    simp only [resolveEarlier, ne_eq, List.getLast?_eq_none_iff]
    exact this

/-- The part of the scan before the path's child `rc` (index `k`). -/
theorem psZ_earlier_part (lang : Lang) (fuel : Nat) (self n : NodeRef) (k : Nat) (ps : Option Nat)
    (hs : Summarized lang n.t) (hsh : shapeOK ps n.t = true)
    (hid : noIdInL self.id n.t.data.addr n.t.kids.length (n.t.kids.take k) 0 = true)
    (hpass : passInL fuel self (n.t.kids.take k) n.start.bytes true = true) :
    (∀ M e, psScanZ lang fuel self ((rawChildren lang n).take k ++ M) e =
        psScanZ lang fuel self M ((lastEarlierRef lang ((rawChildren lang n).take k)).or e)) ∧
    resolveEarlier lang (lastEarlierRef lang ((rawChildren lang n).take k)) =
      (enumKids lang n.t.data.productionId (n.t.kids.take k) 0).getLast? ∧
    EarlierGoodZ lang fuel self (lastEarlierRef lang ((rawChildren lang n).take k)) ∧
    (∀ ec b, lastEarlierRef lang ((rawChildren lang n).take k) = some (ec, b) → ec.t ∈ n.t.kids.take k) := by
  have hL : (rawChildren lang n).take k =
      rawChildren.go lang n n.t.data.productionId n.t.kids.length (n.t.kids.take k) n.start 0 0 := by
    simp only [rawChildren]; exact go_take lang n _ _ _ _ _ _ k
  have hel : ∀ r ∈ (rawChildren lang n).take k, (r.node.id ≠ self.id ∧ posPass fuel self r.node.t r.posAfter.bytes = true) ∧
      r.node.t ∈ n.t.kids.take k ∧ noIdIn self.id r.node.t = true ∧ passInL fuel self r.node.t.kids r.node.start.bytes true = true := by
    intro r hr
    obtain ⟨j, hj⟩ := List.mem_iff_getElem?.mp hr
    rw [hL] at hj
    have hi := go_ids lang n _ _ self.id _ _ _ 0 hid j r hj
    have he := go_elem lang _ _ _ _ _ _ _ j r hj
    have hp := go_pass lang n _ _ fuel self _ _ _ 0 (by simpa using hpass) j r hj
    exact ⟨⟨hi.1, hp.1⟩, List.mem_of_getElem? he.2.2, hi.2, hp.2⟩
  have hsk := summarizedL_take lang _ k (summarizedL_kids lang n.t hs)
  have hshk := shapeOKL_take _ _ k (shapeOKL_kids ps n.t hsh)
  have hlast := enumKids_last lang (n.t.kids.take k) n.t.data.productionId 0 (some n.t.data.symbol) hsk hshk
  have hmap := lastEarlierRef_go lang n n.t.kids.length (n.t.kids.take k) n.start 0 0
  rw [← hL] at hmap
  refine ⟨fun M e => psScanZ_before lang fuel self _ M e (fun r hr => (hel r hr).1), ?_, ?_, ?_⟩
  · rw [hlast]
    cases hfl : lastEarlierRef lang ((rawChildren lang n).take k) with
    | none =>
      rw [hfl] at hmap
      cases hx : lastRel lang n.t.data.productionId (n.t.kids.take k) 0 with
      | none => rfl
      | some v => rw [hx] at hmap; simp at hmap
    | some rb =>
      obtain ⟨r, b⟩ := rb
      rw [hfl] at hmap
      cases hx : lastRel lang n.t.data.productionId (n.t.kids.take k) 0 with
      | none => rw [hx] at hmap; simp at hmap
      | some v =>
        obtain ⟨c, si', b'⟩ := v
        rw [hx] at hmap
        simp only [Option.map_some, Option.some.injEq, Prod.mk.injEq] at hmap
        obtain ⟨h1, h2, h3⟩ := hmap
        subst h3
        cases b <;> simp [resolveEarlier, h1, h2]
  · cases hfl : lastEarlierRef lang ((rawChildren lang n).take k) with
    | none => trivial
    | some rb =>
      obtain ⟨r, b⟩ := rb
      cases b with
      | true => trivial
      | false =>
        obtain ⟨x, hx, hxr⟩ := lastEarlierRef_mem lang _ r false hfl
        have hp := hel x hx
        rw [hxr] at hp
        have hmem : r.t ∈ n.t.kids := List.mem_of_mem_take hp.2.1
        rw [hfl] at hmap
        cases hfr : lastRel lang n.t.data.productionId (n.t.kids.take k) 0 with
        | none => rw [hfr] at hmap; simp at hmap
        | some v =>
          obtain ⟨c, si', b'⟩ := v
          rw [hfr] at hmap
          simp only [Option.map_some, Option.some.injEq, Prod.mk.injEq] at hmap
          obtain ⟨h1, _, h3⟩ := hmap
          subst h3
          have hvc := lastRel_false_vcc lang _ _ _ c si' hfr
          exact ⟨⟨_, shapeOK_of_mem _ _ r.t (shapeOKL_kids ps n.t hsh) hmem⟩,
            summarized_of_mem lang _ r.t (summarizedL_kids lang n.t hs) hmem, hp.2.2.1, hp.2.2.2, by rw [h1]; exact hvc⟩
  · intro ec b hfl
    obtain ⟨x, hx, hxr⟩ := lastEarlierRef_mem lang _ ec b hfl
    have hp := hel x hx
    rw [hxr] at hp
    exact hp.2.1

/-- The outer loop of `ts_node__prev_sibling` along the path `n ⟶ self`, for any `self`. -/
theorem psZ_levels (lang : Lang) (fuel : Nat) (self : NodeRef) :
    ∀ (q : List Nat) (f : Nat) (n : NodeRef) (en : Option (NodeRef × Bool)) (ps : Option Nat), q ≠ [] →
    n.t.size + laterNeed en ≤ f → Summarized lang n.t → shapeOK ps n.t = true → nodeAt lang n q = some self →
    psPathOK lang self n q = true → psZwOK lang fuel self n q = true → EarlierGoodZ lang fuel self en →
    (psGoZ lang fuel self f (some n) en).map (fun r => (r.t, r.alias)) =
      ((earlierOnPath lang n q).getLast?).or (resolveEarlier lang en)
  | [], _, _, _, _, h, _, _, _, _, _, _, _ => absurd rfl h
  | k :: rest, 0, n, _, _, _, hf, _, _, _, _, _, _ => by have := tree_size_pos n.t; omega
  | k :: rest, f + 1, n, en, ps, _, hf, hs, hsh, hat, hok, hzw, hg => by
    obtain ⟨rc, hk, hat'⟩ := nodeAt_cons lang n self k rest hat
    simp only [psPathOK, hk, Bool.and_eq_true] at hok
    simp only [psZwOK, hk, Bool.and_eq_true] at hzw
    obtain ⟨hscan, hres, heg, hemem⟩ := psZ_earlier_part lang fuel self n k ps hs hsh hok.1 hzw.1
    have hk2 := hk
    simp only [rawChildren] at hk2
    have hkid := (go_elem lang _ _ _ _ _ _ _ k rc hk2).2.2
    have hcmem : rc.node.t ∈ n.t.kids := List.mem_of_getElem? hkid
    have hnsize := tree_size_kids n.t
    have hsplit : rawChildren lang n = (rawChildren lang n).take k ++ rc :: (rawChildren lang n).drop (k + 1) := by
      rw [← drop_eq_cons _ k rc hk, List.take_append_drop]
    have hsc0 : psScanZ lang fuel self (rawChildren lang n) none =
        psScanZ lang fuel self (rc :: (rawChildren lang n).drop (k + 1)) (lastEarlierRef lang ((rawChildren lang n).take k)) := by
      have := hscan (rc :: (rawChildren lang n).drop (k + 1)) none
      rw [← hsplit] at this
      simpa using this
    simp only [earlierOnPath, hk, List.getLast?_append, Option.or_assoc]
    cases rest with
    | nil =>
      -- last level: the path's child is self, the loop breaks without "found"
      simp only [nodeAt, Option.some.injEq] at hat'
      have hsc : psScanZ lang fuel self (rawChildren lang n) none =
          (false, some rc.node, lastEarlierRef lang ((rawChildren lang n).take k)) := by
        rw [hsc0, psScanZ_cons]; simp [hat']
      rw [psGoZ_succ lang fuel self f n en false _ _ hsc]
      simp only [earlierOnPath, List.getLast?_nil, Option.none_or]
      rw [← hres]
      cases hl : lastEarlierRef lang ((rawChildren lang n).take k) with
      | none =>
        simp only [resolveEarlier, Option.none_or, psNextZ]
        cases en with
        | none => rfl
        | some l =>
          obtain ⟨ln, b⟩ := l
          cases b with
          | true => rfl
          | false =>
            simp only [resolveEarlier]
            obtain ⟨⟨ps', hsh'⟩, hs', hid', hpass', hv'⟩ := hg
            exact psZ_descend lang fuel self none f ln ps' (by simp only [laterNeed] at hf; omega) hs' hsh' hid' hpass' hv'
      | some l =>
        rw [hl] at heg
        have hnn := resolveEarlier_ne_noneZ lang fuel self l heg
        rw [or_of_ne_none _ _ hnn]
        obtain ⟨lc, b⟩ := l
        cases b with
        | true => rfl
        | false =>
          simp only [psNextZ, resolveEarlier]
          obtain ⟨⟨ps', hsh'⟩, hs', hid', hpass', hv'⟩ := heg
          have hm := sizeList_mem _ _ (List.mem_of_mem_take (hemem lc false hl))
          exact psZ_descend lang fuel self en f lc ps' (by omega) hs' hsh' hid' hpass' hv'
    | cons k' rest' =>
      simp only [List.isEmpty_cons, Bool.false_or, Bool.and_eq_true, bne_iff_ne, ne_eq] at hok hzw
      have hsc : psScanZ lang fuel self (rawChildren lang n) none =
          (true, some rc.node, lastEarlierRef lang ((rawChildren lang n).take k)) := by
        rw [hsc0, psScanZ_cons]
        have h1 : (rc.node.id == self.id) = false := by simpa using hok.2.1
        simp only [h1, Bool.false_eq_true, if_false, hzw.2.1, if_true]
      rw [psGoZ_succ lang fuel self f n en true _ _ hsc]
      simp only [psNextZ]
      have hsc' := summarized_of_mem lang _ rc.node.t (summarizedL_kids lang n.t hs) hcmem
      have hshc' := shapeOK_of_mem _ _ rc.node.t (shapeOKL_kids ps n.t hsh) hcmem
      have hcs := sizeList_mem _ _ hcmem
      cases hl : lastEarlierRef lang ((rawChildren lang n).take k) with
      | none =>
        rw [hl] at hres
        simp only [resolveEarlier] at hres
        rw [← hres]
        simp only [Option.none_or]
        exact psZ_levels lang fuel self (k' :: rest') f rc.node en _ (by simp) (by omega) hsc' hshc' hat' hok.2.2 hzw.2.2 hg
      | some l =>
        rw [hl] at heg hres
        have hnn := resolveEarlier_ne_noneZ lang fuel self l heg
        rw [← hres, or_of_ne_none _ (resolveEarlier lang en) hnn]
        have hfuel : rc.node.t.size + laterNeed (some l) ≤ f := by
          obtain ⟨lc, b⟩ := l
          cases b with
          | true => simp only [laterNeed]; omega
          | false =>
            simp only [laterNeed]
            have := sizeList_two_take n.t.kids k rc.node.t lc.t hkid (hemem lc false hl)
            omega
        exact psZ_levels lang fuel self (k' :: rest') f rc.node (some l) _ (by simp) hfuel hsc' hshc' hat' hok.2.2 hzw.2.2 heg

/-- **prev_sibling_spec_general.**  `ts_node_prev_sibling(self)` for ANY `self`, zero-width or not.
Let `P` be what `ts_node_parent(self)` returns and `q ≠ []` a path of raw child indices `P ⟶ self`.
If the subtree of `P` is summarized and parser-shaped, `psPathOK` holds (the slot id of `self` does
not occur among or inside the earlier siblings along the path, nor on the path) and `psZwOK` holds
(the scan passes over every raw node before `self` along the path and stops at every ancestor — for
a `self` without bytes: `ts_subtree_has_trailing_empty_descendant(·, self)` is true for the ancestors
that end where `self` lies and false for the earlier nodes that end there), then the port returns
the LAST element of `earlierOnPath P q`, and null iff that list is empty. -/
theorem prev_sibling_spec_general (lang : Lang) (fuel : Nat) (root self P : NodeRef) (q : List Nat) (ps : Option Nat)
    (hpar : nodeParent lang fuel root self = some P) (hq : q ≠ []) (hf : P.t.size ≤ fuel + 1)
    (hs : Summarized lang P.t) (hsh : shapeOK ps P.t = true) (hat : nodeAt lang P q = some self)
    (hok : psPathOK lang self P q = true) (hzw : psZwOK lang fuel self P q = true) :
    (prevSiblingPort lang fuel root self true).map (fun r => (r.t, r.alias)) = (earlierOnPath lang P q).getLast? := by
  unfold prevSiblingPort
  simp only [hpar]
  have := psZ_levels lang fuel self q (fuel + 1) P none ps hq (by simp only [laterNeed]; omega) hs hsh hat hok hzw trivial
  simpa [resolveEarlier] using this


/-! ### For a NON-EMPTY `self` the position hypothesis holds by the layout -/

mutual
  /-- Everything that ends strictly before `self` ends is passed over. -/
  theorem passIn_of_lt (fuel : Nat) (self : NodeRef) : ∀ (t : Tree) (st : Nat), Sized t → st + t.data.size.bytes < self.endByte →
      passIn fuel self t st = true
    | .mk d kids, st, hs, h => by
      unfold passIn
      unfold Sized at hs
      simp only [data_mk] at h
      simp only [Bool.and_eq_true]
      refine ⟨by simp [posPass, h], ?_⟩
      cases kids with
      | nil => unfold passInL; rfl
      | cons c rest =>
        have hsz := (hs.1 (by simp)).2
        have := passInL_of_lt fuel self (c :: rest) st 0 hs.2 (by
          unfold layEnd
          simp only [Nat.lt_irrefl, if_false, gt_iff_lt]
          rw [layEnd_pos _ _ _ (by omega)]
          rw [hsz, kidsSize, restSize_bytes] at h
          omega)
        simpa using this
  theorem passInL_of_lt (fuel : Nat) (self : NodeRef) : ∀ (kids : List Tree) (pos k : Nat), SizedL kids →
      layEnd kids pos k < self.endByte → passInL fuel self kids pos (decide (k = 0)) = true
    | [], _, _, _, _ => by unfold passInL; rfl
    | c :: rest, pos, k, hs, h => by
      unfold SizedL at hs
      unfold layEnd at h
      unfold passInL
      have hmono := layEnd_ge rest ((if k > 0 then pos + c.data.padding.bytes else pos) + c.data.size.bytes) (k + 1)
      have hst : (if decide (k = 0) = true then pos else pos + c.data.padding.bytes) = (if k > 0 then pos + c.data.padding.bytes else pos) := by
        by_cases hk : k = 0
        · subst hk; simp
        · have : k > 0 := by omega
          simp [hk, this]
      simp only [hst, Bool.and_eq_true]
      refine ⟨passIn_of_lt fuel self c _ hs.1 (by omega), ?_⟩
      have := passInL_of_lt fuel self rest ((if k > 0 then pos + c.data.padding.bytes else pos) + c.data.size.bytes) (k + 1) hs.2 h
      simpa using this
end

theorem sizedL_take : ∀ (kids : List Tree) (j : Nat), SizedL kids → SizedL (kids.take j)
  | _, 0, _ => by simp [SizedL]
  | [], _ + 1, h => by simpa using h
  | c :: rest, j + 1, h => by
    unfold SizedL at h
    simp only [List.take_succ_cons]
    unfold SizedL
    exact ⟨h.1, sizedL_take rest j h.2⟩

/-- End of the layout of the first `j` children = at most the start of child `j`. -/
theorem layEnd_take_le (lang : Lang) (n : NodeRef) (pid nk : Nat) : ∀ (kids : List Tree) (pos : Length) (si k j : Nat) (rc : RawChild),
    (rawChildren.go lang n pid nk kids pos si k)[j]? = some rc → layEnd (kids.take j) pos.bytes k ≤ rc.node.start.bytes
  | [], _, _, _, _, _, h => by simp [rawChildren.go] at h
  | c :: rest, pos, si, k, j, rc, h => by
    cases j with
    | zero =>
      have := (go_elem lang n pid nk (c :: rest) pos si k 0 rc h).1
      simpa [layEnd] using this
    | succ j' =>
      rw [go_getElem_zero] at h
      simp only [List.getElem?_cons_succ] at h
      have := layEnd_take_le lang n pid nk rest _ _ _ j' rc h
      simp only [List.take_succ_cons, layEnd]
      simp only [length_add_bytes] at this
      by_cases hk : k > 0
      · simpa [hk, length_add_bytes] using this
      · simpa [hk] using this

/-- **psZwOK_of_nonempty.**  For a NON-EMPTY `self` the position hypothesis of `prev_sibling_spec_general`
is a consequence of the layout (`Sized`): everything before `self` ends before `self` ends, and every
ancestor ends at or after it while `self` has bytes. -/
theorem psZwOK_of_nonempty (lang : Lang) (fuel : Nat) (self : NodeRef) (hne : self.startByte < self.endByte) :
    ∀ (q : List Nat) (n : NodeRef), Sized n.t → nodeAt lang n q = some self → psZwOK lang fuel self n q = true
  | [], _, _, _ => rfl
  | k :: rest, n, hs, hat => by
    obtain ⟨rc, hk, hat'⟩ := nodeAt_cons lang n self k rest hat
    have hn := raw_child_nested lang n hs k rc hk
    have hd := nodeAt_nested lang rest rc.node self hn.2.2.2 hat'
    simp only [psZwOK, hk, Bool.and_eq_true]
    have hk2 := hk
    simp only [rawChildren] at hk2
    have hle := layEnd_take_le lang n _ _ _ _ _ _ k rc hk2
    refine ⟨?_, ?_⟩
    · have := passInL_of_lt fuel self (n.t.kids.take k) n.start.bytes 0
        (by
          obtain ⟨t, al, id, st⟩ := n
          obtain ⟨d, kids⟩ := t
          unfold Sized at hs
          exact sizedL_take _ k hs.2)
        (by simp only [NodeRef.startByte] at hd hne; omega)
      simpa using this
    · cases rest with
      | nil => simp
      | cons k' rest' =>
        simp only [List.isEmpty_cons, Bool.false_or, Bool.and_eq_true]
        refine ⟨?_, psZwOK_of_nonempty lang fuel self hne (k' :: rest') rc.node hn.2.2.2 hat'⟩
        simp only [posStop, Bool.or_eq_true, decide_eq_true_eq, Bool.and_eq_true, beq_iff_eq, Bool.not_eq_true', beq_eq_false_iff_ne, ne_eq]
        by_cases hgt : rc.posAfter.bytes > self.endByte
        · exact Or.inl hgt
        · refine Or.inr ⟨by omega, Or.inl ?_⟩
          simp only [Tree.totalBytes, NodeRef.startByte, NodeRef.endByte] at hne ⊢
          omega

/-- `prev_sibling_spec_partial` as an instance of the general theorem: for a non-empty `self` only the
slot-id hypothesis `psPathOK` remains. -/
theorem prev_sibling_spec_of_general (lang : Lang) (fuel : Nat) (root self P : NodeRef) (q : List Nat) (ps : Option Nat)
    (hpar : nodeParent lang fuel root self = some P) (hq : q ≠ []) (hf : P.t.size ≤ fuel + 1)
    (hs : Summarized lang P.t) (hsh : shapeOK ps P.t = true) (hat : nodeAt lang P q = some self)
    (hself : self.startByte < self.endByte) (hok : psPathOK lang self P q = true) :
    (prevSiblingPort lang fuel root self true).map (fun r => (r.t, r.alias)) = (earlierOnPath lang P q).getLast? :=
  prev_sibling_spec_general lang fuel root self P q ps hpar hq hf hs hsh hat hok
    (psZwOK_of_nonempty lang fuel self hself q P (sized_of_summarized lang P.t hs) hat)

/-! ### `ts_node__next_sibling`, EMPTY `self` -/

/-- The child scan / outer loop of `ts_node__next_sibling(self, true)` for an empty `self`
(`is_empty = true`: a child contains the target only if it starts STRICTLY before it). -/
abbrev nsScanE (lang : Lang) (self : NodeRef) := nextSiblingPort.scan lang self true self.endByte self.startByte true
abbrev nsGoE (lang : Lang) (self : NodeRef) := nextSiblingPort.go lang self true self.endByte self.startByte true

theorem nsScanE_cons (lang : Lang) (self : NodeRef) (rc : RawChild) (rest : List RawChild) (cct : Option NodeRef) :
    nsScanE lang self (rc :: rest) cct =
      (if rc.posAfter.bytes ≤ self.endByte then nsScanE lang self rest cct
       else if rc.node.startByte < self.startByte then nsScanE lang self rest (if samePtr rc.node self then cct else some rc.node)
       else if rc.node.relevant lang true then (cct, some (rc.node, true))
       else if rc.node.childCount > 0 then (cct, some (rc.node, false))
       else nsScanE lang self rest cct) := by
  simp only [nsScanE, nextSiblingPort.scan, samePtr, NodeRef.relChildCount, relevantChildCount, NodeRef.childCount,
    if_true, decide_eq_true_eq]
  rfl

theorem nsScanE_skip (lang : Lang) (self : NodeRef) (cct : Option NodeRef) :
    ∀ (k : Nat) (L : List RawChild), (∀ i ri, i < k → L[i]? = some ri → ri.posAfter.bytes ≤ self.endByte) →
    nsScanE lang self L cct = nsScanE lang self (L.drop k) cct
  | 0, _, _ => by simp
  | k + 1, [], _ => by simp
  | k + 1, r0 :: rest, h => by
    have h0 := h 0 r0 (by omega) (by simp)
    rw [nsScanE_cons]
    simp only [h0, if_true, List.drop_succ_cons]
    exact nsScanE_skip lang self cct k rest (fun i ri hi hri => h (i + 1) ri (by omega) (by simpa using hri))

/-- Over children that end after `self` and do not start before it, the scan is `firstLaterRef`. -/
theorem nsScanE_later (lang : Lang) (self : NodeRef) (cct : Option NodeRef) :
    ∀ (L : List RawChild), (∀ rc ∈ L, self.endByte < rc.posAfter.bytes ∧ self.startByte ≤ rc.node.startByte) →
    nsScanE lang self L cct = (cct, firstLaterRef lang L)
  | [], _ => rfl
  | rc :: rest, h => by
    have h0 := h rc (by simp)
    rw [nsScanE_cons, firstLaterRef]
    have h1 : ¬ (rc.posAfter.bytes ≤ self.endByte) := by omega
    have h2 : ¬ (rc.node.startByte < self.startByte) := by omega
    simp only [h1, h2, if_false]
    split
    · rfl
    · split
      · rfl
      · exact nsScanE_later lang self cct rest (fun r hr => h r (by simp [hr]))

def nsNextE (lang : Lang) (self : NodeRef) (f : Nat) (later : Option (NodeRef × Bool)) :
    Option NodeRef → Option (NodeRef × Bool) → Option NodeRef
  | some c, laterChild => nsGoE lang self f (some c) (match laterChild with | some l => some l | none => later)
  | none, some (lc, true) => some lc
  | none, some (lc, false) => nsGoE lang self f (some lc) later
  | none, none =>
    match later with
    | some (ln, true) => some ln
    | some (ln, false) => nsGoE lang self f (some ln) later
    | none => none

theorem nsGoE_succ (lang : Lang) (self : NodeRef) (f : Nat) (node : NodeRef) (later : Option (NodeRef × Bool))
    (cct : Option NodeRef) (lch : Option (NodeRef × Bool)) (h : nsScanE lang self (rawChildren lang node) none = (cct, lch)) :
    nsGoE lang self (f + 1) (some node) later = nsNextE lang self f later cct lch := by
  simp only [nsGoE, nextSiblingPort.go]
  simp only [nsScanE] at h
  rw [h]
  cases cct with
  | some c => rfl
  | none =>
    cases lch with
    | none => rfl
    | some l => obtain ⟨lc, b⟩ := l; cases b <;> rfl

/-- Descending into a hidden later node (empty `self`): the search returns its first visible child. -/
theorem nsE_descend (lang : Lang) (self : NodeRef) (later : Option (NodeRef × Bool)) (hemp : self.startByte = self.endByte) :
    ∀ (fuel : Nat) (lc : NodeRef) (ps : Option Nat), lc.t.size ≤ fuel → Summarized lang lc.t → shapeOK ps lc.t = true →
    endsAfterL self.endByte lc.t.kids lc.start.bytes true = true → self.endByte ≤ lc.startByte → vcc lc.t > 0 →
    (nsGoE lang self fuel (some lc) later).map (fun r => (r.t, r.alias)) = (enumChildren lang lc.t).head?
  | 0, lc, _, hf, _, _, _, _, _ => by have := tree_size_pos lc.t; omega
  | f + 1, lc, ps, hf, hs, hsh, hne, hpos, hv => by
    rw [nsGoE_succ lang self f lc later none _ (nsScanE_later lang self none (rawChildren lang lc) (by
      intro rc hrc
      have := raw_mem_props lang lc self.endByte rc hrc hne
      simp only [NodeRef.startByte] at this hpos hemp ⊢
      omega))]
    obtain ⟨t, al, id, st⟩ := lc
    obtain ⟨d, kids⟩ := t
    simp only [kids_mk, data_mk, NodeRef.startByte] at *
    have hmap := firstLaterRef_go lang ⟨.mk d kids, al, id, st⟩ kids.length kids st 0 0
    simp only [data_mk] at hmap
    have hraw : rawChildren lang ⟨.mk d kids, al, id, st⟩ = rawChildren.go lang ⟨.mk d kids, al, id, st⟩ d.productionId kids.length kids st 0 0 := by
      rfl
    have hcnt := (summarize_counts lang (.mk d kids) ps hs hsh).1
    unfold Summarized at hs
    unfold shapeOK at hsh
    simp only [Bool.and_eq_true] at hsh
    have hhead := enumKids_head lang kids d.productionId 0 (some d.symbol) hs.2.2 hsh.2
    have hne' : enumChildren lang (.mk d kids) ≠ [] := by
      intro h0
      rw [h0] at hcnt
      simp only [data_mk, List.length_nil] at hcnt
      unfold vcc at hv
      simp only [data_mk, kids_mk] at hv
      by_cases hke : kids.isEmpty = true <;> simp [hke] at hv <;> omega
    simp only [enumChildren] at hne' ⊢
    rw [hhead]
    cases hfl : firstLaterRef lang (rawChildren lang ⟨.mk d kids, al, id, st⟩) with
    | none =>
      rw [hraw] at hfl
      rw [hfl] at hmap
      simp only [Option.map_none] at hmap
      have : firstRel lang d.productionId kids 0 = none := by
        cases hx : firstRel lang d.productionId kids 0 with
        | none => rfl
        | some v => rw [hx] at hmap; simp at hmap
      rw [this] at hhead
      simp only at hhead
      exact absurd (List.head?_eq_none_iff.mp hhead) hne'
    | some rb =>
      obtain ⟨r, b⟩ := rb
      obtain ⟨rc, hrc, hrcn⟩ := firstLaterRef_mem lang _ r b hfl
      have hp := raw_mem_props lang ⟨.mk d kids, al, id, st⟩ self.endByte rc hrc hne
      rw [hraw] at hfl
      rw [hfl] at hmap
      simp only [Option.map_some] at hmap
      cases hx : firstRel lang d.productionId kids 0 with
      | none => rw [hx] at hmap; simp at hmap
      | some v =>
        obtain ⟨c, si', b'⟩ := v
        rw [hx] at hmap
        simp only [Option.map_some, Option.some.injEq, Prod.mk.injEq] at hmap
        obtain ⟨h1, h2, h3⟩ := hmap
        subst h3
        cases b with
        | true =>
          simp only [nsNextE, Option.map_some, h1, h2]
        | false =>
          simp only [nsNextE]
          have hmem := firstRel_mem lang d.productionId kids 0 c si' false hx
          have hvc := firstRel_false_vcc lang d.productionId kids 0 c si' hx
          have := nsE_descend lang self later hemp f r (some d.symbol)
            (by rw [h1]; have := sizeList_mem kids c hmem; simp only [Tree.size] at hf; omega)
            (by rw [h1]; exact summarized_of_mem lang kids c hs.2.2 hmem)
            (by rw [h1]; exact shapeOK_of_mem kids _ c hsh.2 hmem)
            (by rw [← hrcn]; exact hp.2.2.2)
            (by rw [← hrcn]; simp only [NodeRef.startByte] at hp ⊢; omega)
            (by rw [h1]; exact hvc)
          rw [this, h1]

/-- The later siblings of the path's child `rc` (index `k`) when no raw node among or inside them is
empty at the end of `self`: where they lie, and what `firstLaterRef` over them stands for.  (The
scan-independent part of `ns_later_part`; no assumption on the width of `self`.) -/
theorem later_part_props (lang : Lang) (self n : NodeRef) (k : Nat) (rc : RawChild) (ps : Option Nat)
    (hk : (rawChildren lang n)[k]? = some rc) (hs : Summarized lang n.t) (hsh : shapeOK ps n.t = true)
    (hne : endsAfterL self.endByte (n.t.kids.drop (k + 1)) rc.posAfter.bytes false = true) (hend : self.endByte ≤ rc.posAfter.bytes) :
    (∀ r ∈ (rawChildren lang n).drop (k + 1), self.endByte ≤ r.node.startByte ∧ self.endByte < r.posAfter.bytes) ∧
    resolveLater lang (firstLaterRef lang ((rawChildren lang n).drop (k + 1))) =
      (enumKids lang n.t.data.productionId (n.t.kids.drop (k + 1)) (if rc.node.t.data.extra then rc.si else rc.si + 1)).head? ∧
    LaterGood lang self (firstLaterRef lang ((rawChildren lang n).drop (k + 1))) ∧
    (∀ lc b, firstLaterRef lang ((rawChildren lang n).drop (k + 1)) = some (lc, b) → lc.t ∈ n.t.kids.drop (k + 1)) := by
  have hk' := hk
  simp only [rawChildren] at hk'
  have hdrop := go_drop lang n _ _ _ _ _ _ k rc hk'
  have hL : (rawChildren lang n).drop (k + 1) =
      rawChildren.go lang n n.t.data.productionId n.t.kids.length (n.t.kids.drop (k + 1)) rc.posAfter
        (if rc.node.t.data.extra then rc.si else rc.si + 1) (rc.k + 1) := by
    simp only [rawChildren]; exact hdrop
  have hel : ∀ r ∈ (rawChildren lang n).drop (k + 1), self.endByte ≤ r.node.startByte ∧ self.endByte < r.posAfter.bytes ∧
      r.node.t ∈ n.t.kids.drop (k + 1) ∧ endsAfterL self.endByte r.node.t.kids r.node.start.bytes true = true := by
    intro r hr
    rw [hL] at hr
    obtain ⟨j, hj⟩ := List.mem_iff_getElem?.mp hr
    have he := go_elem lang _ _ _ _ _ _ _ j r hj
    have hm : r.node.t ∈ n.t.kids.drop (k + 1) := List.mem_of_getElem? he.2.2
    have ha := go_after lang n _ _ self.endByte _ _ _ (rc.k + 1) (by simpa using hne) j r hj
    simp only [NodeRef.startByte]
    exact ⟨by omega, ha.1, hm, ha.2⟩
  have hsk := summarizedL_drop lang _ (k + 1) (summarizedL_kids lang n.t hs)
  have hshk := shapeOKL_drop _ _ (k + 1) (shapeOKL_kids ps n.t hsh)
  have hhead := enumKids_head lang (n.t.kids.drop (k + 1)) n.t.data.productionId
    (if rc.node.t.data.extra then rc.si else rc.si + 1) (some n.t.data.symbol) hsk hshk
  have hmap := firstLaterRef_go lang n n.t.kids.length (n.t.kids.drop (k + 1)) rc.posAfter
    (if rc.node.t.data.extra then rc.si else rc.si + 1) (rc.k + 1)
  rw [← hL] at hmap
  refine ⟨fun r hr => ⟨(hel r hr).1, (hel r hr).2.1⟩, ?_, ?_, ?_⟩
  · rw [hhead]
    cases hfl : firstLaterRef lang ((rawChildren lang n).drop (k + 1)) with
    | none =>
      rw [hfl] at hmap
      cases hx : firstRel lang n.t.data.productionId (n.t.kids.drop (k + 1)) (if rc.node.t.data.extra then rc.si else rc.si + 1) with
      | none => rfl
      | some v => rw [hx] at hmap; simp at hmap
    | some rb =>
      obtain ⟨r, b⟩ := rb
      rw [hfl] at hmap
      cases hx : firstRel lang n.t.data.productionId (n.t.kids.drop (k + 1)) (if rc.node.t.data.extra then rc.si else rc.si + 1) with
      | none => rw [hx] at hmap; simp at hmap
      | some v =>
        obtain ⟨c, si', b'⟩ := v
        rw [hx] at hmap
        simp only [Option.map_some, Option.some.injEq, Prod.mk.injEq] at hmap
        obtain ⟨h1, h2, h3⟩ := hmap
        subst h3
        cases b <;> simp [resolveLater, h1, h2]
  · cases hfl : firstLaterRef lang ((rawChildren lang n).drop (k + 1)) with
    | none => trivial
    | some rb =>
      obtain ⟨r, b⟩ := rb
      cases b with
      | true => trivial
      | false =>
        obtain ⟨x, hx, hxr⟩ := firstLaterRef_mem lang _ r false hfl
        have hp := hel x hx
        rw [hxr] at hp
        have hmem : r.t ∈ n.t.kids := List.mem_of_mem_drop hp.2.2.1
        rw [hfl] at hmap
        cases hfr : firstRel lang n.t.data.productionId (n.t.kids.drop (k + 1)) (if rc.node.t.data.extra then rc.si else rc.si + 1) with
        | none => rw [hfr] at hmap; simp at hmap
        | some v =>
          obtain ⟨c, si', b'⟩ := v
          rw [hfr] at hmap
          simp only [Option.map_some, Option.some.injEq, Prod.mk.injEq] at hmap
          obtain ⟨h1, _, h3⟩ := hmap
          subst h3
          have hvc := firstRel_false_vcc lang _ _ _ c si' hfr
          exact ⟨⟨_, shapeOK_of_mem _ _ r.t (shapeOKL_kids ps n.t hsh) hmem⟩,
            summarized_of_mem lang _ r.t (summarizedL_kids lang n.t hs) hmem, hp.2.2.2, hp.1, by rw [h1]; exact hvc⟩
  · intro lc b hfl
    obtain ⟨x, hx, hxr⟩ := firstLaterRef_mem lang _ lc b hfl
    have hp := hel x hx
    rw [hxr] at hp
    exact hp.2.2.1

/-- The outer loop of `ts_node__next_sibling` along the path `n ⟶ self` for an EMPTY `self`. -/
theorem nsE_levels (lang : Lang) (self : NodeRef) (hemp : self.startByte = self.endByte) (hrel : self.relevant lang true = true) :
    ∀ (q : List Nat) (f : Nat) (n : NodeRef) (later : Option (NodeRef × Bool)) (ps : Option Nat), q ≠ [] →
    n.t.size + laterNeed later ≤ f → Summarized lang n.t → shapeOK ps n.t = true → nodeAt lang n q = some self →
    nsPathOK lang self n q = true → nsZwOK lang self n q = true → LaterGood lang self later →
    (nsGoE lang self f (some n) later).map (fun r => (r.t, r.alias)) =
      ((laterOnPath lang n q).head?).or (resolveLater lang later)
  | [], _, _, _, _, h, _, _, _, _, _, _, _ => absurd rfl h
  | k :: rest, 0, n, _, _, _, hf, _, _, _, _, _, _ => by have := tree_size_pos n.t; omega
  | k :: rest, f + 1, n, later, ps, _, hf, hs, hsh, hat, hok, hzw, hg => by
    obtain ⟨rc, hk, hat'⟩ := nodeAt_cons lang n self k rest hat
    have hsz := sized_of_summarized lang n.t hs
    have hn := raw_child_nested lang n hsz k rc hk
    have hd := nodeAt_nested lang rest rc.node self hn.2.2.2 hat'
    simp only [nsPathOK, hk, Bool.and_eq_true] at hok
    simp only [nsZwOK, hk] at hzw
    obtain ⟨hel, hres, hlg, hlmem⟩ := later_part_props lang self n k rc ps hk hs hsh hok.1 (by omega)
    have hscan : ∀ cct, nsScanE lang self ((rawChildren lang n).drop (k + 1)) cct =
        (cct, firstLaterRef lang ((rawChildren lang n).drop (k + 1))) := by
      intro cct
      exact nsScanE_later lang self cct _ (fun r hr => by have := hel r hr; omega)
    have hk2 := hk
    simp only [rawChildren] at hk2
    have hkid := (go_elem lang _ _ _ _ _ _ _ k rc hk2).2.2
    have hcmem : rc.node.t ∈ n.t.kids := List.mem_of_getElem? hkid
    have hnsize := tree_size_kids n.t
    have hskip : nsScanE lang self (rawChildren lang n) none = nsScanE lang self (rc :: (rawChildren lang n).drop (k + 1)) none := by
      rw [nsScanE_skip lang self none k (rawChildren lang n) (fun i ri hi hri => by
        have := raw_ordered lang n i k ri rc hi hri hk; omega), drop_eq_cons _ k rc hk]
    simp only [laterOnPath, hk, List.head?_append, Option.or_assoc]
    by_cases htight : rc.posAfter.bytes ≤ self.endByte
    · -- (a) the path's child ends where self lies: it is passed over, nothing follows self below it
      have hsc : nsScanE lang self (rawChildren lang n) none = (none, firstLaterRef lang ((rawChildren lang n).drop (k + 1))) := by
        rw [hskip, nsScanE_cons]; simp only [htight, if_true]; exact hscan none
      rw [nsGoE_succ lang self f n later none _ hsc]
      have hA : laterOnPath lang rc.node rest = [] := by
        cases rest with
        | nil => rfl
        | cons k' rest' =>
          simp only [List.isEmpty_cons, Bool.false_or, Bool.and_eq_true] at hok
          exact laterOnPath_tight lang self (k' :: rest') rc.node hn.2.2.2 hat' (by omega) hok.2.2
      rw [hA]
      simp only [List.head?_nil, Option.none_or]
      rw [← hres]
      cases hl : firstLaterRef lang ((rawChildren lang n).drop (k + 1)) with
      | none =>
        simp only [resolveLater, Option.none_or, nsNextE]
        cases later with
        | none => rfl
        | some l =>
          obtain ⟨ln, b⟩ := l
          cases b with
          | true => rfl
          | false =>
            simp only [resolveLater]
            obtain ⟨⟨ps', hsh'⟩, hs', hne', hpos', hv'⟩ := hg
            exact nsE_descend lang self _ hemp f ln ps' (by simp only [laterNeed] at hf; omega) hs' hsh' hne' hpos' hv'
      | some l =>
        rw [hl] at hlg
        have hnn := resolve_ne_none lang self l hlg
        rw [or_of_ne_none _ _ hnn]
        obtain ⟨lc, b⟩ := l
        cases b with
        | true => rfl
        | false =>
          simp only [nsNextE, resolveLater]
          obtain ⟨⟨ps', hsh'⟩, hs', hne', hpos', hv'⟩ := hlg
          have hm := sizeList_mem _ _ (List.mem_of_mem_drop (hlmem lc false hl))
          exact nsE_descend lang self _ hemp f lc ps' (by omega) hs' hsh' hne' hpos' hv'
    · have hrest : rest ≠ [] := by
        intro h0
        subst h0
        simp only [nodeAt, Option.some.injEq] at hat'
        rw [hat'] at hn
        omega
      cases rest with
      | nil => exact absurd rfl hrest
      | cons k' rest' =>
        simp only [List.isEmpty_cons, Bool.false_or, Bool.and_eq_true, Bool.not_eq_true'] at hok hzw
        have hsc' := summarized_of_mem lang _ rc.node.t (summarizedL_kids lang n.t hs) hcmem
        have hshc' := shapeOK_of_mem _ _ rc.node.t (shapeOKL_kids ps n.t hsh) hcmem
        have hcs := sizeList_mem _ _ hcmem
        by_cases hlt : rc.node.startByte < self.startByte
        · -- (b) the path's child starts before self and extends beyond it: it contains the target
          have hsc : nsScanE lang self (rawChildren lang n) none =
              (some rc.node, firstLaterRef lang ((rawChildren lang n).drop (k + 1))) := by
            rw [hskip, nsScanE_cons]
            simp only [htight, if_false, hlt, if_true, hok.2.1, Bool.false_eq_true]
            exact hscan (some rc.node)
          rw [nsGoE_succ lang self f n later (some rc.node) _ hsc]
          simp only [nsNextE]
          cases hl : firstLaterRef lang ((rawChildren lang n).drop (k + 1)) with
          | none =>
            rw [hl] at hres
            simp only [resolveLater] at hres
            rw [← hres]
            simp only [Option.none_or]
            exact nsE_levels lang self hemp hrel (k' :: rest') f rc.node later _ (by simp) (by omega) hsc' hshc' hat' hok.2.2 hzw.2 hg
          | some l =>
            rw [hl] at hlg hres
            have hnn := resolve_ne_none lang self l hlg
            rw [← hres, or_of_ne_none _ (resolveLater lang later) hnn]
            have hfuel : rc.node.t.size + laterNeed (some l) ≤ f := by
              obtain ⟨lc, b⟩ := l
              cases b with
              | true => simp only [laterNeed]; omega
              | false =>
                simp only [laterNeed]
                have := sizeList_two n.t.kids k rc.node.t lc.t hkid (hlmem lc false hl)
                omega
            exact nsE_levels lang self hemp hrel (k' :: rest') f rc.node (some l) _ (by simp) hfuel hsc' hshc' hat' hok.2.2 hzw.2 hlg
        · -- (c) the path's child STARTS where self lies and extends beyond it: for the strict test it
          -- is a "later child"; the scan breaks at it, the search goes on inside it and the siblings
          -- after it are never looked at
          have hst : rc.node.startByte = self.startByte := by have := hd.1; omega
          have hcond : (rc.node.startByte == self.startByte) = true ∧ decide (self.endByte < rc.posAfter.bytes) = true := by
            refine ⟨by simp [hst], ?_⟩
            simp; omega
          rw [if_pos hcond] at hzw
          simp only [Bool.and_eq_true, Bool.not_eq_true', Bool.or_eq_true, List.isEmpty_iff] at hzw
          obtain ⟨⟨hnrel, hlost⟩, hzw'⟩ := hzw
          have hcc := ancestor_child_count_pos lang self rc.node (k' :: rest') _ hrel (by simp) hat' hsc' hshc'
          have hsc : nsScanE lang self (rawChildren lang n) none = (none, some (rc.node, false)) := by
            rw [hskip, nsScanE_cons]
            simp only [htight, if_false, hlt, hnrel, Bool.false_eq_true, hcc, if_true]
          rw [nsGoE_succ lang self f n later none _ hsc]
          simp only [nsNextE]
          rw [nsE_levels lang self hemp hrel (k' :: rest') f rc.node later _ (by simp) (by omega) hsc' hshc' hat' hok.2.2 hzw' hg]
          rcases hlost with hl | hl
          · have hnn : (laterOnPath lang rc.node (k' :: rest')).head? ≠ none := by
              intro h0
              rw [List.head?_eq_none_iff.mp h0] at hl
              simp at hl
            rw [or_of_ne_none _ _ hnn, or_of_ne_none _ _ hnn]
          · rw [hl]
            simp

/-- **next_sibling_spec_empty.**  `ts_node_next_sibling(self)` for a relevant EMPTY `self`.  Let `P` be
what `ts_node_parent(self)` returns and `q ≠ []` a path of raw child indices `P ⟶ self`.  If the
subtree of `P` is summarized and parser-shaped, `nsPathOK` holds (no zero-width raw node among or
inside the later siblings along the path sits where `self` lies; no ancestor is the same subtree) and
`nsZwOK` holds (an ancestor below `P` that STARTS where `self` lies and extends beyond it is hidden
and has something visible after `self` inside it, unless nothing visible follows that ancestor at
its own level), then the port returns the head of `laterOnPath P q`, null iff it is empty. -/
theorem next_sibling_spec_empty (lang : Lang) (fuel : Nat) (root self P : NodeRef) (q : List Nat) (ps : Option Nat)
    (hpar : nodeParent lang fuel root self = some P) (hq : q ≠ []) (hf : P.t.size ≤ fuel + 1)
    (hs : Summarized lang P.t) (hsh : shapeOK ps P.t = true) (hat : nodeAt lang P q = some self)
    (hrel : self.relevant lang true = true) (hemp : self.startByte = self.endByte)
    (hok : nsPathOK lang self P q = true) (hzw : nsZwOK lang self P q = true) :
    (nextSiblingPort lang fuel root self true).map (fun r => (r.t, r.alias)) = (laterOnPath lang P q).head? := by
  unfold nextSiblingPort
  have he : (self.startByte == self.endByte) = true := by simp [hemp]
  simp only [he, hpar]
  have := nsE_levels lang self hemp hrel q (fuel + 1) P none ps hq (by simp only [laterNeed]; omega) hs hsh hat hok hzw trivial
  simpa [resolveLater] using this

/-- **node_nav_flat_spec_empty.**  The zero-width case of `node_nav_flat_spec`: for a relevant EMPTY
node `d` at a raw path `p` below the root of a summarized parser-shaped tree, with `psPathOK` along
`p` (hypothesis of `parent_spec_empty`), let `P` be `parentOnPath`.  Then there is a path `q` from
`P` to `d` through hidden nodes only such that `ts_node_parent(d)` returns `P`; the children of `P`
in the flattened tree are `earlierOnPath P q ++ d :: laterOnPath P q`; under `nsPathOK` + `nsZwOK`
`ts_node_next_sibling(d)` is the NEXT element of that list, and under `psPathOK` + `psZwOK` (along
`q`) `ts_node_prev_sibling(d)` is the PREVIOUS one (null at the ends). -/
theorem node_nav_flat_spec_empty (lang : Lang) (fuel : Nat) (root d : NodeRef) (p : List Nat) (ps : Option Nat)
    (hp : p ≠ []) (hfp : p.length ≤ fuel) (hsz : root.t.size ≤ fuel + 1)
    (hs : Summarized lang root.t) (hsh : shapeOK ps root.t = true) (hat : nodeAt lang root p = some d)
    (hrel : d.relevant lang true = true) (hemp : d.startByte = d.endByte) (hroot : root.id ≠ d.id)
    (hok : psPathOK lang d root p = true) :
    ∃ q, q ≠ [] ∧ nodeAt lang (parentOnPath lang root root p) q = some d ∧
      hiddenPath lang (parentOnPath lang root root p) q = true ∧
      nodeParent lang fuel root d = some (parentOnPath lang root root p) ∧
      enumChildren lang (parentOnPath lang root root p).t =
        earlierOnPath lang (parentOnPath lang root root p) q ++ (d.t, d.alias) :: laterOnPath lang (parentOnPath lang root root p) q ∧
      (nsPathOK lang d (parentOnPath lang root root p) q = true → nsZwOK lang d (parentOnPath lang root root p) q = true →
        (nextSiblingPort lang fuel root d true).map (fun r => (r.t, r.alias)) =
          (laterOnPath lang (parentOnPath lang root root p) q).head?) ∧
      (psPathOK lang d (parentOnPath lang root root p) q = true → psZwOK lang fuel d (parentOnPath lang root root p) q = true →
        (prevSiblingPort lang fuel root d true).map (fun r => (r.t, r.alias)) =
          (earlierOnPath lang (parentOnPath lang root root p) q).getLast?) := by
  obtain ⟨pre, q, hpq, hq, hatP, hatq, hhid, _⟩ := parent_path_spec lang d p.length p root (Nat.le_refl _) hp hat
  have hpar := parent_spec_empty lang fuel root d p ps hp hfp hs hsh hat hrel hemp hroot hok
  obtain ⟨hsP, ⟨psP, hshP⟩, hszP⟩ := nodeAt_summarized lang pre root _ ps hatP hs hsh
  refine ⟨q, hq, hatq, hhid, hpar, path_siblings_split lang d hrel q _ hq hatq hhid, ?_, ?_⟩
  · intro hns hzw
    exact next_sibling_spec_empty lang fuel root d _ q psP hpar hq (by omega) hsP hshP hatq hrel hemp hns hzw
  · intro hps hzw
    exact prev_sibling_spec_general lang fuel root d _ q psP hpar hq (by omega) hsP hshP hatq hps hzw


/-! ## Non-vacuity: a zero-width node -/

/-- an empty MISSING token (no padding, no bytes) -/
def zwM : Tree := C02.newMissingLeaf C02.demoLang 1 0 length_zero 0
/-- root(visible, @1000) → [leaf a, hidden h(@2000) → [MISSING m, leaf c], leaf d]: `m` lies at byte 1,
where the hidden `h` STARTS (case (c) of `nsE_levels`: `h` is a "later child" for the strict test). -/
def zwH : Tree := atAddr (C02.newNode C02.demoLang 3 [zwM, cwLeaf] 0) 2000
def zwRoot : NodeRef := { t := atAddr (C02.newNode C02.demoLang 2 [cwLeaf, zwH, cwLeaf] 0) 1000, alias := 0, id := 1, start := length_zero }
def zwMRef : NodeRef := { t := zwM, alias := 0, id := 1984, start := ⟨1, ⟨0, 1⟩⟩ }

theorem zwRoot_summarized : Summarized C02.demoLang zwRoot.t := by
  have hl := cwLeaf_summarized
  have hm : Summarized C02.demoLang zwM := leaf_summarized _ _ (by unfold LeafOK; decide)
  have hh : Summarized C02.demoLang zwH := node_summarized _ _ _ _ (by unfold NodeOK; decide) (by unfold SummarizedL SummarizedL SummarizedL; exact ⟨hm, hl, trivial⟩)
  exact node_summarized _ _ _ _ (by unfold NodeOK; decide) (by unfold SummarizedL SummarizedL SummarizedL SummarizedL; exact ⟨hl, hh, hl, trivial⟩)
theorem zwRoot_shape : shapeOK none zwRoot.t = true := by decide


example : nodeAt C02.demoLang zwRoot [1, 0] = some zwMRef := rfl
example : zwMRef.startByte = zwMRef.endByte ∧ zwMRef.t.totalBytes = 0 := by decide

/-- All hypotheses of the two sibling theorems (and of `parent_spec_empty`) hold for the MISSING node
`m` along the path `[1, 0]` from its parent (the root), and the theorems compute: its next sibling
is the leaf `c` that follows it inside the hidden `h`, its previous sibling the leaf `a` before `h`
(which ends exactly where `m` lies: `ts_subtree_has_trailing_empty_descendant(a, m)` is false). -/
example : (nextSiblingPort C02.demoLang 8 zwRoot zwMRef true).map (fun r => (r.t, r.alias)) = some (cwLeaf, 0) := by
  rw [next_sibling_spec_empty C02.demoLang 8 zwRoot zwMRef zwRoot [1, 0] none
    (parent_spec_empty C02.demoLang 8 zwRoot zwMRef [1, 0] none (by simp) (by simp) zwRoot_summarized zwRoot_shape rfl
      (by decide) (by decide) (by decide) (by decide))
    (by simp) (by decide) zwRoot_summarized zwRoot_shape rfl (by decide) (by decide) (by decide) (by decide)]
  rfl
example : (prevSiblingPort C02.demoLang 8 zwRoot zwMRef true).map (fun r => (r.t, r.alias)) = some (cwLeaf, 0) := by
  rw [prev_sibling_spec_general C02.demoLang 8 zwRoot zwMRef zwRoot [1, 0] none
    (parent_spec_empty C02.demoLang 8 zwRoot zwMRef [1, 0] none (by simp) (by simp) zwRoot_summarized zwRoot_shape rfl
      (by decide) (by decide) (by decide) (by decide))
    (by simp) (by decide) zwRoot_summarized zwRoot_shape rfl (by decide) (by decide)]
  rfl
example : nsZwOK C02.demoLang zwMRef zwRoot [1, 0] = true ∧ psZwOK C02.demoLang 8 zwMRef zwRoot [1, 0] = true := by decide
example : laterOnPath C02.demoLang zwRoot [1, 0] = [(cwLeaf, 0), (cwLeaf, 0)] ∧ earlierOnPath C02.demoLang zwRoot [1, 0] = [(cwLeaf, 0)] := ⟨rfl, rfl⟩
/-- `psZwOK` is a real restriction: for the hidden `h` REBUILT so that `m` is its LAST child (`[c, m]`),
`h` ends where `m` lies and the test on `h` must be TRUE; below a second hidden level whose path child
is non-empty it is false (`ts_subtree_has_trailing_empty_descendant` stops at the first non-empty child
from the right), and the theorem does not apply. -/
example : hasTrailingEmptyDescendant 8 (C02.newNode C02.demoLang 3 [cwLeaf, zwM] 0) zwM = true ∧
    hasTrailingEmptyDescendant 8 (C02.newNode C02.demoLang 3 [C02.newNode C02.demoLang 3 [cwLeaf, zwM] 0] 0) zwM = false := by decide

end TsVerif.C06
