import TsVerif.C06.Model
/-!
# C06 — port of `ts_node__child` (node.c) over dumped subtrees

`NodeChildIterator` walks the raw children of a node keeping the position and the structural
index; `ts_node__child` counts relevant children, and when the wanted index falls inside a hidden
child it *descends* using the cached `visible_child_count` / `named_child_count` of that child.
The outer `while (did_descend)` loop is the recursion `nodeChild → nodeChildKids → nodeChild`.
A result is the raw subtree, the alias it gets from its parent, its slot id and its start position.
-/
namespace TsVerif.C06
open TsGen TsVerif TsVerif.C02

structure NodeRef where
  t : Tree
  alias : Nat
  id : Nat
  start : Length
  deriving Inhabited

/-- `ts_node__is_relevant`. -/
def isRelevant (lang : Lang) (c : Tree) (al : Nat) (includeAnonymous : Bool) : Bool :=
  if includeAnonymous then c.data.visible || al != 0
  else if al != 0 then (lang.symMeta al).named
  else c.data.visible && c.data.named

/-- `ts_node__relevant_child_count`. -/
def relevantChildCount (c : Tree) (includeAnonymous : Bool) : Nat :=
  if c.kids.length > 0 then (if includeAnonymous then c.data.visibleChildCount else c.data.namedChildCount) else 0

mutual
  /-- `ts_node__child(self, child_index, include_anonymous)`; `start` = the node's start position. -/
  def nodeChild (lang : Lang) (anon : Bool) : Tree → Length → Nat → Option NodeRef
    | .mk d kids, start, i => nodeChildKids lang anon d.productionId d.addr kids.length kids start 0 0 i
  /-- The iteration over the raw children; `pos` is `iterator.position` (end of the previous
  child, or the node's start for the first), `k` the raw child index, `i` what is left of
  `child_index` after subtracting the relevant nodes already passed. -/
  def nodeChildKids (lang : Lang) (anon : Bool) (pid parentAddr n : Nat) :
      List Tree → Length → Nat → Nat → Nat → Option NodeRef
    | [], _, _, _, _ => none
    | c :: rest, pos, si, k, i =>
      let al := if c.data.extra then 0 else lang.aliasAt pid si
      let si' := if c.data.extra then si else si + 1
      let cstart := if k > 0 then length_add pos c.data.padding else pos
      let pos' := length_add cstart c.data.size
      if isRelevant lang c al anon then
        if i = 0 then some { t := c, alias := al, id := slotId parentAddr n k, start := cstart }
        else nodeChildKids lang anon pid parentAddr n rest pos' si' (k + 1) (i - 1)
      else
        let gc := relevantChildCount c anon
        if i < gc then nodeChild lang anon c cstart i
        else nodeChildKids lang anon pid parentAddr n rest pos' si' (k + 1) (i - gc)
end

mutual
  /-- Hypothesis of `named_child_spec`: a visible (or aliased) node that is NOT named has no
  children.  (`ts_node__child(…, include_anonymous = false)` would otherwise descend into such a
  node through its `named_child_count` and return a grandchild.)  Evaluated on every real tree. -/
  def anonLeafOK (lang : Lang) : Tree → Nat → Bool
    | .mk d kids, al =>
      (if (d.visible || al != 0) && !(if al != 0 then (lang.symMeta al).named else d.named) then kids.isEmpty else true) &&
        anonLeafOKKids lang kids d.productionId 0
  def anonLeafOKKids (lang : Lang) : List Tree → Nat → Nat → Bool
    | [], _, _ => true
    | c :: rest, pid, si =>
      anonLeafOK lang c (if c.data.extra then 0 else lang.aliasAt pid si) &&
        anonLeafOKKids lang rest pid (if c.data.extra then si else si + 1)
end

end TsVerif.C06
