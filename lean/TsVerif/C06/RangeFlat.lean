import TsVerif.C06.CursorFcb
/-!
# C06 — the NAMED `FT` link of the byte-range search

`descendant_for_byte_range_ft_spec` (FlatProps.lean) identifies the port of `ts_node_descendant_for_byte_range`
with `FT.descendantForBytes … false`.  The named function follows the SAME chain of nodes and differs only in which
node of the chain it remembers (`last`); this file redoes the three steps (`FT` search = search on `TSNode`s = plain
raw search `dfrIdealA`) for either flag: `named_descendant_for_byte_range_ft_spec`.
-/
namespace TsVerif.C06
open TsGen TsVerif TsVerif.C02

/-- A node that is not relevant at all (hidden, not aliased) is not relevant for the named flag either. -/
theorem rel_of_hidden (lang : Lang) (anon : Bool) (r : NodeRef) (h : r.relevant lang true = false) : r.relevant lang anon = false := by
  cases anon with
  | true => exact h
  | false =>
    simp only [NodeRef.relevant, isRelevant, if_true, Bool.or_eq_false_iff] at h
    obtain ⟨h1, h2⟩ := h
    simp [NodeRef.relevant, isRelevant, h1, h2]

/-- The search on `TSNode`s for either flag: among the visible children take the first that ends at or after
`re`; stop if it starts after `rs`, otherwise go on inside it, remembering it if it counts. -/
def vgoA (lang : Lang) (anon : Bool) (rs re : Nat) : Nat → NodeRef → NodeRef → NodeRef
  | 0, _, last => last
  | f + 1, self, last =>
    match (enumRefs lang self.t self.start).find? (fun r => decide (r.endByte ≥ re)) with
    | none => last
    | some r => if rs < r.startByte then last else vgoA lang anon rs re f r (if r.relevant lang anon then r else last)

/-- `dfrIdealA` does not depend on the fuel once it covers the raw subtree. -/
theorem dfrIdealA_fuel (lang : Lang) (anon : Bool) (rs re : Nat) : ∀ (n : Nat) (node : NodeRef), node.t.size ≤ n → ∀ (f1 f2 : Nat) (last : NodeRef),
    node.t.size ≤ f1 → node.t.size ≤ f2 → dfrIdealA lang anon rs re f1 node last = dfrIdealA lang anon rs re f2 node last
  | 0, node, hn, _, _, _, _, _ => by have := tree_size_pos node.t; omega
  | n + 1, node, hn, f1, f2, last, h1, h2 => by
    have hpos := tree_size_pos node.t
    obtain ⟨f1', rfl⟩ : ∃ x, f1 = x + 1 := ⟨f1 - 1, by omega⟩
    obtain ⟨f2', rfl⟩ : ∃ x, f2 = x + 1 := ⟨f2 - 1, by omega⟩
    simp only [dfrIdealA]
    cases hf : (rawChildren lang node).find? (spans rs re) with
    | none => rfl
    | some rc =>
      have := raw_child_size lang node rc (find_some_mem _ _ _ hf).1
      exact dfrIdealA_fuel lang anon rs re n rc.node (by omega) f1' f2' _ (by omega) (by omega)

def dfrLA (lang : Lang) (anon : Bool) (rs re f : Nat) (last : NodeRef) (raws : List RawChild) : NodeRef :=
  match raws.find? (spans rs re) with
  | none => last
  | some rc => dfrIdealA lang anon rs re f rc.node (if rc.node.relevant lang anon then rc.node else last)
def dfrRA (lang : Lang) (anon : Bool) (rs re : Nat) (last : NodeRef) (refs : List NodeRef) : NodeRef :=
  match refs.find? (fun r => decide (r.endByte ≥ re)) with
  | none => last
  | some r => if rs < r.startByte then last else dfrIdealA lang anon rs re r.t.size r (if r.relevant lang anon then r else last)

theorem dfrLA_cons (lang : Lang) (anon : Bool) (rs re f : Nat) (last : NodeRef) (rc : RawChild) (raws : List RawChild) :
    dfrLA lang anon rs re f last (rc :: raws) =
      if spans rs re rc then dfrIdealA lang anon rs re f rc.node (if rc.node.relevant lang anon then rc.node else last)
      else dfrLA lang anon rs re f last raws := by
  simp only [dfrLA, List.find?_cons]
  cases spans rs re rc <;> rfl

theorem dfrRA_append (lang : Lang) (anon : Bool) (rs re : Nat) (last : NodeRef) (a b : List NodeRef) :
    dfrRA lang anon rs re last (a ++ b) =
      match a.find? (fun r => decide (r.endByte ≥ re)) with
      | none => dfrRA lang anon rs re last b
      | some r => if rs < r.startByte then last else dfrIdealA lang anon rs re r.t.size r (if r.relevant lang anon then r else last) := by
  simp only [dfrRA, find_append_or]
  cases a.find? (fun r => decide (r.endByte ≥ re)) <;> rfl

theorem dfrLA_none (lang : Lang) (anon : Bool) (rs re f : Nat) (last : NodeRef) (raws : List RawChild)
    (h : ∀ rc ∈ raws, rs < rc.node.startByte) : dfrLA lang anon rs re f last raws = last := by
  have : raws.find? (spans rs re) = none := by
    apply find_none_of_all
    intro x hx
    have := h x hx
    simp only [spans, Bool.and_eq_false_iff, decide_eq_false_iff_not]
    left; omega
  simp [dfrLA, this]

theorem dfrRA_after (lang : Lang) (anon : Bool) (rs re : Nat) (last : NodeRef) (refs : List NodeRef)
    (h : ∀ r ∈ refs, rs < r.startByte) : dfrRA lang anon rs re last refs = last := by
  unfold dfrRA
  cases hf : refs.find? (fun r => decide (r.endByte ≥ re)) with
  | none => rfl
  | some r =>
    have := h r (find_some_mem _ _ _ hf).1
    simp [this]

theorem dfr_stepA (lang : Lang) (anon : Bool) (rs re f : Nat) (hr : rs < re) (last : NodeRef) (rc : RawChild) (raws : List RawChild)
    (cpart refs : List NodeRef) (hpa : rc.posAfter.bytes = rc.node.endByte)
    (hX : if rc.node.relevant lang true then
            cpart = [rc.node] ∧ ∀ l, dfrIdealA lang anon rs re f rc.node l = dfrIdealA lang anon rs re rc.node.t.size rc.node l
          else dfrIdealA lang anon rs re f rc.node last = dfrRA lang anon rs re last cpart)
    (hIH : dfrLA lang anon rs re f last raws = dfrRA lang anon rs re last refs)
    (hF1 : ∀ r ∈ refs, rc.node.endByte ≤ r.startByte)
    (hF2 : ∀ r ∈ cpart, rc.node.startByte ≤ r.startByte ∧ r.endByte ≤ rc.node.endByte)
    (hF3 : ∀ x ∈ raws, rc.node.endByte ≤ x.node.startByte) :
    dfrLA lang anon rs re f last (rc :: raws) = dfrRA lang anon rs re last (cpart ++ refs) := by
  rw [dfrLA_cons, dfrRA_append]
  by_cases hsp : spans rs re rc = true
  · simp only [hsp, if_true]
    simp only [spans, Bool.and_eq_true, decide_eq_true_eq] at hsp
    by_cases hrel : rc.node.relevant lang true = true
    · simp only [hrel, if_true] at hX
      rw [hX.1]
      have h1 : decide (rc.node.endByte ≥ re) = true := by simp; omega
      have h2 : ¬ (rs < rc.node.startByte) := by omega
      simp only [List.find?_cons, h1, h2, if_false]
      exact hX.2 _
    · have hrel' : rc.node.relevant lang true = false := by simpa using hrel
      simp only [hrel', if_false, Bool.false_eq_true] at hX
      rw [rel_of_hidden lang anon rc.node hrel']
      simp only [Bool.false_eq_true, if_false]
      rw [hX]
      unfold dfrRA
      cases hf : cpart.find? (fun r => decide (r.endByte ≥ re)) with
      | some r => rfl
      | none =>
        simp only
        have := dfrRA_after lang anon rs re last refs (fun r hr' => by have := hF1 r hr'; omega)
        unfold dfrRA at this
        exact this.symm
  · have hsp' : spans rs re rc = false := by simpa using hsp
    simp only [hsp', Bool.false_eq_true, if_false]
    simp only [spans, Bool.and_eq_false_iff, decide_eq_false_iff_not] at hsp'
    by_cases hend : rc.node.endByte < re
    · have hnone : cpart.find? (fun r => decide (r.endByte ≥ re)) = none := by
        apply find_none_of_all
        intro r hr'
        have := (hF2 r hr').2
        simp; omega
      rw [hnone]
      exact hIH
    · have hst : rs < rc.node.startByte := by
        rcases hsp' with h | h
        · omega
        · omega
      rw [dfrLA_none lang anon rs re f last raws (fun x hx => by have := hF3 x hx; omega)]
      cases hf : cpart.find? (fun r => decide (r.endByte ≥ re)) with
      | some r =>
        have := (hF2 r (find_some_mem _ _ _ hf).1).1
        have hlt : rs < r.startByte := by omega
        simp [hlt]
      | none =>
        simp only
        exact (dfrRA_after lang anon rs re last refs (fun r hr' => by have := hF1 r hr'; omega)).symm

mutual
  theorem dfrHA (lang : Lang) (anon : Bool) (rs re : Nat) (hr : rs < re) : ∀ (t : Tree) (al id : Nat) (start : Length) (last : NodeRef) (f : Nat),
      t.size ≤ f → Sized t →
      dfrIdealA lang anon rs re f ⟨t, al, id, start⟩ last = dfrRA lang anon rs re last (enumRefs lang t start)
    | .mk d kids, al, id, start, last, f, hf, hs => by
      obtain ⟨f', rfl⟩ : ∃ x, f = x + 1 := ⟨f - 1, by simp only [Tree.size] at hf; omega⟩
      unfold Sized at hs
      simp only [Tree.size] at hf
      have := dfrHLA lang anon rs re hr kids ⟨.mk d kids, al, id, start⟩ d.productionId kids.length start 0 0 last f' (by omega) hs.2
      unfold enumRefs
      simp only [data_mk] at this
      rw [← this]
      rfl
  theorem dfrHLA (lang : Lang) (anon : Bool) (rs re : Nat) (hr : rs < re) : ∀ (kids : List Tree) (n : NodeRef) (pid nk : Nat) (pos : Length) (si k : Nat)
      (last : NodeRef) (f : Nat), Tree.sizeList kids ≤ f → SizedL kids →
      dfrLA lang anon rs re f last (rawChildren.go lang n pid nk kids pos si k) =
        dfrRA lang anon rs re last (enumRefsKids lang pid n.t.data.addr nk kids pos si k)
    | [], _, _, _, _, _, _, _, _, _, _ => by simp [rawChildren.go, enumRefsKids, dfrLA, dfrRA]
    | c :: rest, n, pid, nk, pos, si, k, last, f, hf, hs => by
      unfold SizedL at hs
      simp only [Tree.sizeList] at hf
      rw [go_getElem_zero]
      unfold enumRefsKids
      simp only
      have hF1 := enumRefsKids_props lang pid n.t.data.addr nk rest
        (length_add (if k > 0 then length_add pos c.data.padding else pos) c.data.size) (if c.data.extra then si else si + 1) (k + 1) hs.2
      have hF3 := startsFrom_ge _ _ (go_startsFrom lang n pid nk rest
        (length_add (if k > 0 then length_add pos c.data.padding else pos) c.data.size) (if c.data.extra then si else si + 1) (k + 1))
      have ih := dfrHLA lang anon rs re hr rest n pid nk (length_add (if k > 0 then length_add pos c.data.padding else pos) c.data.size)
        (if c.data.extra then si else si + 1) (k + 1) last f (by omega) hs.2
      generalize (if k > 0 then length_add pos c.data.padding else pos) = cstart at hF1 hF3 ih ⊢
      generalize (if c.data.extra = true then 0 else lang.aliasAt pid si) = al
      generalize (if c.data.extra = true then si else si + 1) = si' at hF1 hF3 ih ⊢
      refine dfr_stepA lang anon rs re f hr last _ _ _ _ (by simp [NodeRef.endByte, length_add_bytes]) ?_ ih ?_ ?_ ?_
      · simp only
        by_cases hrel : ({ t := c, alias := al, id := slotId n.t.data.addr nk k, start := cstart } : NodeRef).relevant lang true = true
        · simp only [hrel, if_true, true_and]
          intro l
          exact dfrIdealA_fuel lang anon rs re c.size _ (Nat.le_refl _) f c.size _ (by simp; omega) (Nat.le_refl _)
        · simp only [hrel, if_false, Bool.false_eq_true]
          exact dfrHA lang anon rs re hr c al _ cstart last f (by omega) hs.1
      · intro r hr'
        have := (hF1 r hr').1
        simp only [NodeRef.endByte, length_add_bytes] at this ⊢
        exact this
      · intro r hr'
        by_cases hrel : ({ t := c, alias := al, id := slotId n.t.data.addr nk k, start := cstart } : NodeRef).relevant lang true = true
        · simp only [hrel, if_true, List.mem_singleton] at hr'
          subst hr'
          exact ⟨Nat.le_refl _, Nat.le_refl _⟩
        · simp only [hrel, if_false, Bool.false_eq_true] at hr'
          have h1 := (enumRefs_props lang c cstart hs.1 r hr').1
          have h2 := enumRefs_within lang c cstart hs.1 r hr'
          simp only [NodeRef.startByte, NodeRef.endByte] at h1 h2 ⊢
          exact ⟨h1, h2⟩
      · intro x hx
        have := hF3 x hx
        simp only [NodeRef.endByte, length_add_bytes] at this ⊢
        exact this
end

theorem vgoA_eq_dfr (lang : Lang) (anon : Bool) (rs re : Nat) (hr : rs < re) : ∀ (m : Nat) (self last : NodeRef) (F : Nat),
    self.t.size ≤ m → self.t.size ≤ F → Sized self.t → vgoA lang anon rs re F self last = dfrIdealA lang anon rs re F self last
  | 0, self, _, _, hm, _, _ => by have := tree_size_pos self.t; omega
  | m + 1, self, last, F, hm, hF, hs => by
    have hpos := tree_size_pos self.t
    obtain ⟨F', rfl⟩ : ∃ x, F = x + 1 := ⟨F - 1, by omega⟩
    obtain ⟨t, al, id, start⟩ := self
    rw [dfrHA lang anon rs re hr t al id start last (F' + 1) hF hs, vgoA]
    unfold dfrRA
    simp only
    cases hf : (enumRefs lang t start).find? (fun r => decide (r.endByte ≥ re)) with
    | none => rfl
    | some r =>
      simp only
      by_cases hlt : rs < r.startByte
      · simp [hlt]
      · simp only [hlt, if_false]
        have hp := enumRefs_props lang t start hs r (find_some_mem _ _ _ hf).1
        simp only at hm hF
        rw [vgoA_eq_dfr lang anon rs re hr m r _ F' (by omega) (by omega) hp.2.2]
        exact dfrIdealA_fuel lang anon rs re r.t.size r (Nat.le_refl _) F' r.t.size _ (by omega) (Nat.le_refl _)

/-! ## The `FT` side for either flag -/

mutual
  theorem enumRefs_relevant (lang : Lang) : ∀ (t : Tree) (start : Length), ∀ r ∈ enumRefs lang t start, r.relevant lang true = true
    | .mk d kids, start, r, hr => by
      unfold enumRefs at hr
      exact enumRefsKids_relevant lang d.productionId d.addr kids.length kids start 0 0 r hr
  theorem enumRefsKids_relevant (lang : Lang) (pid addr nk : Nat) : ∀ (kids : List Tree) (pos : Length) (si k : Nat),
      ∀ r ∈ enumRefsKids lang pid addr nk kids pos si k, r.relevant lang true = true
    | [], _, _, _, r, hr => by simp [enumRefsKids] at hr
    | c :: rest, pos, si, k, r, hr => by
      unfold enumRefsKids at hr
      simp only [List.mem_append] at hr
      generalize (if k > 0 then length_add pos c.data.padding else pos) = cstart at hr
      generalize (if c.data.extra = true then 0 else lang.aliasAt pid si) = al at hr
      rcases hr with hr | hr
      · by_cases hrel : ({ t := c, alias := al, id := slotId addr nk k, start := cstart } : NodeRef).relevant lang true = true
        · simp only [hrel, if_true, List.mem_singleton] at hr
          subst hr; exact hrel
        · simp only [hrel, if_false, Bool.false_eq_true] at hr
          exact enumRefs_relevant lang c cstart r hr
      · exact enumRefsKids_relevant lang pid addr nk rest _ _ _ r hr
end

/-- For a visible (or aliased) node, counting for the flag = "anonymous allowed, or named". -/
theorem rel_anon_of_rel (lang : Lang) (anon : Bool) (r : NodeRef) (h : r.relevant lang true = true) :
    r.relevant lang anon = (anon || entryNamed lang (r.t, r.alias)) := by
  cases anon with
  | true => simp [h]
  | false =>
    simp only [NodeRef.relevant, isRelevant, if_true, Bool.or_eq_true] at h
    simp only [NodeRef.relevant, isRelevant, Bool.false_eq_true, if_false, Bool.false_or, entryNamed]
    by_cases h0 : (r.alias != 0) = true
    · simp [h0]
    · have h0' : (r.alias != 0) = false := by simpa using h0
      simp only [h0', Bool.false_eq_true, if_false]
      rcases h with h | h
      · simp [h]
      · rw [h0'] at h; simp at h

/-- One step of the `FT` search (either flag) at a good node, in terms of `enumRefs`. -/
theorem ftgo_stepA (lang : Lang) (ft : FT) (nm : Bool) (rs re : Nat) (hr : rs < re) (info : VInfo) (kids : List VTree) (k : Nat)
    (par : Option Nat) (dep : Nat) (hg : GoodAt ft.toList (.mk info kids) k par dep) (hq : QQ lang (.mk info kids)) (f last : Nat) :
    (∃ c vi vk, FT.descendantForBytes.go ft rs re nm (f + 1) k last =
          FT.descendantForBytes.go ft rs re nm f c (if !nm || ft.named c then c else last) ∧
        GoodAt ft.toList (.mk vi vk) c (some k) (dep + 1) ∧ QQ lang (.mk vi vk) ∧ (.mk vi vk) ∈ kids ∧
        (enumRefs lang info.raw info.start).find? (fun r => decide (r.endByte ≥ re)) = some (refOf vi) ∧ ¬ (rs < (refOf vi).startByte)) ∨
    (FT.descendantForBytes.go ft rs re nm (f + 1) k last = last ∧
      (match (enumRefs lang info.raw info.start).find? (fun r => decide (r.endByte ≥ re)) with
       | none => True
       | some r => rs < r.startByte)) := by
  obtain ⟨hrefs, hpos⟩ := ft_kids_refs lang ft info kids k par dep hg hq
  rw [ftgo_succ]
  have hpred : (ft.kidsOf k).find? (fun c => decide (ft.eb c ≥ re) && (if ft.sb c == ft.eb c then decide (ft.eb c ≥ rs) else decide (ft.eb c > rs))) =
      (ft.kidsOf k).find? (fun c => decide (ft.eb c ≥ re)) := by
    apply find_congr_mem
    intro x _
    by_cases h1 : ft.eb x ≥ re
    · have h2 : ft.eb x ≥ rs := by omega
      have h3 : ft.eb x > rs := by omega
      simp [h1, h2, h3]
    · simp [h1]
  rw [hpred]
  have hmap := find_map_refs' (fun j => refOf (ft.node j).info) ft.eb (fun x => decide (x ≥ re)) (ft.kidsOf k) (fun j hj => (hpos j hj).1)
  rw [hrefs] at hmap
  cases hf : (ft.kidsOf k).find? (fun c => decide (ft.eb c ≥ re)) with
  | none =>
    rw [hf] at hmap
    simp only [Option.map_none] at hmap
    right
    rw [← hmap]
    exact ⟨rfl, trivial⟩
  | some c =>
    rw [hf] at hmap
    simp only [Option.map_some] at hmap
    obtain ⟨hcm, _⟩ := find_some_mem _ _ _ hf
    have hsb := (hpos c hcm).2
    obtain ⟨m, hm⟩ := List.mem_iff_getElem?.mp hcm
    have hlen : m < kids.length := by
      have := lt_of_getElem?_some _ _ _ hm
      rw [ft_kidsOf ft info kids k par dep hg, kidIdxFrom_length] at this
      exact this
    obtain ⟨kj, h1, h2, _, _, _⟩ := ft_child_spec ft info kids k par dep m kids[m] hg (List.getElem?_eq_getElem hlen)
    rw [hm] at h1
    simp only [Option.some.injEq] at h1
    subst h1
    cases hv : kids[m] with
    | mk vi vk =>
      rw [hv] at h2
      have hci : (ft.node c).info = vi := by rw [good_node ft vi vk c (some k) (dep + 1) h2]
      have hmem : VTree.mk vi vk ∈ kids := by rw [← hv]; exact List.getElem_mem hlen
      by_cases hlt : rs < ft.sb c
      · right
        simp only [hlt, if_true, ← hmap, true_and]
        rw [hsb] at hlt
        exact hlt
      · left
        refine ⟨c, vi, vk, by simp [hlt], h2, qq_kids lang info kids hq _ hmem, hmem, ?_, ?_⟩
        · rw [← hmap, hci]
        · rw [hsb, hci] at hlt; exact hlt

theorem ftgo_fuelA (lang : Lang) (ft : FT) (nm : Bool) (rs re : Nat) : ∀ (n : Nat) (info : VInfo) (kids : List VTree) (k : Nat)
    (par : Option Nat) (dep : Nat), GoodAt ft.toList (.mk info kids) k par dep → vsize (.mk info kids) ≤ n →
    ∀ (f1 f2 last : Nat), vsize (.mk info kids) ≤ f1 → vsize (.mk info kids) ≤ f2 →
    FT.descendantForBytes.go ft rs re nm f1 k last = FT.descendantForBytes.go ft rs re nm f2 k last
  | 0, info, kids, _, _, _, _, hn, _, _, _, _, _ => by have := vsize_pos (.mk info kids); omega
  | n + 1, info, kids, k, par, dep, hg, hn, f1, f2, last, h1, h2 => by
    have hpos := vsize_pos (.mk info kids)
    obtain ⟨f1', rfl⟩ : ∃ x, f1 = x + 1 := ⟨f1 - 1, by omega⟩
    obtain ⟨f2', rfl⟩ : ∃ x, f2 = x + 1 := ⟨f2 - 1, by omega⟩
    have hvs : vsize (.mk info kids) = 1 + vsizeL kids := by rw [vsize]
    rw [ftgo_succ, ftgo_succ]
    cases hf : (ft.kidsOf k).find? (fun c => decide (ft.eb c ≥ re) && (if ft.sb c == ft.eb c then decide (ft.eb c ≥ rs) else decide (ft.eb c > rs))) with
    | none => rfl
    | some cc =>
      simp only
      by_cases hlt : rs < ft.sb cc
      · simp [hlt]
      · simp only [hlt, if_false]
        obtain ⟨hcm, _⟩ := find_some_mem _ _ _ hf
        obtain ⟨m, hm⟩ := List.mem_iff_getElem?.mp hcm
        have hlen : m < kids.length := by
          have := lt_of_getElem?_some _ _ _ hm
          rw [ft_kidsOf ft info kids k par dep hg, kidIdxFrom_length] at this
          exact this
        obtain ⟨kj, h1', h2', _, _, _⟩ := ft_child_spec ft info kids k par dep m kids[m] hg (List.getElem?_eq_getElem hlen)
        rw [hm] at h1'
        simp only [Option.some.injEq] at h1'
        subst h1'
        cases hv : kids[m] with
        | mk wi wk =>
          rw [hv] at h2'
          have hmem' : VTree.mk wi wk ∈ kids := by rw [← hv]; exact List.getElem_mem hlen
          have := vsizeL_mem kids _ hmem'
          exact ftgo_fuelA lang ft nm rs re n wi wk cc (some k) (dep + 1) h2' (by omega) f1' f2' _ (by omega) (by omega)

/-- `flatten` records the named-ness the flag tests. -/
theorem kid_named (lang : Lang) (info : VInfo) (kids : List VTree) (hq : QQ lang (.mk info kids)) (vi : VInfo) (vk : List VTree)
    (hmem : VTree.mk vi vk ∈ kids) : vi.named = entryNamed lang (vi.raw, vi.alias) := by
  obtain ⟨⟨pos, _, _, hk⟩, _, _⟩ := hq
  simp only [VTree.kids, VTree.info] at hk
  rw [hk] at hmem
  exact flattenKids_named lang _ _ _ _ _ _ _ _ _ hmem

theorem ftgo_eq_vgoA (lang : Lang) (ft : FT) (nm : Bool) (rs re : Nat) (hr : rs < re) : ∀ (f : Nat) (info : VInfo) (kids : List VTree) (k : Nat)
    (par : Option Nat) (dep : Nat), GoodAt ft.toList (.mk info kids) k par dep → QQ lang (.mk info kids) → ∀ (last : Nat),
    refOf (ft.node (FT.descendantForBytes.go ft rs re nm f k last)).info =
      vgoA lang (!nm) rs re f (refOf info) (refOf (ft.node last).info)
  | 0, _, _, _, _, _, _, _, _ => by rw [FT.descendantForBytes.go, vgoA]
  | f + 1, info, kids, k, par, dep, hg, hq, last => by
    rw [vgoA]
    rcases ftgo_stepA lang ft nm rs re hr info kids k par dep hg hq f last with ⟨c, vi, vk, e1, hgc, hqc, hmem, hfind, hnl⟩ | ⟨e1, hx⟩
    · have hf' : (enumRefs lang (refOf info).t (refOf info).start).find? (fun r => decide (r.endByte ≥ re)) = some (refOf vi) := hfind
      rw [e1, hf']
      simp only [hnl, if_false]
      have hnode := good_node ft vi vk c (some k) (dep + 1) hgc
      have hnamed : ft.named c = entryNamed lang ((refOf vi).t, (refOf vi).alias) := by
        simp only [FT.named, hnode, refOf]
        exact kid_named lang info kids hq vi vk hmem
      have hrelT : (refOf vi).relevant lang true = true :=
        enumRefs_relevant lang info.raw info.start _ (find_some_mem _ _ _ hfind).1
      have hkeep : (refOf vi).relevant lang (!nm) = (!nm || ft.named c) := by
        rw [rel_anon_of_rel lang (!nm) (refOf vi) hrelT, hnamed]
      rw [hkeep]
      have := ftgo_eq_vgoA lang ft nm rs re hr f vi vk c (some k) (dep + 1) hgc hqc (if (!nm || ft.named c) = true then c else last)
      rw [this]
      by_cases hk : (!nm || ft.named c) = true
      · simp only [hk, if_true, hnode]
      · simp only [hk, if_false, Bool.false_eq_true]
    · rw [e1]
      cases hfd : (enumRefs lang info.raw info.start).find? (fun r => decide (r.endByte ≥ re)) with
      | none =>
        have hf' : (enumRefs lang (refOf info).t (refOf info).start).find? (fun r => decide (r.endByte ≥ re)) = none := hfd
        rw [hf']
      | some r =>
        have hf' : (enumRefs lang (refOf info).t (refOf info).start).find? (fun r => decide (r.endByte ≥ re)) = some r := hfd
        rw [hfd] at hx
        simp only at hx
        rw [hf']
        simp [hx]

/-- **named_descendant_for_byte_range_ft_spec.**  For either flag (`nm = true`: the NAMED function), root summarized
and parser-shaped, `ft` the preorder array of `flatten`, a NON-EMPTY byte range and fuel covering the raw tree: the
port of `ts_node_(named_)descendant_for_byte_range(root, rs, re)` returns exactly the `TSNode` of the entry
`FT.descendantForBytes 0 rs re nm` designates.  (`nm = false` is `descendant_for_byte_range_ft_spec`.) -/
theorem named_descendant_for_byte_range_ft_spec (lang : Lang) (nm : Bool) (root : Tree) (rootId : Nat) (ps : Option Nat) (fuel rs re : Nat)
    (hs : Summarized lang root) (hsh : shapeOK ps root = true) (hr : rs < re) :
    let ft : FT := flatOf (flatten lang root rootId)
    root.size ≤ fuel →
    descendantForByteRangePort lang fuel (refOf (ft.node 0).info) rs re (!nm) =
      (ft.descendantForBytes 0 rs re nm).map (fun j => refOf (ft.node j).info) := by
  intro ft hfuel
  have hg0 := flatOf_good (flatten lang root rootId)
  have hq0 := flatten_qq lang root rootId ps hs hsh
  have hraw := (flatten_hered lang root rootId).2
  have hsize := flatOf_size (flatten lang root rootId)
  cases hv : flatten lang root rootId with
  | mk info kids =>
    rw [hv] at hg0 hq0 hraw hsize
    have hfte : ft = flatOf (VTree.mk info kids) := by simp only [ft, hv]
    rw [← hfte] at hg0 hsize
    simp only [VTree.info] at hraw
    have hnode : (ft.node 0).info = info := by rw [good_node ft info kids 0 none 0 hg0]
    rw [hnode, descendant_for_byte_range_spec_anon lang fuel (refOf info) rs re (!nm) hr]
    have hng : ¬ (rs > re) := by omega
    simp only [FT.descendantForBytes, hng, if_false, Option.map_some, Option.some.injEq]
    have hsz : Sized root := sized_of_summarized lang root hs
    have hft : Array.size ft = vsize (.mk info kids) := hsize
    rw [ftgo_fuelA lang ft nm rs re (vsize (.mk info kids)) info kids 0 none 0 hg0 (Nat.le_refl _) (Array.size ft) (Array.size ft + root.size) 0
      (by omega) (by omega)]
    rw [ftgo_eq_vgoA lang ft nm rs re hr _ info kids 0 none 0 hg0 hq0 0, hnode]
    have hrt : (refOf info).t = root := hraw
    rw [vgoA_eq_dfr lang (!nm) rs re hr root.size (refOf info) (refOf info) _ (by rw [hrt]; exact Nat.le_refl _) (by rw [hrt]; omega) (by rw [hrt]; exact hsz)]
    exact dfrIdealA_fuel lang (!nm) rs re root.size (refOf info) (by rw [hrt]; exact Nat.le_refl _) _ _ _ (by rw [hrt]; omega) (by rw [hrt]; omega)

/-- Non-vacuity: the hypotheses hold on the demo tree (named flag, range [1, 2]). -/
example := named_descendant_for_byte_range_ft_spec C02.demoLang true pvRoot.t pvRoot.id none 8 1 2 pvRoot_summarized pvRoot_shape (by decide) (by decide)

end TsVerif.C06
