import TsVerif.C06.Props
import TsVerif.C06.CursorProps
#print axioms TsVerif.C06.child_spec
#print axioms TsVerif.C06.flattenKids_length
#print axioms TsVerif.C06.child_count_spec
#print axioms TsVerif.C06.iterPrev_int8_stops
#print axioms TsVerif.C06.iterPrev_fixed_steps
#print axioms TsVerif.C06.iterPrev_undoes_iterNext
#print axioms TsVerif.C06.int8_witness
#print axioms TsVerif.C06.write_spec
#print axioms TsVerif.C06.sexp_spec
#print axioms TsVerif.C06.named_child_spec
#print axioms TsVerif.C06.cursor_first_child_spec
#print axioms TsVerif.C06.sibling_internal_spec
#print axioms TsVerif.C06.cursor_next_sibling_spec
#print axioms TsVerif.C06.later_siblings_split
#print axioms TsVerif.C06.cursor_next_sibling_index_spec
#print axioms TsVerif.C06.cursor_node_agree_first
#print axioms TsVerif.C06.cursor_node_agree_next
#print axioms TsVerif.C06.cursor_field_spec
#print axioms TsVerif.C06.cursor_last_child_spec
#print axioms TsVerif.C06.gotoChild_preserves_inv
#print axioms TsVerif.C06.gotoNextSibling_preserves_inv
#print axioms TsVerif.C06.descendant_index_spec
#print axioms TsVerif.C06.prevScan_spec
#print axioms TsVerif.C06.cursor_prev_sibling_spec
