import TsVerif.C06.Props
import TsVerif.C06.CursorProps
import TsVerif.C06.NodeProps
import TsVerif.C06.SiblingZw
import TsVerif.C06.NavVariants
import TsVerif.C06.FlatProps
import TsVerif.C06.FieldProps
import TsVerif.C06.SiblingNamed
import TsVerif.C06.SiblingNamedNext
import TsVerif.C06.NamedFcb
import TsVerif.C06.CursorFcb
import TsVerif.C06.FieldWitness
import TsVerif.C06.CursorParent
import TsVerif.C06.CursorFcbFlat
import TsVerif.C06.FieldNamed
import TsVerif.C06.RangeFlat
import TsVerif.C06.RangeFlatP
import TsVerif.C06.EmptyRange
import TsVerif.C06.Round11
#print axioms TsVerif.C06.child_spec
#print axioms TsVerif.C06.flattenKids_length
#print axioms TsVerif.C06.child_count_spec
#print axioms TsVerif.C06.iterPrev_int8_stops
#print axioms TsVerif.C06.iterPrev_fixed_steps
#print axioms TsVerif.C06.iterPrev_undoes_iterNext
#print axioms TsVerif.C06.int8_witness
#print axioms TsVerif.C06.write_spec
#print axioms TsVerif.C06.sexp_spec
#print axioms TsVerif.C06.named_child_spec
#print axioms TsVerif.C06.cursor_first_child_spec
#print axioms TsVerif.C06.sibling_internal_spec
#print axioms TsVerif.C06.cursor_next_sibling_spec
#print axioms TsVerif.C06.later_siblings_split
#print axioms TsVerif.C06.cursor_next_sibling_index_spec
#print axioms TsVerif.C06.cursor_node_agree_first
#print axioms TsVerif.C06.cursor_node_agree_next
#print axioms TsVerif.C06.cursor_field_spec
#print axioms TsVerif.C06.cursor_last_child_spec
#print axioms TsVerif.C06.gotoChild_preserves_inv
#print axioms TsVerif.C06.gotoNextSibling_preserves_inv
#print axioms TsVerif.C06.descendant_index_spec
#print axioms TsVerif.C06.prevScan_spec
#print axioms TsVerif.C06.cursor_prev_sibling_spec
#print axioms TsVerif.C06.gotoPreviousSibling_preserves_inv
#print axioms TsVerif.C06.goto_descendant_spec
#print axioms TsVerif.C06.flattenKids_fields
#print axioms TsVerif.C06.field_name_for_child_spec
#print axioms TsVerif.C06.raw_child_nested
#print axioms TsVerif.C06.child_with_descendant_spec_partial
#print axioms TsVerif.C06.parent_spec_partial
#print axioms TsVerif.C06.ns_descend
#print axioms TsVerif.C06.ns_levels
#print axioms TsVerif.C06.next_sibling_spec_partial
#print axioms TsVerif.C06.next_sibling_spec_from_root
#print axioms TsVerif.C06.ps_descend
#print axioms TsVerif.C06.ps_levels
#print axioms TsVerif.C06.prev_sibling_spec_partial
#print axioms TsVerif.C06.prev_sibling_spec_from_root
#print axioms TsVerif.C06.fcb_loop_some
#print axioms TsVerif.C06.first_child_for_byte_spec_partial
#print axioms TsVerif.C06.dfr_scan_eq
#print axioms TsVerif.C06.descendant_for_byte_range_spec_partial
#print axioms TsVerif.C06.enum_nonempty_of_path
#print axioms TsVerif.C06.ancestor_child_count_pos
#print axioms TsVerif.C06.path_siblings_split
#print axioms TsVerif.C06.parent_path_spec
#print axioms TsVerif.C06.node_nav_flat_spec
#print axioms TsVerif.C06.flat_children_are_enum
#print axioms TsVerif.C06.enumRefs_proj
#print axioms TsVerif.C06.fcbNode_eq_find
#print axioms TsVerif.C06.first_child_for_byte_flat_spec
#print axioms TsVerif.C06.cwd_empty_none
#print axioms TsVerif.C06.child_with_descendant_spec_empty
#print axioms TsVerif.C06.parent_spec_empty
#print axioms TsVerif.C06.psZ_descend
#print axioms TsVerif.C06.psZ_levels
#print axioms TsVerif.C06.prev_sibling_spec_general
#print axioms TsVerif.C06.nsE_descend
#print axioms TsVerif.C06.nsE_levels
#print axioms TsVerif.C06.next_sibling_spec_empty
#print axioms TsVerif.C06.node_nav_flat_spec_empty
#print axioms TsVerif.C06.descendant_for_byte_range_spec_anon
#print axioms TsVerif.C06.dfrP_scan_eq
#print axioms TsVerif.C06.descendant_for_point_range_spec_partial
#print axioms TsVerif.C06.first_child_for_byte_spec_anon
#print axioms TsVerif.C06.number_spec
#print axioms TsVerif.C06.flatOf_spec
#print axioms TsVerif.C06.flatOf_good
#print axioms TsVerif.C06.ft_child_spec
#print axioms TsVerif.C06.ft_neighbours
#print axioms TsVerif.C06.flatten_hered
#print axioms TsVerif.C06.flat_node_exists
#print axioms TsVerif.C06.nav_ft_spec
#print axioms TsVerif.C06.nav_ft_spec_empty
#print axioms TsVerif.C06.ft_all_good
#print axioms TsVerif.C06.flattenKids_refs
#print axioms TsVerif.C06.first_child_for_byte_ft_spec
#print axioms TsVerif.C06.ftgo_eq_vgo
#print axioms TsVerif.C06.dfrH
#print axioms TsVerif.C06.vgo_eq_dfr
#print axioms TsVerif.C06.descendant_for_byte_range_ft_spec
#print axioms TsVerif.C06.direct_iff
#print axioms TsVerif.C06.cbf_scan_spec
#print axioms TsVerif.C06.child_by_field_id_spec_partial
#print axioms TsVerif.C06.child_by_field_id_ft_spec
#print axioms TsVerif.C06.psZwOK_of_nonempty
#print axioms TsVerif.C06.prev_sibling_spec_of_general
#print axioms TsVerif.C06.enumKids_lastA
#print axioms TsVerif.C06.psA_descend
#print axioms TsVerif.C06.psA_levels
#print axioms TsVerif.C06.prev_sibling_spec_anon
#print axioms TsVerif.C06.enumKids_headA
#print axioms TsVerif.C06.nsA_descend
#print axioms TsVerif.C06.nsA_levels
#print axioms TsVerif.C06.next_sibling_spec_anon
#print axioms TsVerif.C06.fcbNodeA_eq_find
#print axioms TsVerif.C06.first_child_for_byte_flat_spec_anon
#print axioms TsVerif.C06.first_child_for_byte_ft_spec_anon
#print axioms TsVerif.C06.cfc_scan_spec
#print axioms TsVerif.C06.cfc_go_spec
#print axioms TsVerif.C06.cursor_first_child_for_spec
#print axioms TsVerif.C06.nest_port
#print axioms TsVerif.C06.child_by_field_id_full_false
#print axioms TsVerif.C06.goto_parent_spec
#print axioms TsVerif.C06.gotoChild_shape
#print axioms TsVerif.C06.goto_parent_undoes_child
#print axioms TsVerif.C06.gotoParent_topVisible
#print axioms TsVerif.C06.depth_spec
#print axioms TsVerif.C06.depth_child
#print axioms TsVerif.C06.depth_parent
#print axioms TsVerif.C06.gotoParent_preserves_inv
#print axioms TsVerif.C06.parentOnPath_chain
#print axioms TsVerif.C06.parentGo_chain
#print axioms TsVerif.C06.cursor_parent_is_parentOnPath
#print axioms TsVerif.C06.cursor_parent_is_parentOnPath_inv
#print axioms TsVerif.C06.next_internal_shape
#print axioms TsVerif.C06.next_sibling_keeps_parent
#print axioms TsVerif.C06.next_sibling_depth
#print axioms TsVerif.C06.enumRefs_withinL
#print axioms TsVerif.C06.cfcIdeal_flat
#print axioms TsVerif.C06.cursor_first_child_for_ft_spec
#print axioms TsVerif.C06.fn_go_spec_named
#print axioms TsVerif.C06.field_name_for_named_child_spec
#print axioms TsVerif.C06.dfrHA
#print axioms TsVerif.C06.vgoA_eq_dfr
#print axioms TsVerif.C06.ftgo_eq_vgoA
#print axioms TsVerif.C06.named_descendant_for_byte_range_ft_spec
#print axioms TsVerif.C06.dfrHP
#print axioms TsVerif.C06.vgoP_eq_dfr
#print axioms TsVerif.C06.ftgo_eq_vgoP
#print axioms TsVerif.C06.descendant_for_point_range_ft_spec
#print axioms TsVerif.C06.dfrScanE_eq
#print axioms TsVerif.C06.descendant_for_empty_byte_range_port
#print axioms TsVerif.C06.firstSelE_eq
#print axioms TsVerif.C06.dfrHE
#print axioms TsVerif.C06.emptyOK_sel
#print axioms TsVerif.C06.vgoE_eq_dfr
#print axioms TsVerif.C06.ftgo_eq_vgoE
#print axioms TsVerif.C06.descendant_for_empty_byte_range_ft_spec
#print axioms TsVerif.C06.posAfter_is_end
#print axioms TsVerif.C06.dfrPScanE_eq
#print axioms TsVerif.C06.descendant_for_empty_point_range_port
#print axioms TsVerif.C06.dfrIdealEP_boundary_partial
#print axioms TsVerif.C06.dfrIdealEP_eq_bytes
#print axioms TsVerif.C06.empty_point_range_eq_byte_range
#print axioms TsVerif.C06.descendant_for_empty_point_range_ft_spec_partial
