import TsVerif.C06.Props
import TsVerif.C06.CursorProps
import TsVerif.C06.NodeProps
#print axioms TsVerif.C06.child_spec
#print axioms TsVerif.C06.flattenKids_length
#print axioms TsVerif.C06.child_count_spec
#print axioms TsVerif.C06.iterPrev_int8_stops
#print axioms TsVerif.C06.iterPrev_fixed_steps
#print axioms TsVerif.C06.iterPrev_undoes_iterNext
#print axioms TsVerif.C06.int8_witness
#print axioms TsVerif.C06.write_spec
#print axioms TsVerif.C06.sexp_spec
#print axioms TsVerif.C06.named_child_spec
#print axioms TsVerif.C06.cursor_first_child_spec
#print axioms TsVerif.C06.sibling_internal_spec
#print axioms TsVerif.C06.cursor_next_sibling_spec
#print axioms TsVerif.C06.later_siblings_split
#print axioms TsVerif.C06.cursor_next_sibling_index_spec
#print axioms TsVerif.C06.cursor_node_agree_first
#print axioms TsVerif.C06.cursor_node_agree_next
#print axioms TsVerif.C06.cursor_field_spec
#print axioms TsVerif.C06.cursor_last_child_spec
#print axioms TsVerif.C06.gotoChild_preserves_inv
#print axioms TsVerif.C06.gotoNextSibling_preserves_inv
#print axioms TsVerif.C06.descendant_index_spec
#print axioms TsVerif.C06.prevScan_spec
#print axioms TsVerif.C06.cursor_prev_sibling_spec
#print axioms TsVerif.C06.gotoPreviousSibling_preserves_inv
#print axioms TsVerif.C06.goto_descendant_spec
#print axioms TsVerif.C06.flattenKids_fields
#print axioms TsVerif.C06.field_name_for_child_spec
#print axioms TsVerif.C06.raw_child_nested
#print axioms TsVerif.C06.child_with_descendant_spec_partial
#print axioms TsVerif.C06.parent_spec_partial
#print axioms TsVerif.C06.ns_descend
#print axioms TsVerif.C06.ns_levels
#print axioms TsVerif.C06.next_sibling_spec_partial
#print axioms TsVerif.C06.next_sibling_spec_from_root
