import TsVerif.C06.EmptyRange
/-!
# C06, round 11 — the EMPTY POINT-range case of `ts_node_(named_)descendant_for_point_range` at port level

Notes OPEN items (3) (`cfcIdeal` = `FT.cursorFirstChildFor`) and (4) for BYTE ranges were already closed in round 10
(`CursorFcbFlat.lean`: `cursor_first_child_for_ft_spec`; `EmptyRange.lean`: `descendant_for_empty_byte_range_ft_spec`).
What was left of (4) is the empty POINT range `[x, x]` ("ported, tied and judged, not proved").  This file does the
first half, in the way `EmptyRange.lean` did it for bytes:

* `posAfter_is_end` — the iterator position after a raw child IS that child's end (start + size as `Length`s, so in
  bytes and in row/column), hence the tests below are tests on the child's own start / end point;
* `dfrPScanE_eq` — the three tests of the C scan (two `continue`s, one `break`) for `rs = re = x` in row/column order
  select the FIRST raw child that is not passed over — it ends after `x`, or it is zero-width AT `x` (`selEP`) — and the
  scan ends there whether or not that child starts after `x` (then: null);
* `descendant_for_empty_point_range_port` — for EVERY tree, point and flag, without hypothesis, the port of
  `ts_node_(named_)descendant_for_point_range(self, x, x)` is the plain raw search `dfrIdealEP`.  This is the documented
  behaviour of the C code for an empty range at a node boundary: of two adjacent raw children meeting at `x` the LATER
  one is entered (the earlier one ends at `x`, not after it, and is passed over), and a zero-width raw child sitting at
  `x` — hidden or not — is taken before the later one (finding 6: a hidden empty leaf shadows a visible sibling);
* `dfrIdealEP_boundary_partial` — the boundary rule as a statement about two adjacent children.

OPEN (full statement, not proved): under the point analogue `emptyOKP` of `emptyOK` (H2/H4 of `NodeNav.lean` with the
row/column order) the port = `TSNode` of `FT.descendantForPoints 0 x x nm`:
  `∀ lang nm root rootId ps fuel x, Summarized lang root → shapeOK ps root → root.size ≤ fuel → emptyOKP lang x root start = true →
     descendantForPointRangePort lang fuel ⟨root, 0, rootId, start⟩ x x (!nm) = some (TSNode of FT.descendantForPoints 0 x x nm)`.
The link `dfrIdealEP` = search over the VISIBLE children needs the point versions of `dfrHE`/`vgoE_eq_dfr` (as
`RangeFlatP.lean` did for non-empty ranges); the run-time judge keeps comparing these answers with `flatten`.
-/
namespace TsVerif.C06
open TsGen TsVerif TsVerif.C02

/-- A raw child the scan of an EMPTY range at point `x` does not pass over: it ends after `x` in row/column order, or it
is a zero-width child sitting at `x` (`isEmpty ? end < x : end ≤ x` is the C test for passing over). -/
def selEP (x : TSPoint) (rc : RawChild) : Bool :=
  point_gt rc.posAfter.extent x || (point_eq rc.node.start.extent rc.posAfter.extent && point_eq rc.posAfter.extent x)

/-- The plain raw search for the empty point range `[x, x]`: first raw child the scan does not pass over; stop if it
starts after `x`, else go on inside it; answer the last node on the chain that counts for the flag. -/
def dfrIdealEP (lang : Lang) (anon : Bool) (x : TSPoint) : Nat → NodeRef → NodeRef → NodeRef
  | 0, _, last => last
  | f + 1, node, last =>
    match (rawChildren lang node).find? (selEP x) with
    | none => last
    | some rc => if point_lt x rc.node.start.extent then last
                 else dfrIdealEP lang anon x f rc.node (if rc.node.relevant lang anon then rc.node else last)

/-- The iterator's position after a raw child is the child's end: start + size (bytes, rows and columns). -/
theorem go_posAfter_is_end (lang : Lang) (n : NodeRef) (pid nk : Nat) : ∀ (kids : List Tree) (pos : Length) (si k : Nat) (rc : RawChild),
    rc ∈ rawChildren.go lang n pid nk kids pos si k → rc.posAfter = length_add rc.node.start rc.node.t.data.size
  | [], _, _, _, _, h => by simp [rawChildren.go] at h
  | c :: rest, pos, si, k, rc, h => by
    rw [go_getElem_zero] at h
    simp only [List.mem_cons] at h
    rcases h with h | h
    · subst h; rfl
    · exact go_posAfter_is_end lang n pid nk rest _ _ _ rc h

theorem posAfter_is_end (lang : Lang) (node : NodeRef) (rc : RawChild) (h : rc ∈ rawChildren lang node) :
    rc.posAfter.extent = point_add rc.node.start.extent rc.node.t.data.size.extent := by
  have := go_posAfter_is_end lang node node.t.data.productionId node.t.kids.length node.t.kids node.start 0 0 rc h
  rw [this]; rfl

/-- The C scan (three tests) for `rs = re = x` in row/column order: the first raw child that is not passed over ends the
scan.  No hypothesis on the list. -/
theorem dfrPScanE_eq (x : TSPoint) : ∀ (L : List RawChild),
    dfrPScan x x L = (match L.find? (selEP x) with
                      | none => none
                      | some rc => if point_lt x rc.node.start.extent then none else some rc.node)
  | [] => by simp [dfrPScan, descendantForPointRangePort.scan]
  | rc :: rest => by
    rw [dfrPScan_cons, List.find?_cons]
    have ih := dfrPScanE_eq x rest
    by_cases h1 : point_lt rc.posAfter.extent x = true
    · have hs : selEP x rc = false := by
        simp only [point_lt, decide_eq_true_eq] at h1
        simp only [selEP, point_gt, point_eq, Bool.or_eq_false_iff, decide_eq_false_iff_not, Bool.and_eq_false_iff]
        exact ⟨by omega, Or.inr (by omega)⟩
      simp only [h1, if_true, hs]; exact ih
    · simp only [h1, if_false, Bool.false_eq_true]
      have h1' := h1
      simp only [point_lt, decide_eq_true_eq] at h1'
      by_cases he : point_eq rc.node.start.extent rc.posAfter.extent = true
      · -- zero-width child: passed over iff it ends before `x` — it does not
        have hs : selEP x rc = true := by
          have he2 := he
          simp only [point_eq, decide_eq_true_eq] at he2
          simp only [selEP, Bool.or_eq_true, Bool.and_eq_true, point_gt, point_eq, decide_eq_true_eq]
          omega
        simp only [he, if_true, if_false, Bool.false_eq_true, hs]
      · simp only [he, if_false, Bool.false_eq_true]
        have he' : point_eq rc.node.start.extent rc.posAfter.extent = false := by simpa using he
        by_cases h2 : point_lte rc.posAfter.extent x = true
        · have hs : selEP x rc = false := by
            simp only [point_lte, decide_eq_true_eq] at h2
            simp only [selEP, he', Bool.false_and, Bool.or_false, point_gt, decide_eq_false_iff_not]
            omega
          simp only [h2, if_true, hs]; exact ih
        · have hs : selEP x rc = true := by
            simp only [point_lte, decide_eq_true_eq] at h2
            simp only [selEP, Bool.or_eq_true, point_gt, decide_eq_true_eq]
            left; omega
          simp only [h2, if_false, Bool.false_eq_true, hs]

theorem dfrGoEP_eq (lang : Lang) (anon : Bool) (x : TSPoint) : ∀ (f : Nat) (node last : NodeRef),
    descendantForPointRangePort.go lang x x anon f node last = dfrIdealEP lang anon x f node last
  | 0, _, _ => rfl
  | f + 1, node, last => by
    simp only [descendantForPointRangePort.go, dfrIdealEP]
    have := dfrPScanE_eq x (rawChildren lang node)
    simp only [dfrPScan] at this
    rw [this]
    cases (rawChildren lang node).find? (selEP x) with
    | none => rfl
    | some rc =>
      simp only
      by_cases hlt : point_lt x rc.node.start.extent = true
      · simp [hlt]
      · simp only [hlt, if_false, Bool.false_eq_true]; exact dfrGoEP_eq lang anon x f rc.node _

/-- **descendant_for_empty_point_range_port.**  For every tree, every point `x` and either flag — no hypothesis — the
port of `ts_node_(named_)descendant_for_point_range(self, x, x)` is the plain raw search `dfrIdealEP`. -/
theorem descendant_for_empty_point_range_port (lang : Lang) (fuel : Nat) (self : NodeRef) (x : TSPoint) (anon : Bool) :
    descendantForPointRangePort lang fuel self x x anon = some (dfrIdealEP lang anon x fuel self self) := by
  unfold descendantForPointRangePort
  have : point_gt x x = false := by simp [point_gt]
  simp only [this, Bool.false_eq_true, if_false]
  rw [dfrGoEP_eq lang anon x]

/-! ## The boundary rule -/

/-- One step of `dfrIdealEP` on an explicit list of raw children. -/
def stepEP (x : TSPoint) (L : List RawChild) : Option NodeRef :=
  match L.find? (selEP x) with
  | none => none
  | some rc => if point_lt x rc.node.start.extent then none else some rc.node

/-- **dfrIdealEP_boundary_partial.**  The documented behaviour at a node boundary, one level: if every raw child before
`b` ends at or before `x` without being a zero-width child at `x` (in particular: the NON-EMPTY left neighbour `a` that
ends exactly at `x`), and `b` starts at or before `x` and ends after `x`, the scan for the empty range `[x, x]` enters `b` —
the LATER of the two children meeting at `x`.  And if instead a zero-width child `z` sits at `x` after such a prefix, the
scan takes `z`, whatever follows (hidden `z`: finding 6).
`_partial`: one level of the search; the full statement (port = `FT.descendantForPoints 0 x x nm` under `emptyOKP`) is
OPEN, see the file header. -/
theorem dfrIdealEP_boundary_partial (x : TSPoint) (pre post : List RawChild) (b : RawChild)
    (hpre : ∀ a ∈ pre, point_lte a.posAfter.extent x = true ∧
              (point_eq a.node.start.extent a.posAfter.extent = true → point_lt a.posAfter.extent x = true))
    (hb : (point_lte b.node.start.extent x = true ∧ point_gt b.posAfter.extent x = true) ∨
          (point_eq b.node.start.extent b.posAfter.extent = true ∧ point_eq b.posAfter.extent x = true)) :
    dfrPScan x x (pre ++ b :: post) = some b.node ∧ stepEP x (pre ++ b :: post) = some b.node := by
  have hstep : stepEP x (pre ++ b :: post) = some b.node := by
    unfold stepEP
    have hnone : pre.find? (selEP x) = none := by
      apply List.find?_eq_none.mpr
      intro a ha
      have := hpre a ha
      simp only [point_lte, point_lt, point_eq, decide_eq_true_eq] at this
      simp only [selEP, point_gt, point_eq, Bool.or_eq_true, Bool.and_eq_true, decide_eq_true_eq, not_or, not_and]
      omega
    have hsel : selEP x b = true := by
      simp only [selEP, Bool.or_eq_true, Bool.and_eq_true]
      rcases hb with hb | hb
      · exact Or.inl hb.2
      · exact Or.inr hb
    have hnlt : point_lt x b.node.start.extent = false := by
      simp only [point_lte, point_gt, point_eq, decide_eq_true_eq] at hb
      simp only [point_lt, decide_eq_false_iff_not]
      omega
    rw [List.find?_append, hnone]
    simp [hsel, hnlt]
  refine ⟨?_, hstep⟩
  rw [dfrPScanE_eq]
  exact hstep

/-! ## Transfer to the byte search (and through it to the ordered tree), where point and byte name the same position -/

/-- The point `xp` and the byte `xb` are the same position as far as the raw nodes below `node` can tell: every raw node
(to depth `f`) answers the two questions the empty-range scan asks — "not passed over?" and "starts after the position?" —
alike in bytes and in row/column order.  Holds when `xp` is the point of byte `xb` in a text whose node boundaries have
consistent byte / point positions.  Decidable; NOT evaluated at run time (the judge compares the point answers with
`flatten` directly). -/
def agreeEP (lang : Lang) (xb : Nat) (xp : TSPoint) : Nat → NodeRef → Bool
  | 0, _ => true
  | f + 1, node => (rawChildren lang node).all (fun rc =>
      (selEP xp rc == selE xb rc.node) && (point_lt xp rc.node.start.extent == decide (xb < rc.node.startByte)) &&
      agreeEP lang xb xp f rc.node)

theorem dfrIdealEP_eq_bytes (lang : Lang) (anon : Bool) (xb : Nat) (xp : TSPoint) : ∀ (f : Nat) (node last : NodeRef),
    agreeEP lang xb xp f node = true → dfrIdealEP lang anon xp f node last = dfrIdealE lang anon xb f node last
  | 0, _, _, _ => rfl
  | f + 1, node, last, h => by
    simp only [agreeEP, List.all_eq_true, Bool.and_eq_true, beq_iff_eq] at h
    simp only [dfrIdealEP, dfrIdealE]
    have hfind : (rawChildren lang node).find? (selEP xp) = (rawChildren lang node).find? (fun rc => selE xb rc.node) :=
      find_congr_mem _ _ _ (fun rc hrc => (h rc hrc).1.1)
    rw [hfind]
    cases hf : (rawChildren lang node).find? (fun rc => selE xb rc.node) with
    | none => rfl
    | some rc =>
      have hrc := h rc (find_some_mem _ _ _ hf).1
      simp only
      rw [hrc.1.2]
      by_cases hlt : xb < rc.node.startByte
      · simp [hlt]
      · simp only [hlt, decide_false, Bool.false_eq_true, if_false]
        exact dfrIdealEP_eq_bytes lang anon xb xp f rc.node _ hrc.2

/-- **empty_point_range_eq_byte_range.**  Where point `xp` and byte `xb` name the same position for the raw tree
(`agreeEP`), `ts_node_(named_)descendant_for_point_range(self, xp, xp)` and `ts_node_(named_)descendant_for_byte_range(self, xb, xb)`
return the same node (ports; every tree, either flag). -/
theorem empty_point_range_eq_byte_range (lang : Lang) (fuel : Nat) (self : NodeRef) (xb : Nat) (xp : TSPoint) (anon : Bool)
    (hag : agreeEP lang xb xp fuel self = true) :
    descendantForPointRangePort lang fuel self xp xp anon = descendantForByteRangePort lang fuel self xb xb anon := by
  rw [descendant_for_empty_point_range_port, descendant_for_empty_byte_range_port,
      dfrIdealEP_eq_bytes lang anon xb xp fuel self self hag]

/-- **descendant_for_empty_point_range_ft_spec_partial.**  The empty POINT range on the ordered tree, via the byte search:
root summarized and parser-shaped, `xp` / `xb` the same position (`agreeEP`), the exact hypothesis `emptyOK lang xb root` of
the byte theorem: the port of `ts_node_(named_)descendant_for_point_range(root, xp, xp)` returns the `TSNode` of the entry
`FT.descendantForBytes 0 xb xb nm` designates.
`_partial`: the right-hand side is the BYTE search of `FT` at the corresponding byte, not `FT.descendantForPoints 0 xp xp nm`,
and `agreeEP` is an extra hypothesis; the full statement is OPEN (file header). -/
theorem descendant_for_empty_point_range_ft_spec_partial (lang : Lang) (nm : Bool) (root : Tree) (rootId : Nat) (ps : Option Nat)
    (fuel xb : Nat) (xp : TSPoint) (hs : Summarized lang root) (hsh : shapeOK ps root = true) :
    let ft : FT := flatOf (flatten lang root rootId)
    root.size ≤ fuel → emptyOK lang xb root (refOf (ft.node 0).info).start = true →
    agreeEP lang xb xp fuel (refOf (ft.node 0).info) = true →
    descendantForPointRangePort lang fuel (refOf (ft.node 0).info) xp xp (!nm) =
      (ft.descendantForBytes 0 xb xb nm).map (fun j => refOf (ft.node j).info) := by
  intro ft hfuel hok hag
  rw [empty_point_range_eq_byte_range lang fuel _ xb xp (!nm) hag]
  exact descendant_for_empty_byte_range_ft_spec lang nm root rootId ps fuel xb hs hsh hfuel hok

/-! ## Non-vacuity (demo tree of `NodeProps.lean`: root → [a, hidden h → [v → [b], c], d], one byte / column each) -/

-- the empty range at the boundary between `a` (0..1) and the hidden `h` (1..3): the LATER child is entered
example : (descendantForPointRangePort C02.demoLang 8 pvRoot ⟨0, 1⟩ ⟨0, 1⟩ true).map (·.id) =
    (descendantForPointRangePort C02.demoLang 8 pvRoot ⟨0, 1⟩ ⟨0, 2⟩ true).map (·.id) := by
  rw [descendant_for_empty_point_range_port C02.demoLang 8 pvRoot ⟨0, 1⟩ true,
      descendant_for_point_range_spec_partial C02.demoLang 8 pvRoot ⟨0, 1⟩ ⟨0, 2⟩ true (by decide)]
  decide
example : (descendantForPointRangePort C02.demoLang 8 pvRoot ⟨0, 1⟩ ⟨0, 1⟩ true).map (·.id) = some 2992 := by
  rw [descendant_for_empty_point_range_port C02.demoLang 8 pvRoot ⟨0, 1⟩ true]
  decide
-- past the end of the tree nothing is selected: the receiver itself
example : (descendantForPointRangePort C02.demoLang 8 pvRoot ⟨0, 9⟩ ⟨0, 9⟩ false).map (·.id) = some 1 := by
  rw [descendant_for_empty_point_range_port C02.demoLang 8 pvRoot ⟨0, 9⟩ false]
  decide
-- byte 1 and point (0, 1) are the same position of the demo tree; the transfer theorems apply
example : agreeEP C02.demoLang 1 ⟨0, 1⟩ 8 pvRoot = true := by decide
example := descendant_for_empty_point_range_ft_spec_partial C02.demoLang false pvRoot.t pvRoot.id none 8 1 ⟨0, 1⟩
  pvRoot_summarized pvRoot_shape (by decide) (by rw [ft_node_zero]; decide) (by rw [ft_node_zero]; decide)

end TsVerif.C06
