import TsVerif.C06.NodePort
import TsVerif.C06.Cursor
/-!
# C06 — ports of the position-based searches of node.c

`ts_node_child_with_descendant`, `ts_node_parent`, `ts_node__next_sibling`,
`ts_node__prev_sibling` (+ `ts_subtree_has_trailing_empty_descendant`).  A `TSNode` is a
`NodeRef` (subtree, alias, slot id, start position).  `rawChildren` is the sequence of results of
`ts_node_child_iterator_next` together with `iterator.position` after each step; the C `while`
loops over the iterator become recursions over that list, the outer "descend" loops take fuel
(bounded by the number of raw nodes).
-/
namespace TsVerif.C06
open TsGen TsVerif TsVerif.C02

structure RawChild where
  node : NodeRef
  /-- `iterator.position` after the step = end of the child -/
  posAfter : Length
  /-- structural index of the child (for an extra child: of the next structural child) -/
  si : Nat := 0
  /-- raw index of the child -/
  k : Nat := 0
  deriving Inhabited

def NodeRef.endByte (n : NodeRef) : Nat := n.start.bytes + n.t.data.size.bytes
def NodeRef.startByte (n : NodeRef) : Nat := n.start.bytes
/-- `ts_node_child_count` -/
def NodeRef.childCount (n : NodeRef) : Nat := if n.t.kids.length > 0 then n.t.data.visibleChildCount else 0
def NodeRef.relevant (lang : Lang) (n : NodeRef) (anon : Bool) : Bool := isRelevant lang n.t n.alias anon
def NodeRef.relChildCount (n : NodeRef) (anon : Bool) : Nat := TsVerif.C06.relevantChildCount n.t anon

/-- All steps of `ts_node_child_iterator_next` over the children of `n`. -/
def rawChildren (lang : Lang) (n : NodeRef) : List RawChild :=
  let pid := n.t.data.productionId
  let kids := n.t.kids
  let nk := kids.length
  let rec go : List Tree → Length → Nat → Nat → List RawChild
    | [], _, _, _ => []
    | c :: rest, pos, si, k =>
      let al := if c.data.extra then 0 else lang.aliasAt pid si
      let si' := if c.data.extra then si else si + 1
      let cstart := if k > 0 then length_add pos c.data.padding else pos
      let pos' := length_add cstart c.data.size
      { node := { t := c, alias := al, id := slotId n.t.data.addr nk k, start := cstart }, posAfter := pos', si := si, k := k } ::
        go rest pos' si' (k + 1)
  go kids n.start 0 0

/-- `ts_node_child_with_descendant(self, descendant)`; the descendant is given by its id and byte
range. -/
def childWithDescendant (lang : Lang) (fuel : Nat) (self : NodeRef) (dId dStart dEnd : Nat) : Option NodeRef :=
  match fuel with
  | 0 => none
  | fuel + 1 =>
    let isEmpty := dStart == dEnd
    -- the inner do-while over the children of `self`
    let rec inner : List RawChild → Option (Option NodeRef × Option NodeRef)
        -- result: (returned value, node to continue the outer loop with)
      | [] => some (none, none)          -- iterator exhausted: return null
      | rc :: rest =>
        let s := rc.node
        if s.startByte > dStart then some (none, none)
        else if s.id == dId then some (some s, none)
        else
          let viaEmpty :=
            if isEmpty && rc.posAfter.bytes ≥ dEnd && s.childCount > 0 then
              match childWithDescendant lang fuel s dId dStart dEnd with
              | some child => some (if s.relevant lang true then s else child)
              | none => none
            else none
          match viaEmpty with
          | some r => some (some r, none)
          | none =>
            let again := (if isEmpty then rc.posAfter.bytes ≤ dEnd else rc.posAfter.bytes < dEnd) || s.childCount == 0
            if again then inner rest else some (none, some s)
    match inner (rawChildren lang self) with
    | some (some r, _) => some r
    | some (none, some s) => if s.relevant lang true then some s else childWithDescendant lang fuel s dId dStart dEnd
    | _ => none

/-- `ts_node_parent(self)`. -/
def nodeParent (lang : Lang) (fuel : Nat) (root : NodeRef) (self : NodeRef) : Option NodeRef :=
  if root.id == self.id then none else
  let rec go (f : Nat) (node : NodeRef) : NodeRef :=
    match f with
    | 0 => node
    | f + 1 =>
      match childWithDescendant lang fuel node self.id self.startByte self.endByte with
      | none => node
      | some next => if next.id == self.id then node else go f next
  some (go fuel root)

/-- `ts_node__next_sibling(self, include_anonymous)`. -/
def nextSiblingPort (lang : Lang) (fuel : Nat) (root self : NodeRef) (anon : Bool) : Option NodeRef :=
  let targetEnd := self.endByte
  let startByte := self.startByte
  let isEmpty := startByte == targetEnd
  -- one pass over the children of `node`: (child containing target, later child, its relevance)
  let rec scan : List RawChild → Option NodeRef → Option NodeRef × Option (NodeRef × Bool)
    | [], cct => (cct, none)
    | rc :: rest, cct =>
      if rc.posAfter.bytes ≤ targetEnd then scan rest cct
      else
        let child := rc.node
        let containsTarget := if isEmpty then child.startByte < startByte else child.startByte ≤ startByte
        if containsTarget then
          -- `ts_node__subtree(child).ptr != ts_node__subtree(self).ptr`
          let same := (child.t.data.addr != 0 && child.t.data.addr == self.t.data.addr) ||
                      (child.t.data.addr == 0 && self.t.data.addr == 0 && decide (child.t.data = self.t.data))
          scan rest (if same then cct else some child)
        else if child.relevant lang anon then (cct, some (child, true))
        else if child.relChildCount anon > 0 then (cct, some (child, false))
        else scan rest cct
  let rec go (f : Nat) (node : Option NodeRef) (later : Option (NodeRef × Bool)) : Option NodeRef :=
    match f with
    | 0 => none
    | f + 1 =>
      match node with
      | none => none
      | some node =>
        let (cct, laterChild) := scan (rawChildren lang node) none
        match cct with
        | some c => go f (some c) (match laterChild with | some l => some l | none => later)
        | none =>
          match laterChild with
          | some (lc, true) => some lc
          | some (lc, false) => go f (some lc) later
          | none =>
            match later with
            | some (ln, true) => some ln
            | some (ln, false) => go f (some ln) later    -- `node = later_node` (later_node is kept)
            | none => none
  go (fuel + 1) (nodeParent lang fuel root self) none

/-- The loop of `ts_subtree_has_trailing_empty_descendant` over the children from the right; `inner` is
the recursive call (one level less fuel). -/
def tedBack (inner : Tree → Tree → Bool) (other : Tree) : List Tree → Bool
  | [] => false
  | c :: rest =>
    if c.totalBytes > 0 then false
    else
      let same := (c.data.addr != 0 && c.data.addr == other.data.addr) ||
                  (c.data.addr == 0 && other.data.addr == 0 && decide (c.data = other.data))
      if same || inner c other then true else tedBack inner other rest

/-- `ts_subtree_has_trailing_empty_descendant(self, other)` (structural in the fuel, so that it
evaluates inside proofs). -/
def hasTrailingEmptyDescendant : Nat → Tree → Tree → Bool
  | 0, _, _ => false
  | fuel + 1, self, other => tedBack (hasTrailingEmptyDescendant fuel) other self.kids.reverse

/-- `ts_node__prev_sibling(self, include_anonymous)`. -/
def prevSiblingPort (lang : Lang) (fuel : Nat) (root self : NodeRef) (anon : Bool) : Option NodeRef :=
  let selfEmpty := self.t.totalBytes == 0
  let targetEnd := self.endByte
  -- one pass: (found child containing target?, the child at which the loop stopped, earlier child)
  let rec scan : List RawChild → Option (NodeRef × Bool) → Bool × Option NodeRef × Option (NodeRef × Bool)
    | [], earlier => (false, none, earlier)
    | rc :: rest, earlier =>
      let child := rc.node
      if child.id == self.id then (false, some child, earlier)
      else if rc.posAfter.bytes > targetEnd then (true, some child, earlier)
      else if rc.posAfter.bytes == targetEnd &&
          (!selfEmpty || hasTrailingEmptyDescendant fuel child.t self.t) then (true, some child, earlier)
      else if child.relevant lang anon then scan rest (some (child, true))
      else if child.relChildCount anon > 0 then scan rest (some (child, false))
      else scan rest earlier
  let rec go (f : Nat) (node : Option NodeRef) (earlierNode : Option (NodeRef × Bool)) : Option NodeRef :=
    match f with
    | 0 => none
    | f + 1 =>
      match node with
      | none => none
      | some node =>
        let (found, stopChild, earlierChild) := scan (rawChildren lang node) none
        if found then
          go f stopChild (match earlierChild with | some e => some e | none => earlierNode)
        else
          match earlierChild with
          | some (ec, true) => some ec
          | some (ec, false) => go f (some ec) earlierNode
          | none =>
            match earlierNode with
            | some (en, true) => some en
            | some (en, false) => go f (some en) none
            | none => none
  go (fuel + 1) (nodeParent lang fuel root self) none

/-- `ts_node__first_child_for_byte(self, goal, include_anonymous)` with its single saved iterator
(`last_iterator`), saved only when `iterator.child_index < child_count(child)`. -/
def firstChildForBytePort (lang : Lang) (fuel : Nat) (self : NodeRef) (goal : Nat) (anon : Bool) : Option NodeRef :=
  let rec loop (f : Nat) (iter : List RawChild) (saved : Option (List RawChild)) : Option NodeRef :=
    match f with
    | 0 => none
    | f + 1 =>
      match iter with
      | [] =>
        match saved with
        | some it => loop f it none
        | none => none
      | rc :: rest =>
        let child := rc.node
        if child.endByte > goal then
          if child.relevant lang anon then some child
          else if child.childCount > 0 then
            -- `iterator.child_index` (already advanced) against the CHILD's raw child count
            let saved := if rc.k + 1 < child.t.kids.length then some rest else saved
            loop f (rawChildren lang child) saved
          else loop f rest saved
        else loop f rest saved
  loop (2 * fuel + 4) (rawChildren lang self) none

/-- `ts_node__descendant_for_byte_range`. -/
def descendantForByteRangePort (lang : Lang) (fuel : Nat) (self : NodeRef) (rs re : Nat) (anon : Bool) : Option NodeRef :=
  if rs > re then none else
  let rec scan : List RawChild → Option NodeRef
    | [] => none
    | rc :: rest =>
      let nodeEnd := rc.posAfter.bytes
      if nodeEnd < re then scan rest
      else
        let isEmpty := rc.node.startByte == nodeEnd
        if (if isEmpty then nodeEnd < rs else nodeEnd ≤ rs) then scan rest
        else if rs < rc.node.startByte then none
        else some rc.node
  let rec go (f : Nat) (node last : NodeRef) : NodeRef :=
    match f with
    | 0 => last
    | f + 1 =>
      match scan (rawChildren lang node) with
      | none => last
      | some c => go f c (if c.relevant lang anon then c else last)
  some (go fuel self self)

/-- `ts_node__descendant_for_point_range`. -/
def descendantForPointRangePort (lang : Lang) (fuel : Nat) (self : NodeRef) (rs re : TSPoint) (anon : Bool) : Option NodeRef :=
  if point_gt rs re then none else
  let rec scan : List RawChild → Option NodeRef
    | [] => none
    | rc :: rest =>
      let nodeEnd := rc.posAfter.extent
      if point_lt nodeEnd re then scan rest
      else
        let isEmpty := point_eq rc.node.start.extent nodeEnd
        if (if isEmpty then point_lt nodeEnd rs else point_lte nodeEnd rs) then scan rest
        else if point_lt rs rc.node.start.extent then none
        else some rc.node
  let rec go (f : Nat) (node last : NodeRef) : NodeRef :=
    match f with
    | 0 => last
    | f + 1 =>
      match scan (rawChildren lang node) with
      | none => last
      | some c => go f c (if c.relevant lang anon then c else last)
  some (go fuel self self)

/-- Does the search path of `ts_node__descendant_for_byte_range` (the raw children it descends into,
hidden ones included) visit a zero-width node?  This is the condition of the known defect
"descendant-range-zero-width": an empty raw node — possibly a hidden leaf such as a zero-width
external token — is entered first and ends the search. -/
def descendantBytePathHasEmpty (lang : Lang) (fuel : Nat) (self : NodeRef) (rs re : Nat) : Bool :=
  if rs > re then false else
  let rec scan : List RawChild → Option NodeRef
    | [] => none
    | rc :: rest =>
      let nodeEnd := rc.posAfter.bytes
      if nodeEnd < re then scan rest
      else
        let isEmpty := rc.node.startByte == nodeEnd
        if (if isEmpty then nodeEnd < rs else nodeEnd ≤ rs) then scan rest
        else if rs < rc.node.startByte then none
        else some rc.node
  let rec go (f : Nat) (node : NodeRef) : Bool :=
    match f with
    | 0 => false
    | f + 1 =>
      match scan (rawChildren lang node) with
      | none => false
      | some c => (c.startByte == c.endByte) || go f c
  go fuel self

def descendantPointPathHasEmpty (lang : Lang) (fuel : Nat) (self : NodeRef) (rs re : TSPoint) : Bool :=
  if point_gt rs re then false else
  let rec scan : List RawChild → Option NodeRef
    | [] => none
    | rc :: rest =>
      let nodeEnd := rc.posAfter.extent
      if point_lt nodeEnd re then scan rest
      else
        let isEmpty := point_eq rc.node.start.extent nodeEnd
        if (if isEmpty then point_lt nodeEnd rs else point_lte nodeEnd rs) then scan rest
        else if point_lt rs rc.node.start.extent then none
        else some rc.node
  let rec go (f : Nat) (node : NodeRef) : Bool :=
    match f with
    | 0 => false
    | f + 1 =>
      match scan (rawChildren lang node) with
      | none => false
      | some c => (c.startByte == c.endByte) || go f c
  go fuel self

/-- `ts_node__field_name_from_language`: first non-inherited entry for the structural index. -/
def fieldFromLanguage (lang : Lang) (n : NodeRef) (si : Nat) : Option Nat :=
  ((lang.fieldMap n.t.data.productionId).toList.find? fun m => !m.inherited && m.childIndex == si).map (·.fieldId)

/-- `ts_node_field_name_for_child` / `_for_named_child` (result: field id, `none` = NULL).
`iterator.structural_child_index - 1` is computed as the C code does, also for extra children. -/
def fieldNameForChildPort (lang : Lang) (fuel : Nat) (self : NodeRef) (childIndex : Nat) (anon : Bool) : Option Nat :=
  let rec go (f : Nat) (result : NodeRef) (childIndex : Nat) (inherited : Option Nat) : Option Nat :=
    match f with
    | 0 => none
    | f + 1 =>
      let rec scan : List RawChild → Nat → Option Nat
        | [], _ => none
        | rc :: rest, index =>
          let child := rc.node
          -- structural_child_index after the step, minus one (wraps for an extra first child)
          let siAfter := if child.t.data.extra then rc.si else rc.si + 1
          let sidx := if siAfter == 0 then u32maxN else siAfter - 1
          if child.relevant lang anon then
            if index == childIndex then
              if child.t.data.extra then none
              else match fieldFromLanguage lang result sidx with
                | some fn => some fn
                | none => inherited
            else scan rest (index + 1)
          else
            let gi := childIndex - index
            let gc := child.relChildCount anon
            if gi < gc then
              let inherited := match fieldFromLanguage lang result sidx with
                | some fn => some fn
                | none => inherited
              go f child gi inherited
            else scan rest (index + gc)
      scan (rawChildren lang result) 0
  go fuel self childIndex none
where u32maxN : Nat := 4294967295

/-- `ts_node_child_by_field_id`.  The two trimming loops leave the entries whose id is `fieldId`
(the table is sorted by field id). -/
def childByFieldIdPort (lang : Lang) (fuel : Nat) (self : NodeRef) (fieldId : Nat) : Option NodeRef :=
  match fuel with
  | 0 => none
  | fuel + 1 =>
    if fieldId == 0 || self.childCount == 0 then none else
    let fm := (lang.fieldMap self.t.data.productionId).toList.filter (·.fieldId == fieldId)
    if fm.isEmpty then none else
    let rec scan : List RawChild → List FieldEntry → Option NodeRef
      | [], _ => none
      | _, [] => none
      | rc :: rest, m :: ms =>
        let child := rc.node
        if child.t.data.extra then scan rest (m :: ms)
        else if rc.si < m.childIndex then scan rest (m :: ms)
        else if m.inherited then
          if ms.isEmpty then childByFieldIdPort lang fuel child fieldId     -- tail call `goto recur`
          else
            match childByFieldIdPort lang fuel child fieldId with
            | some r => some r
            | none => scan rest ms
        else if child.relevant lang true then some child
        else if child.childCount > 0 then nodeChild lang true child.t child.start 0
        else scan rest ms
    scan (rawChildren lang self) fm

mutual
  /-- The visible children of a node together with the field chain `flattenKids` records for each
  (own structural slot first, then the slots of the hidden ancestors passed on the way down;
  an extra child has none and cuts the chain). -/
  def enumF (lang : Lang) : Tree → List (List Nat) → List (Tree × Nat × List (List Nat))
    | .mk d kids, outer => enumKidsF lang d.productionId kids 0 outer
  def enumKidsF (lang : Lang) (pid : Nat) : List Tree → Nat → List (List Nat) → List (Tree × Nat × List (List Nat))
    | [], _, _ => []
    | c :: rest, si, outer =>
      let al := if c.data.extra then 0 else lang.aliasAt pid si
      let si' := if c.data.extra then si else si + 1
      let chain := if c.data.extra then [] else directFields lang pid si :: outer
      (if c.data.visible || al != 0 then [(c, al, chain)] else enumF lang c chain) ++ enumKidsF lang pid rest si' outer
end


mutual
  /-- Hypothesis of `field_name_for_child_spec`: a hidden EXTRA node has no visible children (the C
  code would index the field map with the structural index of the previous sibling when descending
  into one).  Evaluated on every real tree. -/
  def hiddenExtraOK (lang : Lang) : Tree → Nat → Bool
    | .mk d kids, al =>
      (if d.extra && !(d.visible || al != 0) then decide (vcc (.mk d kids) = 0) else true) &&
        hiddenExtraOKKids lang kids d.productionId 0
  def hiddenExtraOKKids (lang : Lang) : List Tree → Nat → Nat → Bool
    | [], _, _ => true
    | c :: rest, pid, si =>
      hiddenExtraOK lang c (if c.data.extra then 0 else lang.aliasAt pid si) &&
        hiddenExtraOKKids lang rest pid (if c.data.extra then si else si + 1)
end


/-! ### Paths of raw child indices -/

def rawChildAt (lang : Lang) (n : NodeRef) (k : Nat) : Option NodeRef := ((rawChildren lang n)[k]?).map (·.node)

/-- The node reached from `n` by following raw child indices. -/
def nodeAt (lang : Lang) : NodeRef → List Nat → Option NodeRef
  | n, [] => some n
  | n, k :: rest => match rawChildAt lang n k with
    | some c => nodeAt lang c rest
    | none => none

/-- What `ts_node_child_with_descendant` is meant to return: the first relevant (visible or
aliased) node strictly below `n` on the path; the end of the path itself if none is relevant
before it. -/
def firstRelevantOnPath (lang : Lang) : NodeRef → List Nat → Option NodeRef
  | _, [] => none
  | n, k :: rest => match rawChildAt lang n k with
    | some c => if rest.isEmpty || c.relevant lang true then some c else firstRelevantOnPath lang c rest
    | none => none

/-- Side conditions of the path (all decidable, evaluated on the real trees by the driver):
no earlier sibling along the path and no proper ancestor shares the descendant's slot id.  (That
every proper ancestor reports a positive visible child count is derived from `Summarized`,
`ancestor_child_count_pos`.) -/
def pathOK (lang : Lang) (dId : Nat) : NodeRef → List Nat → Bool
  | _, [] => true
  | n, k :: rest =>
    ((rawChildren lang n).take k).all (fun rc => rc.node.id != dId) &&
    match rawChildAt lang n k with
    | some c => rest.isEmpty || (c.id != dId && pathOK lang dId c rest)
    | none => false


/-- The nearest relevant proper ancestor of the end of the path (`best` if there is none):
what `ts_node_parent` is meant to return, with `best = n = root`. -/
def parentOnPath (lang : Lang) : NodeRef → NodeRef → List Nat → NodeRef
  | best, _, [] => best
  | best, _, [_] => best
  | best, n, k :: k' :: rest => match rawChildAt lang n k with
    | some c => parentOnPath lang (if c.relevant lang true then c else best) c (k' :: rest)
    | none => best

/-- `firstRelevantOnPath` together with the rest of the path. -/
def relSplit (lang : Lang) : NodeRef → List Nat → Option (NodeRef × List Nat)
  | _, [] => none
  | n, k :: rest => match rawChildAt lang n k with
    | some c => if rest.isEmpty || c.relevant lang true then some (c, rest) else relSplit lang c rest
    | none => none


mutual
  /-- Every non-empty path of raw child indices below a tree, in preorder. -/
  def pathsOf : Tree → List (List Nat)
    | .mk _ kids => pathsKids kids 0
  def pathsKids : List Tree → Nat → List (List Nat)
    | [], _ => []
    | c :: rest, k => ([k] :: (pathsOf c).map (k :: ·)) ++ pathsKids rest (k + 1)
end



/-! ### Runtime side of `next_sibling_spec_partial` (NodeProps.lean) -/

/-- `ts_node__subtree(child).ptr == ts_node__subtree(self).ptr` -/
def samePtr (child self : NodeRef) : Bool :=
  (child.t.data.addr != 0 && child.t.data.addr == self.t.data.addr) ||
    (child.t.data.addr == 0 && self.t.data.addr == 0 && decide (child.t.data = self.t.data))

mutual
  /-- Every raw node of the subtree, placed at byte `st`, ends strictly after byte `tgt` (in the
  positions of `ts_node_child_iterator_next`: the first child starts where its parent starts, each
  later child after the previous one plus its own padding).  For nodes that start at or after `tgt`
  this excludes exactly the zero-width nodes AT `tgt`. -/
  def endsAfter (tgt : Nat) : Tree → Nat → Bool
    | .mk d kids, st => decide (tgt < st + d.size.bytes) && endsAfterL tgt kids st true
  def endsAfterL (tgt : Nat) : List Tree → Nat → Bool → Bool
    | [], _, _ => true
    | c :: rest, pos, first =>
      endsAfter tgt c (if first then pos else pos + c.data.padding.bytes) &&
        endsAfterL tgt rest ((if first then pos else pos + c.data.padding.bytes) + c.data.size.bytes) false
end

/-- The visible nodes that follow the end of the path: later siblings at the deepest level first,
then those of each ancestor on the path (the same list as `laterSiblings` of the cursor theorems). -/
def laterOnPath (lang : Lang) : NodeRef → List Nat → List (Tree × Nat)
  | _, [] => []
  | n, k :: rest => match (rawChildren lang n)[k]? with
    | some rc => laterOnPath lang rc.node rest ++
        enumKids lang n.t.data.productionId (n.t.kids.drop (k + 1)) (if rc.node.t.data.extra then rc.si else rc.si + 1)
    | none => []

/-- Hypotheses of `next_sibling_spec_partial` along the path (decidable; evaluated on real trees):
at every level, every raw node among the later siblings (and inside them) ends strictly after the
end of `self` — i.e. no zero-width raw node sits exactly where `self` ends — and no ancestor on the
path is the same subtree as `self`. -/
def nsPathOK (lang : Lang) (self : NodeRef) : NodeRef → List Nat → Bool
  | _, [] => true
  | n, k :: rest =>
    match (rawChildren lang n)[k]? with
    | some rc => endsAfterL self.endByte (n.t.kids.drop (k + 1)) rc.posAfter.bytes false &&
        (rest.isEmpty || (!samePtr rc.node self && nsPathOK lang self rc.node rest))
    | none => false


/-! ### Runtime side of `prev_sibling_spec_partial` -/

mutual
  /-- No raw node strictly inside the subtree has the slot id `sid`. -/
  def noIdIn (sid : Nat) : Tree → Bool
    | .mk d kids => noIdInL sid d.addr kids.length kids 0
  def noIdInL (sid addr nk : Nat) : List Tree → Nat → Bool
    | [], _ => true
    | c :: rest, k => (slotId addr nk k != sid) && noIdIn sid c && noIdInL sid addr nk rest (k + 1)
end

/-- The visible nodes that precede the end of the path within `n`: earlier siblings at the top
level first, then those at each deeper level (the same list as `earlierSiblings` of the cursor
theorems, outermost level first). -/
def earlierOnPath (lang : Lang) : NodeRef → List Nat → List (Tree × Nat)
  | _, [] => []
  | n, k :: rest => enumKids lang n.t.data.productionId (n.t.kids.take k) 0 ++
      (match (rawChildren lang n)[k]? with
       | some rc => earlierOnPath lang rc.node rest
       | none => [])

/-- Hypotheses of `prev_sibling_spec_partial` along the path (decidable; evaluated on real trees):
no raw node among the earlier siblings (nor inside them) and no ancestor on the path has the slot
id of `self`. -/
def psPathOK (lang : Lang) (self : NodeRef) : NodeRef → List Nat → Bool
  | _, [] => true
  | n, k :: rest => noIdInL self.id n.t.data.addr n.t.kids.length (n.t.kids.take k) 0 &&
    match (rawChildren lang n)[k]? with
    | some rc => rest.isEmpty || (rc.node.id != self.id && psPathOK lang self rc.node rest)
    | none => false

/-! ### Runtime side of the ZERO-WIDTH sibling theorems (`SiblingZw.lean`) -/

/-- Extra hypothesis of `next_sibling_spec_empty` (self EMPTY at byte `x`, on top of `nsPathOK`).
For an empty `self` the C scan classifies a child by the STRICT test `child_start < x`; an ancestor
`a` on the path that STARTS at `x` (so `self` is its first, empty, descendant) and extends beyond
`x` is therefore not a "child containing the target" but a "later child": the scan breaks at it and
descends into it WITHOUT having looked at the siblings after `a`, which are lost for the rest of the
search.  The answer is still right exactly when the search inside `a` succeeds, i.e. something
visible follows `self` inside `a` — or when there was nothing to lose (no visible node after `a` at
its level).  Such an `a` must also be hidden (else it would be returned itself). -/
def nsZwOK (lang : Lang) (self : NodeRef) : NodeRef → List Nat → Bool
  | _, [] => true
  | n, k :: rest =>
    match (rawChildren lang n)[k]? with
    | some rc =>
      rest.isEmpty ||
        ((if rc.node.startByte == self.startByte && decide (self.endByte < rc.posAfter.bytes) then
            !rc.node.relevant lang true &&
              (!(laterOnPath lang rc.node rest).isEmpty ||
                (enumKids lang n.t.data.productionId (n.t.kids.drop (k + 1)) (if rc.node.t.data.extra then rc.si else rc.si + 1)).isEmpty)
          else true) && nsZwOK lang self rc.node rest)
    | none => false

/-- The scan of `ts_node__prev_sibling` passes over a child ending at `e` (and remembers it as the
"earlier child"): it ends strictly before `self` ends, or exactly there while `self` has no bytes at
all and `ts_subtree_has_trailing_empty_descendant(child, self)` is false. -/
def posPass (fuel : Nat) (self : NodeRef) (t : Tree) (e : Nat) : Bool :=
  decide (e < self.endByte) || (e == self.endByte && self.t.totalBytes == 0 && !hasTrailingEmptyDescendant fuel t self.t)

/-- The scan stops at a child ending at `e` as "the child containing the target". -/
def posStop (fuel : Nat) (self : NodeRef) (t : Tree) (e : Nat) : Bool :=
  decide (e > self.endByte) || (e == self.endByte && (!(self.t.totalBytes == 0) || hasTrailingEmptyDescendant fuel t self.t))

mutual
  /-- Every raw node of the subtree placed at byte `st` (itself included) is passed over (`posPass`). -/
  def passIn (fuel : Nat) (self : NodeRef) : Tree → Nat → Bool
    | .mk d kids, st => posPass fuel self (.mk d kids) (st + d.size.bytes) && passInL fuel self kids st true
  def passInL (fuel : Nat) (self : NodeRef) : List Tree → Nat → Bool → Bool
    | [], _, _ => true
    | c :: rest, pos, first =>
      passIn fuel self c (if first then pos else pos + c.data.padding.bytes) &&
        passInL fuel self rest ((if first then pos else pos + c.data.padding.bytes) + c.data.size.bytes) false
end

/-- Hypothesis of `prev_sibling_spec_general` about positions (on top of `psPathOK`, which is about
slot ids): along the path every earlier sibling — and every raw node inside it — is passed over by
the scan, and the scan stops at every proper ancestor.  For a NON-EMPTY `self` this always holds (`psZwOK_of_nonempty`), and an empty one
with padding never consults the test; for a `self` without any bytes it says that
`ts_subtree_has_trailing_empty_descendant(·, self)` — which compares subtree POINTERS, inline leaves
by value, and gives up at the first non-empty child from the right — is true for the ancestors that
end where `self` lies and false for everything before `self` that ends there. -/
def psZwOK (lang : Lang) (fuel : Nat) (self : NodeRef) : NodeRef → List Nat → Bool
  | _, [] => true
  | n, k :: rest =>
    passInL fuel self (n.t.kids.take k) n.start.bytes true &&
    match (rawChildren lang n)[k]? with
    | some rc => rest.isEmpty || (posStop fuel self rc.node.t rc.posAfter.bytes && psZwOK lang fuel self rc.node rest)
    | none => false

/-- Evaluation of the hypotheses of `parent_spec_partial` / `child_with_descendant_spec_partial`
on a real tree: over every relevant node below the root, `checked` = non-empty nodes whose path
satisfies `pathOK` (slot ids distinct along the search) and for which
the ported `ts_node_parent` returns `parentOnPath`; `zeroWidth` = how many of them are empty
(checked with `psPathOK`, the hypothesis of `parent_spec_empty`); `bad` = non-empty nodes violating a hypothesis or the conclusion. -/
structure ParentHyp where
  checked : Nat := 0
  zeroWidth : Nat := 0
  bad : Nat := 0
  /-- ids of the expected parents (`parentOnPath`) for the link with the flattened tree -/
  parents : List (Nat × Nat) := []

def parentHyp (lang : Lang) (root : NodeRef) : ParentHyp :=
  (pathsOf root.t).foldl (init := {}) fun acc p =>
    match nodeAt lang root p with
    | none => { acc with bad := acc.bad + 1 }
    | some d =>
      if !d.relevant lang true then acc
      else
        let empty := d.startByte == d.endByte
        let exp := parentOnPath lang root root p
        -- a zero-width node needs the stronger id hypothesis of `parent_spec_empty`
        let okH := root.id != d.id && (if empty then psPathOK lang d root p else pathOK lang d.id root p)
        let okC := match nodeParent lang (p.length + 1) root d with
          | some r => r.id == exp.id
          | none => false
        if okH && okC then
          { acc with checked := acc.checked + 1, zeroWidth := acc.zeroWidth + (if empty then 1 else 0), parents := (d.id, exp.id) :: acc.parents }
        else { acc with bad := acc.bad + 1 }

/-! ### Runtime side of `node_nav_flat_spec` -/

/-- Every node strictly between `n` and the end of the path is hidden (not relevant). -/
def hiddenPath (lang : Lang) : NodeRef → List Nat → Bool
  | _, [] => true
  | n, k :: rest => match rawChildAt lang n k with
    | some c => rest.isEmpty || (!c.relevant lang true && hiddenPath lang c rest)
    | none => false

/-- Nearest relevant proper ancestor of the end of the path together with the path from it
(`parentOnPath` = first component). -/
def parentSplit (lang : Lang) : NodeRef × List Nat → NodeRef → List Nat → NodeRef × List Nat
  | best, _, [] => best
  | best, _, [_] => best
  | best, n, k :: k' :: rest => match rawChildAt lang n k with
    | some c => parentSplit lang (if c.relevant lang true then (c, k' :: rest) else best) c (k' :: rest)
    | none => best

/-! ### Runtime side of the NAMED sibling theorems (`SiblingNamed.lean`) -/

/-- Does an enumerated visible child count for the flag `include_anonymous`? -/
def keepA (lang : Lang) (anon : Bool) (e : Tree × Nat) : Bool := anon || entryNamed lang e

/-- `nsZwOK` for either flag (extra hypothesis of `next_sibling_spec_anon` for an EMPTY `self`): an
ancestor below the parent that STARTS where `self` lies and extends beyond it is not relevant; if the
scan takes it as a "later child" (its relevant-child count is positive) then something that counts
follows `self` inside it, or nothing that counts follows the ancestor at its own level; if the scan
passes it over (count 0) nothing that counts follows `self` inside it. -/
def nsZwOKA (lang : Lang) (anon : Bool) (self : NodeRef) : NodeRef → List Nat → Bool
  | _, [] => true
  | n, k :: rest =>
    match (rawChildren lang n)[k]? with
    | some rc =>
      rest.isEmpty ||
        ((if rc.node.startByte == self.startByte && decide (self.endByte < rc.posAfter.bytes) then
            !rc.node.relevant lang anon &&
              (if rc.node.relChildCount anon == 0 then ((laterOnPath lang rc.node rest).filter (keepA lang anon)).isEmpty
               else !((laterOnPath lang rc.node rest).filter (keepA lang anon)).isEmpty ||
                 ((enumKids lang n.t.data.productionId (n.t.kids.drop (k + 1)) (if rc.node.t.data.extra then rc.si else rc.si + 1)).filter (keepA lang anon)).isEmpty)
          else true) && nsZwOKA lang anon self rc.node rest)
    | none => false

/-- Evaluation of `next_sibling_spec_partial` on a real tree, over every relevant NON-EMPTY node
below the root: `checked` = nodes whose path from the parent satisfies `nsPathOK` and for which the
ported `ts_node_next_sibling` returns the head of `laterOnPath` (same subtree data and alias);
`outside` = nodes excluded by the hypothesis (a zero-width raw node sits where the node ends);
`bad` = hypothesis holds but the conclusion fails.  `nexts` = (id, expected next sibling's data and
alias) for the comparison with the flattened tree. -/
structure SiblingHyp where
  checked : Nat := 0
  outside : Nat := 0
  bad : Nat := 0
  nexts : List (Nat × Option (NodeData × Nat)) := []
  /-- the same three counters and expectations for `prev_sibling_spec_partial` -/
  pchecked : Nat := 0
  poutside : Nat := 0
  pbad : Nat := 0
  prevs : List (Nat × Option (NodeData × Nat)) := []
  /-- ZERO-WIDTH nodes (`next_sibling_spec_empty`, hypotheses `nsPathOK` + `nsZwOK`) -/
  zchecked : Nat := 0
  zoutside : Nat := 0
  zbad : Nat := 0
  /-- ZERO-WIDTH nodes (`prev_sibling_spec_general`, hypotheses `psPathOK` + `psZwOK`) -/
  zpchecked : Nat := 0
  zpoutside : Nat := 0
  zpbad : Nat := 0
  /-- why zero-width nodes are outside: next — parent/id hypotheses, `nsPathOK` (a zero-width raw node
  follows at the same byte), `nsZwOK`; prev — parent/id hypotheses, `psPathOK`, `psZwOK` -/
  zwhy : Nat × Nat × Nat × Nat × Nat × Nat := (0, 0, 0, 0, 0, 0)
  /-- `prev_sibling_spec_anon` for the NAMED flag (every relevant node, any width): checked / outside / bad,
  and the expectations for the comparison with `FT.prevSibling … namedOnly` -/
  nnchecked : Nat := 0
  nnoutside : Nat := 0
  nnbad : Nat := 0
  nnexts : List (Nat × Option (NodeData × Nat)) := []
  npchecked : Nat := 0
  npoutside : Nat := 0
  npbad : Nat := 0
  nprevs : List (Nat × Option (NodeData × Nat)) := []
  /-- non-empty nodes for which `psZwOK` (always true for them, `psZwOK_of_nonempty`) evaluates to false -/
  pgenbad : Nat := 0

def siblingHyp (lang : Lang) (root : NodeRef) (anonOK : Bool := true) : SiblingHyp :=
  (pathsOf root.t).foldl (init := {}) fun acc p =>
    match nodeAt lang root p with
    | none => { acc with bad := acc.bad + 1 }
    | some d =>
      if !d.relevant lang true then acc
      else if d.startByte == d.endByte then
        -- zero-width node: `next_sibling_spec_empty` / `prev_sibling_spec_general` (+ `parent_spec_empty`)
        let (par, q) := parentSplit lang (root, p) root p
        let fuel := root.t.size + 1
        let parOK := par.id == (parentOnPath lang root root p).id && hiddenPath lang par q &&
          (match nodeAt lang par q with | some x => x.id == d.id | none => false) && psPathOK lang d root p
        let acc :=
          if !(parOK && nsPathOK lang d par q && nsZwOK lang d par q) then
            let (a, b, c, x, y, z) := acc.zwhy
            { acc with zoutside := acc.zoutside + 1,
                       zwhy := if !parOK then (a + 1, b, c, x, y, z) else if !nsPathOK lang d par q then (a, b + 1, c, x, y, z) else (a, b, c + 1, x, y, z) }
          else
            let exp : Option (NodeData × Nat) := ((laterOnPath lang par q).head?).map fun x => (x.1.data, x.2)
            let got : Option (NodeData × Nat) := (nextSiblingPort lang fuel root d true).map fun r => (r.t.data, r.alias)
            if decide (got = exp) then { acc with zchecked := acc.zchecked + 1, nexts := (d.id, exp) :: acc.nexts }
            else { acc with zbad := acc.zbad + 1 }
        -- the NAMED flag (`next_sibling_spec_anon`): nsPathOK + nsZwOKA + anonLeafOK of the tree
        let acc :=
          if !(anonOK && parOK && nsPathOK lang d par q && nsZwOKA lang false d par q) then { acc with nnoutside := acc.nnoutside + 1 }
          else
            let nexp : Option (NodeData × Nat) := (((laterOnPath lang par q).filter (entryNamed lang)).head?).map fun x => (x.1.data, x.2)
            let ngot : Option (NodeData × Nat) := (nextSiblingPort lang fuel root d false).map fun r => (r.t.data, r.alias)
            if decide (ngot = nexp) then { acc with nnchecked := acc.nnchecked + 1, nnexts := (d.id, nexp) :: acc.nnexts }
            else { acc with nnbad := acc.nnbad + 1 }
        if !(parOK && psPathOK lang d par q && psZwOK lang fuel d par q) then
          let (a, b, c, x, y, z) := acc.zwhy
          { acc with zpoutside := acc.zpoutside + 1,
                     zwhy := if !parOK then (a, b, c, x + 1, y, z) else if !psPathOK lang d par q then (a, b, c, x, y + 1, z) else (a, b, c, x, y, z + 1) }
        else
          let exp : Option (NodeData × Nat) := ((earlierOnPath lang par q).getLast?).map fun x => (x.1.data, x.2)
          let got : Option (NodeData × Nat) := (prevSiblingPort lang fuel root d true).map fun r => (r.t.data, r.alias)
          let acc := if decide (got = exp) then { acc with zpchecked := acc.zpchecked + 1, prevs := (d.id, exp) :: acc.prevs }
            else { acc with zpbad := acc.zpbad + 1 }
          -- the NAMED flag (`prev_sibling_spec_anon`), same hypotheses + anonLeafOK of the tree
          if !anonOK then { acc with npoutside := acc.npoutside + 1 }
          else
            let nexp : Option (NodeData × Nat) := (((earlierOnPath lang par q).filter (entryNamed lang)).getLast?).map fun x => (x.1.data, x.2)
            let ngot : Option (NodeData × Nat) := (prevSiblingPort lang fuel root d false).map fun r => (r.t.data, r.alias)
            if decide (ngot = nexp) then { acc with npchecked := acc.npchecked + 1, nprevs := (d.id, nexp) :: acc.nprevs }
            else { acc with npbad := acc.npbad + 1 }
      else
        let (par, q) := parentSplit lang (root, p) root p
        let parOK := par.id == (parentOnPath lang root root p).id && hiddenPath lang par q &&
          (match nodeAt lang par q with | some x => x.id == d.id | none => false)
        let acc := if psPathOK lang d par q && !psZwOK lang (root.t.size + 1) d par q then { acc with pgenbad := acc.pgenbad + 1 } else acc
        let acc :=
          if !(nsPathOK lang d par q) then { acc with outside := acc.outside + 1 }
          else
            let exp := ((laterOnPath lang par q).head?).map fun x => (x.1.data, x.2)
            let got := (nextSiblingPort lang (root.t.size + 1) root d true).map fun r => (r.t.data, r.alias)
            if parOK && decide (got = exp) then
              { acc with checked := acc.checked + 1, nexts := (d.id, exp) :: acc.nexts }
            else { acc with bad := acc.bad + 1 }
        -- the NAMED flag (`next_sibling_spec_anon`), non-empty node: nsPathOK + anonLeafOK of the tree
        let acc :=
          if !(anonOK && parOK && nsPathOK lang d par q) then { acc with nnoutside := acc.nnoutside + 1 }
          else
            let nexp : Option (NodeData × Nat) := (((laterOnPath lang par q).filter (entryNamed lang)).head?).map fun x => (x.1.data, x.2)
            let ngot : Option (NodeData × Nat) := (nextSiblingPort lang (root.t.size + 1) root d false).map fun r => (r.t.data, r.alias)
            if decide (ngot = nexp) then { acc with nnchecked := acc.nnchecked + 1, nnexts := (d.id, nexp) :: acc.nnexts }
            else { acc with nnbad := acc.nnbad + 1 }
        if !(psPathOK lang d par q) then { acc with poutside := acc.poutside + 1 }
        else
          let exp := ((earlierOnPath lang par q).getLast?).map fun x => (x.1.data, x.2)
          let got := (prevSiblingPort lang (root.t.size + 1) root d true).map fun r => (r.t.data, r.alias)
          let acc := if parOK && decide (got = exp) then
              { acc with pchecked := acc.pchecked + 1, prevs := (d.id, exp) :: acc.prevs }
            else { acc with pbad := acc.pbad + 1 }
          -- the NAMED flag (`prev_sibling_spec_anon`): psPathOK + psZwOK (true for non-empty nodes) + anonLeafOK of the tree
          if !(anonOK && parOK && psZwOK lang (root.t.size + 1) d par q) then { acc with npoutside := acc.npoutside + 1 }
          else
            let nexp : Option (NodeData × Nat) := (((earlierOnPath lang par q).filter (entryNamed lang)).getLast?).map fun x => (x.1.data, x.2)
            let ngot : Option (NodeData × Nat) := (prevSiblingPort lang (root.t.size + 1) root d false).map fun r => (r.t.data, r.alias)
            if decide (ngot = nexp) then { acc with npchecked := acc.npchecked + 1, nprevs := (d.id, nexp) :: acc.nprevs }
            else { acc with npbad := acc.npbad + 1 }

/-! ### Runtime side of `first_child_for_byte_spec_partial` -/

mutual
  /-- The search `ts_node_first_child_for_byte` is meant to perform, by plain recursion: the first
  visible child (hidden children replaced by theirs, in order) that ends after `goal`; a hidden child
  is entered only if it ends after `goal`, and the scan CONTINUES with the next sibling when nothing
  is found inside (the C code has a single saved iterator for that, see `ndeNode`). -/
  def fcbNode (lang : Lang) (goal : Nat) : Tree → Length → Option NodeRef
    | .mk d kids, start => fcbKids lang goal d.productionId d.addr kids.length kids start 0 0
  def fcbKids (lang : Lang) (goal pid addr nk : Nat) : List Tree → Length → Nat → Nat → Option NodeRef
    | [], _, _, _ => none
    | c :: rest, pos, si, k =>
      let cstart := if k > 0 then length_add pos c.data.padding else pos
      let node : NodeRef := { t := c, alias := (if c.data.extra then 0 else lang.aliasAt pid si), id := slotId addr nk k, start := cstart }
      let next := fcbKids lang goal pid addr nk rest (length_add cstart c.data.size) (if c.data.extra then si else si + 1) (k + 1)
      if node.endByte > goal then
        if node.relevant lang true then some node
        else if node.childCount > 0 then
          match fcbNode lang goal c cstart with
          | some r => some r
          | none => next
        else next
      else next
end

mutual
  /-- "No dead end": every hidden child the search enters (it has visible children and ends after
  `goal`) contains a visible child ending after `goal`.  This is the hypothesis finding
  `C06-first-child-for-byte-fallback` forces: after a failed descent the C code resumes from its
  single saved iterator, which is saved under an odd condition and overwritten by nested descents. -/
  def ndeNode (lang : Lang) (goal : Nat) : Tree → Length → Bool
    | .mk d kids, start => ndeKids lang goal d.productionId d.addr kids.length kids start 0 0
  def ndeKids (lang : Lang) (goal pid addr nk : Nat) : List Tree → Length → Nat → Nat → Bool
    | [], _, _, _ => true
    | c :: rest, pos, si, k =>
      let cstart := if k > 0 then length_add pos c.data.padding else pos
      let node : NodeRef := { t := c, alias := (if c.data.extra then 0 else lang.aliasAt pid si), id := slotId addr nk k, start := cstart }
      let next := ndeKids lang goal pid addr nk rest (length_add cstart c.data.size) (if c.data.extra then si else si + 1) (k + 1)
      if node.endByte > goal then
        if node.relevant lang true then true
        else if node.childCount > 0 then (fcbNode lang goal c cstart).isSome && ndeNode lang goal c cstart
        else next
      else next
end


/-! ### Runtime side of `descendant_for_byte_range_spec_partial` -/

/-- Does the raw child span the byte range `[rs, re]`? -/
def spans (rs re : Nat) (rc : RawChild) : Bool := decide (rc.node.startByte ≤ rs) && decide (re ≤ rc.posAfter.bytes)

/-- The plain search: follow, from `node`, the first raw child that spans the range; answer the last
relevant node on that chain. -/
def dfrIdeal (lang : Lang) (rs re : Nat) : Nat → NodeRef → NodeRef → NodeRef
  | 0, _, last => last
  | f + 1, node, last =>
    match (rawChildren lang node).find? (spans rs re) with
    | none => last
    | some rc => dfrIdeal lang rs re f rc.node (if rc.node.relevant lang true then rc.node else last)

/-! ### Runtime side of the NAMED / POINT variants (`NavVariants.lean`) -/

/-- `dfrIdeal` for either relevance (`anon = false`: `ts_node_named_descendant_for_byte_range`). -/
def dfrIdealA (lang : Lang) (anon : Bool) (rs re : Nat) : Nat → NodeRef → NodeRef → NodeRef
  | 0, _, last => last
  | f + 1, node, last =>
    match (rawChildren lang node).find? (spans rs re) with
    | none => last
    | some rc => dfrIdealA lang anon rs re f rc.node (if rc.node.relevant lang anon then rc.node else last)

/-- Does the raw child span the POINT range `[rs, re]` (row/column order)? -/
def spansP (rs re : TSPoint) (rc : RawChild) : Bool := point_lte rc.node.start.extent rs && point_lte re rc.posAfter.extent

/-- The plain search in row/column order (`ts_node_(named_)descendant_for_point_range`). -/
def dfrIdealP (lang : Lang) (anon : Bool) (rs re : TSPoint) : Nat → NodeRef → NodeRef → NodeRef
  | 0, _, last => last
  | f + 1, node, last =>
    match (rawChildren lang node).find? (spansP rs re) with
    | none => last
    | some rc => dfrIdealP lang anon rs re f rc.node (if rc.node.relevant lang anon then rc.node else last)

mutual
  /-- `fcbNode` for either relevance (`anon = false`: `ts_node_first_named_child_for_byte`): a child
  that is not relevant is entered when it has VISIBLE children (the C code tests `ts_node_child_count`,
  not the named count) and ends after `goal`. -/
  def fcbNodeA (lang : Lang) (anon : Bool) (goal : Nat) : Tree → Length → Option NodeRef
    | .mk d kids, start => fcbKidsA lang anon goal d.productionId d.addr kids.length kids start 0 0
  def fcbKidsA (lang : Lang) (anon : Bool) (goal pid addr nk : Nat) : List Tree → Length → Nat → Nat → Option NodeRef
    | [], _, _, _ => none
    | c :: rest, pos, si, k =>
      let cstart := if k > 0 then length_add pos c.data.padding else pos
      let node : NodeRef := { t := c, alias := (if c.data.extra then 0 else lang.aliasAt pid si), id := slotId addr nk k, start := cstart }
      let next := fcbKidsA lang anon goal pid addr nk rest (length_add cstart c.data.size) (if c.data.extra then si else si + 1) (k + 1)
      if node.endByte > goal then
        if node.relevant lang anon then some node
        else if node.childCount > 0 then
          match fcbNodeA lang anon goal c cstart with
          | some r => some r
          | none => next
        else next
      else next
end

mutual
  /-- "No dead end" for either relevance (see `ndeNode`). -/
  def ndeNodeA (lang : Lang) (anon : Bool) (goal : Nat) : Tree → Length → Bool
    | .mk d kids, start => ndeKidsA lang anon goal d.productionId d.addr kids.length kids start 0 0
  def ndeKidsA (lang : Lang) (anon : Bool) (goal pid addr nk : Nat) : List Tree → Length → Nat → Nat → Bool
    | [], _, _, _ => true
    | c :: rest, pos, si, k =>
      let cstart := if k > 0 then length_add pos c.data.padding else pos
      let node : NodeRef := { t := c, alias := (if c.data.extra then 0 else lang.aliasAt pid si), id := slotId addr nk k, start := cstart }
      let next := ndeKidsA lang anon goal pid addr nk rest (length_add cstart c.data.size) (if c.data.extra then si else si + 1) (k + 1)
      if node.endByte > goal then
        if node.relevant lang anon then true
        else if node.childCount > 0 then (fcbNodeA lang anon goal c cstart).isSome && ndeNodeA lang anon goal c cstart
        else next
      else next
end

/-! ### Runtime side of `child_by_field_id_spec_partial` -/

/-- Does a field chain contain the field? -/
def hasF (f : Nat) (chain : List (List Nat)) : Bool := chain.any (·.contains f)

/-- What `ts_node_child_by_field_id(self, f)` is meant to return: the first visible child, in order,
whose field chain (own slot, then the slots of the hidden ancestors below `self`) contains `f`. -/
def cbfSpec (lang : Lang) (f : Nat) (t : Tree) : Option (Tree × Nat) :=
  ((enumF lang t []).find? (fun x => hasF f x.2.2)).map (fun x => (x.1, x.2.1))

/-- The entries of one field in a production's field map have strictly increasing child indices (the
scan of `ts_node_child_by_field_id` consumes them in table order, at most one per child). -/
def entriesSorted : List FieldEntry → Bool
  | [] => true
  | [_] => true
  | a :: b :: r => decide (a.childIndex < b.childIndex) && entriesSorted (b :: r)

/-- The entries of field `f` in the field map of production `pid` (what the two trimming loops of the C
function leave when the table is sorted by field id). -/
def fieldEntries (lang : Lang) (pid f : Nat) : List FieldEntry := (lang.fieldMap pid).toList.filter (·.fieldId == f)

/-- LANGUAGE-level premise, decidable on the dumped tables: for every production and every field the
entries have strictly increasing child indices. -/
def fieldMapsSorted (lang : Lang) : Bool :=
  (List.range lang.productionIdCount).all fun pid => (List.range (lang.fieldCount + 1)).all fun f => entriesSorted (fieldEntries lang pid f)

/-- The entry for structural child `i`, if any. -/
def entryAt (es : List FieldEntry) (i : Nat) : Option FieldEntry := es.find? (·.childIndex == i)

mutual
  /-- TREE-level premise of `child_by_field_id_spec_partial` for field `f` (decidable, evaluated for every
  node and field): the entries of `f` are sorted at every node the search enters; an INHERITED entry never
  points at a visible (or aliased) child — the C code would search inside it; a hidden child WITHOUT an entry
  contains no visible node carrying `f` (the table's `inherited` entries are complete: fails below ERROR
  nodes, which have no field map — finding 8); an extra hidden child contains none either (extras are skipped). -/
  def cbfOK (lang : Lang) (f : Nat) : Tree → Bool
    | .mk d kids => entriesSorted (fieldEntries lang d.productionId f) &&
        cbfOKKids lang f d.productionId (fieldEntries lang d.productionId f) kids 0
  def cbfOKKids (lang : Lang) (f pid : Nat) (es : List FieldEntry) : List Tree → Nat → Bool
    | [], _ => true
    | c :: rest, si =>
      if c.data.extra then
        (c.data.visible || (enumF lang c []).all (fun x => !hasF f x.2.2)) && cbfOKKids lang f pid es rest si
      else
        (if c.data.visible || lang.aliasAt pid si != 0 then
           (match entryAt es si with | some m => !m.inherited | none => true)
         else
           match entryAt es si with
           | some m => if m.inherited then cbfOK lang f c
                       else (match (enumF lang c [[f]]).head? with | some x => hasF f x.2.2 | none => true)
           | none => (enumF lang c []).all (fun x => !hasF f x.2.2)) &&
        cbfOKKids lang f pid es rest (si + 1)
end

/-! ### Runtime side of the EMPTY-range searches (`EmptyRange.lean`): `ts_node_descendant_for_byte_range(self, x, x)` -/

/-- A node the scan of an EMPTY range at byte `x` does not pass over: it ends after `x`, or it is a zero-width node
sitting at `x` (`isEmpty ? end < x : end ≤ x` is the C test for passing over). -/
def selE (x : Nat) (r : NodeRef) : Bool := decide (r.endByte > x) || (r.startByte == r.endByte && r.endByte == x)

/-- The plain raw search for the empty range `[x, x]`: first raw child the scan does not pass over; stop if it
starts after `x`, else go on inside it; answer the last node on the chain that counts for the flag. -/
def dfrIdealE (lang : Lang) (anon : Bool) (x : Nat) : Nat → NodeRef → NodeRef → NodeRef
  | 0, _, last => last
  | f + 1, node, last =>
    match (rawChildren lang node).find? (fun rc => selE x rc.node) with
    | none => last
    | some rc => if x < rc.node.startByte then last else dfrIdealE lang anon x f rc.node (if rc.node.relevant lang anon then rc.node else last)

mutual
  /-- First VISIBLE node below `t` (children in order, hidden ones replaced by theirs) that the empty-range scan at `x`
  does not pass over. -/
  def firstSelE (lang : Lang) (x : Nat) : Tree → Length → Option NodeRef
    | .mk d kids, start => firstSelEKids lang x d.productionId d.addr kids.length kids start 0 0
  def firstSelEKids (lang : Lang) (x pid addr nk : Nat) : List Tree → Length → Nat → Nat → Option NodeRef
    | [], _, _, _ => none
    | c :: rest, pos, si, k =>
      let cstart := if k > 0 then length_add pos c.data.padding else pos
      let node : NodeRef := { t := c, alias := (if c.data.extra then 0 else lang.aliasAt pid si), id := slotId addr nk k, start := cstart }
      match (if node.relevant lang true then (if selE x node then some node else none) else firstSelE lang x c cstart) with
      | some r => some r
      | none => firstSelEKids lang x pid addr nk rest (length_add cstart c.data.size) (if c.data.extra then si else si + 1) (k + 1)
end

mutual
  /-- EXACT hypothesis of `descendant_for_empty_byte_range_spec` (decidable, evaluated on every empty-range question):
  along the raw search path for the empty range at `x`,
  (H2) a HIDDEN raw child the scan passes over contains no visible node it would not pass over — i.e. a hidden non-empty
       child ending exactly at `x` has no visible zero-width descendant at `x` (the search on the ordered tree would take it);
  (H4) a HIDDEN raw child the scan enters at or before `x` whose visible content offers nothing at `x` — a hidden zero-width
       node without visible descendants, finding 6 — is followed, among the later siblings, by no visible node the search on
       the ordered tree would enter (the first one it does not pass over starts after `x`);
  and the same inside every child the search enters. -/
  def emptyOK (lang : Lang) (x : Nat) : Tree → Length → Bool
    | .mk d kids, start => emptyOKKids lang x d.productionId d.addr kids.length kids start 0 0
  def emptyOKKids (lang : Lang) (x pid addr nk : Nat) : List Tree → Length → Nat → Nat → Bool
    | [], _, _, _ => true
    | c :: rest, pos, si, k =>
      let cstart := if k > 0 then length_add pos c.data.padding else pos
      let node : NodeRef := { t := c, alias := (if c.data.extra then 0 else lang.aliasAt pid si), id := slotId addr nk k, start := cstart }
      let pos' := length_add cstart c.data.size
      let si' := if c.data.extra then si else si + 1
      if selE x node then
        if x < node.startByte then true
        else if node.relevant lang true then emptyOK lang x c cstart
        else emptyOK lang x c cstart &&
          ((firstSelE lang x c cstart).isSome ||
            (match firstSelEKids lang x pid addr nk rest pos' si' (k + 1) with
             | none => true
             | some r => decide (x < r.startByte)))
      else
        (node.relevant lang true || (firstSelE lang x c cstart).isNone) && emptyOKKids lang x pid addr nk rest pos' si' (k + 1)
end

end TsVerif.C06
