import TsVerif.C02.Model
/-!
# C06 — the single ordered tree of visible nodes (`flatten`) and the navigation spec on it

`flatten lang root rootId` turns a dumped subtree (hidden nodes, aliases from the production's
alias sequence, extras, field maps) into the `VTree` of visible nodes that a depth-first walk of
the public API is supposed to show.  Every navigation answer of the property is then a plain
list operation on that tree (`Flat`, preorder numbering).  Node identity is the address of the
child slot (`TSNode.id`), recomputed from the dump: slot `i` of a parent with heap address `A`
and `n` children is `A − 8·(n − i)`; the root's id is `&tree->root` (given).
-/
namespace TsVerif.C06
open TsGen TsVerif TsVerif.C02

structure VInfo where
  id : Nat
  sym : Nat                 -- alias, or the subtree's own symbol
  named : Bool
  extra : Bool
  missing : Bool
  start : Length
  stop : Length
  /-- field ids per level, innermost first: the node's own structural slot in its raw parent, then
  the slots of its hidden ancestors up to (excluding) the visible parent -/
  fields : List (List Nat)
  /-- the subtree's own `named` flag, its raw child count, its alias (0 = none) and, for an ERROR
  leaf, the unexpected character (all needed only by the S-expression writer) -/
  rawNamed : Bool := false
  rawKids : Nat := 0
  alias : Nat := 0
  unexpected : Option Int := none
  /-- the raw subtree this visible node is (input of the code-shaped ports) -/
  raw : Tree := default
  deriving Repr, Inhabited

inductive VTree where
  | mk (info : VInfo) (kids : List VTree)
  deriving Repr, Inhabited

def VTree.info : VTree → VInfo | .mk i _ => i
def VTree.kids : VTree → List VTree | .mk _ k => k

/-- Non-inherited field ids the production `pid` gives to structural child `si` (table order). -/
def directFields (lang : Lang) (pid si : Nat) : List Nat :=
  ((lang.fieldMap pid).toList.filter fun e => !e.inherited && e.childIndex == si).map (·.fieldId)

def slotId (parentAddr nKids i : Nat) : Nat := parentAddr - 8 * (nKids - i)

mutual
  /-- Visible nodes found in raw subtree `t` placed at `pos` (start of its padding), given the alias
  and field chain its parent context assigns.  A visible/aliased node yields one `VTree`; a hidden
  node yields the visible nodes of its children. -/
  def flattenAt (lang : Lang) (t : Tree) (pos : Length) (al : Nat) (id : Nat) (chain : List (List Nat)) : List VTree :=
    match t with
    | .mk d kids =>
      let start := length_add pos d.padding
      if d.visible || al != 0 then
        let info : VInfo :=
          { id := id, sym := if al != 0 then al else d.symbol
            named := if al != 0 then (lang.symMeta al).named else d.named
            extra := d.extra, missing := d.isMissing
            start := start, stop := length_add start d.size, fields := chain
            rawNamed := d.named, rawKids := kids.length, alias := al, raw := .mk d kids
            unexpected := if d.ext.startsWith "c" then some (intOf (d.ext.drop 1).toString) else none }
        [.mk info (flattenKids lang kids pos d.productionId 0 0 d.addr kids.length [])]
      else
        flattenKids lang kids pos d.productionId 0 0 d.addr kids.length chain
  def flattenKids (lang : Lang) (kids : List Tree) (cur : Length) (pid si i parentAddr n : Nat)
      (outer : List (List Nat)) : List VTree :=
    match kids with
    | [] => []
    | c :: rest =>
      let al := if c.data.extra then 0 else lang.aliasAt pid si
      let si' := if c.data.extra then si else si + 1
      -- an extra child has no field, and cuts the chain for everything below it
      let chain := if c.data.extra then [] else directFields lang pid si :: outer
      flattenAt lang c cur al (slotId parentAddr n i) chain ++
        flattenKids lang rest (length_add cur c.totalSize) pid si' (i + 1) parentAddr n outer
end

/-- The whole tree: the root is a node whatever its visibility (`ts_tree_root_node`). -/
def flatten (lang : Lang) (root : Tree) (rootId : Nat) : VTree :=
  match root with
  | .mk d kids =>
    let start := length_add length_zero d.padding
    .mk { id := rootId, sym := d.symbol, named := d.named, extra := d.extra, missing := d.isMissing
          start := start, stop := length_add start d.size, fields := []
          rawNamed := d.named, rawKids := kids.length, raw := .mk d kids
          unexpected := if d.ext.startsWith "c" then some (intOf (d.ext.drop 1).toString) else none }
        (flattenKids lang kids length_zero d.productionId 0 0 d.addr kids.length [])

/-! ## Preorder numbering -/

structure Flat where
  info : VInfo
  parent : Option Nat
  depth : Nat
  kids : Array Nat := #[]
  size : Nat := 1          -- nodes in the subtree, self included
  deriving Repr, Inhabited

mutual
  def number (t : VTree) (parent : Option Nat) (depth : Nat) (acc : Array Flat) : Array Flat × Nat :=
    match t with
    | .mk info kids =>
      let idx := acc.size
      let acc := acc.push { info := info, parent := parent, depth := depth }
      let (acc, ks) := numberKids kids idx (depth + 1) acc #[]
      let sz := acc.size - idx
      (acc.modify idx fun f => { f with kids := ks, size := sz }, idx)
  def numberKids (kids : List VTree) (parent depth : Nat) (acc : Array Flat) (ks : Array Nat) : Array Flat × Array Nat :=
    match kids with
    | [] => (acc, ks)
    | k :: rest =>
      let (acc, idx) := number k (some parent) depth acc
      numberKids rest parent depth acc (ks.push idx)
end

def flatOf (t : VTree) : Array Flat := (number t none 0 #[]).1

/-! ## Navigation answers as list operations on the numbered tree -/

abbrev FT := Array Flat

def FT.node (ft : FT) (k : Nat) : Flat := ft.getD k default
def FT.kidsOf (ft : FT) (k : Nat) : List Nat := (ft.node k).kids.toList
def FT.named (ft : FT) (k : Nat) : Bool := (ft.node k).info.named
def FT.namedKids (ft : FT) (k : Nat) : List Nat := (ft.kidsOf k).filter ft.named
def FT.sb (ft : FT) (k : Nat) : Nat := (ft.node k).info.start.bytes
def FT.eb (ft : FT) (k : Nat) : Nat := (ft.node k).info.stop.bytes
def FT.sp (ft : FT) (k : Nat) : TSPoint := (ft.node k).info.start.extent
def FT.ep (ft : FT) (k : Nat) : TSPoint := (ft.node k).info.stop.extent

def FT.siblings (ft : FT) (k : Nat) : List Nat :=
  match (ft.node k).parent with
  | some p => ft.kidsOf p
  | none => [k]

def FT.nextSibling (ft : FT) (k : Nat) (namedOnly : Bool) : Option Nat :=
  ((ft.siblings k).dropWhile (· != k)).drop 1 |>.find? fun j => !namedOnly || ft.named j

def FT.prevSibling (ft : FT) (k : Nat) (namedOnly : Bool) : Option Nat :=
  ((ft.siblings k).takeWhile (· != k)).reverse.find? fun j => !namedOnly || ft.named j

/-- The field id a node shows: innermost level that has one; extras have none. -/
def FT.fieldOf (ft : FT) (k : Nat) : Nat :=
  if (ft.node k).info.extra then 0
  else match (ft.node k).info.fields.find? (!·.isEmpty) with
    | some (f :: _) => f
    | _ => 0

def FT.hasField (ft : FT) (k f : Nat) : Bool :=
  !(ft.node k).info.extra && (ft.node k).info.fields.any (·.contains f)

def FT.childByField (ft : FT) (k f : Nat) : Option Nat := (ft.kidsOf k).find? (ft.hasField · f)

def FT.firstChildForByte (ft : FT) (k goal : Nat) (namedOnly : Bool) : Option Nat :=
  (ft.kidsOf k).find? fun j => ft.eb j > goal && (!namedOnly || ft.named j)

/-- Is `a` an ancestor-or-self of `d` (preorder interval test)? -/
def FT.contains (ft : FT) (a d : Nat) : Bool := a ≤ d && d < a + (ft.node a).size

/-- Child of `r` that contains `d` (null when `d` is not strictly below `r`). -/
def FT.childWithDescendant (ft : FT) (r d : Nat) : Option Nat :=
  if r == d || !ft.contains r d then none else (ft.kidsOf r).find? (ft.contains · d)

/-- Smallest-descendant search (bytes): follow, from `k`, the first child that reaches the end of
the range and covers its start; return the last node on that path that qualifies. -/
def FT.descendantForBytes (ft : FT) (k s e : Nat) (namedOnly : Bool) : Option Nat :=
  if s > e then none else
  let rec go (fuel cur last : Nat) : Nat :=
    match fuel with
    | 0 => last
    | fuel + 1 =>
      match (ft.kidsOf cur).find? (fun c =>
          ft.eb c ≥ e && (if ft.sb c == ft.eb c then ft.eb c ≥ s else ft.eb c > s)) with
      | none => last
      | some c =>
        if s < ft.sb c then last
        else go fuel c (if !namedOnly || ft.named c then c else last)
  some (go ft.size k k)

/-- Does the path the smallest-descendant search follows (bytes) visit a zero-width node? -/
def FT.descendantPathHasEmpty (ft : FT) (k s e : Nat) : Bool :=
  let rec go (fuel cur : Nat) : Bool :=
    match fuel with
    | 0 => false
    | fuel + 1 =>
      match (ft.kidsOf cur).find? (fun c =>
          ft.eb c ≥ e && (if ft.sb c == ft.eb c then ft.eb c ≥ s else ft.eb c > s)) with
      | none => false
      | some c => if s < ft.sb c then false else (ft.sb c == ft.eb c) || go fuel c
  go ft.size k

def FT.descendantForPoints (ft : FT) (k : Nat) (s e : TSPoint) (namedOnly : Bool) : Option Nat :=
  if point_gt s e then none else
  let rec go (fuel cur last : Nat) : Nat :=
    match fuel with
    | 0 => last
    | fuel + 1 =>
      match (ft.kidsOf cur).find? (fun c =>
          !point_lt (ft.ep c) e &&
          (if point_eq (ft.sp c) (ft.ep c) then !point_lt (ft.ep c) s else !point_lte (ft.ep c) s)) with
      | none => last
      | some c =>
        if point_lt s (ft.sp c) then last
        else go fuel c (if !namedOnly || ft.named c then c else last)
  some (go ft.size k k)

/-- `goto_first_child_for_byte/point`: index and node of the first child that ends after the goal
(both the byte and the point of its end must exceed the goal's). -/
def FT.cursorFirstChildFor (ft : FT) (k goalByte : Nat) (goalPoint : TSPoint) : Option (Nat × Nat) :=
  let ks := ft.kidsOf k
  match ks.findIdx? (fun j => ft.eb j > goalByte && point_gt (ft.ep j) goalPoint) with
  | some i => some (i, ks.getD i 0)
  | none => none

/-! ## S-expression rendering of the visible tree (`ts_node_string`) -/

/-- `ts_subtree__write_char_to_string`. -/
def renderChar (c : Int) : String :=
  if c == -1 then "INVALID"
  else if c == 0 then "'\\0'"
  else if c == 10 then "'\\n'"
  else if c == 9 then "'\\t'"
  else if c == 13 then "'\\r'"
  else if 32 ≤ c ∧ c < 127 then "'" ++ String.singleton (Char.ofNat c.toNat) ++ "'"
  else toString c

/-- The field a chain shows: first entry of the innermost non-empty level (`none` = no field). -/
def chainField (chain : List (List Nat)) : Option Nat := (chain.find? (!·.isEmpty)).bind List.head?

/-- `a` if present, else `b` (a direct field overrides an inherited one). -/
def firstSome (a b : Option Nat) : Option Nat := match a with | some x => some x | none => b

def VInfo.shownField (i : VInfo) : Nat :=
  if i.extra then 0 else (chainField i.fields).getD 0

def fieldPrefix (lang : Lang) : Option Nat → String
  | some f => lang.fieldNames.getD f "" ++ ": "
  | none => ""

def unexpectedChar (d : NodeData) : Int :=
  if d.ext.startsWith "c" then intOf (d.ext.drop 1).toString else 0

/-- Opening of a printed node: `(UNEXPECTED c`, `(MISSING name` or `(name`. -/
def renderOpen (lang : Lang) (i : VInfo) : String :=
  let name := (lang.symMeta i.sym).name
  if i.raw.data.symbol == symError && i.raw.kids.length == 0 && i.raw.data.size.bytes > 0 then
    "(UNEXPECTED " ++ renderChar (unexpectedChar i.raw.data)
  else if i.missing then "(MISSING " ++ (if i.named || i.rawNamed then name else "\"" ++ name ++ "\"")
  else "(" ++ name

mutual
  /-- A non-root node inside an S-expression: printed when named or MISSING (with its field),
  otherwise only its children are printed in its place. -/
  def renderInner (lang : Lang) : VTree → String
    | .mk i kids =>
      if i.missing || i.named then
        " " ++ fieldPrefix lang (chainField i.fields) ++ renderOpen lang i ++ renderList lang kids ++ ")"
      else renderList lang kids
  def renderList (lang : Lang) : List VTree → String
    | [] => ""
    | k :: rest => renderInner lang k ++ renderList lang rest
end

/-- `ts_node_string` of a node of the visible tree. `rootPrinted` is the writer's `is_visible` for
the root frame (MISSING, or "alias_is_named"/named). -/
def render (lang : Lang) (t : VTree) (rootPrinted : Bool) : String :=
  match t with
  | .mk i kids =>
    let name := (lang.symMeta i.sym).name
    if rootPrinted then renderOpen lang i ++ renderList lang kids ++ ")"
    else if i.rawKids > 0 then "(" ++ name ++ renderList lang kids
    else if i.rawNamed then "(" ++ name ++ ")"
    else "(\"" ++ name ++ "\")"

end TsVerif.C06
