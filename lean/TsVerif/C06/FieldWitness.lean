import TsVerif.C06.FieldProps
/-!
# C06 — witnesses about `ts_node_child_by_field_id` outside the premise `cbfOK` (finding 11)

`child_by_field_id_spec_partial` needs the premise `cbfOK`, one clause of which is "an INHERITED field-map entry
points at a hidden child only".  That clause is not a convenience of the proof: without it the statement is FALSE
for the unchanged code.  The generator emits an inherited entry for every position of a hidden rule that can carry
the field, and eliminates the unit reduction from that hidden rule to a visible alternative; the runtime then finds
a VISIBLE child at the position of an inherited entry and searches inside it (`self = child; goto recur`), returning
a grandchild.  Real instance: private grammar `zoo/twofld/nest`, `route ( a ) > [ ] > 1 ;`
(`known_findings/C06.json`: child-by-field-enters-visible-child).  Below the same situation on the model.
-/
namespace TsVerif.C06
open TsGen TsVerif TsVerif.C02

/-- `demoLang` with one field: production 1 (the outer `rule`) INHERITS field 1 from its child 0; production 2
(the inner `rule`, a visible node) gives field 1 to its own child 0 directly. -/
def nestLang : Lang :=
  { C02.demoLang with fieldCount := 1, productionIdCount := 3
                      fieldMaps := #[#[], #[⟨1, 0, true⟩], #[⟨1, 0, false⟩]] }
def nestLeaf : Tree := C02.newLeaf nestLang 1 length_zero ⟨1, ⟨0, 1⟩⟩ 1 1 false false false
/-- the VISIBLE alternative sitting where the production expects the hidden rule -/
def nestInner : Tree := atAddr (C02.newNode nestLang 2 [nestLeaf] 2) 2000
def nestOuter : Tree := atAddr (C02.newNode nestLang 2 [nestInner] 1) 1000

theorem nestOuter_summarized : Summarized nestLang nestOuter := by
  have hl : Summarized nestLang nestLeaf := leaf_summarized _ _ (by unfold LeafOK; decide)
  have hi : Summarized nestLang nestInner := node_summarized _ _ _ _ (by unfold NodeOK; decide) (by unfold SummarizedL SummarizedL; exact ⟨hl, trivial⟩)
  exact node_summarized _ _ _ _ (by unfold NodeOK; decide) (by unfold SummarizedL SummarizedL; exact ⟨hi, trivial⟩)

/-- The only child of `nestOuter` is the visible `nestInner`, and it carries no field there: the flattened tree,
`field_name_for_child`, the cursor and the S-expression show `nestOuter` without any `f`-child … -/
example : (enumChildren nestLang nestOuter).map (fun x => (x.1.data, x.2)) = [(nestInner.data, 0)] ∧ (cbfSpec nestLang 1 nestOuter).isSome = false := by decide
theorem nestInner_summarized : Summarized nestLang nestInner := by
  have hl : Summarized nestLang nestLeaf := leaf_summarized _ _ (by unfold LeafOK; decide)
  exact node_summarized _ _ _ _ (by unfold NodeOK; decide) (by unfold SummarizedL SummarizedL; exact ⟨hl, trivial⟩)

/-- … but the port of the unchanged `ts_node_child_by_field_id` follows the inherited entry INTO the visible child:
its answer for `nestOuter` is the answer for `nestInner` (one step of the scan, then `child_by_field_id_spec_partial`
for the inner node, where `cbfOK` holds) — the leaf, a grandchild of `nestOuter`. -/
theorem nest_port : (childByFieldIdPort nestLang 4 ⟨nestOuter, 0, 1, length_zero⟩ 1).map (fun r => (r.t, r.alias)) = cbfSpec nestLang 1 nestInner := by
  rw [cbf_unfold]
  have h1 : ((1:Nat) == 0 || NodeRef.childCount ⟨nestOuter,0,1,length_zero⟩ == 0) = false := by decide
  have h2 : (fieldEntries nestLang (NodeRef.t ⟨nestOuter,0,1,length_zero⟩).data.productionId 1).isEmpty = false := by decide
  rw [h1, h2]
  simp only [Bool.false_eq_true, if_false]
  have h3 : ∃ rc, rawChildren nestLang ⟨nestOuter,0,1,length_zero⟩ = [rc] ∧ rc.node.t = nestInner ∧ rc.si = 0 := ⟨_, rfl, rfl, rfl⟩
  obtain ⟨rc, e, et, es⟩ := h3
  have h4 : fieldEntries nestLang (NodeRef.t ⟨nestOuter,0,1,length_zero⟩).data.productionId 1 = [⟨1, 0, true⟩] := by decide
  rw [e, h4, childByFieldIdPort.scan]
  have hx : rc.node.t.data.extra = false := by rw [et]; decide
  simp only [hx, es, Bool.false_eq_true, if_false, Nat.lt_irrefl, List.isEmpty_nil, if_true]
  obtain ⟨⟨nt, na, ni, ns⟩, pa, rsi, rk⟩ := rc
  change nt = nestInner at et
  subst et
  exact child_by_field_id_spec_partial nestLang 1 (by decide) 3 nestInner na ni ns none (by decide) nestInner_summarized (by decide) (by decide)

example : ((cbfSpec nestLang 1 nestInner).map fun x => (x.1.data, x.2)) = some (nestLeaf.data, 0) := by decide

/-- **The full clause is false for the unchanged code** (finding 11): `child_by_field_id_spec_partial` WITHOUT the
premise `cbfOK` does not hold — on a summarized, parser-shaped tree of a language with sorted field maps the port
returns a node although no child of the receiver carries the field. -/
theorem child_by_field_id_full_false :
    ¬ ∀ (lang : Lang) (f : Nat), f ≠ 0 → fieldMapsSorted lang = true → ∀ (fuel : Nat) (t : Tree) (al id : Nat) (st : Length) (ps : Option Nat),
        t.size ≤ fuel → Summarized lang t → shapeOK ps t = true →
        (childByFieldIdPort lang fuel ⟨t, al, id, st⟩ f).map (fun r => (r.t, r.alias)) = cbfSpec lang f t := by
  intro h
  have := h nestLang 1 (by decide) (by decide) 4 nestOuter 0 1 length_zero none (by decide) nestOuter_summarized (by decide)
  rw [nest_port] at this
  have h2 := congrArg Option.isSome this
  revert h2
  decide

/-- The witness lies outside the theorem exactly by the clause in question. -/
example : cbfOK nestLang 1 nestOuter = false ∧ fieldMapsSorted nestLang = true := by decide

end TsVerif.C06

