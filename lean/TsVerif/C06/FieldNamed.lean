import TsVerif.C06.FieldProps
/-!
# C06 — `ts_node_field_name_for_named_child`

`field_name_for_child_spec` (CursorProps.lean) covers `ts_node_field_name_for_child`.  The NAMED variant is the same
C function with `include_anonymous = false`: a child counts when it is named (alias metadata first), a child that
does not count is entered when its cached `named_child_count` exceeds the remaining index.  Here: for every language
and every summarized parser-shaped subtree in which hidden extras have no visible children (`hiddenExtraOK`) and
visible nodes that are not named have no children (`anonLeafOK` — the C code would otherwise descend INTO a visible
anonymous node by its `named_child_count`), the port returns the field the chain of the `i`-th NAMED child shows.
-/
namespace TsVerif.C06
open TsGen TsVerif TsVerif.C02

/-- Is the enumerated child (with its chain) named? -/
def nmF (lang : Lang) (x : Tree × Nat × List (List Nat)) : Bool := entryNamed lang (x.1, x.2.1)

theorem filter_enumF_length (lang : Lang) (c : Tree) (chain : List (List Nat)) :
    ((enumF lang c chain).filter (nmF lang)).length = ((enumChildren lang c).filter (entryNamed lang)).length := by
  rw [← enumF_proj lang c chain, List.filter_map, List.length_map]
  rfl

theorem fn_go_spec_named (lang : Lang) : ∀ (f : Nat) (result : NodeRef) (ci : Nat) (outer : List (List Nat)) (ps : Option Nat),
    Summarized lang result.t → shapeOK ps result.t = true →
    hiddenExtraOKKids lang result.t.kids result.t.data.productionId 0 = true →
    anonLeafOKKids lang result.t.kids result.t.data.productionId 0 = true → result.t.size ≤ f →
    fieldNameForChildPort.go lang false f result ci (chainField outer) =
      fieldAt ((enumF lang result.t outer).filter (nmF lang)) ci
  | 0, result, _, _, _, _, _, _, _, hsz => by
    have := tree_size_pos result.t
    omega
  | f + 1, result, ci, outer, ps, hs, hsh, hx, ha, hsz => by
    unfold fieldNameForChildPort.go
    cases hrt : result.t with
    | mk d kids =>
      rw [hrt] at hs hsh hx ha hsz
      unfold Summarized at hs
      unfold shapeOK at hsh
      simp only [Bool.and_eq_true] at hsh
      simp only [kids_mk, data_mk] at hx ha
      unfold rawChildren enumF
      simp only [hrt, kids_mk, data_mk]
      have scan : ∀ (ks : List Tree) (pos : Length) (si k index : Nat), index ≤ ci →
          SummarizedL lang ks → shapeOKL (some d.symbol) ks = true → hiddenExtraOKKids lang ks d.productionId si = true →
          anonLeafOKKids lang ks d.productionId si = true → Tree.sizeList ks ≤ f →
          fieldNameForChildPort.go.scan lang false result ci (chainField outer) f
            (rawChildren.go lang result d.productionId kids.length ks pos si k) index =
          fieldAt ((enumKidsF lang d.productionId ks si outer).filter (nmF lang)) (ci - index) := by
        intro ks
        induction ks with
        | nil => intro pos si k index _ _ _ _ _ _; simp [rawChildren.go, fieldNameForChildPort.go.scan, enumKidsF, fieldAt]
        | cons c rest ih =>
          intro pos si k index hidx hsk hshk hxk hak hszk
          unfold SummarizedL at hsk
          unfold shapeOKL at hshk
          unfold hiddenExtraOKKids at hxk
          unfold anonLeafOKKids at hak
          simp only [Bool.and_eq_true] at hshk hxk hak
          have hszc : c.size ≤ f := by unfold Tree.sizeList at hszk; omega
          have hszr : Tree.sizeList rest ≤ f := by unfold Tree.sizeList at hszk; omega
          unfold rawChildren.go fieldNameForChildPort.go.scan enumKidsF
          simp only [NodeRef.relevant, isRelevant, Bool.false_eq_true, if_false, NodeRef.relChildCount, List.filter_append]
          have hcnt := (summarize_counts lang c (some d.symbol) hsk.1 hshk.1).2.1
          generalize hal : (if c.data.extra then 0 else lang.aliasAt d.productionId si) = al at hak hxk ⊢
          have hlen := filter_enumF_length lang c (if c.data.extra then [] else directFields lang d.productionId si :: outer)
          -- relevance for the named flag
          by_cases hrel : (if al != 0 then (lang.symMeta al).named else (c.data.visible && c.data.named)) = true
          · -- a named child: it is listed and counts
            have hvis : (c.data.visible || al != 0) = true := by
              by_cases h0 : al != 0
              · simp [h0]
              · simp only [h0, Bool.false_eq_true, if_false, Bool.and_eq_true] at hrel; simp [hrel.1]
            have hnm : nmF lang (c, al, if c.data.extra then [] else directFields lang d.productionId si :: outer) = true := by
              simp only [nmF, entryNamed]
              by_cases h0 : al != 0
              · simp only [h0, if_true] at hrel ⊢; exact hrel
              · simp only [h0, Bool.false_eq_true, if_false, Bool.and_eq_true] at hrel ⊢; exact hrel.2
            simp only [hrel, if_true, hvis, List.filter_cons, hnm, List.filter_nil, List.cons_append, List.nil_append]
            by_cases hi : index = ci
            · subst hi
              simp only [beq_self_eq_true, if_true, Nat.sub_self, fieldAt, List.getElem?_cons_zero, Option.bind_some]
              by_cases hex : c.data.extra = true
              · simp [hex, chainField]
              · have hex' : c.data.extra = false := by simpa using hex
                simp only [hex', Bool.false_eq_true, if_false]
                have hz : (si + 1 == 0) = false := by simp
                simp only [hz, Bool.false_eq_true, if_false, Nat.add_sub_cancel]
                rw [fieldFromLanguage_eq, hrt, data_mk, chainField_cons]
                generalize (directFields lang d.productionId si).head? = o
                cases o <;> rfl
            · have hne : (index == ci) = false := by simpa using hi
              simp only [hne, Bool.false_eq_true, if_false]
              rw [ih _ _ _ (index + 1) (by omega) hsk.2 hshk.2 hxk.2 hak.2 hszr]
              simp only [fieldAt]
              have : ci - index = (ci - (index + 1)) + 1 := by omega
              rw [this, List.getElem?_cons_succ]
          · have hrel' : (if al != 0 then (lang.symMeta al).named else (c.data.visible && c.data.named)) = false := (Bool.not_eq_true _).mp hrel
            simp only [hrel', Bool.false_eq_true, if_false]
            by_cases hvis : (c.data.visible || al != 0) = true
            · -- visible (or aliased) but not named: listed, filtered out; a leaf by `anonLeafOK`
              have hnm : nmF lang (c, al, if c.data.extra then [] else directFields lang d.productionId si :: outer) = false := by
                simp only [nmF, entryNamed]
                by_cases h0 : al != 0
                · simp only [h0, if_true] at hrel' ⊢; exact hrel'
                · simp only [h0, Bool.false_eq_true, if_false] at hrel' ⊢
                  have hv : c.data.visible = true := by simpa [h0] using hvis
                  simpa [hv] using hrel'
              have hleaf : c.kids = [] := by
                obtain ⟨cd, ck⟩ := c
                have h1 := hak.1
                unfold anonLeafOK at h1
                simp only [Bool.and_eq_true] at h1
                have h2 := h1.1
                simp only [Tree.data] at hvis hrel'
                have hnn : (!(if al != 0 then (lang.symMeta al).named else cd.named)) = true := by
                  by_cases h0 : al != 0
                  · simp only [h0, if_true] at hrel' ⊢; simp [hrel']
                  · simp only [h0, Bool.false_eq_true, if_false] at hrel' ⊢
                    have hv : cd.visible = true := by simpa [h0] using hvis
                    simpa [hv] using hrel'
                simp only [hvis, hnn] at h2
                simpa [Tree.kids] using h2
              have hgc : relevantChildCount c false = 0 := by simp [relevantChildCount, hleaf]
              simp only [hvis, if_true, List.filter_cons, hnm, Bool.false_eq_true, if_false, List.filter_nil, List.nil_append, hgc,
                Nat.not_lt_zero, Nat.add_zero]
              exact ih _ _ _ index hidx hsk.2 hshk.2 hxk.2 hak.2 hszr
            · -- a hidden child
              have hvis' : (c.data.visible || al != 0) = false := by simpa using hvis
              have hal0 : al = 0 := by
                have : (al != 0) = false := by
                  cases h : (al != 0) with
                  | false => rfl
                  | true => simp [h] at hvis'
                simpa using this
              simp only [hvis', Bool.false_eq_true, if_false]
              have hgc : relevantChildCount c false = ((enumChildren lang c).filter (entryNamed lang)).length := by
                obtain ⟨cd, ck⟩ := c
                cases ck with
                | nil => simp [relevantChildCount, Tree.kids, enumChildren, enumKids]
                | cons x xs =>
                  simp only [Tree.data] at hcnt
                  simp [relevantChildCount, Tree.kids, Tree.data, hcnt]
              by_cases hin : ci - index < relevantChildCount c false
              · simp only [hin, if_true]
                have hnx : c.data.extra = false := by
                  cases hce : c.data.extra with
                  | false => rfl
                  | true =>
                    exfalso
                    obtain ⟨cd, ck⟩ := c
                    have h1 := hxk.1
                    unfold hiddenExtraOK at h1
                    simp only [Tree.data] at hce hvis'
                    simp only [Bool.and_eq_true] at h1
                    have hvf : cd.visible = false := by
                      cases hv : cd.visible with
                      | false => rfl
                      | true => simp [hv] at hvis'
                    have hv0 : vcc (Tree.mk cd ck) = 0 := by
                      have h2 := h1.1
                      simpa [hvf, hce, hal0] using h2
                    have hs0 := summarize_counts lang (Tree.mk cd ck) (some d.symbol) hsk.1 hshk.1
                    have : relevantChildCount (Tree.mk cd ck) false = 0 := by
                      rw [hgc]
                      have h3 : (enumChildren lang (Tree.mk cd ck)).length = 0 := by
                        unfold vcc at hv0
                        cases ck with
                        | nil => simp [enumChildren, enumKids]
                        | cons a b => rw [← hs0.1]; simpa [Tree.kids, Tree.data] using hv0
                      have := List.eq_nil_of_length_eq_zero h3
                      simp [this]
                    omega
                simp only [hnx, Bool.false_eq_true, if_false] at hal hlen ⊢
                have hsidx : (if (si + 1 == 0) = true then fieldNameForChildPort.u32maxN else si + 1 - 1) = si := by simp
                rw [hsidx, fieldFromLanguage_eq, hrt, data_mk]
                have hxc : hiddenExtraOKKids lang c.kids c.data.productionId 0 = true := by
                  obtain ⟨cd, ck⟩ := c
                  have h1 := hxk.1
                  unfold hiddenExtraOK at h1
                  simp only [Bool.and_eq_true] at h1
                  simpa [Tree.kids, Tree.data] using h1.2
                have hac : anonLeafOKKids lang c.kids c.data.productionId 0 = true := by
                  obtain ⟨cd, ck⟩ := c
                  have h1 := hak.1
                  unfold anonLeafOK at h1
                  simp only [Bool.and_eq_true] at h1
                  simpa [Tree.kids, Tree.data] using h1.2
                have ihgo := fn_go_spec_named lang f
                  { t := c, alias := al, id := slotId d.addr kids.length k,
                    start := (if k > 0 then length_add pos c.data.padding else pos) }
                  (ci - index) (directFields lang d.productionId si :: outer) (some d.symbol) hsk.1 hshk.1 hxc hac hszc
                rw [chainField_cons] at ihgo
                generalize (directFields lang d.productionId si).head? = o at ihgo ⊢
                cases o with
                | none =>
                  simp only [firstSome] at ihgo
                  dsimp only
                  rw [ihgo]
                  simp only [fieldAt]
                  rw [List.getElem?_append_left (by rw [hlen, ← hgc]; exact hin)]
                | some v =>
                  simp only [firstSome] at ihgo
                  dsimp only
                  rw [ihgo]
                  simp only [fieldAt]
                  rw [List.getElem?_append_left (by rw [hlen, ← hgc]; exact hin)]
              · simp only [hin, if_false]
                rw [ih _ _ _ (index + relevantChildCount c false) (by omega) hsk.2 hshk.2 hxk.2 hak.2 hszr]
                simp only [fieldAt]
                rw [List.getElem?_append_right (by rw [hlen, ← hgc]; omega), hlen, ← hgc]
                congr 2
                omega
      have hszk : Tree.sizeList kids ≤ f := by unfold Tree.size at hsz; omega
      have := scan kids result.start 0 0 0 (Nat.zero_le _) hs.2.2 hsh.2 hx ha hszk
      simpa using this

/-- **field_name_for_named_child_spec.**  For every summarized parser-shaped subtree in which hidden extras have no
visible children and visible unnamed nodes are leaves, the port of `ts_node_field_name_for_named_child(self, i)`
returns the field the chain of the `i`-th NAMED child shows (`chainField`), the chains being exactly the `fields`
that `flatten` records for the children of the node (`flattenKids_fields`). -/
theorem field_name_for_named_child_spec (lang : Lang) (self : NodeRef) (i fuel : Nat) (ps : Option Nat)
    (hs : Summarized lang self.t) (hsh : shapeOK ps self.t = true)
    (hx : hiddenExtraOKKids lang self.t.kids self.t.data.productionId 0 = true)
    (ha : anonLeafOKKids lang self.t.kids self.t.data.productionId 0 = true) (hf : self.t.size ≤ fuel) :
    fieldNameForChildPort lang fuel self i false = fieldAt ((enumF lang self.t []).filter (nmF lang)) i := by
  unfold fieldNameForChildPort
  have := fn_go_spec_named lang fuel self i [] ps hs hsh hx ha hf
  simpa [chainField] using this

/-! ## Non-vacuity: `fldRoot` (FieldProps.lean) = rule[tok (field 1), _hidden[tok (field 2, inherited)]] -/

example : hiddenExtraOKKids fldLang fldRoot.kids fldRoot.data.productionId 0 = true ∧
    anonLeafOKKids fldLang fldRoot.kids fldRoot.data.productionId 0 = true := by decide
/-- named child 1 of the root is the token inside the hidden node: its field is the inherited field 2 -/
example : fieldNameForChildPort fldLang 4 ⟨fldRoot, 0, 1, length_zero⟩ 1 false = some 2 := by
  rw [field_name_for_named_child_spec fldLang ⟨fldRoot, 0, 1, length_zero⟩ 1 4 none fldRoot_summarized (by decide) (by decide) (by decide) (by decide)]
  decide

end TsVerif.C06
