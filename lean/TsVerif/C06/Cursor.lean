import TsVerif.Gen.Edit
import TsVerif.C06.Model
/-!
# C06 — port of `lib/src/tree_cursor.c` over dumped subtrees

`Entry` is `TreeCursorEntry`, `Iter` is `CursorChildIterator`, the stack is a list with the
current entry first.  Function by function: `isEntryVisible`, `iterateChildren`, `iterNext`,
`iterPrev`, `gotoFirstChild`, `gotoLastChild`, `gotoSiblingInternal`, `gotoNextSibling`,
`gotoPreviousSibling` (with the position recomputation), `gotoParent`, `gotoDescendant`,
`currentNode`-alias, `currentFieldId`, `currentDepth`, `gotoFirstChildFor` (byte and point).

`ts_tree_cursor_child_iterator_previous` is ported WITH its three departures from "a reverse
`ts_tree_cursor_child_iterator_next`", each behind a flag of `Quirks`, so that the same definition
is the code as it is (`Quirks.current`) and the code as it should be (`Quirks.none`):
* `int8`      — the end test is `(int8_t)child_index == -1` (true for every index ≡ 255 mod 256);
* `noDescIdx` — the produced entry has no `descendant_index` (it is left 0);
* `staleSi`   — `structural_child_index` is decremented according to the child just *left*, not
                the child *entered*, and only when an alias sequence exists; after passing an
                extra child the alias (and field) lookups use the wrong structural index.
-/
namespace TsVerif.C06
open TsGen TsVerif TsVerif.C02

structure Quirks where
  int8 : Bool
  noDescIdx : Bool
  staleSi : Bool
  deriving Repr, DecidableEq, Inhabited

def Quirks.current : Quirks := { int8 := true, noDescIdx := true, staleSi := true }
def Quirks.none : Quirks := { int8 := false, noDescIdx := false, staleSi := false }

structure Entry where
  t : Tree
  id : Nat
  pos : Length
  childIndex : Nat := 0
  si : Nat := 0
  descIdx : Nat := 0
  deriving Inhabited

structure Cursor where
  stack : List Entry      -- current entry first, the cursor's root last
  rootAlias : Nat := 0
  deriving Inhabited

def u32max : Nat := 4294967295

/-- `ts_subtree_visible_child_count` / `ts_subtree_visible_descendant_count` (0 for leaves). -/
def vcc (t : Tree) : Nat := if t.kids.isEmpty then 0 else t.data.visibleChildCount
def vdc (t : Tree) : Nat := if t.kids.isEmpty then 0 else t.data.visibleDescendantCount

/-- `ts_tree_cursor_is_entry_visible` for the entry `e` whose parent entry is `parent?`
(`none` = stack index 0). -/
def isEntryVisible (lang : Lang) (e : Entry) (parent? : Option Entry) : Bool :=
  match parent? with
  | none => true
  | some p =>
    if e.t.data.visible then true
    else if !e.t.data.extra then lang.aliasAt p.t.data.productionId e.si != 0
    else false

structure Iter where
  valid : Bool
  parent : Tree
  pos : Length
  childIndex : Nat
  si : Nat
  descIdx : Nat
  deriving Inhabited

/-- `ts_tree_cursor_iterate_children` for a stack whose top is `top` (with parent entry `p?`). -/
def iterateChildren (lang : Lang) (top : Entry) (p? : Option Entry) : Iter :=
  if top.t.kids.isEmpty then
    { valid := false, parent := top.t, pos := length_zero, childIndex := 0, si := 0, descIdx := 0 }
  else
    { valid := true, parent := top.t, pos := top.pos, childIndex := 0, si := 0
      descIdx := top.descIdx + (if isEntryVisible lang top p? then 1 else 0) }

/-- `ts_tree_cursor_child_iterator_next`. -/
def iterNext (lang : Lang) (it : Iter) : Option (Entry × Bool × Iter) :=
  let kids := it.parent.kids
  let n := kids.length
  if !it.valid || it.childIndex == n then none else
  match kids[it.childIndex]? with
  | none => none
  | some child =>
    let entry : Entry :=
      { t := child, id := slotId it.parent.data.addr n it.childIndex, pos := it.pos
        childIndex := it.childIndex, si := it.si, descIdx := it.descIdx }
    let extra := child.data.extra
    let visible := child.data.visible || (!extra && lang.aliasAt it.parent.data.productionId it.si != 0)
    let si := if extra then it.si else it.si + 1
    let descIdx := it.descIdx + vdc child + (if visible then 1 else 0)
    let pos := length_add it.pos child.data.size
    let ci := it.childIndex + 1
    let pos := match kids[ci]? with
      | some next => length_add pos next.data.padding
      | none => pos
    some (entry, visible, { it with pos := pos, childIndex := ci, si := si, descIdx := descIdx })

/-- `ts_tree_cursor_child_iterator_previous` (see the header for `Quirks`). -/
def iterPrev (lang : Lang) (q : Quirks) (it : Iter) : Option (Entry × Bool × Iter) :=
  let kids := it.parent.kids
  let n := kids.length
  let pid := it.parent.data.productionId
  let atEnd := if q.int8 then it.childIndex % 256 == 255 else it.childIndex == u32max
  if !it.valid || atEnd then none else
  match kids[it.childIndex]? with
  | none => none
  | some child =>
    let entry : Entry :=
      { t := child, id := slotId it.parent.data.addr n it.childIndex, pos := it.pos
        childIndex := it.childIndex, si := it.si, descIdx := if q.noDescIdx then 0 else it.descIdx }
    let extra := child.data.extra
    let pos := length_backtrack it.pos child.data.padding
    let ci := if it.childIndex == 0 then u32max else it.childIndex - 1
    -- `alias_sequence` is NULL exactly for production id 0
    let visible := child.data.visible || (!extra && lang.aliasAt pid it.si != 0)
    let si := if q.staleSi then (if !extra && pid != 0 && it.si > 0 then it.si - 1 else it.si) else it.si
    match (if ci < n then kids[ci]? else none) with
    | some prev =>
      let pos := length_backtrack pos prev.data.size
      if q.staleSi then
        some (entry, visible, { it with pos := pos, childIndex := ci, si := si })
      else
        -- entering `prev`: its structural index and the index of its first visible node
        let si := if prev.data.extra then it.si else it.si - 1
        let prevVisible := prev.data.visible || (!prev.data.extra && lang.aliasAt pid si != 0)
        let descIdx := it.descIdx - (vdc prev + (if prevVisible then 1 else 0))
        some (entry, visible, { it with pos := pos, childIndex := ci, si := si, descIdx := descIdx })
    | none => some (entry, visible, { it with pos := pos, childIndex := ci, si := si })

inductive Step where
  | none | hidden | visible
  deriving DecidableEq, Repr

def parentOf (stack : List Entry) : Option Entry := stack.tail.head?

/-- Fuel for descents: number of raw nodes below the top entry. -/
def topSize (stack : List Entry) : Nat := match stack with | e :: _ => e.t.size + 1 | [] => 0

/-- `ts_tree_cursor_goto_first_child_internal`: scan the children with `iterNext`. -/
def firstChildInternal (lang : Lang) (top : Entry) (p? : Option Entry) : Step × Option Entry :=
  let rec go (fuel : Nat) (it : Iter) : Step × Option Entry :=
    match fuel with
    | 0 => (.none, none)
    | fuel + 1 =>
      match iterNext lang it with
      | none => (.none, none)
      | some (e, vis, it') =>
        if vis then (.visible, some e)
        else if vcc e.t > 0 then (.hidden, some e)
        else go fuel it'
  go (top.t.kids.length + 1) (iterateChildren lang top p?)

/-- `ts_tree_cursor_goto_last_child_internal`. -/
def lastChildInternal (lang : Lang) (top : Entry) (p? : Option Entry) : Step × Option Entry :=
  let rec go (fuel : Nat) (it : Iter) (best : Step × Option Entry) : Step × Option Entry :=
    match fuel with
    | 0 => best
    | fuel + 1 =>
      match iterNext lang it with
      | none => best
      | some (e, vis, it') =>
        if vis then go fuel it' (.visible, some e)
        else if vcc e.t > 0 then go fuel it' (.hidden, some e)
        else go fuel it' best
  go (top.t.kids.length + 1) (iterateChildren lang top p?) (.none, none)

/-- `ts_tree_cursor_goto_first_child` / `_last_child`: repeat while the step is hidden. -/
def gotoChild (lang : Lang) (last : Bool) (fuel : Nat) (stack : List Entry) : Bool × List Entry :=
  match fuel with
  | 0 => (false, stack)
  | fuel + 1 =>
    match stack with
    | [] => (false, stack)
    | top :: rest =>
      let r := if last then lastChildInternal lang top rest.head? else firstChildInternal lang top rest.head?
      match r with
      | (.visible, some e) => (true, e :: stack)
      | (.hidden, some e) => gotoChild lang last fuel (e :: stack)
      | _ => (false, stack)

/-- The inner `while (advance(...))` of `ts_tree_cursor_goto_sibling_internal`. -/
def scanSiblings (adv : Iter → Option (Entry × Bool × Iter)) (fuel : Nat) (it : Iter) : Step × Option Entry :=
  match fuel with
  | 0 => (.none, none)
  | fuel + 1 =>
    match adv it with
    | none => (.none, none)
    | some (e, vis, it') =>
      if vis then (.visible, some e)
      else if vcc e.t > 0 then (.hidden, some e)
      else scanSiblings adv fuel it'

/-- `ts_tree_cursor_goto_sibling_internal`; `initialSize` is the stack size at entry. -/
def gotoSiblingInternal (lang : Lang) (adv : Iter → Option (Entry × Bool × Iter)) (initialSize : Nat) :
    List Entry → Step × List Entry
  | [] => (.none, [])
  | [_] => (.none, [])
  | entry :: parent :: rest =>
    let it0 := iterateChildren lang parent rest.head?
    let it := { it0 with childIndex := entry.childIndex, si := entry.si, pos := entry.pos, descIdx := entry.descIdx }
    -- the first `advance` re-visits the popped entry itself
    let (vis, it1?) := match adv it with
      | some (_, v, it') => (v, some it')
      | none => (false, none)
    let sizeNow := (parent :: rest).length
    if vis && sizeNow + 1 < initialSize then (.none, [])
    else
      let r := match it1? with
        | some it1 => scanSiblings adv (parent.t.kids.length + 2) it1
        | none => (.none, none)
      match r with
      | (.visible, some e) => (.visible, e :: parent :: rest)
      | (.hidden, some e) => (.hidden, e :: parent :: rest)
      | _ => gotoSiblingInternal lang adv initialSize (parent :: rest)

def gotoNextSibling (lang : Lang) (c : Cursor) : Bool × Cursor :=
  match gotoSiblingInternal lang (iterNext lang) c.stack.length c.stack with
  | (.visible, st) => (true, { c with stack := st })
  | (.hidden, st) => (true, { c with stack := (gotoChild lang false (topSize st) st).2 })
  | (.none, _) => (false, c)

/-- The position recomputation of `ts_tree_cursor_goto_previous_sibling_internal`. -/
def recomputePosition (parent : Entry) (childIndex : Nat) : Length :=
  let kids := parent.t.kids
  if childIndex > 0 then
    match kids with
    | [] => parent.pos
    | k0 :: rest =>
      let p := length_add parent.pos k0.data.size
      let p := (rest.take (childIndex - 1)).foldl (fun p k => length_add p k.totalSize) p
      match kids[childIndex]? with
      | some k => length_add p k.data.padding
      | none => p
  else parent.pos

def gotoPreviousSibling (lang : Lang) (q : Quirks) (c : Cursor) : Bool × Cursor :=
  match gotoSiblingInternal lang (iterPrev lang q) c.stack.length c.stack with
  | (.none, _) => (false, c)
  | (step, st) =>
    let st := match st with
      | top :: parent :: rest =>
        if length_is_undefined top.pos then { top with pos := recomputePosition parent top.childIndex } :: parent :: rest
        else st
      | _ => st
    if step == .hidden then
      (true, { c with stack := (gotoChild lang true (topSize st) st).2 })
    else (true, { c with stack := st })

/-- `ts_tree_cursor_goto_parent`: drop entries until a visible one is on top. -/
def gotoParent (lang : Lang) (c : Cursor) : Bool × Cursor :=
  let rec go : List Entry → Option (List Entry)
    | [] => none
    | e :: rest => if isEntryVisible lang e rest.head? then some (e :: rest) else go rest
  match c.stack with
  | [] => (false, c)
  | _ :: rest =>
    match go rest with
    | some st => (true, { c with stack := st })
    | none => (false, c)

/-- `ts_tree_cursor_goto_descendant`. -/
def gotoDescendant (lang : Lang) (goal : Nat) (c : Cursor) : Cursor :=
  -- ascend
  let rec ascend : List Entry → List Entry
    | [] => []
    | e :: rest =>
      let next := e.descIdx + (if isEntryVisible lang e rest.head? then 1 else 0) + vdc e.t
      if e.descIdx ≤ goal && next > goal then e :: rest
      else if rest.isEmpty then e :: rest   -- `return` with the stack unchanged at size 1
      else ascend rest
  let st := ascend c.stack
  -- (the C code returns early when it bottoms out without containing the goal)
  let contains := match st with
    | e :: rest => e.descIdx ≤ goal && e.descIdx + (if isEntryVisible lang e rest.head? then 1 else 0) + vdc e.t > goal
    | [] => false
  if !contains then { c with stack := st } else
  let rec scan (fuel : Nat) (it : Iter) : Option (Entry × Bool) :=
    match fuel with
    | 0 => none
    | fuel + 1 =>
      match iterNext lang it with
      | none => none
      | some (e, vis, it') => if it'.descIdx > goal then some (e, vis) else scan fuel it'
  let rec descend (fuel : Nat) (st : List Entry) : List Entry :=
    match fuel with
    | 0 => st
    | fuel + 1 =>
      match st with
      | [] => st
      | top :: rest =>
        let it := iterateChildren lang top rest.head?
        if it.descIdx > goal then st else
        match scan (top.t.kids.length + 1) it with
        | none => st
        | some (e, vis) =>
          if vis && e.descIdx == goal then e :: st else descend fuel (e :: st)
  { c with stack := descend (topSize st) st }

/-- `ts_tree_cursor_goto_first_child_for_byte_and_point`: index of the child and the new stack. -/
def gotoFirstChildFor (lang : Lang) (goalByte : Nat) (goalPoint : TSPoint) (c : Cursor) : Int × Cursor :=
  let rec scan (fuel : Nat) (it : Iter) (idx : Nat) : Nat × Option (Entry × Bool) :=
    match fuel with
    | 0 => (idx, none)
    | fuel + 1 =>
      match iterNext lang it with
      | none => (idx, none)
      | some (e, vis, it') =>
        let eEnd := length_add e.pos e.t.data.size
        let atGoal := eEnd.bytes > goalByte && point_gt eEnd.extent goalPoint
        if atGoal then
          if vis then (idx, some (e, true))
          else if vcc e.t > 0 then (idx, some (e, false))
          else scan fuel it' idx
        else if vis then scan fuel it' (idx + 1)
        else scan fuel it' (idx + vcc e.t)
  let rec go (fuel : Nat) (st : List Entry) (idx : Nat) : Option (Nat × List Entry) :=
    match fuel with
    | 0 => none
    | fuel + 1 =>
      match st with
      | [] => none
      | top :: rest =>
        match scan (top.t.kids.length + 1) (iterateChildren lang top rest.head?) idx with
        | (idx, some (e, true)) => some (idx, e :: st)
        | (idx, some (e, false)) => go fuel (e :: st) idx
        | (_, none) => none
  match go (topSize c.stack) c.stack 0 with
  | some (idx, st) => (idx, { c with stack := st })
  | none => (-1, c)

/-! ### Runtime side of `cursor_first_child_for_spec` (CursorFcb.lean) -/

/-- The scan of `goto_first_child_for_byte_and_point` as a PLAIN search: like the port, but after an
unsuccessful descent into a hidden child (`inner` finds nothing) it continues with the next sibling,
counting the visible children of that hidden child as passed.  `inner` is the search one level down. -/
def cfcScanIdeal (lang : Lang) (goalByte : Nat) (goalPoint : TSPoint) (inner : List Entry → Nat → Option (Nat × List Entry))
    (st : List Entry) : Nat → Iter → Nat → Option (Nat × List Entry)
  | 0, _, _ => none
  | fuel + 1, it, idx =>
    match iterNext lang it with
    | none => none
    | some (e, vis, it') =>
      let eEnd := length_add e.pos e.t.data.size
      let atGoal := eEnd.bytes > goalByte && point_gt eEnd.extent goalPoint
      if atGoal then
        if vis then some (idx, e :: st)
        else if vcc e.t > 0 then
          match inner (e :: st) idx with
          | some r => some r
          | none => cfcScanIdeal lang goalByte goalPoint inner st fuel it' (idx + vcc e.t)
        else cfcScanIdeal lang goalByte goalPoint inner st fuel it' idx
      else if vis then cfcScanIdeal lang goalByte goalPoint inner st fuel it' (idx + 1)
      else cfcScanIdeal lang goalByte goalPoint inner st fuel it' (idx + vcc e.t)

/-- The plain search from a stack: first visible child (hidden ones replaced by theirs) whose end lies
after the goal in bytes AND in row/column order, with its index among the visible children. -/
def cfcIdeal (lang : Lang) (goalByte : Nat) (goalPoint : TSPoint) : Nat → List Entry → Nat → Option (Nat × List Entry)
  | 0, _, _ => none
  | fuel + 1, st, idx =>
    match st with
    | [] => none
    | top :: rest =>
      cfcScanIdeal lang goalByte goalPoint (cfcIdeal lang goalByte goalPoint fuel) st (top.t.kids.length + 1)
        (iterateChildren lang top rest.head?) idx

/-- "No dead end" along the scan: every hidden child the search enters (ends after the goal, has
visible children) contains a visible child ending after the goal (`inner` succeeds), recursively
(`innerOK`).  This is the hypothesis finding 9 forces. -/
def cfcScanNde (lang : Lang) (goalByte : Nat) (goalPoint : TSPoint) (inner : List Entry → Nat → Option (Nat × List Entry))
    (innerOK : List Entry → Nat → Bool) (st : List Entry) : Nat → Iter → Nat → Bool
  | 0, _, _ => true
  | fuel + 1, it, idx =>
    match iterNext lang it with
    | none => true
    | some (e, vis, it') =>
      let eEnd := length_add e.pos e.t.data.size
      let atGoal := eEnd.bytes > goalByte && point_gt eEnd.extent goalPoint
      if atGoal then
        if vis then true
        else if vcc e.t > 0 then (inner (e :: st) idx).isSome && innerOK (e :: st) idx
        else cfcScanNde lang goalByte goalPoint inner innerOK st fuel it' idx
      else if vis then cfcScanNde lang goalByte goalPoint inner innerOK st fuel it' (idx + 1)
      else cfcScanNde lang goalByte goalPoint inner innerOK st fuel it' (idx + vcc e.t)

def ndeCur (lang : Lang) (goalByte : Nat) (goalPoint : TSPoint) : Nat → List Entry → Nat → Bool
  | 0, _, _ => true
  | fuel + 1, st, idx =>
    match st with
    | [] => true
    | top :: rest =>
      cfcScanNde lang goalByte goalPoint (cfcIdeal lang goalByte goalPoint fuel) (ndeCur lang goalByte goalPoint fuel) st
        (top.t.kids.length + 1) (iterateChildren lang top rest.head?) idx

/-- `ts_tree_cursor_current_field_id`. -/
def currentFieldId (lang : Lang) (c : Cursor) : Nat :=
  let rec go (isTop : Bool) : List Entry → Nat
    | [] => 0
    | [_] => 0
    | e :: p :: rest =>
      if !isTop && isEntryVisible lang e (some p) then 0
      else if e.t.data.extra then 0
      else
        match (lang.fieldMap p.t.data.productionId).toList.find? (fun m => !m.inherited && m.childIndex == e.si) with
        | some m => m.fieldId
        | none => go false (p :: rest)
  go true c.stack

/-- `ts_tree_cursor_current_depth`. -/
def currentDepth (lang : Lang) (c : Cursor) : Nat :=
  let rec go : List Entry → Nat
    | [] => 0
    | [_] => 0
    | e :: p :: rest => (if isEntryVisible lang e (some p) then 1 else 0) + go (p :: rest)
  go c.stack

/-- A cursor on the tree's root node (`ts_tree_cursor_new(ts_tree_root_node(tree))`). -/
def Cursor.ofRoot (root : Tree) (rootId : Nat) : Cursor :=
  { stack := [{ t := root, id := rootId, pos := length_add length_zero root.data.padding }] }

/-- `ts_tree_cursor_new(node)` for the node the cursor `c` currently shows. -/
def Cursor.rootedHere (lang : Lang) (c : Cursor) : Cursor :=
  match c.stack with
  | top :: rest =>
    let al := match rest.head? with
      | some p => if top.t.data.extra then 0 else lang.aliasAt p.t.data.productionId top.si
      | none => if top.t.data.extra then 0 else c.rootAlias
    { stack := [{ t := top.t, id := top.id, pos := top.pos }], rootAlias := al }
  | [] => c

/-- The alias `ts_tree_cursor_current_node` gives the node: the root alias for the cursor's root,
the parent's alias sequence otherwise, none for extras. -/
def Cursor.currentAlias (lang : Lang) (c : Cursor) : Nat :=
  match c.stack with
  | top :: rest =>
    if top.t.data.extra then 0
    else match rest.head? with
      | some p => lang.aliasAt p.t.data.productionId top.si
      | none => c.rootAlias
  | [] => 0

/-- `ts_node_symbol(ts_tree_cursor_current_node(cursor))`. -/
def Cursor.currentKind (lang : Lang) (c : Cursor) : Nat :=
  match c.stack.head? with
  | some top => let al := c.currentAlias lang; lang.publicSymbol (if al != 0 then al else top.t.data.symbol)
  | none => 0

/-- `<id> <kind> <depth> <descendant index> <field>` as the explorer prints it. -/
def Cursor.state (lang : Lang) (c : Cursor) (hex : Nat → String) : String :=
  match c.stack.head? with
  | some top => s!"{hex top.id} {c.currentKind lang} {currentDepth lang c} {top.descIdx} {currentFieldId lang c}"
  | none => "?"

def Cursor.posString (c : Cursor) : String :=
  match c.stack.head? with
  | some top => s!"{top.pos.bytes} {top.pos.extent.row} {top.pos.extent.column}"
  | none => "?"

/-- Structural index reached after passing the raw children `a` starting from `si`
(`structural_child_index` counts the non-extra children). -/
def siAfter : List Tree → Nat → Nat
  | [], si => si
  | c :: rest, si => siAfter rest (if c.data.extra then si else si + 1)

/-- Runtime form of `IdxOK` (structural-index invariant of a cursor stack). -/
def stackIdxOK : List Entry → Bool
  | e :: p :: rest => (e.si == siAfter (p.t.kids.take e.childIndex) 0) && stackIdxOK (p :: rest)
  | _ => true

/-- Runtime form of the linkage part of `StackOK` (hypothesis of the cursor-walk theorems): every
entry is the child of the entry below it at its recorded raw index (compared by node data). -/
def stackLinked : List Entry → Bool
  | e :: p :: rest => ((p.t.kids[e.childIndex]?).map (·.data) == some e.t.data) && stackLinked (p :: rest)
  | _ => true

end TsVerif.C06
