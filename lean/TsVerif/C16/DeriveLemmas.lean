import TsVerif.C16.Derive
/-!
# C16 — soundness of closed node-type information for the derivation semantics
-/
namespace TsVerif.C16.Derive
open TsVerif.C16

theorem cnt_append (f : String) (a b : List Child) : cnt f (a ++ b) = cnt f a + cnt f b := by
  simp [cnt, List.filter_append]

theorem cnt_single (f : String) (ty : TypeRef) (fo : Option String) :
    cnt f [⟨ty, fo.toList⟩] = if fo = some f then 1 else 0 := by
  cases fo with
  | none => simp [cnt]
  | some g =>
    by_cases h : g = f
    · subst h; simp [cnt]
    · have : ¬ f = g := fun e => h e.symm
      simp [cnt, h, this]

theorem cnt_le_length (f : String) (ks : List Child) : cnt f ks ≤ ks.length := by
  unfold cnt; exact List.length_filter_le _ _

theorem cnt_cons (f : String) (c : Child) (cs : List Child) :
    cnt f (c :: cs) = (if f ∈ c.fields then 1 else 0) + cnt f cs := by
  by_cases h : f ∈ c.fields
  · simp [cnt, List.filter_cons, h]; omega
  · simp [cnt, List.filter_cons, h]

theorem cnt_map_addField (f : String) (fo : Option String) (ks : List Child) :
    cnt f (ks.map (addField fo)) = if fo = some f then ks.length else cnt f ks := by
  induction ks with
  | nil => simp [cnt]
  | cons c cs ih =>
    rw [List.map_cons, cnt_cons, ih, cnt_cons]
    have hm : f ∈ (addField fo c).fields ↔ (fo = some f ∨ f ∈ c.fields) := by
      cases fo with
      | none => simp [addField]
      | some g =>
        simp only [addField, Option.toList_some, List.singleton_append, List.mem_cons, Option.some.injEq]
        constructor
        · rintro (h | h); exact Or.inl h.symm; exact Or.inr h
        · rintro (h | h); exact Or.inl h.symm; exact Or.inr h
    by_cases hf : fo = some f
    · have : f ∈ (addField fo c).fields := hm.2 (Or.inl hf)
      rw [if_pos this, if_pos hf, if_pos hf]
      simp only [List.length_cons]; omega
    · by_cases hc : f ∈ c.fields
      · have : f ∈ (addField fo c).fields := hm.2 (Or.inr hc)
        rw [if_pos this, if_neg hf, if_neg hf, if_pos hc]
      · have : ¬ f ∈ (addField fo c).fields := fun h => (hm.1 h).elim hf hc
        rw [if_neg this, if_neg hf, if_neg hf, if_neg hc]

theorem cntPlain_append (a b : List Child) : cntPlain (a ++ b) = cntPlain a + cntPlain b := by
  simp [cntPlain, List.filter_append]

theorem cntPlain_single (ty : TypeRef) (fo : Option String) :
    cntPlain [⟨ty, fo.toList⟩] = if fo = none ∧ ty.named = true then 1 else 0 := by
  cases fo with
  | none => cases hn : ty.named <;> simp [cntPlain, isPlain, hn]
  | some g => simp [cntPlain, isPlain]

theorem isPlain_addField (fo : Option String) (c : Child) :
    isPlain (addField fo c) = (decide (fo = none) && isPlain c) := by
  cases fo with
  | none => simp [isPlain, addField]
  | some g => simp [isPlain, addField]

theorem cntPlain_map_addField (fo : Option String) (ks : List Child) :
    cntPlain (ks.map (addField fo)) = if fo = none then cntPlain ks else 0 := by
  induction ks with
  | nil => simp [cntPlain]
  | cons c cs ih =>
    have h1 : cntPlain (List.map (addField fo) (c :: cs)) = cntPlain [addField fo c] + cntPlain (cs.map (addField fo)) := by
      rw [List.map_cons, show addField fo c :: cs.map (addField fo) = [addField fo c] ++ cs.map (addField fo) from rfl, cntPlain_append]
    have h2 : cntPlain (c :: cs) = cntPlain [c] + cntPlain cs := by
      rw [show c :: cs = [c] ++ cs from rfl, cntPlain_append]
    have h3 : cntPlain [addField fo c] = if fo = none then cntPlain [c] else 0 := by
      cases fo with
      | none => simp [addField]
      | some g => simp [cntPlain, isPlain, addField]
    rw [h1, ih, h2, h3]
    split <;> rfl

/-- what one step contributes, given that the derivations of hidden rules are admitted -/
theorem step_sound (G : Grammar) (I : Info) (K : Nat → List Child → Prop)
    (hK : ∀ h ks, K h ks → Admits I h ks) (v : Nat) (s : Step) (k : List Child)
    (hs : StepKids G K s k) (hc : StepClosed G I v s) :
    (∀ c ∈ k, c.ty ∈ I.children v ∧ ∀ f ∈ c.fields, c.ty ∈ I.fieldTypes v f) ∧
    (stepChildMax G I s < 2 → k.length ≤ stepChildMax G I s) ∧
    (∀ f, stepFieldMax G I f s < 2 → cnt f k ≤ stepFieldMax G I f s) ∧
    (stepChildMin G I s ≤ k.length) ∧
    (∀ f, stepFieldMin G I f s ≤ cnt f k) ∧
    (∀ c ∈ k, isPlain c = true → c.ty ∈ I.plainTypes v) ∧
    (stepPlainMax G I s < 2 → cntPlain k ≤ stepPlainMax G I s) ∧
    (stepPlainMin G I s ≤ cntPlain k) := by
  unfold StepKids at hs
  unfold StepClosed at hc
  unfold stepChildMax stepFieldMax stepChildMin stepFieldMin stepPlainMax stepPlainMin
  cases hv : visTy G s with
  | some ty =>
    simp only [hv] at hs hc ⊢
    subst hs
    refine ⟨?_, by simp, ?_, by simp, ?_, ?_, ?_, ?_⟩
    · intro c hcm
      simp only [List.mem_singleton] at hcm
      subst hcm
      refine ⟨hc.1, ?_⟩
      intro f hf
      cases hfo : s.field with
      | none => simp [hfo] at hf
      | some g =>
        simp only [hfo, Option.toList_some, List.mem_singleton] at hf
        subst hf
        exact hc.2.1 f hfo
    · intro f _; rw [cnt_single]; split <;> simp_all
    · intro f; rw [cnt_single]; exact Nat.le_refl _
    · intro c hcm hpl
      simp only [List.mem_singleton] at hcm
      subst hcm
      simp only [isPlain, Bool.and_eq_true, List.isEmpty_iff] at hpl
      have hfn : s.field = none := by
        cases hfo : s.field with
        | none => rfl
        | some g => simp [hfo] at hpl
      exact hc.2.2 hfn hpl.2
    · intro _; rw [cntPlain_single]; exact Nat.le_refl _
    · rw [cntPlain_single]; exact Nat.le_refl _
  | none =>
    simp only [hv] at hs hc ⊢
    cases hk : G.kind s.sym with
    | token t =>
      simp only [hk] at hs hc ⊢
      subst hs
      simp [cnt, cntPlain]
    | rule h t =>
      simp only [hk] at hs hc ⊢
      obtain ⟨ks, hks, rfl⟩ := hs
      obtain ⟨a1, a2, a3, a4, a5, a6, a7, a8⟩ := hK h ks hks
      obtain ⟨c1, c2, c3, c4⟩ := hc
      refine ⟨?_, ?_, ?_, ?_, ?_, ?_, ?_, ?_⟩
      · intro c hcm
        simp only [List.mem_map] at hcm
        obtain ⟨c0, hc0, rfl⟩ := hcm
        obtain ⟨t1, t2⟩ := a1 c0 hc0
        refine ⟨c1 _ t1, ?_⟩
        intro f hf
        simp only [addField, List.mem_append] at hf
        rcases hf with hf | hf
        · cases hfo : s.field with
          | none => simp [hfo] at hf
          | some g =>
            simp only [hfo, Option.toList_some, List.mem_singleton] at hf
            subst hf
            exact c3 f hfo _ t1
        · exact c2 f _ (t2 f hf)
      · intro hlt; simpa using a2 hlt
      · intro f hlt
        rw [cnt_map_addField]
        by_cases hf : s.field = some f
        · simp only [hf, if_true] at hlt ⊢; exact a2 hlt
        · simp only [hf, if_false] at hlt ⊢; exact a3 f hlt
      · simpa using a4
      · intro f
        rw [cnt_map_addField]
        by_cases hf : s.field = some f
        · simp only [hf, if_true]; exact a4
        · simp only [hf, if_false]; exact a5 f
      · intro c hcm hpl
        simp only [List.mem_map] at hcm
        obtain ⟨c0, hc0, rfl⟩ := hcm
        rw [isPlain_addField] at hpl
        simp only [Bool.and_eq_true, decide_eq_true_eq] at hpl
        simpa [addField] using c4 hpl.1 _ (a6 c0 hc0 hpl.2)
      · intro hlt
        rw [cntPlain_map_addField]
        by_cases hf : s.field = none
        · simp only [hf, if_true] at hlt ⊢; exact a7 hlt
        · simp only [hf, if_false]; exact Nat.zero_le _
      · rw [cntPlain_map_addField]
        by_cases hf : s.field = none
        · simp only [hf, if_true]; exact a8
        · simp only [hf, if_false]; exact Nat.le_refl _

theorem steps_sound (G : Grammar) (I : Info) (K : Nat → List Child → Prop)
    (hK : ∀ h ks, K h ks → Admits I h ks) (v : Nat) : ∀ (p : List Step) (ks : List Child),
    StepsKids G K p ks → (∀ s ∈ p, StepClosed G I v s) →
    (∀ c ∈ ks, c.ty ∈ I.children v ∧ ∀ f ∈ c.fields, c.ty ∈ I.fieldTypes v f) ∧
    (sumBy (stepChildMax G I) p < 2 → ks.length ≤ sumBy (stepChildMax G I) p) ∧
    (∀ f, sumBy (stepFieldMax G I f) p < 2 → cnt f ks ≤ sumBy (stepFieldMax G I f) p) ∧
    (sumBy (stepChildMin G I) p ≤ ks.length) ∧
    (∀ f, sumBy (stepFieldMin G I f) p ≤ cnt f ks) ∧
    (∀ c ∈ ks, isPlain c = true → c.ty ∈ I.plainTypes v) ∧
    (sumBy (stepPlainMax G I) p < 2 → cntPlain ks ≤ sumBy (stepPlainMax G I) p) ∧
    (sumBy (stepPlainMin G I) p ≤ cntPlain ks) := by
  intro p
  induction p with
  | nil =>
    intro ks h _
    simp only [StepsKids] at h
    subst h
    simp [sumBy, cnt, cntPlain]
  | cons s rest ih =>
    intro ks h hcl
    simp only [StepsKids] at h
    obtain ⟨k1, k2, rfl, h1, h2⟩ := h
    obtain ⟨s1, s2, s3, s4, s5, s6, s7, s8⟩ := step_sound G I K hK v s k1 h1 (hcl s List.mem_cons_self)
    obtain ⟨r1, r2, r3, r4, r5, r6, r7, r8⟩ := ih k2 h2 (fun t ht => hcl t (List.mem_cons_of_mem _ ht))
    refine ⟨?_, ?_, ?_, ?_, ?_, ?_, ?_, ?_⟩
    · intro c hc
      rcases List.mem_append.1 hc with hc | hc
      · exact s1 c hc
      · exact r1 c hc
    · intro hlt
      simp only [sumBy] at hlt ⊢
      have := s2 (by omega); have := r2 (by omega)
      simp only [List.length_append]; omega
    · intro f hlt
      simp only [sumBy] at hlt ⊢
      have := s3 f (by omega); have := r3 f (by omega)
      rw [cnt_append]; omega
    · simp only [sumBy, List.length_append]; omega
    · intro f
      have := s5 f; have := r5 f
      simp only [sumBy]; rw [cnt_append]; omega
    · intro c hc hpl
      rcases List.mem_append.1 hc with hc | hc
      · exact s6 c hc hpl
      · exact r6 c hc hpl
    · intro hlt
      simp only [sumBy] at hlt ⊢
      have := s7 (by omega); have := r7 (by omega)
      rw [cntPlain_append]; omega
    · simp only [sumBy]; rw [cntPlain_append]; omega

/-- every derivation (of any nesting depth) is admitted by closed information -/
theorem kidsN_sound (G : Grammar) (I : Info) (hcl : Closed G I) :
    ∀ (n v : Nat) (ks : List Child), KidsN G n v ks → Admits I v ks := by
  intro n
  induction n with
  | zero => intro v ks h; simp [KidsN] at h
  | succ n ih =>
    intro v ks h
    simp only [KidsN] at h
    obtain ⟨p, hp, hs⟩ := h
    obtain ⟨c1, c2, c3, c4, c5, c6, c7⟩ := hcl v p hp
    obtain ⟨r1, r2, r3, r4, r5, r6, r7, r8⟩ := steps_sound G I (KidsN G n) (fun h ks hk => ih h ks hk) v p ks hs c1
    refine ⟨r1, ?_, ?_, ?_, ?_, r6, ?_, ?_⟩
    · intro hlt; have := c2 hlt; have := r2 (by omega); omega
    · intro f hlt; have := c3 f hlt; have := r3 f (by omega); omega
    · omega
    · intro f; have := c5 f; have := r5 f; omega
    · intro hlt; have := c6 hlt; have := r7 (by omega); omega
    · omega

end TsVerif.C16.Derive
