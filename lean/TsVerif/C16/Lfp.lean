import TsVerif.C16.DeriveLemmas
/-!
# C16 — the least closed information, by iteration

`get_variable_info` computes the node-type information by iterating the inequations from "nothing"
until nothing changes (`compute_variable_info_fixed_point`).  Here: the information lives in a finite
table `Ix → Nat` (one 0/1 entry per (variable, kind), (variable, field, kind), one 0..2 entry per
quantity bound; minima are stored as the deficit `2 - min`, so that EVERY entry only grows), `stepS`
is one round (accumulating, like the code), `iterS n` is `stepS^n ⊥`.

* `iterS_closed`   — with fuel `2 · |index set|` (the index set: the (variable, kind), (variable, field,
                      kind) triples and the bounds, `Univ.ixs`), the iteration has stopped changing and
                      its information is `Closed`;
* `iterS_least`    — at every stage, the iteration is below EVERY closed information.
-/
namespace TsVerif.C16.Derive
open TsVerif.C16

inductive Ix where
  | ch (v : Nat) (t : TypeRef)
  | ft (v : Nat) (f : String) (t : TypeRef)
  | pl (v : Nat) (t : TypeRef)
  | cmax (v : Nat)
  | fmax (v : Nat) (f : String)
  | pmax (v : Nat)
  | cmin (v : Nat)
  | fmin (v : Nat) (f : String)
  | pmin (v : Nat)

/-- the finite universe of a grammar: its variables, the kinds its steps can show, its field names -/
structure Univ where
  nv : Nat
  T : List TypeRef
  F : List String

def Univ.of (G : Grammar) : Univ :=
  { nv := G.prods.length,
    T := G.prods.flatMap (fun ps => ps.flatMap (fun p => p.filterMap (visTy G))),
    F := G.prods.flatMap (fun ps => ps.flatMap (fun p => p.filterMap (·.field))) }

def Univ.has (U : Univ) : Ix → Bool
  | .ch v t => decide (v < U.nv) && decide (t ∈ U.T)
  | .ft v f t => decide (v < U.nv) && (decide (f ∈ U.F) && decide (t ∈ U.T))
  | .pl v t => decide (v < U.nv) && decide (t ∈ U.T)
  | .cmax v => decide (v < U.nv)
  | .fmax v f => decide (v < U.nv) && decide (f ∈ U.F)
  | .pmax v => decide (v < U.nv)
  | .cmin v => decide (v < U.nv)
  | .fmin v f => decide (v < U.nv) && decide (f ∈ U.F)
  | .pmin v => decide (v < U.nv)

/-- the index set as a list (the fuel of the iteration is twice its length) -/
def Univ.ixs (U : Univ) : List Ix :=
  (List.range U.nv).flatMap (fun v =>
    [Ix.cmax v, Ix.pmax v, Ix.cmin v, Ix.pmin v] ++
    U.T.flatMap (fun t => [Ix.ch v t, Ix.pl v t]) ++
    U.F.flatMap (fun f => [Ix.fmax v f, Ix.fmin v f] ++ U.T.map (fun t => Ix.ft v f t)))

theorem Univ.has_mem (U : Univ) (ix : Ix) (h : U.has ix = true) : ix ∈ U.ixs := by
  cases ix <;>
    simp only [Univ.has, Bool.and_eq_true, decide_eq_true_eq] at h <;>
    simp only [Univ.ixs, List.mem_flatMap, List.mem_range, List.mem_append, List.mem_cons, List.mem_map,
      List.mem_nil_iff, or_false]
  case ch v t => exact ⟨v, h.1, Or.inl (Or.inr ⟨t, h.2, Or.inl rfl⟩)⟩
  case pl v t => exact ⟨v, h.1, Or.inl (Or.inr ⟨t, h.2, Or.inr rfl⟩)⟩
  case ft v f t => exact ⟨v, h.1, Or.inr ⟨f, h.2.1, Or.inr ⟨t, h.2.2, rfl⟩⟩⟩
  case cmax v => exact ⟨v, h, Or.inl (Or.inl (Or.inl rfl))⟩
  case pmax v => exact ⟨v, h, Or.inl (Or.inl (Or.inr (Or.inl rfl)))⟩
  case cmin v => exact ⟨v, h, Or.inl (Or.inl (Or.inr (Or.inr (Or.inl rfl))))⟩
  case pmin v => exact ⟨v, h, Or.inl (Or.inl (Or.inr (Or.inr (Or.inr rfl))))⟩
  case fmax v f => exact ⟨v, h.1, Or.inr ⟨f, h.2, Or.inl (Or.inl rfl)⟩⟩
  case fmin v f => exact ⟨v, h.1, Or.inr ⟨f, h.2, Or.inl (Or.inr rfl)⟩⟩

/-- read an entry; entries outside the universe read as 0 -/
def rd (U : Univ) (S : Ix → Nat) (ix : Ix) : Nat := if U.has ix then S ix else 0

/-- the information a table stands for -/
def toInfoS (U : Univ) (S : Ix → Nat) : Info :=
  { children := fun v => U.T.filter (fun t => decide (1 ≤ rd U S (.ch v t))),
    fieldTypes := fun v f => U.T.filter (fun t => decide (1 ≤ rd U S (.ft v f t))),
    plainTypes := fun v => U.T.filter (fun t => decide (1 ≤ rd U S (.pl v t))),
    childMax := fun v => rd U S (.cmax v),
    fieldMax := fun v f => rd U S (.fmax v f),
    plainMax := fun v => rd U S (.pmax v),
    childMin := fun v => 2 - rd U S (.cmin v),
    fieldMin := fun v f => if f ∈ U.F then 2 - rd U S (.fmin v f) else 0,
    plainMin := fun v => 2 - rd U S (.pmin v) }

def anyStep (G : Grammar) (v : Nat) (P : Step → Bool) : Bool := (G.prodsOf v).any (fun p => p.any P)

/-- does step `s` contribute kind `t` to the children / to field `f` / to the plain children? -/
def tyStep (G : Grammar) (J : Info) (t : TypeRef) (s : Step) : Bool :=
  match visTy G s with
  | some ty => decide (ty = t)
  | none => match G.kind s.sym with
    | .token _ => false
    | .rule h _ => decide (t ∈ J.children h)

def ftStep (G : Grammar) (J : Info) (f : String) (t : TypeRef) (s : Step) : Bool :=
  match visTy G s with
  | some ty => decide (s.field = some f) && decide (ty = t)
  | none => match G.kind s.sym with
    | .token _ => false
    | .rule h _ => decide (t ∈ J.fieldTypes h f) || (decide (s.field = some f) && decide (t ∈ J.children h))

def plStep (G : Grammar) (J : Info) (t : TypeRef) (s : Step) : Bool :=
  match visTy G s with
  | some ty => decide (s.field = none) && (ty.named && decide (ty = t))
  | none => match G.kind s.sym with
    | .token _ => false
    | .rule h _ => decide (s.field = none) && decide (t ∈ J.plainTypes h)

def maxOver (ps : List (List Step)) (g : List Step → Nat) : Nat := ps.foldr (fun p m => max (min (g p) 2) m) 0
def minOver (ps : List (List Step)) (g : List Step → Nat) : Nat := ps.foldr (fun p m => min (g p) m) 2

/-- what one round derives for an entry from the current information -/
def rawS (G : Grammar) (J : Info) : Ix → Nat
  | .ch v t => if anyStep G v (tyStep G J t) then 1 else 0
  | .ft v f t => if anyStep G v (ftStep G J f t) then 1 else 0
  | .pl v t => if anyStep G v (plStep G J t) then 1 else 0
  | .cmax v => maxOver (G.prodsOf v) (sumBy (stepChildMax G J))
  | .fmax v f => maxOver (G.prodsOf v) (sumBy (stepFieldMax G J f))
  | .pmax v => maxOver (G.prodsOf v) (sumBy (stepPlainMax G J))
  | .cmin v => 2 - minOver (G.prodsOf v) (sumBy (stepChildMin G J))
  | .fmin v f => 2 - minOver (G.prodsOf v) (sumBy (stepFieldMin G J f))
  | .pmin v => 2 - minOver (G.prodsOf v) (sumBy (stepPlainMin G J))

/-- one round, accumulating -/
def stepS (G : Grammar) (U : Univ) (S : Ix → Nat) : Ix → Nat :=
  fun ix => max (S ix) (rawS G (toInfoS U S) ix)

/-- `stepS^n ⊥` -/
def iterS (G : Grammar) (U : Univ) : Nat → Ix → Nat
  | 0 => fun _ => 0
  | n + 1 => stepS G U (iterS G U n)

/-! ## small lemmas -/

theorem maxOver_ge (ps : List (List Step)) (g : List Step → Nat) (p : List Step) (hp : p ∈ ps) :
    min (g p) 2 ≤ maxOver ps g := by
  induction ps with
  | nil => cases hp
  | cons q rest ih =>
    simp only [maxOver, List.foldr_cons]
    rcases List.mem_cons.1 hp with rfl | h
    · exact Nat.le_max_left _ _
    · exact Nat.le_trans (ih h) (Nat.le_max_right _ _)

theorem maxOver_le (ps : List (List Step)) (g : List Step → Nat) (c : Nat) (h : ∀ p ∈ ps, min (g p) 2 ≤ c) :
    maxOver ps g ≤ c := by
  induction ps with
  | nil => simp [maxOver]
  | cons q rest ih =>
    simp only [maxOver, List.foldr_cons]
    exact Nat.max_le.2 ⟨h q (List.mem_cons_self ..), ih (fun p hp => h p (List.mem_cons_of_mem _ hp))⟩

theorem maxOver_le_two (ps : List (List Step)) (g : List Step → Nat) : maxOver ps g ≤ 2 :=
  maxOver_le ps g 2 (fun _ _ => Nat.min_le_right _ _)

theorem minOver_le (ps : List (List Step)) (g : List Step → Nat) (p : List Step) (hp : p ∈ ps) :
    minOver ps g ≤ g p := by
  induction ps with
  | nil => cases hp
  | cons q rest ih =>
    simp only [minOver, List.foldr_cons]
    rcases List.mem_cons.1 hp with rfl | h
    · exact Nat.min_le_left _ _
    · exact Nat.le_trans (Nat.min_le_right _ _) (ih h)

theorem le_minOver (ps : List (List Step)) (g : List Step → Nat) (c : Nat) (hc : c ≤ 2) (h : ∀ p ∈ ps, c ≤ g p) :
    c ≤ minOver ps g := by
  induction ps with
  | nil => simpa [minOver] using hc
  | cons q rest ih =>
    simp only [minOver, List.foldr_cons]
    exact Nat.le_min.2 ⟨h q (List.mem_cons_self ..), ih (fun p hp => h p (List.mem_cons_of_mem _ hp))⟩

theorem minOver_le_two (ps : List (List Step)) (g : List Step → Nat) : minOver ps g ≤ 2 := by
  induction ps with
  | nil => simp [minOver]
  | cons q rest ih =>
    simp only [minOver, List.foldr_cons]
    exact Nat.le_trans (Nat.min_le_right _ _) ih

theorem sumBy_le_of_lt2 (g g' : Step → Nat) (p : List Step) (h : ∀ s ∈ p, g' s < 2 → g s ≤ g' s)
    (hs : sumBy g' p < 2) : sumBy g p ≤ sumBy g' p := by
  induction p with
  | nil => simp [sumBy]
  | cons s rest ih =>
    simp only [sumBy] at hs ⊢
    have h1 := h s (List.mem_cons_self ..) (by omega)
    have h2 := ih (fun s' hs' => h s' (List.mem_cons_of_mem _ hs')) (by omega)
    omega

theorem sumBy_min2 (g g' : Step → Nat) (p : List Step) (h : ∀ s ∈ p, min (g' s) 2 ≤ g s) :
    min (sumBy g' p) 2 ≤ sumBy g p := by
  induction p with
  | nil => simp [sumBy]
  | cons s rest ih =>
    simp only [sumBy]
    have h1 := h s (List.mem_cons_self ..)
    have h2 := ih (fun s' hs' => h s' (List.mem_cons_of_mem _ hs'))
    omega

theorem anyStep_iff (G : Grammar) (v : Nat) (P : Step → Bool) :
    anyStep G v P = true ↔ ∃ p ∈ G.prodsOf v, ∃ s ∈ p, P s = true := by
  simp only [anyStep, List.any_eq_true]

theorem prodsOf_mem (G : Grammar) (v : Nat) (p : List Step) (hp : p ∈ G.prodsOf v) :
    v < G.prods.length ∧ G.prodsOf v ∈ G.prods := by
  unfold Grammar.prodsOf at hp ⊢
  by_cases hv : v < G.prods.length
  · refine ⟨hv, ?_⟩
    simp only [List.getD_eq_getElem?_getD, List.getElem?_eq_getElem hv, Option.getD_some]
    exact List.getElem_mem hv
  · simp only [List.getD_eq_getElem?_getD, List.getElem?_eq_none (Nat.le_of_not_lt hv), Option.getD_none] at hp
    cases hp

theorem univ_ty (G : Grammar) (v : Nat) (p : List Step) (hp : p ∈ G.prodsOf v) (s : Step) (hs : s ∈ p)
    (ty : TypeRef) (h : visTy G s = some ty) : ty ∈ (Univ.of G).T := by
  simp only [Univ.of, List.mem_flatMap, List.mem_filterMap]
  exact ⟨G.prodsOf v, (prodsOf_mem G v p hp).2, p, hp, s, hs, h⟩

theorem univ_field (G : Grammar) (v : Nat) (p : List Step) (hp : p ∈ G.prodsOf v) (s : Step) (hs : s ∈ p)
    (f : String) (h : s.field = some f) : f ∈ (Univ.of G).F := by
  simp only [Univ.of, List.mem_flatMap, List.mem_filterMap]
  exact ⟨G.prodsOf v, (prodsOf_mem G v p hp).2, p, hp, s, hs, h⟩

theorem sumBy_zero' (g : Step → Nat) (p : List Step) (h : ∀ s ∈ p, g s = 0) : sumBy g p = 0 := by
  induction p with
  | nil => rfl
  | cons s rest ih =>
    simp only [sumBy, h s (List.mem_cons_self ..), ih (fun s' hs' => h s' (List.mem_cons_of_mem _ hs')), Nat.add_zero]

/-! ## a table that one round does not push up stands for closed information -/

theorem mem_childrenS (U : Univ) (S : Ix → Nat) (v : Nat) (t : TypeRef) :
    t ∈ (toInfoS U S).children v ↔ t ∈ U.T ∧ 1 ≤ rd U S (.ch v t) := by
  simp only [toInfoS, List.mem_filter, decide_eq_true_eq]

theorem mem_fieldTypesS (U : Univ) (S : Ix → Nat) (v : Nat) (f : String) (t : TypeRef) :
    t ∈ (toInfoS U S).fieldTypes v f ↔ t ∈ U.T ∧ 1 ≤ rd U S (.ft v f t) := by
  simp only [toInfoS, List.mem_filter, decide_eq_true_eq]

theorem mem_plainTypesS (U : Univ) (S : Ix → Nat) (v : Nat) (t : TypeRef) :
    t ∈ (toInfoS U S).plainTypes v ↔ t ∈ U.T ∧ 1 ≤ rd U S (.pl v t) := by
  simp only [toInfoS, List.mem_filter, decide_eq_true_eq]

theorem rd_pos_has (U : Univ) (S : Ix → Nat) (ix : Ix) (h : 1 ≤ rd U S ix) : U.has ix = true ∧ 1 ≤ S ix := by
  unfold rd at h
  split at h
  · exact ⟨by assumption, h⟩
  · omega

theorem rd_has (U : Univ) (S : Ix → Nat) (ix : Ix) (h : U.has ix = true) : rd U S ix = S ix := by
  simp only [rd, h, if_true]

theorem rd_not_has (U : Univ) (S : Ix → Nat) (ix : Ix) (h : U.has ix = false) : rd U S ix = 0 := by
  simp [rd, h]

/-- `closed_of_prefixed`: if one round derives nothing above the table (on the universe of `G`),
the table's information satisfies all the inequations -/
theorem closed_of_prefixed (G : Grammar) (S : Ix → Nat)
    (hpre : ∀ ix, (Univ.of G).has ix = true → rawS G (toInfoS (Univ.of G) S) ix ≤ S ix) :
    Closed G (toInfoS (Univ.of G) S) := by
  intro v p hp
  have hv : v < (Univ.of G).nv := (prodsOf_mem G v p hp).1
  -- the three kinds of type facts
  have kch : ∀ t, t ∈ (Univ.of G).T → anyStep G v (tyStep G (toInfoS (Univ.of G) S) t) = true →
      t ∈ (toInfoS (Univ.of G) S).children v := by
    intro t ht h
    have hh : (Univ.of G).has (.ch v t) = true := by simp [Univ.has, hv, ht]
    have := hpre _ hh
    simp only [rawS, h, if_true] at this
    exact (mem_childrenS _ _ _ _).2 ⟨ht, by rw [rd_has _ _ _ hh]; exact this⟩
  have kft : ∀ f t, f ∈ (Univ.of G).F → t ∈ (Univ.of G).T → anyStep G v (ftStep G (toInfoS (Univ.of G) S) f t) = true →
      t ∈ (toInfoS (Univ.of G) S).fieldTypes v f := by
    intro f t hf ht h
    have hh : (Univ.of G).has (.ft v f t) = true := by simp [Univ.has, hv, ht, hf]
    have := hpre _ hh
    simp only [rawS, h, if_true] at this
    exact (mem_fieldTypesS _ _ _ _ _).2 ⟨ht, by rw [rd_has _ _ _ hh]; exact this⟩
  have kpl : ∀ t, t ∈ (Univ.of G).T → anyStep G v (plStep G (toInfoS (Univ.of G) S) t) = true →
      t ∈ (toInfoS (Univ.of G) S).plainTypes v := by
    intro t ht h
    have hh : (Univ.of G).has (.pl v t) = true := by simp [Univ.has, hv, ht]
    have := hpre _ hh
    simp only [rawS, h, if_true] at this
    exact (mem_plainTypesS _ _ _ _).2 ⟨ht, by rw [rd_has _ _ _ hh]; exact this⟩
  refine ⟨?_, ?_, ?_, ?_, ?_, ?_, ?_⟩
  · -- steps
    intro s hs
    unfold StepClosed
    cases hvis : visTy G s with
    | some ty =>
      simp only []
      have hty := univ_ty G v p hp s hs ty hvis
      refine ⟨kch ty hty ((anyStep_iff _ _ _).2 ⟨p, hp, s, hs, by simp [tyStep, hvis]⟩), ?_, ?_⟩
      · intro f hf
        exact kft f ty (univ_field G v p hp s hs f hf) hty ((anyStep_iff _ _ _).2 ⟨p, hp, s, hs, by simp [ftStep, hvis, hf]⟩)
      · intro hnone hnamed
        exact kpl ty hty ((anyStep_iff _ _ _).2 ⟨p, hp, s, hs, by simp [plStep, hvis, hnone, hnamed]⟩)
    | none =>
      simp only []
      cases hk : G.kind s.sym with
      | token o => trivial
      | rule h o =>
        simp only []
        refine ⟨?_, ?_, ?_, ?_⟩
        · intro t ht
          exact kch t ((mem_childrenS _ _ _ _).1 ht).1 ((anyStep_iff _ _ _).2 ⟨p, hp, s, hs, by simp [tyStep, hvis, hk, ht]⟩)
        · intro g t ht
          have h1 := (mem_fieldTypesS _ _ _ _ _).1 ht
          have h2 := (rd_pos_has _ _ _ h1.2).1
          simp only [Univ.has, Bool.and_eq_true, decide_eq_true_eq] at h2
          exact kft g t h2.2.1 h1.1 ((anyStep_iff _ _ _).2 ⟨p, hp, s, hs, by simp [ftStep, hvis, hk, ht]⟩)
        · intro f hf t ht
          exact kft f t (univ_field G v p hp s hs f hf) ((mem_childrenS _ _ _ _).1 ht).1
            ((anyStep_iff _ _ _).2 ⟨p, hp, s, hs, by simp [ftStep, hvis, hk, ht, hf]⟩)
        · intro hnone t ht
          exact kpl t ((mem_plainTypesS _ _ _ _).1 ht).1 ((anyStep_iff _ _ _).2 ⟨p, hp, s, hs, by simp [plStep, hvis, hk, ht, hnone]⟩)
  · -- childMax
    intro hlt
    have hh : (Univ.of G).has (.cmax v) = true := by simp [Univ.has, hv]
    have h1 := hpre _ hh
    simp only [rawS] at h1
    have h2 := maxOver_ge (G.prodsOf v) (sumBy (stepChildMax G (toInfoS (Univ.of G) S))) p hp
    have e : (toInfoS (Univ.of G) S).childMax v = S (.cmax v) := rd_has _ _ _ hh
    rw [e] at hlt ⊢
    omega
  · -- fieldMax
    intro f hlt
    by_cases hf : f ∈ (Univ.of G).F
    · have hh : (Univ.of G).has (.fmax v f) = true := by simp [Univ.has, hv, hf]
      have h1 := hpre _ hh
      simp only [rawS] at h1
      have h2 := maxOver_ge (G.prodsOf v) (sumBy (stepFieldMax G (toInfoS (Univ.of G) S) f)) p hp
      have e : (toInfoS (Univ.of G) S).fieldMax v f = S (.fmax v f) := rd_has _ _ _ hh
      rw [e] at hlt ⊢
      omega
    · have z : sumBy (stepFieldMax G (toInfoS (Univ.of G) S) f) p = 0 := by
        apply sumBy_zero'
        intro s hs
        have hne : s.field ≠ some f := fun h => hf (univ_field G v p hp s hs f h)
        unfold stepFieldMax
        cases visTy G s with
        | some ty => simp [hne]
        | none =>
          simp only []
          cases G.kind s.sym with
          | token o => rfl
          | rule h o =>
            simp only [hne, if_false]
            exact rd_not_has _ _ _ (by simp [Univ.has, hf])
      rw [z]; exact Nat.zero_le _
  · -- childMin
    have hh : (Univ.of G).has (.cmin v) = true := by simp [Univ.has, hv]
    have h1 := hpre _ hh
    simp only [rawS] at h1
    have h2 := minOver_le (G.prodsOf v) (sumBy (stepChildMin G (toInfoS (Univ.of G) S))) p hp
    have h3 := minOver_le_two (G.prodsOf v) (sumBy (stepChildMin G (toInfoS (Univ.of G) S)))
    have e : (toInfoS (Univ.of G) S).childMin v = 2 - S (.cmin v) := by
      show 2 - rd _ _ _ = _; rw [rd_has _ _ _ hh]
    rw [e]
    omega
  · -- fieldMin
    intro f
    by_cases hf : f ∈ (Univ.of G).F
    · have hh : (Univ.of G).has (.fmin v f) = true := by simp [Univ.has, hv, hf]
      have h1 := hpre _ hh
      simp only [rawS] at h1
      have h2 := minOver_le (G.prodsOf v) (sumBy (stepFieldMin G (toInfoS (Univ.of G) S) f)) p hp
      have h3 := minOver_le_two (G.prodsOf v) (sumBy (stepFieldMin G (toInfoS (Univ.of G) S) f))
      have e : (toInfoS (Univ.of G) S).fieldMin v f = 2 - S (.fmin v f) := by
        show (if f ∈ (Univ.of G).F then 2 - rd _ _ _ else 0) = _; rw [if_pos hf, rd_has _ _ _ hh]
      rw [e]
      omega
    · have e : (toInfoS (Univ.of G) S).fieldMin v f = 0 := by
        show (if f ∈ (Univ.of G).F then 2 - rd _ _ _ else 0) = _; rw [if_neg hf]
      rw [e]; exact Nat.zero_le _
  · -- plainMax
    intro hlt
    have hh : (Univ.of G).has (.pmax v) = true := by simp [Univ.has, hv]
    have h1 := hpre _ hh
    simp only [rawS] at h1
    have h2 := maxOver_ge (G.prodsOf v) (sumBy (stepPlainMax G (toInfoS (Univ.of G) S))) p hp
    have e : (toInfoS (Univ.of G) S).plainMax v = S (.pmax v) := rd_has _ _ _ hh
    rw [e] at hlt ⊢
    omega
  · -- plainMin
    have hh : (Univ.of G).has (.pmin v) = true := by simp [Univ.has, hv]
    have h1 := hpre _ hh
    simp only [rawS] at h1
    have h2 := minOver_le (G.prodsOf v) (sumBy (stepPlainMin G (toInfoS (Univ.of G) S))) p hp
    have h3 := minOver_le_two (G.prodsOf v) (sumBy (stepPlainMin G (toInfoS (Univ.of G) S)))
    have e : (toInfoS (Univ.of G) S).plainMin v = 2 - S (.pmin v) := by
      show 2 - rd _ _ _ = _; rw [rd_has _ _ _ hh]
    rw [e]
    omega

/-! ## every stage of the iteration is below every closed information -/

/-- `J` is at most `I` (fewer kinds, smaller maxima — as far as `I` says "not many" —, larger minima) -/
def InfoLe (F : List String) (J I : Info) : Prop :=
  (∀ v t, t ∈ J.children v → t ∈ I.children v) ∧
  (∀ v f t, t ∈ J.fieldTypes v f → t ∈ I.fieldTypes v f) ∧
  (∀ v t, t ∈ J.plainTypes v → t ∈ I.plainTypes v) ∧
  (∀ v, I.childMax v < 2 → J.childMax v ≤ I.childMax v) ∧
  (∀ v f, I.fieldMax v f < 2 → J.fieldMax v f ≤ I.fieldMax v f) ∧
  (∀ v, I.plainMax v < 2 → J.plainMax v ≤ I.plainMax v) ∧
  (∀ v, min (I.childMin v) 2 ≤ J.childMin v) ∧
  (∀ v f, f ∈ F → min (I.fieldMin v f) 2 ≤ J.fieldMin v f) ∧
  (∀ v, min (I.plainMin v) 2 ≤ J.plainMin v)

theorem rd_step (G : Grammar) (U : Univ) (S : Ix → Nat) (ix : Ix) :
    rd U (stepS G U S) ix = max (rd U S ix) (if U.has ix then rawS G (toInfoS U S) ix else 0) := by
  unfold rd stepS
  split <;> simp

theorem infoLe_bot (U : Univ) (I : Info) : InfoLe U.F (toInfoS U (fun _ => 0)) I := by
  have z : ∀ ix, rd U (fun _ => 0) ix = 0 := by intro ix; unfold rd; split <;> rfl
  refine ⟨?_, ?_, ?_, ?_, ?_, ?_, ?_, ?_, ?_⟩
  · intro v t h; have := ((mem_childrenS _ _ _ _).1 h).2; rw [z] at this; omega
  · intro v f t h; have := ((mem_fieldTypesS _ _ _ _ _).1 h).2; rw [z] at this; omega
  · intro v t h; have := ((mem_plainTypesS _ _ _ _).1 h).2; rw [z] at this; omega
  · intro v _; show rd U (fun _ => 0) (.cmax v) ≤ _; rw [z]; exact Nat.zero_le _
  · intro v f _; show rd U (fun _ => 0) (.fmax v f) ≤ _; rw [z]; exact Nat.zero_le _
  · intro v _; show rd U (fun _ => 0) (.pmax v) ≤ _; rw [z]; exact Nat.zero_le _
  · intro v; show _ ≤ 2 - rd _ _ _; rw [z]; exact Nat.min_le_right _ _
  · intro v f hf; show _ ≤ (if f ∈ U.F then 2 - rd _ _ _ else 0); rw [if_pos hf, z]; exact Nat.min_le_right _ _
  · intro v; show _ ≤ 2 - rd _ _ _; rw [z]; exact Nat.min_le_right _ _

theorem le_max_cases (a b c : Nat) (h : a ≤ max b c) : a ≤ b ∨ a ≤ c := by
  rcases Nat.le_total b c with h1 | h1
  · right; rwa [Nat.max_eq_right h1] at h
  · left; rwa [Nat.max_eq_left h1] at h

/-- one round keeps the table below a closed information -/
theorem step_below (G : Grammar) (U : Univ) (S : Ix → Nat) (I : Info) (hcl : Closed G I)
    (h : InfoLe U.F (toInfoS U S) I) : InfoLe U.F (toInfoS U (stepS G U S)) I := by
  obtain ⟨a1, a2, a3, a4, a5, a6, a7, a8, a9⟩ := h
  -- pointwise comparison of the step bounds
  have pcmax : ∀ s, stepChildMax G I s < 2 → stepChildMax G (toInfoS U S) s ≤ stepChildMax G I s := by
    intro s
    unfold stepChildMax
    cases visTy G s with
    | some ty => intro _; exact Nat.le_refl _
    | none =>
      simp only []
      cases G.kind s.sym with
      | token o => intro _; exact Nat.le_refl _
      | rule hh o => exact a4 hh
  have pfmax : ∀ f s, stepFieldMax G I f s < 2 → stepFieldMax G (toInfoS U S) f s ≤ stepFieldMax G I f s := by
    intro f s
    unfold stepFieldMax
    cases visTy G s with
    | some ty => intro _; exact Nat.le_refl _
    | none =>
      simp only []
      cases G.kind s.sym with
      | token o => intro _; exact Nat.le_refl _
      | rule hh o =>
        simp only []
        split
        · exact a4 hh
        · exact a5 hh f
  have ppmax : ∀ s, stepPlainMax G I s < 2 → stepPlainMax G (toInfoS U S) s ≤ stepPlainMax G I s := by
    intro s
    unfold stepPlainMax
    cases visTy G s with
    | some ty => intro _; exact Nat.le_refl _
    | none =>
      simp only []
      cases G.kind s.sym with
      | token o => intro _; exact Nat.le_refl _
      | rule hh o =>
        simp only []
        split
        · exact a6 hh
        · intro _; exact Nat.le_refl _
  have pcmin : ∀ s, min (stepChildMin G I s) 2 ≤ stepChildMin G (toInfoS U S) s := by
    intro s
    unfold stepChildMin
    cases visTy G s with
    | some ty => exact Nat.min_le_left _ _
    | none =>
      simp only []
      cases G.kind s.sym with
      | token o => exact Nat.min_le_left _ _
      | rule hh o => exact a7 hh
  have pfmin : ∀ f, f ∈ U.F → ∀ s, min (stepFieldMin G I f s) 2 ≤ stepFieldMin G (toInfoS U S) f s := by
    intro f hf s
    unfold stepFieldMin
    cases visTy G s with
    | some ty => exact Nat.min_le_left _ _
    | none =>
      simp only []
      cases G.kind s.sym with
      | token o => exact Nat.min_le_left _ _
      | rule hh o =>
        simp only []
        split
        · exact a7 hh
        · exact a8 hh f hf
  have ppmin : ∀ s, min (stepPlainMin G I s) 2 ≤ stepPlainMin G (toInfoS U S) s := by
    intro s
    unfold stepPlainMin
    cases visTy G s with
    | some ty => exact Nat.min_le_left _ _
    | none =>
      simp only []
      cases G.kind s.sym with
      | token o => exact Nat.min_le_left _ _
      | rule hh o =>
        simp only []
        split
        · exact a9 hh
        · exact Nat.min_le_left _ _
  refine ⟨?_, ?_, ?_, ?_, ?_, ?_, ?_, ?_, ?_⟩
  · -- children
    intro v t ht
    obtain ⟨htT, h1⟩ := (mem_childrenS _ _ _ _).1 ht
    rw [rd_step] at h1
    rcases le_max_cases _ _ _ h1 with h2 | h3
    · exact a1 v t ((mem_childrenS _ _ _ _).2 ⟨htT, h2⟩)
    · split at h3
      · simp only [rawS] at h3
        split at h3
        · rename_i hany
          obtain ⟨p, hp, s, hs, hP⟩ := (anyStep_iff _ _ _).1 hany
          have hc := ((hcl v p hp).1 s hs)
          unfold StepClosed at hc
          unfold tyStep at hP
          cases hvis : visTy G s with
          | some ty =>
            simp only [hvis, decide_eq_true_eq] at hP hc
            exact hP ▸ hc.1
          | none =>
            simp only [hvis] at hP hc
            cases hk : G.kind s.sym with
            | token o => simp [hk] at hP
            | rule hh o =>
              simp only [hk, decide_eq_true_eq] at hP hc
              exact hc.1 t (a1 hh t hP)
        · omega
      · omega
  · -- field types
    intro v f t ht
    obtain ⟨htT, h1⟩ := (mem_fieldTypesS _ _ _ _ _).1 ht
    rw [rd_step] at h1
    rcases le_max_cases _ _ _ h1 with h2 | h3
    · exact a2 v f t ((mem_fieldTypesS _ _ _ _ _).2 ⟨htT, h2⟩)
    · split at h3
      · simp only [rawS] at h3
        split at h3
        · rename_i hany
          obtain ⟨p, hp, s, hs, hP⟩ := (anyStep_iff _ _ _).1 hany
          have hc := ((hcl v p hp).1 s hs)
          unfold StepClosed at hc
          unfold ftStep at hP
          cases hvis : visTy G s with
          | some ty =>
            simp only [hvis, Bool.and_eq_true, decide_eq_true_eq] at hP hc
            exact hP.2 ▸ hc.2.1 f hP.1
          | none =>
            simp only [hvis] at hP hc
            cases hk : G.kind s.sym with
            | token o => simp [hk] at hP
            | rule hh o =>
              simp only [hk, Bool.or_eq_true, Bool.and_eq_true, decide_eq_true_eq] at hP hc
              rcases hP with hP | ⟨hf, hP⟩
              · exact hc.2.1 f t (a2 hh f t hP)
              · exact hc.2.2.1 f hf t (a1 hh t hP)
        · omega
      · omega
  · -- plain types
    intro v t ht
    obtain ⟨htT, h1⟩ := (mem_plainTypesS _ _ _ _).1 ht
    rw [rd_step] at h1
    rcases le_max_cases _ _ _ h1 with h2 | h3
    · exact a3 v t ((mem_plainTypesS _ _ _ _).2 ⟨htT, h2⟩)
    · split at h3
      · simp only [rawS] at h3
        split at h3
        · rename_i hany
          obtain ⟨p, hp, s, hs, hP⟩ := (anyStep_iff _ _ _).1 hany
          have hc := ((hcl v p hp).1 s hs)
          unfold StepClosed at hc
          unfold plStep at hP
          cases hvis : visTy G s with
          | some ty =>
            simp only [hvis, Bool.and_eq_true, decide_eq_true_eq] at hP hc
            exact hP.2.2 ▸ hc.2.2 hP.1 hP.2.1
          | none =>
            simp only [hvis] at hP hc
            cases hk : G.kind s.sym with
            | token o => simp [hk] at hP
            | rule hh o =>
              simp only [hk, Bool.and_eq_true, decide_eq_true_eq] at hP hc
              exact hc.2.2.2 hP.1 t (a3 hh t hP.2)
        · omega
      · omega
  · -- childMax
    intro v hlt
    show rd U (stepS G U S) (.cmax v) ≤ _
    rw [rd_step]
    refine Nat.max_le.2 ⟨a4 v hlt, ?_⟩
    split
    · simp only [rawS]
      apply maxOver_le
      intro p hp
      have hc := (hcl v p hp).2.1 hlt
      have := sumBy_le_of_lt2 (stepChildMax G (toInfoS U S)) (stepChildMax G I) p (fun s _ => pcmax s) (by omega)
      omega
    · exact Nat.zero_le _
  · -- fieldMax
    intro v f hlt
    show rd U (stepS G U S) (.fmax v f) ≤ _
    rw [rd_step]
    refine Nat.max_le.2 ⟨a5 v f hlt, ?_⟩
    split
    · simp only [rawS]
      apply maxOver_le
      intro p hp
      have hc := (hcl v p hp).2.2.1 f hlt
      have := sumBy_le_of_lt2 (stepFieldMax G (toInfoS U S) f) (stepFieldMax G I f) p (fun s _ => pfmax f s) (by omega)
      omega
    · exact Nat.zero_le _
  · -- plainMax
    intro v hlt
    show rd U (stepS G U S) (.pmax v) ≤ _
    rw [rd_step]
    refine Nat.max_le.2 ⟨a6 v hlt, ?_⟩
    split
    · simp only [rawS]
      apply maxOver_le
      intro p hp
      have hc := (hcl v p hp).2.2.2.2.2.1 hlt
      have := sumBy_le_of_lt2 (stepPlainMax G (toInfoS U S)) (stepPlainMax G I) p (fun s _ => ppmax s) (by omega)
      omega
    · exact Nat.zero_le _
  · -- childMin
    intro v
    show _ ≤ 2 - rd U (stepS G U S) (.cmin v)
    rw [rd_step]
    have b1 : min (I.childMin v) 2 ≤ 2 - rd U S (.cmin v) := a7 v
    split
    · simp only [rawS]
      have b2 : min (I.childMin v) 2 ≤ minOver (G.prodsOf v) (sumBy (stepChildMin G (toInfoS U S))) := by
        apply le_minOver _ _ _ (Nat.min_le_right _ _)
        intro p hp
        have hc := (hcl v p hp).2.2.2.1
        have := sumBy_min2 (stepChildMin G (toInfoS U S)) (stepChildMin G I) p (fun s _ => pcmin s)
        omega
      have b3 := minOver_le_two (G.prodsOf v) (sumBy (stepChildMin G (toInfoS U S)))
      omega
    · omega
  · -- fieldMin
    intro v f hf
    show _ ≤ (if f ∈ U.F then 2 - rd U (stepS G U S) (.fmin v f) else 0)
    rw [if_pos hf, rd_step]
    have b1 : min (I.fieldMin v f) 2 ≤ 2 - rd U S (.fmin v f) := by
      have := a8 v f hf
      have e : (toInfoS U S).fieldMin v f = 2 - rd U S (.fmin v f) := by
        show (if f ∈ U.F then 2 - rd _ _ _ else 0) = _; rw [if_pos hf]
      rw [e] at this; exact this
    split
    · simp only [rawS]
      have b2 : min (I.fieldMin v f) 2 ≤ minOver (G.prodsOf v) (sumBy (stepFieldMin G (toInfoS U S) f)) := by
        apply le_minOver _ _ _ (Nat.min_le_right _ _)
        intro p hp
        have hc := (hcl v p hp).2.2.2.2.1 f
        have := sumBy_min2 (stepFieldMin G (toInfoS U S) f) (stepFieldMin G I f) p (fun s _ => pfmin f hf s)
        omega
      have b3 := minOver_le_two (G.prodsOf v) (sumBy (stepFieldMin G (toInfoS U S) f))
      omega
    · omega
  · -- plainMin
    intro v
    show _ ≤ 2 - rd U (stepS G U S) (.pmin v)
    rw [rd_step]
    have b1 : min (I.plainMin v) 2 ≤ 2 - rd U S (.pmin v) := a9 v
    split
    · simp only [rawS]
      have b2 : min (I.plainMin v) 2 ≤ minOver (G.prodsOf v) (sumBy (stepPlainMin G (toInfoS U S))) := by
        apply le_minOver _ _ _ (Nat.min_le_right _ _)
        intro p hp
        have hc := (hcl v p hp).2.2.2.2.2.2
        have := sumBy_min2 (stepPlainMin G (toInfoS U S)) (stepPlainMin G I) p (fun s _ => ppmin s)
        omega
      have b3 := minOver_le_two (G.prodsOf v) (sumBy (stepPlainMin G (toInfoS U S)))
      omega
    · omega

/-- `iterS_least`: every stage of the iteration is below every closed information -/
theorem iterS_below (G : Grammar) (U : Univ) (I : Info) (hcl : Closed G I) :
    ∀ n, InfoLe U.F (toInfoS U (iterS G U n)) I
  | 0 => infoLe_bot U I
  | n + 1 => step_below G U _ I hcl (iterS_below G U I hcl n)

/-! ## the iteration stops within `2 · |index set|` rounds -/

theorem rawS_le_two (G : Grammar) (J : Info) (ix : Ix) : rawS G J ix ≤ 2 := by
  cases ix <;> simp only [rawS]
  case ch v t => split <;> omega
  case ft v f t => split <;> omega
  case pl v t => split <;> omega
  case cmax v => exact maxOver_le_two _ _
  case fmax v f => exact maxOver_le_two _ _
  case pmax v => exact maxOver_le_two _ _
  case cmin v => omega
  case fmin v f => omega
  case pmin v => omega

theorem iterS_le_two (G : Grammar) (U : Univ) : ∀ n ix, iterS G U n ix ≤ 2
  | 0, _ => Nat.zero_le _
  | n + 1, ix => Nat.max_le.2 ⟨iterS_le_two G U n ix, rawS_le_two G _ ix⟩

theorem toInfoS_congr (U : Univ) (S S' : Ix → Nat) (h : ∀ ix, U.has ix = true → S ix = S' ix) :
    toInfoS U S = toInfoS U S' := by
  have e : rd U S = rd U S' := by
    funext ix
    unfold rd
    split
    · exact h ix (by assumption)
    · rfl
  simp only [toInfoS, e]

/-- the table does not change on the universe when one more round is applied -/
def Fixed (G : Grammar) (U : Univ) (S : Ix → Nat) : Prop := ∀ ix, U.has ix = true → stepS G U S ix = S ix

theorem fixed_step (G : Grammar) (U : Univ) (S : Ix → Nat) (h : Fixed G U S) : Fixed G U (stepS G U S) := by
  intro ix hix
  have e : toInfoS U (stepS G U S) = toInfoS U S := toInfoS_congr U _ _ h
  show max (stepS G U S ix) (rawS G (toInfoS U (stepS G U S)) ix) = stepS G U S ix
  rw [e]
  exact Nat.max_eq_left (Nat.le_max_right _ _)

def mu (l : List Ix) (S : Ix → Nat) : Nat := (l.map S).sum

theorem mu_le (l : List Ix) (a b : Ix → Nat) (h : ∀ x ∈ l, a x ≤ b x) : mu l a ≤ mu l b := by
  induction l with
  | nil => exact Nat.le_refl _
  | cons x rest ih =>
    simp only [mu, List.map_cons, List.sum_cons] at ih ⊢
    have h1 := h x (List.mem_cons_self ..)
    have h2 := ih (fun y hy => h y (List.mem_cons_of_mem _ hy))
    omega

theorem mu_eq_pointwise (l : List Ix) (a b : Ix → Nat) (h : ∀ x ∈ l, a x ≤ b x) (e : mu l a = mu l b) :
    ∀ x ∈ l, a x = b x := by
  induction l with
  | nil => intro x hx; cases hx
  | cons y rest ih =>
    have h1 := h y (List.mem_cons_self ..)
    have h2 := mu_le rest a b (fun z hz => h z (List.mem_cons_of_mem _ hz))
    simp only [mu, List.map_cons, List.sum_cons] at e h2
    intro x hx
    rcases List.mem_cons.1 hx with rfl | hx
    · omega
    · exact ih (fun z hz => h z (List.mem_cons_of_mem _ hz)) (by simp only [mu]; omega) x hx

theorem mu_bound (l : List Ix) (a : Ix → Nat) (h : ∀ x, a x ≤ 2) : mu l a ≤ 2 * l.length := by
  induction l with
  | nil => exact Nat.le_refl _
  | cons x rest ih =>
    simp only [mu, List.map_cons, List.sum_cons, List.length_cons] at ih ⊢
    have := h x
    omega

/-- a round that changes the table on the universe strictly increases the sum of its entries -/
theorem fixed_or_grows (G : Grammar) (U : Univ) (S : Ix → Nat) :
    Fixed G U S ∨ mu U.ixs S < mu U.ixs (stepS G U S) := by
  have hle : mu U.ixs S ≤ mu U.ixs (stepS G U S) := mu_le _ _ _ (fun x _ => Nat.le_max_left _ _)
  rcases Nat.lt_or_ge (mu U.ixs S) (mu U.ixs (stepS G U S)) with h | h
  · exact Or.inr h
  · left
    intro ix hix
    exact (mu_eq_pointwise U.ixs S (stepS G U S) (fun x _ => Nat.le_max_left _ _) (Nat.le_antisymm hle h) ix (U.has_mem ix hix)).symm

theorem fixed_or_large (G : Grammar) (U : Univ) : ∀ n, Fixed G U (iterS G U n) ∨ n ≤ mu U.ixs (iterS G U n)
  | 0 => Or.inr (Nat.zero_le _)
  | n + 1 => by
    rcases fixed_or_large G U n with h | h
    · exact Or.inl (fixed_step G U _ h)
    · rcases fixed_or_grows G U (iterS G U n) with h2 | h2
      · exact Or.inl (fixed_step G U _ h2)
      · right
        show n + 1 ≤ mu U.ixs (stepS G U (iterS G U n))
        omega

/-- `iterS_fixed`: with fuel `2 · |index set|` or more, the iteration has stopped -/
theorem iterS_fixed (G : Grammar) (U : Univ) (n : Nat) (hn : 2 * U.ixs.length ≤ n) : Fixed G U (iterS G U n) := by
  have key : Fixed G U (iterS G U (2 * U.ixs.length)) := by
    rcases fixed_or_large G U (2 * U.ixs.length) with h | h
    · exact h
    · rcases fixed_or_grows G U (iterS G U (2 * U.ixs.length)) with h2 | h2
      · exact h2
      · have b := mu_bound U.ixs (iterS G U (2 * U.ixs.length + 1)) (iterS_le_two G U _)
        have : mu U.ixs (stepS G U (iterS G U (2 * U.ixs.length))) = mu U.ixs (iterS G U (2 * U.ixs.length + 1)) := rfl
        omega
  obtain ⟨m, rfl⟩ : ∃ m, n = 2 * U.ixs.length + m := ⟨n - 2 * U.ixs.length, by omega⟩
  clear hn
  induction m with
  | zero => exact key
  | succ m ih => exact fixed_step G U _ ih

/-- the fuel: twice the number of (variable, kind), (variable, field, kind) entries and bounds -/
def lfpFuel (G : Grammar) : Nat := 2 * (Univ.of G).ixs.length

/-- the least closed information of `G` -/
def lfp (G : Grammar) : Info := toInfoS (Univ.of G) (iterS G (Univ.of G) (lfpFuel G))

theorem iterS_closed (G : Grammar) (n : Nat) (hn : lfpFuel G ≤ n) :
    Closed G (toInfoS (Univ.of G) (iterS G (Univ.of G) n)) := by
  apply closed_of_prefixed
  intro ix hix
  have := iterS_fixed G (Univ.of G) n hn ix hix
  have h2 : rawS G (toInfoS (Univ.of G) (iterS G (Univ.of G) n)) ix ≤ stepS G (Univ.of G) (iterS G (Univ.of G) n) ix :=
    Nat.le_max_right _ _
  omega

end TsVerif.C16.Derive
