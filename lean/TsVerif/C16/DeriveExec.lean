import TsVerif.C16.DeriveLemmas
/-!
# C16 — executable side of the derivation model

`InfoF` is a finite `Info`; `closedB` decides `Closed` for it (`closedB_sound`), so that on every run the
check can evaluate closedness of the REAL node-types.json (visible rules) together with the least
information of the hidden rules (`leastHidden`, computed by iterating the inequations) against the
productions of the real grammar — and then `derive_sound_partial` applies to the real file.
-/
namespace TsVerif.C16.Derive
open TsVerif.C16

structure VarInfo where
  children : List TypeRef := []
  childMax : Nat := 0
  childMin : Nat := 0
  fields : List (String × List TypeRef × Nat × Nat) := []     -- field, kinds, max, min
  plain : List TypeRef := []
  plainMax : Nat := 0
  plainMin : Nat := 0
  deriving Repr, Inhabited, BEq

abbrev InfoF := List VarInfo

def InfoF.var (I : InfoF) (v : Nat) : VarInfo := I.getD v {}
def VarInfo.field (vi : VarInfo) (f : String) : Option (String × List TypeRef × Nat × Nat) :=
  vi.fields.find? (fun e => e.1 == f)

def InfoF.toInfo (I : InfoF) : Info :=
  { children := fun v => (I.var v).children,
    childMax := fun v => (I.var v).childMax,
    childMin := fun v => (I.var v).childMin,
    fieldTypes := fun v f => match (I.var v).field f with | some e => e.2.1 | none => [],
    fieldMax := fun v f => match (I.var v).field f with | some e => e.2.2.1 | none => 0,
    fieldMin := fun v f => match (I.var v).field f with | some e => e.2.2.2 | none => 0,
    plainTypes := fun v => (I.var v).plain,
    plainMax := fun v => (I.var v).plainMax,
    plainMin := fun v => (I.var v).plainMin }

/-- every field name used by a step of the grammar or present in the information -/
def fieldUniverse (G : Grammar) (I : InfoF) : List String :=
  (G.prods.flatMap (fun ps => ps.flatMap (fun p => p.filterMap (·.field)))) ++ I.flatMap (fun vi => vi.fields.map (·.1))

def stepClosedB (G : Grammar) (I : InfoF) (v : Nat) (s : Step) : Bool :=
  let J := I.toInfo
  match visTy G s with
  | some ty =>
    decide (ty ∈ J.children v) &&
    (match s.field with
     | some f => decide (ty ∈ J.fieldTypes v f)
     | none => !ty.named || decide (ty ∈ J.plainTypes v))
  | none => match G.kind s.sym with
    | .token _ => true
    | .rule h _ =>
      (J.children h).all (fun t => decide (t ∈ J.children v)) &&
      (I.var h).fields.all (fun e => e.2.1.all (fun t => decide (t ∈ J.fieldTypes v e.1))) &&
      (match s.field with
       | some f => (J.children h).all (fun t => decide (t ∈ J.fieldTypes v f))
       | none => (J.plainTypes h).all (fun t => decide (t ∈ J.plainTypes v)))

def prodClosedB (G : Grammar) (I : InfoF) (F : List String) (v : Nat) (p : List Step) : Bool :=
  let J := I.toInfo
  p.all (stepClosedB G I v) &&
  (decide (2 ≤ J.childMax v) || decide (sumBy (stepChildMax G J) p ≤ J.childMax v)) &&
  F.all (fun f => decide (2 ≤ J.fieldMax v f) || decide (sumBy (stepFieldMax G J f) p ≤ J.fieldMax v f)) &&
  decide (J.childMin v ≤ sumBy (stepChildMin G J) p) &&
  F.all (fun f => decide (J.fieldMin v f ≤ sumBy (stepFieldMin G J f) p)) &&
  (decide (2 ≤ J.plainMax v) || decide (sumBy (stepPlainMax G J) p ≤ J.plainMax v)) &&
  decide (J.plainMin v ≤ sumBy (stepPlainMin G J) p)

/-- decides `Closed G I.toInfo` -/
def closedB (G : Grammar) (I : InfoF) : Bool :=
  let F := fieldUniverse G I
  (List.range G.prods.length).all (fun v => (G.prodsOf v).all (prodClosedB G I F v))

/-- first production that is not closed: (variable, production index) — diagnostics -/
def firstOpen (G : Grammar) (I : InfoF) : Option (Nat × Nat) :=
  let F := fieldUniverse G I
  (List.range G.prods.length).findSome? (fun v =>
    ((G.prodsOf v).zipIdx.find? (fun (p, _) => !prodClosedB G I F v p)).map (fun (_, i) => (v, i)))

/-! ## least information of the hidden rules, by iteration -/

def satAdd (a b : Nat) : Nat := min (a + b) 2
def unionTy (a b : List TypeRef) : List TypeRef := a ++ b.filter (fun t => !decide (t ∈ a))

structure Acc where
  children : List TypeRef := []
  plain : List TypeRef := []
  fields : List (String × List TypeRef) := []
  deriving Inhabited

def Acc.addField (a : Acc) (f : String) (ts : List TypeRef) : Acc :=
  if a.fields.any (·.1 == f) then
    { a with fields := a.fields.map (fun e => if e.1 == f then (e.1, unionTy e.2 ts) else e) }
  else { a with fields := a.fields ++ [(f, ts)] }

/-- kinds contributed by one step (with the current information of hidden rules) -/
def stepTypes (G : Grammar) (I : InfoF) (a : Acc) (s : Step) : Acc :=
  match visTy G s with
  | some ty =>
    let a := { a with children := unionTy a.children [ty] }
    match s.field with
    | some f => a.addField f [ty]
    | none => if ty.named then { a with plain := unionTy a.plain [ty] } else a
  | none => match G.kind s.sym with
    | .token _ => a
    | .rule h _ =>
      let hi := I.var h
      let a := { a with children := unionTy a.children hi.children }
      let a := hi.fields.foldl (fun a e => a.addField e.1 e.2.1) a
      match s.field with
      | some f => a.addField f hi.children
      | none => { a with plain := unionTy a.plain hi.plain }

/-- one round: recompute the information of variable `v` from its productions -/
def stepVar (G : Grammar) (I : InfoF) (F : List String) (v : Nat) : VarInfo :=
  let J := I.toInfo
  let ps := G.prodsOf v
  let acc := ps.foldl (fun a p => p.foldl (stepTypes G I) a) ({} : Acc)
  let maxOver (g : List Step → Nat) : Nat := ps.foldl (fun m p => max m (min (g p) 2)) 0
  let minOver (g : List Step → Nat) : Nat := ps.foldl (fun m p => min m (g p)) 2
  { children := acc.children, plain := acc.plain,
    childMax := maxOver (sumBy (stepChildMax G J)), childMin := minOver (sumBy (stepChildMin G J)),
    plainMax := maxOver (sumBy (stepPlainMax G J)), plainMin := minOver (sumBy (stepPlainMin G J)),
    fields := F.filterMap (fun f =>
      let ts := (acc.fields.find? (·.1 == f)).map (·.2) |>.getD []
      let mx := maxOver (sumBy (stepFieldMax G J f))
      -- the entry is kept even when the field does not occur (yet): its minimum must come down from "many",
      -- not up from 0 (a recursive hidden rule would otherwise stay at "not required" although the field is
      -- present in every derivation)
      some (f, ts, mx, minOver (sumBy (stepFieldMin G J f)))) }

/-- iterate from the bottom (no kinds, maximum 0, minimum "many") over the variables in `hidden`;
the other variables keep the information given in `I0` (the real node-types file) -/
def iterate (G : Grammar) (F : List String) (hidden : List Nat) : Nat → InfoF → InfoF
  | 0, I => I
  | n + 1, I =>
    let I' := (List.range I.length).map (fun v => if hidden.contains v then stepVar G I F v else I.var v)
    if I' == I then I else iterate G F hidden n I'

end TsVerif.C16.Derive
