/-!
# C16 — parse-table model: ports of `ts_language_lookup`, `ts_language_lookaheads`,
# `ts_lookahead_iterator__next` (lib/src/language.h) over a dump of a real `TSLanguage`

Code-shaped.  Pointers into `parse_table` / `small_parse_table` are indices (`Nat`); reads outside
the dumped arrays return 0 (`getD`), and the decidable predicate `tableWF` (evaluated on every real
dump) says that no such read happens for any state of the language.
-/
namespace TsVerif.C16

/-- The data of a `TSLanguage` the look-ahead machinery reads. -/
structure Lang where
  symbolCount : Nat
  tokenCount : Nat
  stateCount : Nat
  largeStateCount : Nat
  parseTable : Array Nat        -- large_state_count * symbol_count
  smallTable : Array Nat        -- small_parse_table
  smallMap : Array Nat          -- small_parse_table_map, one index per small state
  actionCounts : Array Nat      -- parse_actions[i].entry.count for every index i of parse_actions
  deriving Repr, Inhabited

namespace Lang
/-- `self->parse_table[i]` -/
def pt (L : Lang) (i : Nat) : Nat := L.parseTable.getD i 0
/-- `self->small_parse_table[i]` -/
def st (L : Lang) (i : Nat) : Nat := L.smallTable.getD i 0
/-- `self->small_parse_table_map[i]` -/
def sm (L : Lang) (i : Nat) : Nat := L.smallMap.getD i 0
/-- `self->parse_actions[i].entry.count` -/
def ac (L : Lang) (i : Nat) : Nat := L.actionCounts.getD i 0
end Lang

/-! ## `ts_language_lookup` -/

/-- inner loop `for (j = 0; j < symbol_count; j++) if (*(data++) == symbol) return section_value;` -/
def scanSyms (L : Lang) (sym : Nat) : (count pos : Nat) → Bool
  | 0, _ => false
  | n + 1, pos => if L.st pos == sym then true else scanSyms L sym n (pos + 1)

/-- outer loop over the groups of a small state; `pos` is `data` (after `group_count` was read). -/
def lookupSmall (L : Lang) (sym : Nat) : (groups pos : Nat) → Nat
  | 0, _ => 0
  | g + 1, pos =>
    let sectionValue := L.st pos
    let symbolCount := L.st (pos + 1)
    if scanSyms L sym symbolCount (pos + 2) then sectionValue
    else lookupSmall L sym g (pos + 2 + symbolCount)

/-- port of `ts_language_lookup` -/
def lookup (L : Lang) (state sym : Nat) : Nat :=
  if state ≥ L.largeStateCount then
    let index := L.sm (state - L.largeStateCount)
    let groupCount := L.st index
    lookupSmall L sym groupCount (index + 1)
  else
    L.pt (state * L.symbolCount + sym)

/-! ## the look-ahead iterator -/

inductive Phase where
  | fresh | positioned | done
  deriving DecidableEq, Repr, Inhabited

/-- `LookaheadIterator` (pointer fields are indices into the table they point into). -/
structure Iter where
  data : Nat
  groupEnd : Nat
  tableValue : Nat
  groupCount : Nat
  isSmall : Bool
  phase : Phase
  symbol : Nat
  nextState : Nat
  actionCount : Nat
  deriving DecidableEq, Repr, Inhabited

/-- port of `ts_language_lookaheads` -/
def lookaheads (L : Lang) (state : Nat) : Iter :=
  let isSmall := decide (state ≥ L.largeStateCount)
  if isSmall then
    let index := L.sm (state - L.largeStateCount)
    { data := index, groupEnd := index + 1, tableValue := 0, groupCount := L.st index,
      isSmall := true, phase := .fresh, symbol := 65535, nextState := 0, actionCount := 0 }
  else
    { data := state * L.symbolCount, groupEnd := 0, tableValue := 0, groupCount := 0,
      isSmall := false, phase := .fresh, symbol := 65535, nextState := 0, actionCount := 0 }

/-- `while (symbol < symbol_count && !row[symbol]) symbol++;` with the loop bound made explicit -/
def scanRowAux (L : Lang) (row : Nat) : (k sym : Nat) → Nat
  | 0, sym => sym
  | k + 1, sym => if L.pt (row + sym) != 0 then sym else scanRowAux L row k (sym + 1)

def scanRow (L : Lang) (row : Nat) (sym : Nat) : Nat := scanRowAux L row (L.symbolCount - sym) sym

/-- the tail of `ts_lookahead_iterator__next` (terminal ⇒ actions, non-terminal ⇒ successor state) -/
def finish (L : Lang) (it : Iter) : Bool × Iter :=
  if it.symbol < L.tokenCount then
    (true, { it with actionCount := L.ac it.tableValue, nextState := 0, phase := .positioned })
  else
    (true, { it with actionCount := 0, nextState := it.tableValue, phase := .positioned })

/-- port of `ts_lookahead_iterator__next` -/
def next (L : Lang) (it : Iter) : Bool × Iter :=
  if it.phase = .done then (false, it)
  else if it.isSmall then
    let data := it.data + 1
    if data = it.groupEnd then
      if it.groupCount = 0 then (false, { it with data := data, phase := .done })
      else
        let tableValue := L.st data
        let symbolCount := L.st (data + 1)
        let data := data + 2
        finish L { it with data := data, groupCount := it.groupCount - 1, tableValue := tableValue,
                           groupEnd := data + symbolCount, symbol := L.st data }
    else
      (true, { it with data := data, symbol := L.st data, phase := .positioned })
  else
    let start := if it.phase = .fresh then 0 else it.symbol + 1
    let symbol := scanRow L it.data start
    if symbol ≥ L.symbolCount then (false, { it with phase := .done })
    else finish L { it with symbol := symbol, tableValue := L.pt (it.data + symbol) }

/-- Call `next` until it returns false (at most `fuel` times); the (symbol, table value) pairs seen. -/
def collect (L : Lang) : (fuel : Nat) → Iter → List (Nat × Nat)
  | 0, _ => []
  | f + 1, it =>
    match next L it with
    | (true, it') => (it'.symbol, it'.tableValue) :: collect L f it'
    | (false, _) => []

/-- enough calls for any well-formed state -/
def fuelFor (L : Lang) : Nat := L.smallTable.size + L.symbolCount + 1

/-- what a client sees when iterating a `TSLookaheadIterator` for `state` -/
def lookaheadList (L : Lang) (state : Nat) : List (Nat × Nat) :=
  collect L (fuelFor L) (lookaheads L state)

def lookaheadSyms (L : Lang) (state : Nat) : List Nat := (lookaheadList L state).map (·.1)

/-! ## decoded view of a small state and the well-formedness predicate -/

/-- the `count` symbols stored from `pos` on -/
def symsAt (L : Lang) : (count pos : Nat) → List Nat
  | 0, _ => []
  | n + 1, pos => L.st pos :: symsAt L n (pos + 1)

/-- the groups `(section_value, symbols)` of a small state, `pos` = first group header -/
def decode (L : Lang) : (groups pos : Nat) → List (Nat × List Nat)
  | 0, _ => []
  | g + 1, pos => (L.st pos, symsAt L (L.st (pos + 1)) (pos + 2)) :: decode L g (pos + 2 + L.st (pos + 1))

/-- all `(symbol, value)` pairs of the decoded groups in storage order -/
def flatten : List (Nat × List Nat) → List (Nat × Nat)
  | [] => []
  | (v, syms) :: rest => syms.map (fun s => (s, v)) ++ flatten rest

/-- end position of the last group -/
def endPos (L : Lang) : (groups pos : Nat) → Nat
  | 0, pos => pos
  | g + 1, pos => endPos L g (pos + 2 + L.st (pos + 1))

/-- every group has ≥ 1 symbol, a non-zero value, and symbols below `symbol_count` -/
def groupsWF (L : Lang) : (groups pos : Nat) → Bool
  | 0, _ => true
  | g + 1, pos =>
    decide (1 ≤ L.st (pos + 1)) && decide (L.st pos ≠ 0) &&
    (symsAt L (L.st (pos + 1)) (pos + 2)).all (fun s => decide (s < L.symbolCount)) &&
    groupsWF L g (pos + 2 + L.st (pos + 1))

def smallStateWF (L : Lang) (state : Nat) : Bool :=
  let index := L.sm (state - L.largeStateCount)
  let g := L.st index
  decide (index < L.smallTable.size) && groupsWF L g (index + 1) &&
  decide (endPos L g (index + 1) ≤ L.smallTable.size) &&
  decide (((flatten (decode L g (index + 1))).map (·.1)).Nodup)

/-- Well-formed table layout (decidable; evaluated on every dumped language). -/
def tableWF (L : Lang) : Bool :=
  decide (L.largeStateCount ≤ L.stateCount) &&
  decide (L.parseTable.size = L.largeStateCount * L.symbolCount) &&
  decide (L.smallMap.size = L.stateCount - L.largeStateCount) &&
  (List.range (L.stateCount - L.largeStateCount)).all (fun i => smallStateWF L (L.largeStateCount + i))

/-- the symbols with a non-zero table value, by exhaustive `lookup` (what the iterator must list) -/
def nonzeroSyms (L : Lang) (state : Nat) : List Nat :=
  (List.range L.symbolCount).filter (fun sym => lookup L state sym != 0)

end TsVerif.C16
