/-!
# C16 — symbol / field name tables: ports of `ts_language_symbol_for_name`,
# `ts_language_field_id_for_name` (lib/src/language.c) over a dump of the real tables
-/
namespace TsVerif.C16

/-- one row of `symbol_names` / `symbol_metadata` / `public_symbol_map` -/
structure SymInfo where
  name : List Nat      -- bytes of the C string
  visible : Bool
  named : Bool
  supertype : Bool
  pub : Nat
  deriving Repr, Inhabited, DecidableEq

/-- ids `0 … symbol_count + alias_count - 1`, and the field names for ids `1 … field_count` -/
structure SymTab where
  /-- how the C source compares with "ERROR": `false` = `strncmp(string, "ERROR", length)` (the
  unchanged tree), `true` = exact comparison (`length == 5 && …`, fixes/C16-error-prefix.diff);
  read off lib/src/language.c by the check on every run -/
  exactError : Bool := false
  syms : List SymInfo
  fieldNames : List (List Nat)
  deriving Repr, Inhabited

def errorSym : Nat := 65535

/-- `!strncmp(string, "ERROR", length)` for a NUL-free `string` of `length` bytes -/
def isErrorPrefix (name : List Nat) : Bool := name.isPrefixOf [69, 82, 82, 79, 82]

/-- a symbol that has a node kind: `metadata.visible || metadata.supertype` -/
def SymInfo.hasKind (s : SymInfo) : Bool := s.visible || s.supertype

/-- port of `ts_language_symbol_for_name` -/
def symbolForName (T : SymTab) (name : List Nat) (isNamed : Bool) : Nat :=
  if isNamed && (if T.exactError then name == [69, 82, 82, 79, 82] else isErrorPrefix name) then errorSym
  else match T.syms.find? (fun s => s.hasKind && s.named == isNamed && s.name == name) with
    | some s => s.pub
    | none => 0

/-- port of `ts_language_field_id_for_name` (first exact match; the early exit on a `-1` result of
`strncmp` is an optimisation for sorted names and is covered by correspondence, not modelled) -/
def fieldIdForName (T : SymTab) (name : List Nat) : Nat :=
  let i := T.fieldNames.idxOf name
  if i < T.fieldNames.length then i + 1 else 0

/-- port of `ts_language_field_name_for_id` -/
def fieldNameForId (T : SymTab) (id : Nat) : Option (List Nat) :=
  if id = 0 then none else T.fieldNames[id - 1]?

/-- decidable: every symbol with a kind is found again under its own (name, named) -/
def namesRoundTrip (T : SymTab) : Bool :=
  T.syms.all (fun s => !s.hasKind || symbolForName T s.name s.named == s.pub)

/-- decidable: the public symbol of every symbol carries the same name / namedness, has a kind,
and is its own public symbol -/
def pubConsistent (T : SymTab) : Bool :=
  T.syms.all (fun s => !s.hasKind ||
    (match T.syms[s.pub]? with
     | some p => p.name == s.name && p.named == s.named && p.pub == s.pub && p.hasKind
     | none => false))

/-! ## `ts_language_symbol_type` and the listing of node kinds -/

inductive SymType where
  | regular | anonymous | supertype | auxiliary
  deriving DecidableEq, Repr

/-- port of `ts_language_symbol_type` (on the table's metadata) -/
def symbolType (s : SymInfo) : SymType :=
  if s.named && s.visible then .regular
  else if s.visible then .anonymous
  else if s.supertype then .supertype
  else .auxiliary

/-- the three questions the bindings ask (`node_kind_is_visible / is_named / is_supertype`) -/
def kindFlags (s : SymInfo) : Bool × Bool × Bool :=
  (symbolType s == .regular || symbolType s == .anonymous, symbolType s == .regular, symbolType s == .supertype)

/-- decidable, on a symbol table and the (kind, named, is-supertype-entry) triples of a node-types
file: every symbol a tree node can carry (visible, not the name of an inlined rule) has an entry, and
every supertype symbol a supertype entry.  (The converse is not required: the file may list a kind
that cannot occur, e.g. an inner alias of an inlined rule that is always overridden by an outer one.) -/
def kindsListed (T : SymTab) (inlined : List (List Nat)) (entries : List (List Nat × Bool × Bool)) : Bool :=
  T.syms.all (fun s =>
    (!(s.visible && !inlined.contains s.name) || entries.any (fun e => e.1 == s.name && e.2.1 == s.named && !e.2.2)) &&
    (!(s.supertype && !s.visible) || entries.any (fun e => e.1 == s.name && e.2.2)))

/-- entries whose kind no symbol carries (informational) -/
def spuriousEntries (T : SymTab) (entries : List (List Nat × Bool × Bool)) : List (List Nat × Bool × Bool) :=
  entries.filter (fun e => !T.syms.any (fun s => s.name == e.1 && (if e.2.2 then s.supertype && !s.visible else s.visible && s.named == e.2.1)))

end TsVerif.C16
