/-!
# C16 — symbol / field name tables: ports of `ts_language_symbol_for_name`,
# `ts_language_field_id_for_name` (lib/src/language.c) over a dump of the real tables
-/
namespace TsVerif.C16

/-- one row of `symbol_names` / `symbol_metadata` / `public_symbol_map` -/
structure SymInfo where
  name : List Nat      -- bytes of the C string
  visible : Bool
  named : Bool
  supertype : Bool
  pub : Nat
  deriving Repr, Inhabited, DecidableEq

/-- ids `0 … symbol_count + alias_count - 1`, and the field names for ids `1 … field_count` -/
structure SymTab where
  /-- how the C source compares with "ERROR": `false` = `strncmp(string, "ERROR", length)` (the
  unchanged tree), `true` = exact comparison (`length == 5 && …`, fixes/C16-error-prefix.diff);
  read off lib/src/language.c by the check on every run -/
  exactError : Bool := false
  syms : List SymInfo
  fieldNames : List (List Nat)
  deriving Repr, Inhabited

def errorSym : Nat := 65535

/-- `!strncmp(string, "ERROR", length)` for a NUL-free `string` of `length` bytes -/
def isErrorPrefix (name : List Nat) : Bool := name.isPrefixOf [69, 82, 82, 79, 82]

/-- a symbol that has a node kind: `metadata.visible || metadata.supertype` -/
def SymInfo.hasKind (s : SymInfo) : Bool := s.visible || s.supertype

/-- port of `ts_language_symbol_for_name` -/
def symbolForName (T : SymTab) (name : List Nat) (isNamed : Bool) : Nat :=
  if isNamed && (if T.exactError then name == [69, 82, 82, 79, 82] else isErrorPrefix name) then errorSym
  else match T.syms.find? (fun s => s.hasKind && s.named == isNamed && s.name == name) with
    | some s => s.pub
    | none => 0

/-- port of `ts_language_field_id_for_name` (first exact match; the early exit on a `-1` result of
`strncmp` is an optimisation for sorted names and is covered by correspondence, not modelled) -/
def fieldIdForName (T : SymTab) (name : List Nat) : Nat :=
  let i := T.fieldNames.idxOf name
  if i < T.fieldNames.length then i + 1 else 0

/-- port of `ts_language_field_name_for_id` -/
def fieldNameForId (T : SymTab) (id : Nat) : Option (List Nat) :=
  if id = 0 then none else T.fieldNames[id - 1]?

/-- decidable: every symbol with a kind is found again under its own (name, named) -/
def namesRoundTrip (T : SymTab) : Bool :=
  T.syms.all (fun s => !s.hasKind || symbolForName T s.name s.named == s.pub)

/-- decidable: the public symbol of every symbol carries the same name / namedness, has a kind,
and is its own public symbol -/
def pubConsistent (T : SymTab) : Bool :=
  T.syms.all (fun s => !s.hasKind ||
    (match T.syms[s.pub]? with
     | some p => p.name == s.name && p.named == s.named && p.pub == s.pub && p.hasKind
     | none => false))

end TsVerif.C16
