/-!
# C16 — spec-level model of `node-types.json` conformance

`Conforms nt vt` is the declarative reading of the documentation
(docs/src/using-parsers/6-static-node-types.md) for a tree of visible nodes `vt`;
`checkConforms` is the executable judge run on every real error-free tree.
-/
namespace TsVerif.C16

structure TypeRef where
  kind : String
  named : Bool
  deriving DecidableEq, Repr, Inhabited, Hashable

/-- a *child type* object: `{"required":…, "multiple":…, "types":[…]}` -/
structure ChildSpec where
  required : Bool
  multiple : Bool
  types : List TypeRef
  deriving Repr, Inhabited

/-- one top-level object of node-types.json -/
structure Entry where
  ty : TypeRef
  fields : List (String × ChildSpec)      -- `"fields"` (empty when the key is absent)
  children : Option ChildSpec             -- `"children"`
  subtypes : Option (List TypeRef)        -- `"subtypes"` (present exactly for supertype entries)
  extra : Bool := false                   -- `"extra": true`
  root : Bool := false                    -- `"root": true`
  deriving Repr, Inhabited

abbrev NodeTypes := List Entry

/-- A tree of *visible* nodes as a client of the API sees it: type, `is_extra`, the field names the
node carries in its parent, children in order. -/
inductive VT where
  | node (ty : TypeRef) (extra : Bool) (fields : List String) (kids : List VT)
  deriving Repr, Inhabited

namespace VT
def ty : VT → TypeRef | .node t _ _ _ => t
def extra : VT → Bool | .node _ e _ _ => e
def fields : VT → List String | .node _ _ f _ => f
def kids : VT → List VT | .node _ _ _ k => k
end VT

/-! ## "an allowed type (through supertypes)" -/

/-- `Reach nt roots t`: `t` is one of `roots`, or a subtype (transitively) of a supertype in `roots`. -/
inductive Reach (nt : NodeTypes) (roots : List TypeRef) : TypeRef → Prop
  | base {t : TypeRef} : t ∈ roots → Reach nt roots t
  | sub {s t : TypeRef} {e : Entry} {subs : List TypeRef} :
      Reach nt roots s → e ∈ nt → e.ty = s → e.subtypes = some subs → t ∈ subs → Reach nt roots t

/-- direct subtypes of `s` according to the file -/
def subsOf (nt : NodeTypes) (s : TypeRef) : List TypeRef :=
  nt.flatMap (fun e => if e.ty = s then e.subtypes.getD [] else [])

def closed (nt : NodeTypes) (S : List TypeRef) : Bool :=
  (S.flatMap (subsOf nt)).all (fun t => decide (t ∈ S))

def stepSet (nt : NodeTypes) (S : List TypeRef) : List TypeRef :=
  S ++ (S.flatMap (subsOf nt)).filter (fun t => !decide (t ∈ S))

/-- saturate `S` under `subsOf`; `none` if not closed after `fuel` rounds -/
def closure (nt : NodeTypes) : Nat → List TypeRef → Option (List TypeRef)
  | 0, S => if closed nt S then some S else none
  | f + 1, S => if closed nt S then some S else closure nt f (stepSet nt S)

/-- every type mentioned in some `subtypes` list -/
def typeUniverse (nt : NodeTypes) : List TypeRef := nt.flatMap (fun e => e.subtypes.getD [])

/-- enough rounds: every round that does not reach a closed set adds a new member of `typeUniverse` -/
def closureFuel (nt : NodeTypes) : Nat := (typeUniverse nt).length

/-- executable "allowed through supertypes" -/
def allowed (nt : NodeTypes) (spec : ChildSpec) (t : TypeRef) : Bool :=
  match closure nt (closureFuel nt) spec.types with
  | some S => decide (t ∈ S)
  | none => false

/-! ## quantities -/

def countField (kids : List VT) (f : String) : Nat :=
  (kids.filter (fun k => !k.extra && decide (f ∈ k.fields))).length

/-- named children without fields (what `"children"` describes) -/
def countPlain (kids : List VT) : Nat :=
  (kids.filter (fun k => !k.extra && k.fields.isEmpty && k.ty.named)).length

def QuantOK (spec : ChildSpec) (n : Nat) : Prop :=
  (spec.required = true → 1 ≤ n) ∧ (spec.multiple = false → n ≤ 1)

def quantOK (spec : ChildSpec) (n : Nat) : Bool :=
  (!spec.required || decide (1 ≤ n)) && (spec.multiple || decide (n ≤ 1))

/-! ## declarative conformance -/

/-- a non-extra child is allowed by entry `e`: under every field it carries, or (named, no field)
in the `children` set; anonymous children without fields are not described by the file. -/
def ChildOK (nt : NodeTypes) (e : Entry) (k : VT) : Prop :=
  (∀ f ∈ k.fields, ∃ fs ∈ e.fields, fs.1 = f ∧ Reach nt fs.2.types k.ty) ∧
  (k.fields = [] → k.ty.named = true → ∃ spec, e.children = some spec ∧ Reach nt spec.types k.ty)

def EntryOK (nt : NodeTypes) (e : Entry) (kids : List VT) : Prop :=
  e.subtypes = none ∧
  (∀ k ∈ kids, k.extra = false → ChildOK nt e k) ∧
  (∀ fs ∈ e.fields, QuantOK fs.2 (countField kids fs.1)) ∧
  (∀ spec, e.children = some spec → QuantOK spec (countPlain kids))

/-- the node's type is listed and its children satisfy that entry -/
def NodeOK (nt : NodeTypes) (ty : TypeRef) (kids : List VT) : Prop :=
  ∃ e ∈ nt, e.ty = ty ∧ EntryOK nt e kids

mutual
  def Conforms (nt : NodeTypes) : VT → Prop
    | .node ty _ _ kids => NodeOK nt ty kids ∧ ConformsAll nt kids
  def ConformsAll (nt : NodeTypes) : List VT → Prop
    | [] => True
    | k :: ks => Conforms nt k ∧ ConformsAll nt ks
end

/-! ## executable checker -/

def childOK (nt : NodeTypes) (e : Entry) (k : VT) : Bool :=
  k.fields.all (fun f => e.fields.any (fun fs => decide (fs.1 = f) && allowed nt fs.2 k.ty)) &&
  (!(k.fields.isEmpty && k.ty.named) ||
    (match e.children with
     | some spec => allowed nt spec k.ty
     | none => false))

def entryOK (nt : NodeTypes) (e : Entry) (kids : List VT) : Bool :=
  e.subtypes.isNone &&
  kids.all (fun k => k.extra || childOK nt e k) &&
  e.fields.all (fun fs => quantOK fs.2 (countField kids fs.1)) &&
  (match e.children with
   | some spec => quantOK spec (countPlain kids)
   | none => true)

def nodeOK (nt : NodeTypes) (ty : TypeRef) (kids : List VT) : Bool :=
  nt.any (fun e => decide (e.ty = ty) && entryOK nt e kids)

mutual
  def checkConforms (nt : NodeTypes) : VT → Bool
    | .node ty _ _ kids => nodeOK nt ty kids && checkAll nt kids
  def checkAll (nt : NodeTypes) : List VT → Bool
    | [] => true
    | k :: ks => checkConforms nt k && checkAll nt ks
end

/-- every child-type object of the file saturates within the fuel (decidable; evaluated on every
real file, and the hypothesis of `conforms_iff`) -/
def ntWF (nt : NodeTypes) : Bool :=
  nt.all (fun e =>
    e.fields.all (fun fs => (closure nt (closureFuel nt) fs.2.types).isSome) &&
    (match e.children with
     | some spec => (closure nt (closureFuel nt) spec.types).isSome
     | none => true))

/-! ## markers -/

/-- JUDGE: the root node's type is marked `"root": true` -/
def rootMarked (nt : NodeTypes) (vt : VT) : Bool :=
  nt.any (fun e => decide (e.ty = vt.ty) && e.root)

mutual
  /-- JUDGE: every node the tree reports as extra has a type marked `"extra": true`;
  returns the first offending type -/
  def extraUnmarked (nt : NodeTypes) : VT → Option TypeRef
    | .node ty ex _ kids =>
      if ex && !(nt.any (fun e => decide (e.ty = ty) && e.extra)) then some ty else extraUnmarkedL nt kids
  def extraUnmarkedL (nt : NodeTypes) : List VT → Option TypeRef
    | [] => none
    | k :: ks => match extraUnmarked nt k with
      | some t => some t
      | none => extraUnmarkedL nt ks
end

/-- JUDGE: the `subtypes` of a supertype entry are exactly the (kind, named) pairs the runtime's
supertype map lists for that symbol -/
def subtypesAgree (nt : NodeTypes) (sup : TypeRef) (runtime : List TypeRef) : Bool :=
  match nt.find? (fun e => decide (e.ty = sup)) with
  | some e => match e.subtypes with
    | some subs => subs.all (fun t => decide (t ∈ runtime)) && runtime.all (fun t => decide (t ∈ subs))
    | none => false
  | none => false

/-! ## diagnostics for the driver (not used by theorems) -/

mutual
  /-- path (child indices, root first) and type of the first non-conforming node -/
  def firstBad (nt : NodeTypes) (path : List Nat) : VT → Option (List Nat × TypeRef)
    | .node ty _ _ kids =>
      if nodeOK nt ty kids then firstBadL nt path 0 kids else some (path.reverse, ty)
  def firstBadL (nt : NodeTypes) (path : List Nat) (i : Nat) : List VT → Option (List Nat × TypeRef)
    | [] => none
    | k :: ks => match firstBad nt (i :: path) k with
      | some r => some r
      | none => firstBadL nt path (i + 1) ks
end

mutual
  def VT.size : VT → Nat
    | .node _ _ _ kids => 1 + VT.sizeL kids
  def VT.sizeL : List VT → Nat
    | [] => 0
    | k :: ks => VT.size k + VT.sizeL ks
end

end TsVerif.C16
