import TsVerif.C16.Table
import TsVerif.C16.NodeTypes
import TsVerif.C16.Names
/-!
# C16 — judges evaluated on the implementation's outputs (pure functions used by the driver)
-/
namespace TsVerif.C16

/-- one `next()` result as a client sees it: symbol, table value, next_state, action_count -/
abbrev Yield := Nat × Nat × Nat × Nat

/-- iterate the port of `ts_lookahead_iterator__next`, recording every exposed field -/
def collectFull (L : Lang) : (fuel : Nat) → Iter → List Yield
  | 0, _ => []
  | f + 1, it =>
    match next L it with
    | (true, it') => (it'.symbol, it'.tableValue, it'.nextState, it'.actionCount) :: collectFull L f it'
    | (false, _) => []

def modelYields (L : Lang) (state : Nat) : List Yield := collectFull L (fuelFor L) (lookaheads L state)

/-- model: `(sym, lookup state sym)` for every symbol with a non-zero entry -/
def modelNonzero (L : Lang) (state : Nat) : List (Nat × Nat) :=
  (List.range L.symbolCount).filterMap (fun sym =>
    let v := lookup L state sym
    if v != 0 then some (sym, v) else none)

/-- insertion sort on the symbol (small lists) -/
def insertBy (x : Nat × Nat) : List (Nat × Nat) → List (Nat × Nat)
  | [] => [x]
  | y :: ys => if x.1 ≤ y.1 then x :: y :: ys else y :: insertBy x ys
def sortBySym (xs : List (Nat × Nat)) : List (Nat × Nat) := xs.foldr insertBy []

/-- JUDGE (look-ahead clause, on the real iterator's output `la` and the real table scan `nz`):
the iterator lists exactly the symbols the parser has an entry for, each once, with that entry. -/
def judgeLookahead (la : List Yield) (nz : List (Nat × Nat)) : Bool :=
  sortBySym (la.map (fun y => (y.1, y.2.1))) == nz

/-- JUDGE: every accepted `(state, symbol)` is listed by the real iterator for that state -/
def listed (las : Array (List Yield)) (state sym : Nat) : Bool :=
  (las.getD state []).any (fun y => y.1 == sym)

/-- JUDGE (by name, from the parse log): some symbol of that name is listed in that state -/
def listedName (las : Array (List Yield)) (names : Array (List Nat)) (state : Nat) (name : List Nat) : Bool :=
  (las.getD state []).any (fun y => names.getD y.1 [] == name)

end TsVerif.C16
