import TsVerif.C16.DeriveExec
/-!
# C16 — `closedB` decides `Closed`
-/
namespace TsVerif.C16.Derive
open TsVerif.C16

theorem var_fields_mem {I : InfoF} {h : Nat} {e : String × List TypeRef × Nat × Nat}
    (he : e ∈ (I.var h).fields) : (I.var h) ∈ I := by
  unfold InfoF.var at he ⊢
  by_cases hh : h < I.length
  · simp [List.getD, hh]
  · have : I.length ≤ h := by omega
    simp [List.getD, List.getElem?_eq_none this] at he

theorem field_mem_universe (G : Grammar) (I : InfoF) {h : Nat} {f : String} {e : String × List TypeRef × Nat × Nat}
    (he : (I.var h).field f = some e) : f ∈ fieldUniverse G I := by
  unfold VarInfo.field at he
  have hm := List.mem_of_find?_eq_some he
  have hk := List.find?_some he
  simp only [beq_iff_eq] at hk
  unfold fieldUniverse
  apply List.mem_append_right
  simp only [List.mem_flatMap, List.mem_map]
  exact ⟨I.var h, var_fields_mem hm, e, hm, hk⟩

theorem step_field_mem_universe (G : Grammar) (I : InfoF) {v : Nat} {p : List Step} {s : Step} {f : String}
    (hp : p ∈ G.prodsOf v) (hs : s ∈ p) (hf : s.field = some f) : f ∈ fieldUniverse G I := by
  unfold fieldUniverse
  apply List.mem_append_left
  simp only [List.mem_flatMap, List.mem_filterMap]
  have hv : G.prodsOf v ∈ G.prods := by
    unfold Grammar.prodsOf at hp ⊢
    by_cases hh : v < G.prods.length
    · simp [List.getD, hh]
    · have : G.prods.length ≤ v := by omega
      simp [List.getD, List.getElem?_eq_none this] at hp
  exact ⟨G.prodsOf v, hv, p, hp, s, hs, hf⟩

theorem toInfo_field_none {I : InfoF} {v : Nat} {f : String} (h : (I.var v).field f = none) :
    I.toInfo.fieldTypes v f = [] ∧ I.toInfo.fieldMax v f = 0 ∧ I.toInfo.fieldMin v f = 0 := by
  simp [InfoF.toInfo, h]

theorem not_in_universe_field_none (G : Grammar) (I : InfoF) {h : Nat} {f : String}
    (hf : f ∉ fieldUniverse G I) : (I.var h).field f = none := by
  cases he : (I.var h).field f with
  | none => rfl
  | some e => exact absurd (field_mem_universe G I he) hf

theorem stepFieldMax_outside (G : Grammar) (I : InfoF) {v : Nat} {p : List Step} (hp : p ∈ G.prodsOf v)
    {f : String} (hf : f ∉ fieldUniverse G I) : ∀ s ∈ p, stepFieldMax G I.toInfo f s = 0 := by
  intro s hs
  have hne : s.field ≠ some f := fun h => hf (step_field_mem_universe G I hp hs h)
  unfold stepFieldMax
  split
  · simp [hne]
  · split
    · rfl
    · simp only [hne, if_false]
      exact (toInfo_field_none (not_in_universe_field_none G I hf)).2.1

theorem sumBy_zero (g : Step → Nat) : ∀ p : List Step, (∀ s ∈ p, g s = 0) → sumBy g p = 0 := by
  intro p
  induction p with
  | nil => intro _; rfl
  | cons s rest ih =>
    intro h
    simp only [sumBy, h s List.mem_cons_self, ih (fun t ht => h t (List.mem_cons_of_mem _ ht))]

theorem stepClosedB_sound (G : Grammar) (I : InfoF) (v : Nat) (s : Step) (h : stepClosedB G I v s = true) :
    StepClosed G I.toInfo v s := by
  unfold stepClosedB at h
  unfold StepClosed
  cases hv : visTy G s with
  | some ty =>
    simp only [hv, Bool.and_eq_true, decide_eq_true_eq] at h ⊢
    refine ⟨h.1, ?_, ?_⟩
    · intro f hf
      have := h.2
      simp only [hf, decide_eq_true_eq] at this
      exact this
    · intro hn hnamed
      have := h.2
      simp only [hn, hnamed, Bool.not_true, Bool.false_or, decide_eq_true_eq] at this
      exact this
  | none =>
    simp only [hv] at h ⊢
    cases hk : G.kind s.sym with
    | token t => simp [hk]
    | rule hh t =>
      simp only [hk, Bool.and_eq_true, List.all_eq_true, decide_eq_true_eq] at h ⊢
      obtain ⟨⟨h1, h2⟩, h3⟩ := h
      refine ⟨h1, ?_, ?_, ?_⟩
      · intro g tt htt
        cases he : (I.var hh).field g with
        | none => rw [(toInfo_field_none he).1] at htt; cases htt
        | some e =>
          have hm := List.mem_of_find?_eq_some he
          have hkey := List.find?_some he
          simp only [beq_iff_eq] at hkey
          have htt' : tt ∈ e.2.1 := by simpa [InfoF.toInfo, he] using htt
          have := h2 e hm tt htt'
          rwa [hkey] at this
      · intro f hf
        simp only [hf, List.all_eq_true, decide_eq_true_eq] at h3
        exact h3
      · intro hn
        simp only [hn, List.all_eq_true, decide_eq_true_eq] at h3
        exact h3

theorem prodClosedB_sound (G : Grammar) (I : InfoF) (v : Nat) (p : List Step) (hp : p ∈ G.prodsOf v)
    (h : prodClosedB G I (fieldUniverse G I) v p = true) :
    (∀ s ∈ p, StepClosed G I.toInfo v s) ∧
    (I.toInfo.childMax v < 2 → sumBy (stepChildMax G I.toInfo) p ≤ I.toInfo.childMax v) ∧
    (∀ f, I.toInfo.fieldMax v f < 2 → sumBy (stepFieldMax G I.toInfo f) p ≤ I.toInfo.fieldMax v f) ∧
    (I.toInfo.childMin v ≤ sumBy (stepChildMin G I.toInfo) p) ∧
    (∀ f, I.toInfo.fieldMin v f ≤ sumBy (stepFieldMin G I.toInfo f) p) ∧
    (I.toInfo.plainMax v < 2 → sumBy (stepPlainMax G I.toInfo) p ≤ I.toInfo.plainMax v) ∧
    (I.toInfo.plainMin v ≤ sumBy (stepPlainMin G I.toInfo) p) := by
  unfold prodClosedB at h
  simp only [Bool.and_eq_true, List.all_eq_true, Bool.or_eq_true, decide_eq_true_eq] at h
  obtain ⟨⟨⟨⟨⟨⟨h1, h2⟩, h3⟩, h4⟩, h5⟩, h6⟩, h7⟩ := h
  refine ⟨fun s hs => stepClosedB_sound G I v s (h1 s hs), ?_, ?_, h4, ?_, ?_, h7⟩
  · intro hlt; rcases h2 with h2 | h2; omega; exact h2
  · intro f hlt
    by_cases hf : f ∈ fieldUniverse G I
    · rcases h3 f hf with h3 | h3; omega; exact h3
    · rw [sumBy_zero _ p (stepFieldMax_outside G I hp hf)]; exact Nat.zero_le _
  · intro f
    by_cases hf : f ∈ fieldUniverse G I
    · exact h5 f hf
    · rw [(toInfo_field_none (not_in_universe_field_none G I hf)).2.2]; exact Nat.zero_le _
  · intro hlt; rcases h6 with h6 | h6; omega; exact h6

/-- `closedB_sound` -/
theorem closedB_sound (G : Grammar) (I : InfoF) (h : closedB G I = true) : Closed G I.toInfo := by
  intro v p hp
  have hv : v < G.prods.length := by
    by_cases hh : v < G.prods.length
    · exact hh
    · have : G.prods.length ≤ v := by omega
      simp [Grammar.prodsOf, List.getD, List.getElem?_eq_none this] at hp
  unfold closedB at h
  simp only [List.all_eq_true, List.mem_range] at h
  exact prodClosedB_sound G I v p hp (h v hv p hp)

end TsVerif.C16.Derive
